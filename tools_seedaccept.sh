#!/bin/bash
# Development helper: confirm a seed (tools_seedverify.sh), run its property's check against it
# (tools_seedrun.sh) and record the outcome in meta.json.
# usage: tools_seedaccept.sh <seed dir> <name> <Cid>
SD=$1; NAME=$2; PID=$3
cd /verif
./tools_seedverify.sh "$SD" "$NAME" > work/seedaccept-$NAME.log 2>&1 || { tail -5 work/seedaccept-$NAME.log; exit 1; }
./tools_seedrun.sh seeded/$NAME/patch.diff $PID > work/seedrun-$NAME.log 2>&1
python3 - "$NAME" "$PID" <<'PY'
import json,sys,re
name,pid=sys.argv[1],sys.argv[2]
log=open('/verif/work/seedrun-%s.log'%name).read()
rc=re.search(r'^rc=(\d+)',log,re.M)
viol=[l for l in log.splitlines() if l.startswith('VIOLATION')]
rep=[l for l in log.splitlines() if l.startswith('REPLAY')]
p='/verif/seeded/%s/meta.json'%name
m=json.load(open(p))
m['check_result']={'check':pid,'exit':int(rc.group(1)) if rc else None,'violations':len(viol),
  'no_failing_input_found':any('no-failing-input-found' in v for v in viol),'first_replay':(rep[0][:300] if rep else None)}
json.dump(m,open(p,'w'),indent=1)
print(name, m['check_result'])
PY
