#!/usr/bin/env python3
"""Debug helper: show the first difference of each K disagreement in a cvh report."""
import json, sys, re
d = json.load(open(sys.argv[1]))
skip = sys.argv[2] if len(sys.argv) > 2 else None
n = 0
for c in d['k_disagree']:
    m = re.match(r'real="(.*)" model="(.*)"$', c['detail'], re.S)
    if not m:
        print('K', c['kind'], c['detail'][:300]); continue
    a, b = m.group(1), m.group(2)
    i = 0
    while i < min(len(a), len(b)) and a[i] == b[i]: i += 1
    ctx = a[max(0, i-60):i]
    if skip and re.search(skip, a[max(0,i-80):i+40]): continue
    n += 1
    print('K', c['kind'], c['input'][:60])
    print('   ...', ctx, '\n   REAL :', a[i:i+90], '\n   MODEL:', b[i:i+90])
print(n, 'shown of', len(d['k_disagree']), 'kept /', d['k_disagreements'], 'total')
