#!/usr/bin/env python3
"""Regenerates MANIFEST.json from checks_cfg.py (claimed properties) and properties.jsonl."""
import json, os, subprocess
ROOT = os.path.dirname(os.path.abspath(__file__))
import sys
sys.path.insert(0, ROOT)
from checks_cfg import PROPS, MANIFEST_TEXT, NOT_CLAIMED_REASON

ids = [json.loads(l)["id"] for l in open(os.path.join(ROOT, "properties.jsonl"))]
try:
    commits = subprocess.run(["git", "-C", "/repo", "log", "--format=%H %s", "57ce5cf..HEAD"], capture_output=True, text=True).stdout.strip().splitlines()
except Exception:
    commits = []
hook_commits = [c.split()[0] for c in commits if "comrak_verif" in c or c.split(" ", 1)[1].startswith("verif")]
checks = []
for pid in ids:
    if pid not in PROPS:
        continue
    t = MANIFEST_TEXT[pid]
    checks.append({
        "property_id": pid,
        "quick_cmd": "./check %s --tier quick" % pid,
        "thorough_cmd": "./check %s --tier thorough" % pid,
        "evidence_file": "/verif/evidence/%s.json" % pid,
        "replay_cmd_template": "./check replay {path}",
        "engine": "lean-model+cvh",
        "level_claimed": {"category": "proof", "text": t["text"] + ((" " + t["text_added"]) if t.get("text_added") else ""), "design_ref": t.get("design_ref", "DESIGN.md section 7")},
        "level_note": t["note"],
        "technique": t["technique"],
    })
m = {
    "version": 1,
    "setup_cmd": "./setup.sh",
    "hooks": {
        "guard": "comrak_verif",
        "enable": "RUSTFLAGS=\"--cfg comrak_verif\" (set for the harness by /verif/harness/.cargo/config.toml; the harness depends on /repo by path, so every run rebuilds comrak from the working tree)",
        "baseline_off_cmd": "cd /repo && cargo test --workspace --no-fail-fast --offline",
        "source_commits": hook_commits,
        "add_only": True,
    },
    "engines": [
        {"name": "lean-model", "path": "/verif/lean", "serves_properties": sorted(PROPS), "kind_free_text": "Lean 4 models, property theorems (Comrak/Props), axiom audits (Comrak/Audit), line-protocol driver (Main.lean)"},
        {"name": "cvh", "path": "/verif/harness", "serves_properties": sorted(PROPS), "kind_free_text": "Rust correspondence/search harness linked against /repo's working tree with --cfg comrak_verif"},
        {"name": "check", "path": "/verif/check", "serves_properties": sorted(PROPS), "kind_free_text": "runner: proof stage, correspondence stage, search stage, verdict, evidence"},
    ],
    "checks": checks,
    "notes": "All checks decide by machine-checked proof in Lean 4 about a hand-written model, tied to /repo by a correspondence check that runs on every invocation; see DESIGN.md. Known findings: /verif/known_findings.json.",
    "not_applicable": [{"property_id": pid, "reason": NOT_CLAIMED_REASON.get(pid, "check not built yet in this session; planned in DESIGN.md section 7")} for pid in ids if pid not in PROPS],
}
json.dump(m, open(os.path.join(ROOT, "MANIFEST.json"), "w"), indent=1)
print("MANIFEST.json:", len(checks), "claimed,", len(m["not_applicable"]), "not claimed")
