/-
Hand model of the re2c rule `scanners::dangerous_url` (src/scanners.re):
  'data:image/' ('png'|'gif'|'jpeg'|'webp')               -> not dangerous
  'javascript:' | 'vbscript:' | 'file:' | 'data:'         -> dangerous
(single-quoted re2c strings are ASCII case-insensitive; longest match wins.)
-/
import Comrak.Names
namespace Comrak
open Bytes

/-- Case-insensitive prefix test against a lower-case ASCII pattern. -/
def isPrefixCI : Bytes → Bytes → Bool
  | [], _ => true
  | _ :: _, [] => false
  | a :: p, b :: s => a == toLowerAscii b && isPrefixCI p s

def dangerousUrl (u : Bytes) : Bool :=
  isPrefixCI S.v_javascript_colon u || isPrefixCI S.v_vbscript_colon u || isPrefixCI S.v_file_colon u ||
  (isPrefixCI S.v_data_colon u &&
    !(isPrefixCI (S.v_data_image ++ S.v_png) u || isPrefixCI (S.v_data_image ++ S.v_gif) u ||
      isPrefixCI (S.v_data_image ++ S.v_jpeg) u || isPrefixCI (S.v_data_image ++ S.v_webp) u))

end Comrak
