/-
The language the XML formatter is supposed to write: a strict reader `readXml` from bytes to
an element tree, and `xmlTree`, the element tree a comrak AST stands for.  `readXml` is the
C09 oracle; the driver runs it on the real implementation's output.

Strictness (what "well-formed" is taken to mean, from the property statement):
* the two prolog lines exactly as comrak writes them, then exactly one root element;
* names `[A-Za-z_][A-Za-z0-9_:.-]*`; attributes ` name="value"`, names unique per element;
* attribute values: no raw `<`, `>`, `"`; `&` only as `&quot; &amp; &lt; &gt;`;
* text: no raw `<`, `>`; `&` only as one of the four entities;
* proper nesting; only white space outside the root.
Values and text are returned decoded.  White-space-only text is dropped except inside an
element carrying `xml:space="preserve"` (the way the format marks its literal elements).

Written as a byte-at-a-time state machine (`xlexStep`/`xlexLoop`) followed by a stack machine
over the lexed events (`xbuildStep`/`xbuildLoop`): structural recursion only.
-/
import Comrak.Xml
namespace Comrak
open Bytes

/-! ## Element trees -/

mutual
inductive XTree where
  | elem (name : Bytes) (attrs : List (Bytes × Bytes)) (cs : XForest)
  | text (v : Bytes)
inductive XForest where
  | nil
  | cons (t : XTree) (ts : XForest)
end

instance : Inhabited XTree := ⟨.text []⟩
instance : Inhabited XForest := ⟨.nil⟩

/-- Reverses a list of trees into a forest. -/
def XForest.ofListRev : List XTree → XForest → XForest
  | [], acc => acc
  | t :: ts, acc => XForest.ofListRev ts (.cons t acc)

def beqAttrs : List (Bytes × Bytes) → List (Bytes × Bytes) → Bool
  | [], [] => true
  | (a, b) :: r, (c, d) :: s => a == c && b == d && beqAttrs r s
  | _, _ => false

mutual
def XTree.beq : XTree → XTree → Bool
  | .elem n as cs, .elem m bs ds => n == m && beqAttrs as bs && XForest.beq cs ds
  | .text v, .text w => v == w
  | _, _ => false
def XForest.beq : XForest → XForest → Bool
  | .nil, .nil => true
  | .cons t ts, .cons u us => XTree.beq t u && XForest.beq ts us
  | _, _ => false
end

mutual
/-- Canonical one-line rendering (driver output): `E <name> A <n> <v> ... [children] X`, `T <hex>`. -/
def XTree.toks : XTree → List String
  | .elem n as cs =>
    ["E", toHex n] ++ as.flatMap (fun a => ["A", toHex a.1, if a.2.isEmpty then "-" else toHex a.2]) ++
      XForest.toks cs ++ ["X"]
  | .text v => ["T", if v.isEmpty then "-" else toHex v]
def XForest.toks : XForest → List String
  | .nil => []
  | .cons t ts => XTree.toks t ++ XForest.toks ts
end

def XTree.render (t : XTree) : String := String.intercalate " " t.toks

/-! ## Lexer -/

inductive XEv where
  | opn (name : Bytes) (attrs : List (Bytes × Bytes))
  | empty (name : Bytes) (attrs : List (Bytes × Bytes))
  | close (name : Bytes)
  | text (v : Bytes)
  deriving Repr, DecidableEq, Inhabited

def xmlNameStart (c : UInt8) : Bool := isAsciiAlpha c || c == 0x5F
def xmlNameChar (c : UInt8) : Bool :=
  isAsciiAlnum c || c == 0x5F || c == 0x3A || c == 0x2E || c == 0x2D
def xmlWs (c : UInt8) : Bool := c == 0x20 || c == 0x09 || c == 0x0A || c == 0x0D

/-- A legal element or attribute name. -/
def xmlLegalName : Bytes → Bool
  | [] => false
  | c :: r => xmlNameStart c && r.all xmlNameChar

/-- The character named by the text between `&` and `;` (the four predefined entities comrak uses). -/
def entOf (buf : Bytes) : Option UInt8 :=
  if buf = [0x71, 0x75, 0x6F, 0x74] then some 0x22
  else if buf = [0x61, 0x6D, 0x70] then some 0x26
  else if buf = [0x6C, 0x74] then some 0x3C
  else if buf = [0x67, 0x74] then some 0x3E
  else none

/-- Lexer state; accumulators are reversed. -/
inductive XLexSt where
  | text (acc : Bytes)
  | textEnt (acc buf : Bytes)
  | lt
  | closeName (n : Bytes)
  | closeWs (n : Bytes)
  | name (n : Bytes)
  | attrs (n : Bytes) (as : List (Bytes × Bytes))
  | attrName (n : Bytes) (as : List (Bytes × Bytes)) (an : Bytes)
  | afterEq (n : Bytes) (as : List (Bytes × Bytes)) (an : Bytes)
  | value (n : Bytes) (as : List (Bytes × Bytes)) (an v : Bytes)
  | valueEnt (n : Bytes) (as : List (Bytes × Bytes)) (an v buf : Bytes)
  | afterValue (n : Bytes) (as : List (Bytes × Bytes))
  | slash (n : Bytes) (as : List (Bytes × Bytes))
  | fail
  deriving Repr, Inhabited

def xflush (acc : Bytes) (out : List XEv) : List XEv :=
  if acc.isEmpty then out else .text acc.reverse :: out

/-- One byte. Output is accumulated in reverse. -/
def xlexStep (st : XLexSt) (out : List XEv) (c : UInt8) : XLexSt × List XEv :=
  match st with
  | .text acc =>
    if c = 0x3C then (.lt, xflush acc out)
    else if c = 0x26 then (.textEnt acc [], out)
    else if c = 0x3E then (.fail, out)
    else (.text (c :: acc), out)
  | .textEnt acc buf =>
    if c = 0x3B then
      (match entOf buf.reverse with
       | some d => (.text (d :: acc), out)
       | none => (.fail, out))
    else if buf.length ≥ 4 then (.fail, out)
    else (.textEnt acc (c :: buf), out)
  | .lt =>
    if c = 0x2F then (.closeName [], out)
    else if xmlNameStart c then (.name [c], out)
    else (.fail, out)
  | .closeName n =>
    if n.isEmpty then (if xmlNameStart c then (.closeName [c], out) else (.fail, out))
    else if xmlNameChar c then (.closeName (c :: n), out)
    else if c = 0x3E then (.text [], .close n.reverse :: out)
    else if xmlWs c then (.closeWs n.reverse, out)
    else (.fail, out)
  | .closeWs n =>
    if c = 0x3E then (.text [], .close n :: out)
    else if xmlWs c then (.closeWs n, out)
    else (.fail, out)
  | .name n =>
    if xmlNameChar c then (.name (c :: n), out)
    else if c = 0x3E then (.text [], .opn n.reverse [] :: out)
    else if c = 0x2F then (.slash n.reverse [], out)
    else if xmlWs c then (.attrs n.reverse [], out)
    else (.fail, out)
  | .attrs n as =>
    if xmlWs c then (.attrs n as, out)
    else if c = 0x2F then (.slash n as, out)
    else if c = 0x3E then (.text [], .opn n as :: out)
    else if xmlNameStart c then (.attrName n as [c], out)
    else (.fail, out)
  | .attrName n as an =>
    if xmlNameChar c then (.attrName n as (c :: an), out)
    else if c = 0x3D then (.afterEq n as an.reverse, out)
    else (.fail, out)
  | .afterEq n as an =>
    if c = 0x22 then (.value n as an [], out) else (.fail, out)
  | .value n as an v =>
    if c = 0x22 then
      (if as.any (fun a => a.1 == an) then (.fail, out) else (.afterValue n (as ++ [(an, v.reverse)]), out))
    else if c = 0x3C || c = 0x3E then (.fail, out)
    else if c = 0x26 then (.valueEnt n as an v [], out)
    else (.value n as an (c :: v), out)
  | .valueEnt n as an v buf =>
    if c = 0x3B then
      (match entOf buf.reverse with
       | some d => (.value n as an (d :: v), out)
       | none => (.fail, out))
    else if buf.length ≥ 4 then (.fail, out)
    else (.valueEnt n as an v (c :: buf), out)
  | .afterValue n as =>
    if xmlWs c then (.attrs n as, out)
    else if c = 0x2F then (.slash n as, out)
    else if c = 0x3E then (.text [], .opn n as :: out)
    else (.fail, out)
  | .slash n as =>
    if c = 0x3E then (.text [], .empty n as :: out) else (.fail, out)
  | .fail => (.fail, out)

def xlexLoop : XLexSt → List XEv → Bytes → XLexSt × List XEv
  | st, out, [] => (st, out)
  | st, out, c :: r => let p := xlexStep st out c; xlexLoop p.1 p.2 r

/-- Lexes a document body: `none` unless it consists of complete tags and text. -/
def lexXml (bs : Bytes) : Option (List XEv) :=
  match xlexLoop (.text []) [] bs with
  | (.text acc, out) => some (xflush acc out).reverse
  | _ => none

/-! ## Tree builder -/

structure XFrame where
  name : Bytes
  attrs : List (Bytes × Bytes)
  kids : List XTree := []        -- reversed

def isPreserve (attrs : List (Bytes × Bytes)) : Bool :=
  attrs.any fun a => a.1 == XS.a_xml_space && a.2 == XS.v_preserve

def allWs (v : Bytes) : Bool := v.all xmlWs

/-- Builder state: open elements (innermost first) and the finished root, if any. -/
abbrev XBuild := List XFrame × Option XTree

/-- Hands a finished node to the innermost open element, or makes it the root. -/
def xaddNode (t : XTree) : List XFrame → Option XTree → Option XBuild
  | [], none => some ([], some t)
  | [], some _ => none                       -- a second root
  | f :: fs, r => some ({ f with kids := t :: f.kids } :: fs, r)

def xbuildStep (stack : List XFrame) (root : Option XTree) : XEv → Option XBuild
  | .opn n as =>
    (match stack, root with
     | [], some _ => none
     | _, _ => some ({ name := n, attrs := as } :: stack, root))
  | .empty n as => xaddNode (.elem n as .nil) stack root
  | .close n =>
    (match stack with
     | [] => none
     | f :: fs =>
       if f.name = n then xaddNode (.elem f.name f.attrs (XForest.ofListRev f.kids .nil)) fs root else none)
  | .text v =>
    (match stack with
     | [] => if allWs v then some ([], root) else none
     | f :: _ => if isPreserve f.attrs || !allWs v then xaddNode (.text v) stack root else some (stack, root))

def xbuildLoop : List XFrame → Option XTree → List XEv → Option XTree
  | [], root, [] => root
  | _ :: _, _, [] => none
  | stack, root, e :: es =>
    match xbuildStep stack root e with
    | some p => xbuildLoop p.1 p.2 es
    | none => none

/-- **The C09 oracle.** Strict reader of a complete comrak XML document. -/
def readXml (bs : Bytes) : Option XTree :=
  if isPrefixB XS.prolog bs then
    match lexXml (bs.drop XS.prolog.length) with
    | some evs => xbuildLoop [] none evs
    | none => none
  else none

/-! ## The element tree an AST stands for -/

/-- Name/value pairs carried by a start tag (values decoded). -/
def attrPairs : List XAttr → List (Bytes × Bytes)
  | [] => []
  | .mk n (.esc v) :: r => (n, v) :: attrPairs r
  | .mk n (.lit v) :: r => (n, v) :: attrPairs r

mutual
/-- One element per node: the kind's element name, the attributes the format carries (literal,
    destination, title, label, info fields as their exact bytes), the children in order; a
    literal kind carries its literal as one text child. -/
def xmlTreeT (o : XmlOpts) (cx : XCtx) : Tree → XTree
  | .node v sp cs =>
    let kids := xmlTreeF o (some v) cx.parent 0 cs
    .elem (xmlName v) (attrPairs (xmlAttrs o cx v sp))
      (match xmlLiteral v with
       | some l => if l.isEmpty then kids else .cons (.text l) kids
       | none => kids)
def xmlTreeF (o : XmlOpts) (parent grand : Option NodeValue) (idx : Nat) : Forest → XForest
  | .nil => .nil
  | .cons t ts =>
    .cons (xmlTreeT o { parent := parent, grand := grand, index := idx } t)
      (xmlTreeF o parent grand (idx + 1) ts)
end

def xmlTree (o : XmlOpts) (t : Tree) : XTree := xmlTreeT o {} t

/-! ## Token-level balance -/

/-- Runs tokens against a stack of open element names; `none` on an end tag that does not match.
    `leaf` and `empty` tokens are complete elements. -/
def xrun : List Bytes → List XTok → Option (List Bytes)
  | st, [] => some st
  | st, .opn _ n _ :: r => xrun (n :: st) r
  | st, .leaf .. :: r => xrun st r
  | st, .empty .. :: r => xrun st r
  | [], .close .. :: _ => none
  | top :: st, .close _ n :: r => if top = n then xrun st r else none

/-- Every start tag closed in the right order, nothing left open. -/
def xbalanced (ts : List XTok) : Bool := xrun [] ts == some []

end Comrak
