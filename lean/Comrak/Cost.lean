/-
C06: cost-annotated models of the mechanisms that keep parsing and rendering linear.

  * `btSteps`      the backtick scanner (`handle_backticks` + `scan_to_closing_backtick`,
                   src/parser/inlines.rs) at the level of backtick runs, counting exactly what the
                   step counter `backtick-scan` counts: 1 per call + 1 per byte scanned. The memo
                   (`backticks[]` + `scanned_for_backticks`) is modelled by its meaning - "once a scan has
                   reached the end of the input, an opener of a length that does not occur ahead is
                   rejected in one step" - and tied to the positional implementation by step-count
                   equality in the correspondence stage.
  * `btStepsNoMemo` the same loop without the flag (what the `$`..`$` scanners did before /repo commit 657287d).
  * `dlLoop`       the dollar scanners with their memos (as the code is since /repo commits 657287d and
                   b4925f3; `fix = false`: before), `cdStepsOld`: the memo-less abstraction.
  * `emLoop`       `process_emphasis` over an abstract delimiter stack with `openers_bottom`, as it is
                   (`fix = true`, 42 slots) and as it was before /repo commit 9704a60 (`fix = false`, 12 slots),
                   counting opener-search steps.
  * `refLookup`    `RefMap::lookup` with its expansion budget.
  * `autocompleteOk`, `xmlIndent`, `labelScan`, `parenDepth`: the caps.
Core Lean only.
-/
import Comrak.Escape
namespace Comrak.Cost
open Comrak Bytes

/-! ## Backtick scanner -/

def MAXBACKTICKS : Nat := 80

/-- `gap` bytes that are not backticks followed by a maximal run of `len` backticks (`len ≥ 1`). -/
structure Run where
  gap : Nat
  len : Nat
  deriving DecidableEq, Repr

def totalLen : List Run → Nat
  | [] => 0
  | r :: rs => r.gap + r.len + totalLen rs

/-- The scan for a closing run of length `L`: bytes scanned up to and including the closer, and
    what follows it. `none`: no run of that length ahead. -/
def findCloser (L : Nat) : List Run → Option (Nat × List Run)
  | [] => none
  | r :: rs =>
    if r.len = L then some (r.gap + r.len, rs)
    else match findCloser L rs with
      | none => none
      | some (c, rest) => some (r.gap + r.len + c, rest)

/-- Steps of the backtick scanner over a whole inline text: `rs` = the runs still ahead (the first
    one is the next opener), `tail` = bytes after the last run, `scanned` = `scanned_for_backticks`.
    Fuel: one unit per opener. -/
def btLoop : Nat → Bool → List Run → Nat → Nat
  | 0, _, _, _ => 0
  | _, _, [], _ => 0
  | fuel + 1, scanned, r :: rs, tail =>
    if MAXBACKTICKS < r.len then 1 + btLoop fuel scanned rs tail
    else if scanned && !(rs.any fun q => q.len == r.len) then 1 + btLoop fuel scanned rs tail
    else match findCloser r.len rs with
      | some (c, rest) => 1 + c + btLoop fuel scanned rest tail
      | none => 1 + totalLen rs + tail + btLoop fuel true rs tail

def btSteps (rs : List Run) (tail : Nat) : Nat := btLoop rs.length false rs tail

/-! ### Positional memo, exactly as implemented
`backticks[k]` holds the start of the run of length `k` seen most recently by *any* scan (successful
ones included), and an opener is rejected when `scanned_for_backticks && backticks[len] <= pos`.
This is not the same as "no run of that length ahead": a successful scan after the flag was set
overwrites the entry with the position of its own closer, so a later opener of the same length can be
rejected although a closer exists (`a``a`a`a`a`` loses its second code span; cmark shares the code).
`btStepsPos` is the model the correspondence stage compares with the real step counter. -/

structure ScanRes where
  found : Bool
  cost : Nat
  pos : Nat
  rest : List Run
  memo : Nat → Nat

/-- One call of the scanning loop from byte position `pos` over the runs still ahead. -/
def scanPos (L : Nat) : (Nat → Nat) → Nat → List Run → ScanRes
  | memo, pos, [] => ⟨false, 0, pos, [], memo⟩
  | memo, pos, r :: rs =>
    let start := pos + r.gap
    let memo' : Nat → Nat := if r.len ≤ MAXBACKTICKS then (fun k => if k = r.len then start else memo k) else memo
    if r.len = L then ⟨true, r.gap + r.len, start + r.len, rs, memo'⟩
    else
      let s := scanPos L memo' (start + r.len) rs
      { s with cost := s.cost + r.gap + r.len }

def btLoopPos : Nat → Bool → (Nat → Nat) → Nat → List Run → Nat → Nat
  | 0, _, _, _, _, _ => 0
  | _, _, _, _, [], _ => 0
  | fuel + 1, scanned, memo, pos, r :: rs, tail =>
    let p := pos + r.gap + r.len
    if MAXBACKTICKS < r.len then 1 + btLoopPos fuel scanned memo p rs tail
    else if scanned && decide (memo r.len ≤ p) then 1 + btLoopPos fuel scanned memo p rs tail
    else
      let s := scanPos r.len memo p rs
      if s.found then 1 + s.cost + btLoopPos fuel scanned s.memo s.pos s.rest tail
      else 1 + s.cost + tail + btLoopPos fuel true s.memo p rs tail

def btStepsPos (rs : List Run) (tail : Nat) : Nat := btLoopPos rs.length false (fun _ => 0) 0 rs tail

/-- The same loop without the flag: a failed scan is repeated in full by the next opener. -/
def btLoopNoMemo : Nat → List Run → Nat → Nat
  | 0, _, _ => 0
  | _, [], _ => 0
  | fuel + 1, r :: rs, tail =>
    match findCloser r.len rs with
    | some (c, rest) => 1 + c + btLoopNoMemo fuel rest tail
    | none => 1 + totalLen rs + tail + btLoopNoMemo fuel rs tail

/-- `n` openers of pairwise different lengths 1..n, one byte apart: no opener has a closer. -/
def distinctRuns : Nat → List Run
  | 0 => []
  | n + 1 => ⟨1, n + 1⟩ :: distinctRuns n

/-! ## The dollar scanners (`scan_to_closing_code_dollar`, `scan_to_closing_dollar`)

Since /repo commits 657287d and b4925f3 both have a memo: `no_code_dollar_closer` (set by a scan that runs to
the end of the input) and `no_dollar_closer_before[len]` (the position at which the last `$` / `$$` scan failed:
the end of the input, or the `$` that the space / digit rule refused); an opener that the memo covers returns at
once, before the first counted step. `cdStepsOld` is the memo-less scanner as it was before those commits, kept
for the historical quadratic theorems. -/

/-- The code-dollar scanner **before /repo commit 657287d** (no memo), summed over the openers of a text in
    which no opener has a closer: `pieces` = for each `` $` `` opener that the inline loop executes, the number
    of bytes that follow its `$` up to the `$` of the next executed opener (for the last one: up to the end of
    the text). Every opener scanned everything that was left after its `` $` ``: 1 per byte + 1 for the
    iteration that hits the end, which is the number of bytes after its `$`. -/
def cdStepsOld : List Nat → Nat
  | [] => 0
  | p :: rest => (p + rest.sum + rest.length) + cdStepsOld rest

/-- The pieces of a text of `len` bytes whose executed openers have their `$` at the given positions. -/
def cdPieces (len : Nat) : List Nat → List Nat
  | [] => []
  | [s] => [len - s - 1]
  | s :: s' :: r => (s' - s - 1) :: cdPieces len (s' :: r)

/-- One call of `scan_to_closing_code_dollar` at byte level; `prev` = the byte before the current
    position. Result: (steps, bytes consumed up to and including the closing `$`). The closer is a `$`
    whose preceding byte is a backtick. 1 step per byte passed (the inner `while` for non-`$` bytes, the
    outer iteration for a `$`) + 1 for the iteration that hits the end. -/
def cdScan : UInt8 → Bytes → Nat × Option Nat
  | _, [] => (1, none)
  | prev, b :: r =>
    if b = 0x24 ∧ prev = 0x60 then (1, some 1)
    else
      let s := cdScan b r
      (s.1 + 1, s.2.map (· + 1))

/-- `scan_to_closing_backtick` at byte level (no cost): `cur` = length of the backtick run being read.
    Result: position after the closing run, and the memo. `none` = ran to the end (sets the flag). -/
def btScanB (L : Nat) : (Nat → Nat) → Nat → Nat → Bytes → Option Nat × (Nat → Nat)
  | memo, pos, cur, [] =>
    if cur = 0 then (none, memo)
    else
      let memo' : Nat → Nat := if cur ≤ MAXBACKTICKS then (fun k => if k = cur then pos - cur else memo k) else memo
      (if cur = L then some pos else none, memo')
  | memo, pos, cur, b :: r =>
    if b = 0x60 then btScanB L memo (pos + 1) (cur + 1) r
    else if cur = 0 then btScanB L memo (pos + 1) 0 r
    else
      let memo' : Nat → Nat := if cur ≤ MAXBACKTICKS then (fun k => if k = cur then pos - cur else memo k) else memo
      if cur = L then (some pos, memo') else btScanB L memo' (pos + 1) 0 r

def runLen (c : UInt8) : Bytes → Nat
  | [] => 0
  | b :: r => if b = c then runLen c r + 1 else 0

/-- Does the text start with a byte satisfying `p`? (`peek_char().map_or(false, p)`) -/
def headIs (p : UInt8 → Bool) : Bytes → Bool
  | c :: _ => p c
  | [] => false

/-- Outcome of one `scan_to_closing_dollar` call that got as far as its loop. -/
inductive MdRes where
  | ranOut                 -- reached the end of the input (sets `no_dollar_closer[len]`)
  | rejected               -- `$`: space before the closing `$`, or a digit after it: `None`, no flag
  | found (consumed : Nat) -- bytes consumed up to and including the closing run
  deriving DecidableEq, Repr

def MdRes.shift : MdRes → MdRes
  | .found c => .found (c + 1)
  | r => r

/-- The loop of `scan_to_closing_dollar(n)` (`n` = 1 or 2) at byte level; `prev` = the byte before the current
    position. 1 step per byte passed up to the deciding `$` + 1 for the iteration that hits the end. For `$`
    a `$` after a backslash is skipped, a `$` after a space or before a digit ends the scan without a result;
    for `$$` a single `$` is passed over. -/
def mdScan (n : Nat) : UInt8 → Bytes → Nat × MdRes
  | _, [] => (1, .ranOut)
  | prev, b :: r =>
    if b = 0x24 then
      if n = 1 then
        if isSpace prev then (1, .rejected)
        else if prev = 0x5C then
          let s := mdScan n b r
          (s.1 + 1, s.2.shift)
        else if headIs isAsciiDigit r then (1, .rejected)
        else (1, .found 1)
      else if r.head? = some 0x24 then (1, .found 2)
      else
        let s := mdScan n b r
        (s.1 + 1, s.2.shift)
    else
      let s := mdScan n b r
      (s.1 + 1, s.2.shift)

/-- One executed dollar opener (a memo hit executes nothing and is not an event): position of its first `$`,
    steps of its scan, whether the scan ran to the end of the text, whether a math span was made, whether the
    scan was ended by the space / digit rule (`$` only), whether it was a `` $` `` opener. -/
structure DlEvent where
  dpos : Nat
  cost : Nat
  ranOut : Bool
  closed : Bool
  rejected : Bool
  code : Bool
  deriving Repr

/-- `Flags::no_code_dollar_closer`, `no_dollar_closer_before[1]`, `no_dollar_closer_before[2]` (positions:
    a `$` / `$$` scan that would start before that position returns at once). -/
structure DlFlags where
  ncd : Bool := false
  nd1 : Nat := 0
  nd2 : Nat := 0
  deriving Repr

/-- A `$` / `$$` scan failed at byte `q` (the `$` that the space / digit rule refused, or the end of the input):
    `no_dollar_closer_before[d] = q`. The scan started at `p` and took `c` steps: `q = p + c - 1`. -/
def failAt (fix : Bool) (d q : Nat) (fl : DlFlags) : DlFlags :=
  if fix then (if d = 1 then { fl with nd1 := q } else { fl with nd2 := q }) else fl

/-- The inline loop on one-paragraph texts over letters, digits, spaces, `$`, backtick and backslash
    (`handle_dollars`, `handle_backticks` with its positional memo, `handle_backslash`) with `math_code = mc`,
    `math_dollars = md`: the dollar openers whose scan it executes. `fix = true`: the code as it is since /repo
    commits 657287d and b4925f3 (a `` $` `` scan that runs to the end sets `no_code_dollar_closer`; every failed
    `$` / `$$` scan records where it failed, and a later opener whose scan would start before that position
    costs nothing); `fix = false`: before those commits (no memo). A failed `` $` `` opener resumes at the backtick after the
    `$`; a math span needs `endpos - startpos >= 2 * fence + 1`. Fuel: one unit per dispatch. -/
def dlLoop (fix mc md : Bool) (inp : Bytes) : Nat → Nat → (Nat → Nat) → Bool → DlFlags → List DlEvent
  | 0, _, _, _, _ => []
  | fuel + 1, pos, memo, scanned, fl =>
    match inp.drop pos with
    | [] => []
    | b :: r =>
      if b = 0x5C then
        -- backslash + ASCII punctuation: an escaped character
        match r with
        | c :: _ =>
          if (0x21 ≤ c ∧ c ≤ 0x2F) ∨ (0x3A ≤ c ∧ c ≤ 0x40) ∨ (0x5B ≤ c ∧ c ≤ 0x60) ∨ (0x7B ≤ c ∧ c ≤ 0x7E)
          then dlLoop fix mc md inp fuel (pos + 2) memo scanned fl else dlLoop fix mc md inp fuel (pos + 1) memo scanned fl
        | [] => dlLoop fix mc md inp fuel (pos + 1) memo scanned fl
      else if b = 0x60 then
        let L := runLen 0x60 r + 1
        let p := pos + L
        if MAXBACKTICKS < L then dlLoop fix mc md inp fuel p memo scanned fl
        else if scanned && decide (memo L ≤ p) then dlLoop fix mc md inp fuel p memo scanned fl
        else
          let s := btScanB L memo p 0 (inp.drop p)
          match s.1 with
          | some e => dlLoop fix mc md inp fuel e s.2 scanned fl
          | none => dlLoop fix mc md inp fuel p s.2 true fl
      else if b = 0x24 then
        let d := runLen 0x24 r + 1
        if d = 1 ∧ mc = true ∧ r.head? = some 0x60 then
          if fl.ncd then dlLoop fix mc md inp fuel (pos + 1) memo scanned fl
          else
            let s := cdScan 0x60 (r.drop 1)
            match s.2 with
            | some c =>
              if 3 ≤ c then ⟨pos, s.1, false, true, false, true⟩ :: dlLoop fix mc md inp fuel (pos + 2 + c) memo scanned fl
              else ⟨pos, s.1, false, false, false, true⟩ :: dlLoop fix mc md inp fuel (pos + 1) memo scanned fl
            | none => ⟨pos, s.1, true, false, false, true⟩ :: dlLoop fix mc md inp fuel (pos + 1) memo scanned { fl with ncd := fix }
        else if md = true ∧ d ≤ 2 then
          let rest := r.drop (d - 1)
          if d = 1 ∧ headIs isSpace rest = true then
            dlLoop fix mc md inp fuel (pos + d) memo scanned fl
          else if pos + d < (if d = 1 then fl.nd1 else fl.nd2) then dlLoop fix mc md inp fuel (pos + d) memo scanned fl
          else
            let s := mdScan d 0x24 rest
            match s.2 with
            | .found c =>
              if d + 1 ≤ c then ⟨pos, s.1, false, true, false, false⟩ :: dlLoop fix mc md inp fuel (pos + d + c) memo scanned fl
              else ⟨pos, s.1, false, false, false, false⟩ :: dlLoop fix mc md inp fuel (pos + d) memo scanned fl
            | .rejected =>
              ⟨pos, s.1, false, false, true, false⟩ :: dlLoop fix mc md inp fuel (pos + d) memo scanned (failAt fix d (pos + d + s.1 - 1) fl)
            | .ranOut =>
              ⟨pos, s.1, true, false, false, false⟩ :: dlLoop fix mc md inp fuel (pos + d) memo scanned (failAt fix d (pos + d + s.1 - 1) fl)
        else dlLoop fix mc md inp fuel (pos + d) memo scanned fl
      else dlLoop fix mc md inp fuel (pos + 1) memo scanned fl

def dlCost (evs : List DlEvent) : Nat := (evs.map (·.cost)).sum

/-- The code as it is. -/
def dlEvents (mc md : Bool) (inp : Bytes) : List DlEvent := dlLoop true mc md inp (inp.length + 1) 0 (fun _ => 0) false {}

/-- The `dollar-scan` counter of the text, the code as it is. -/
def dlSteps (mc md : Bool) (inp : Bytes) : Nat := dlCost (dlEvents mc md inp)

/-- Before /repo commit 657287d (no memo). -/
def dlEventsOld (mc md : Bool) (inp : Bytes) : List DlEvent := dlLoop false mc md inp (inp.length + 1) 0 (fun _ => 0) false {}
def dlStepsOld (mc md : Bool) (inp : Bytes) : Nat := dlCost (dlEventsOld mc md inp)

/-! ## `process_emphasis` (src/parser/inlines.rs): the opener search with `openers_bottom`

The delimiter stack is a zipper: `left` = the delimiters below the current closer (nearest first),
`right` = the closer and what is above it. A delimiter keeps the `length` it was pushed with (the code
never updates that field; it is what `% 3` and the rule of three look at) and, separately, the current
number of characters of its text node (`cur`, truncated by `insert_emph`). Only the branch for
emphasis-like characters is modelled (`*`, `_`, and `~ ^ |` when their extensions are on, with the `~`
length-mismatch exit of `insert_emph`; not the smart quotes).
Counted: exactly what the hook counter `emphasis-opener-search` counts - 1 per iteration of the outer
closer loop + 1 per iteration of the inner opener search. -/

structure Delim where
  ch : UInt8
  /-- `Delimiter::length`: the run length at push time, immutable -/
  len : Nat
  /-- current length of the text node -/
  cur : Nat
  canOpen : Bool
  canClose : Bool
  /-- `Delimiter::position` (strictly increasing up the stack) -/
  pos : Nat
  deriving DecidableEq, Repr

/-- Index into `openers_bottom[12]` before /repo commit 9704a60: `| ~ ^ " ' _` have one entry each,
    `*` has 6 (can_open x length % 3). -/
def bottomIxOld (c : Delim) : Nat :=
  if c.ch = 0x7C then 0 else if c.ch = 0x7E then 1 else if c.ch = 0x5E then 2
  else if c.ch = 0x22 then 3 else if c.ch = 0x27 then 4 else if c.ch = 0x5F then 5
  else 6 + (if c.canOpen then 3 else 0) + c.len % 3

/-- Index into `openers_bottom[42]` (the code as it is since /repo commit e31def4): every delimiter character
    has 6 slots, `base + can_open x 3 + length % 3` with base `|` 0, `~` 6, `^` 12, `"` 18, `'` 24, `_` 30, `*` 36
    (the `unreachable!()` arm is modelled like `*`). -/
def bottomIxNew (c : Delim) : Nat :=
  (if c.ch = 0x7C then 0 else if c.ch = 0x7E then 6 else if c.ch = 0x5E then 12
   else if c.ch = 0x22 then 18 else if c.ch = 0x27 then 24 else if c.ch = 0x5F then 30 else 36)
  + (if c.canOpen then 3 else 0) + c.len % 3

/-- `fix = true`: the code as it is (since /repo commits 9704a60 and e31def4); `fix = false`: the loop before
    those repairs. -/
def bottomIx (fix : Bool) (c : Delim) : Nat := if fix then bottomIxNew c else bottomIxOld c

/-- Is `openers_bottom[ix]` raised after a failed search even when the rule of three skipped a candidate?
    As the code is: always, for every delimiter character (`mod_three_rule_invoked` is gone); before /repo
    commit 9704a60: never. -/
def alwaysRaise (fix : Bool) (_c : Delim) : Bool := fix

/-- The rule of three (`odd_match`). -/
def oddMatch (o c : Delim) : Bool :=
  (c.canOpen || o.canClose) && ((o.len + c.len) % 3 == 0) && !(o.len % 3 == 0 && c.len % 3 == 0)

structure Search where
  cost : Nat
  /-- `mod_three_rule_invoked` -/
  mod3 : Bool
  /-- the opener found and what is below it (everything above it is dropped by `insert_emph`) -/
  hit : Option (Delim × List Delim)

/-- The inner loop: walk down from the closer while `position >= openers_bottom[ix]`. -/
def emSearch (c : Delim) (bottom : Nat) : List Delim → Search
  | [] => ⟨0, false, none⟩
  | o :: below =>
    if o.pos < bottom then ⟨0, false, none⟩
    else if o.canOpen && o.ch == c.ch then
      if oddMatch o c then
        let s := emSearch c bottom below
        ⟨s.cost + 1, true, s.hit⟩
      else ⟨1, false, some (o, below)⟩
    else
      let s := emSearch c bottom below
      ⟨s.cost + 1, s.mod3, s.hit⟩

/-- `insert_emph`: 2 characters of each delimiter are used if both have 2, else 1. -/
def useChars (o c : Delim) : Nat := if 2 ≤ c.cur ∧ 2 ≤ o.cur then 2 else 1

/-- `insert_emph`: a delimiter with no characters left leaves the stack, otherwise its text is truncated. -/
def shrink (d : Delim) (use : Nat) (rest : List Delim) : List Delim :=
  if d.cur ≤ use then rest else { d with cur := d.cur - use } :: rest

/-- `insert_emph` for `~` (a delimiter only with strikethrough or subscript on): after taking the characters
    used, `opener_num_chars != closer_num_chars || opener_num_chars > 0` returns `None`; the caller assigns that
    to `closer`, so the closer loop ends. -/
def tildeExit (o c : Delim) : Bool :=
  c.ch == 0x7E && (decide (o.cur - useChars o c ≠ c.cur - useChars o c) || decide (0 < o.cur - useChars o c))

/-- The outer loop. `fix = true`: the code as it is - after every failed search `openers_bottom[ix]` is raised,
    42 slots. `fix = false`: the loop before /repo commit 9704a60 - raised only `if !mod_three_rule_invoked`,
    12 slots with a single one for `_` (kept as the historical counterexample,
    `emphasis_quadratic_counterexample`). A `~` pair whose remaining lengths differ or are not zero makes
    `insert_emph` return `None`, which ends the loop (`tildeExit`). `none` = fuel exhausted. -/
def emLoop (fix : Bool) : Nat → (Nat → Nat) → List Delim → List Delim → Option Nat
  | _, _, _, [] => some 0
  | 0, _, _, _ :: _ => none
  | fuel + 1, bot, left, c :: above =>
    if c.canClose then
      let s := emSearch c (bot (bottomIx fix c)) left
      match s.hit with
      | some (o, below) =>
        -- insert_emph: use 2 characters of each if both have 2, else 1; used-up delimiters leave the stack;
        -- a closer with characters left is matched again
        if tildeExit o c then some (1 + s.cost)
        else (emLoop fix fuel bot (shrink o (useChars o c) below) (shrink c (useChars o c) above)).map (1 + s.cost + ·)
      | none =>
        let bot' : Nat → Nat :=
          if alwaysRaise fix c || !s.mod3 then (fun k => if k = bottomIx fix c then c.pos else bot k) else bot
        (emLoop fix fuel bot' (if c.canOpen then c :: left else left) above).map (1 + s.cost + ·)
    else (emLoop fix fuel bot (c :: left) above).map (1 + ·)

def sumCur : List Delim → Nat
  | [] => 0
  | d :: ds => d.cur + sumCur ds

/-- `process_emphasis(0)` on a whole inline text (`emSteps true`: the code as it is); the fuel is the termination measure
    (characters left + delimiters still to visit), see `emphasis_terminates`. -/
def emSteps (fix : Bool) (ds : List Delim) : Option Nat :=
  emLoop fix (sumCur ds + ds.length) (fun _ => 0) [] ds

/-! ## Reference expansion budget (`RefMap::lookup`) -/

structure RefState where
  maxRefSize : Nat
  refSize : Nat
  deriving Repr

/-- One lookup of an entry whose url + title have `size` bytes: granted (and charged) or refused. -/
def refLookup (st : RefState) (size : Nat) : Bool × RefState :=
  if size > st.maxRefSize - st.refSize then (false, st) else (true, { st with refSize := st.refSize + size })

/-- Total size granted over a sequence of lookups. -/
def refGranted : RefState → List Nat → Nat
  | _, [] => 0
  | st, s :: rest =>
    let (ok, st') := refLookup st s
    (if ok then s else 0) + refGranted st' rest

/-! ## Caps -/

def MAX_AUTOCOMPLETED_CELLS : Nat := 500000

/-- `try_opening_row`: a row is only added while the number of autocompleted cells is within the cap;
    a row of a table with `cols` columns that has `cells` cells autocompletes `cols - cells`. -/
def autocompleteRows (cols : Nat) : Nat → List Nat → Nat
  | auto, [] => auto
  | auto, cells :: rest =>
    if auto > MAX_AUTOCOMPLETED_CELLS then auto else autocompleteRows cols (auto + (cols - cells)) rest

/-- Body rows `try_opening_row` adds before it refuses (same recursion as `autocompleteRows`). -/
def acceptedRows (cols : Nat) : Nat → List Nat → Nat
  | _, [] => 0
  | auto, cells :: rest =>
    if auto > MAX_AUTOCOMPLETED_CELLS then 0 else 1 + acceptedRows cols (auto + (cols - cells)) rest

/-- Cells of the accepted rows that are in the source (`num_nonempty_cells` grows by `min(cols, cells)` per row). -/
def presentCells (cols : Nat) : Nat → List Nat → Nat
  | _, [] => 0
  | auto, cells :: rest =>
    if auto > MAX_AUTOCOMPLETED_CELLS then 0 else min cols cells + presentCells cols (auto + (cols - cells)) rest

def XML_MAX_INDENT : Nat := 40

/-- `xml.rs` `indent()`: `min(self.indent, MAX_INDENT)` spaces. -/
def xmlIndent (depth : Nat) : Nat := min (2 * depth) XML_MAX_INDENT

def MAX_LINK_LABEL_LENGTH : Nat := 1000

/-- `link_label`: bytes examined before the scan gives up (`length > MAX_LINK_LABEL_LENGTH`), one or
    two per iteration. `none` = gave up. Returns the steps taken. -/
def labelScan : Nat → Nat → Bytes → Nat
  | _, steps, [] => steps
  | length, steps, c :: r =>
    if c = 0x5B ∨ c = 0x5D then steps
    else if length + 1 > MAX_LINK_LABEL_LENGTH then steps + 1
    else labelScan (length + 1) (steps + 1) r

/-- `manual_scan_link_url_2`: parenthesis nesting is cut off at 32. -/
def parenDepth : Nat → Bytes → Option Nat
  | d, [] => some d
  | d, c :: r =>
    if c = 0x28 then (if d + 1 > 32 then none else parenDepth (d + 1) r)
    else if c = 0x29 then (if d = 0 then some 0 else parenDepth (d - 1) r)
    else parenDepth d r

end Comrak.Cost
