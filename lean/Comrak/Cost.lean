/-
C06: cost-annotated models of the mechanisms that keep parsing and rendering linear.

  * `btSteps`      the backtick scanner (`handle_backticks` + `scan_to_closing_backtick`,
                   src/parser/inlines.rs) at the level of backtick runs, counting exactly what the
                   step counter `backtick-scan` counts: 1 per call + 1 per byte scanned. The memo
                   (`backticks[]` + `scanned_for_backticks`) is modelled by its meaning - "once a scan has
                   reached the end of the input, an opener of a length that does not occur ahead is
                   rejected in one step" - and tied to the positional implementation by step-count
                   equality in the correspondence stage.
  * `btStepsNoMemo` the same loop without the flag (what the `$`..`$` scanner does today).
  * `cdSteps`      `scan_to_closing_code_dollar` driven from every opener of a text in which no
                   opener has a closer: no memo, every opener scans to the end.
  * `refLookup`    `RefMap::lookup` with its expansion budget.
  * `autocompleteOk`, `xmlIndent`, `labelScan`, `parenDepth`: the caps.
Core Lean only.
-/
import Comrak.Escape
namespace Comrak.Cost
open Comrak Bytes

/-! ## Backtick scanner -/

def MAXBACKTICKS : Nat := 80

/-- `gap` bytes that are not backticks followed by a maximal run of `len` backticks (`len ≥ 1`). -/
structure Run where
  gap : Nat
  len : Nat
  deriving DecidableEq, Repr

def totalLen : List Run → Nat
  | [] => 0
  | r :: rs => r.gap + r.len + totalLen rs

/-- The scan for a closing run of length `L`: bytes scanned up to and including the closer, and
    what follows it. `none`: no run of that length ahead. -/
def findCloser (L : Nat) : List Run → Option (Nat × List Run)
  | [] => none
  | r :: rs =>
    if r.len = L then some (r.gap + r.len, rs)
    else match findCloser L rs with
      | none => none
      | some (c, rest) => some (r.gap + r.len + c, rest)

/-- Steps of the backtick scanner over a whole inline text: `rs` = the runs still ahead (the first
    one is the next opener), `tail` = bytes after the last run, `scanned` = `scanned_for_backticks`.
    Fuel: one unit per opener. -/
def btLoop : Nat → Bool → List Run → Nat → Nat
  | 0, _, _, _ => 0
  | _, _, [], _ => 0
  | fuel + 1, scanned, r :: rs, tail =>
    if MAXBACKTICKS < r.len then 1 + btLoop fuel scanned rs tail
    else if scanned && !(rs.any fun q => q.len == r.len) then 1 + btLoop fuel scanned rs tail
    else match findCloser r.len rs with
      | some (c, rest) => 1 + c + btLoop fuel scanned rest tail
      | none => 1 + totalLen rs + tail + btLoop fuel true rs tail

def btSteps (rs : List Run) (tail : Nat) : Nat := btLoop rs.length false rs tail

/-! ### Positional memo, exactly as implemented
`backticks[k]` holds the start of the run of length `k` seen most recently by *any* scan (successful
ones included), and an opener is rejected when `scanned_for_backticks && backticks[len] <= pos`.
This is not the same as "no run of that length ahead": a successful scan after the flag was set
overwrites the entry with the position of its own closer, so a later opener of the same length can be
rejected although a closer exists (`a``a`a`a`a`` loses its second code span; cmark shares the code).
`btStepsPos` is the model the correspondence stage compares with the real step counter. -/

structure ScanRes where
  found : Bool
  cost : Nat
  pos : Nat
  rest : List Run
  memo : Nat → Nat

/-- One call of the scanning loop from byte position `pos` over the runs still ahead. -/
def scanPos (L : Nat) : (Nat → Nat) → Nat → List Run → ScanRes
  | memo, pos, [] => ⟨false, 0, pos, [], memo⟩
  | memo, pos, r :: rs =>
    let start := pos + r.gap
    let memo' : Nat → Nat := if r.len ≤ MAXBACKTICKS then (fun k => if k = r.len then start else memo k) else memo
    if r.len = L then ⟨true, r.gap + r.len, start + r.len, rs, memo'⟩
    else
      let s := scanPos L memo' (start + r.len) rs
      { s with cost := s.cost + r.gap + r.len }

def btLoopPos : Nat → Bool → (Nat → Nat) → Nat → List Run → Nat → Nat
  | 0, _, _, _, _, _ => 0
  | _, _, _, _, [], _ => 0
  | fuel + 1, scanned, memo, pos, r :: rs, tail =>
    let p := pos + r.gap + r.len
    if MAXBACKTICKS < r.len then 1 + btLoopPos fuel scanned memo p rs tail
    else if scanned && decide (memo r.len ≤ p) then 1 + btLoopPos fuel scanned memo p rs tail
    else
      let s := scanPos r.len memo p rs
      if s.found then 1 + s.cost + btLoopPos fuel scanned s.memo s.pos s.rest tail
      else 1 + s.cost + tail + btLoopPos fuel true s.memo p rs tail

def btStepsPos (rs : List Run) (tail : Nat) : Nat := btLoopPos rs.length false (fun _ => 0) 0 rs tail

/-- The same loop without the flag: a failed scan is repeated in full by the next opener. -/
def btLoopNoMemo : Nat → List Run → Nat → Nat
  | 0, _, _ => 0
  | _, [], _ => 0
  | fuel + 1, r :: rs, tail =>
    match findCloser r.len rs with
    | some (c, rest) => 1 + c + btLoopNoMemo fuel rest tail
    | none => 1 + totalLen rs + tail + btLoopNoMemo fuel rs tail

/-- `n` openers of pairwise different lengths 1..n, one byte apart: no opener has a closer. -/
def distinctRuns : Nat → List Run
  | 0 => []
  | n + 1 => ⟨1, n + 1⟩ :: distinctRuns n

/-! ## `scan_to_closing_code_dollar` (no memo) -/

/-- Steps of the code-dollar scanner summed over the openers of a text in which no opener has a closer:
    `pieces` = number of bytes that follow each opener up to the next one; every opener scans everything
    that is left (1 per byte + 1 for the iteration that hits the end). -/
def cdSteps : List Nat → Nat
  | [] => 0
  | p :: rest => (p + rest.sum + rest.length + 1) + cdSteps rest

/-! ## Reference expansion budget (`RefMap::lookup`) -/

structure RefState where
  maxRefSize : Nat
  refSize : Nat
  deriving Repr

/-- One lookup of an entry whose url + title have `size` bytes: granted (and charged) or refused. -/
def refLookup (st : RefState) (size : Nat) : Bool × RefState :=
  if size > st.maxRefSize - st.refSize then (false, st) else (true, { st with refSize := st.refSize + size })

/-- Total size granted over a sequence of lookups. -/
def refGranted : RefState → List Nat → Nat
  | _, [] => 0
  | st, s :: rest =>
    let (ok, st') := refLookup st s
    (if ok then s else 0) + refGranted st' rest

/-! ## Caps -/

def MAX_AUTOCOMPLETED_CELLS : Nat := 500000

/-- `try_opening_row`: a row is only added while the number of autocompleted cells is within the cap;
    a row of a table with `cols` columns that has `cells` cells autocompletes `cols - cells`. -/
def autocompleteRows (cols : Nat) : Nat → List Nat → Nat
  | auto, [] => auto
  | auto, cells :: rest =>
    if auto > MAX_AUTOCOMPLETED_CELLS then auto else autocompleteRows cols (auto + (cols - cells)) rest

def XML_MAX_INDENT : Nat := 40

/-- `xml.rs` `indent()`: `min(self.indent, MAX_INDENT)` spaces. -/
def xmlIndent (depth : Nat) : Nat := min (2 * depth) XML_MAX_INDENT

def MAX_LINK_LABEL_LENGTH : Nat := 1000

/-- `link_label`: bytes examined before the scan gives up (`length > MAX_LINK_LABEL_LENGTH`), one or
    two per iteration. `none` = gave up. Returns the steps taken. -/
def labelScan : Nat → Nat → Bytes → Nat
  | _, steps, [] => steps
  | length, steps, c :: r =>
    if c = 0x5B ∨ c = 0x5D then steps
    else if length + 1 > MAX_LINK_LABEL_LENGTH then steps + 1
    else labelScan (length + 1) (steps + 1) r

/-- `manual_scan_link_url_2`: parenthesis nesting is cut off at 32. -/
def parenDepth : Nat → Bytes → Option Nat
  | d, [] => some d
  | d, c :: r =>
    if c = 0x28 then (if d + 1 > 32 then none else parenDepth (d + 1) r)
    else if c = 0x29 then (if d = 0 then some 0 else parenDepth (d - 1) r)
    else parenDepth d r

end Comrak.Cost
