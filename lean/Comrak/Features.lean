/-
C13: the switchable syntax features of comrak and the characters that trigger them.

`trigger` is written from the documentation of each option (doc comments of `ExtensionOptions` /
`ParseOptions` in src/parser/mod.rs and the README), not from the parser: it lists, per feature, the
ASCII characters the documented syntax is spelled with such that every use of the syntax contains one
of them.  A document is *free of F's syntax* when it contains none of `trigger F`.

  strikethrough  `~world~`                      ~        subscript     `H~2~O`                 ~
  superscript    `mc^2^`                        ^        underline     `__text__`              _
  spoiler        `||text||`                     |        table         `| a |` + `|---|`       | -
  autolink       `www.x`, `http://x`, `a@b.c`   w : @    tagfilter     `<xmp>`                 <
  tasklist       `* [x] Done`                   [        footnotes     `[^x]`                  ^
  description_lists  `: Details`                :        multiline_block_quotes  `>>>`         >
  alerts         `> [!note]`                    >        greentext     `>implying`             >
  math_dollars   `$1+2$`, `$$x$$`               $        math_code     "$`1+2`$"               $
  wikilinks_*    `[[url|label]]`                [        smart         quotes, `...`, `--`     " ' . -
  relaxed_tasklist_matching (any symbol in `[ ]`)  [     relaxed_autolinks (as autolink)       w : @
  header_ids     anchors in headings: `# x`, setext `===` / `---`                              # = -
  front_matter_delimiter (the delimiter itself; the check uses `---`)                          -

Not included: `shortcodes` (cargo feature, off in the verification build), `default_info_string`,
`broken_link_callback`, URL rewriters (not syntax switches), and all render options.
-/
import Comrak.Bytes
namespace Comrak
open Bytes

inductive Feature where
  | strikethrough | tagfilter | table | autolink | tasklist | superscript | footnotes
  | descriptionLists | multilineBlockQuotes | alerts | mathDollars | mathCode
  | wikilinksTitleAfterPipe | wikilinksTitleBeforePipe | underline | subscript | spoiler | greentext
  | smart | relaxedTasklistMatching | relaxedAutolinks | headerIds | frontMatterDelimiter
  deriving DecidableEq, Repr, Inhabited

namespace Feature

/-- Every feature, in the order of the harness's table (`FEATURES` in harness/src/c13.rs). -/
def all : List Feature :=
  [strikethrough, tagfilter, table, autolink, tasklist, superscript, footnotes,
   descriptionLists, multilineBlockQuotes, alerts, mathDollars, mathCode,
   wikilinksTitleAfterPipe, wikilinksTitleBeforePipe, underline, subscript, spoiler, greentext,
   smart, relaxedTasklistMatching, relaxedAutolinks, headerIds, frontMatterDelimiter]

theorem mem_all (f : Feature) : f ∈ all := by cases f <;> decide

/-- Option name as spelled in comrak (and in the harness). -/
def name : Feature → String
  | strikethrough => "strikethrough" | tagfilter => "tagfilter" | table => "table"
  | autolink => "autolink" | tasklist => "tasklist" | superscript => "superscript"
  | footnotes => "footnotes" | descriptionLists => "description_lists"
  | multilineBlockQuotes => "multiline_block_quotes" | alerts => "alerts"
  | mathDollars => "math_dollars" | mathCode => "math_code"
  | wikilinksTitleAfterPipe => "wikilinks_title_after_pipe"
  | wikilinksTitleBeforePipe => "wikilinks_title_before_pipe"
  | underline => "underline" | subscript => "subscript" | spoiler => "spoiler"
  | greentext => "greentext" | smart => "smart"
  | relaxedTasklistMatching => "relaxed_tasklist_matching"
  | relaxedAutolinks => "relaxed_autolinks" | headerIds => "header_ids"
  | frontMatterDelimiter => "front_matter_delimiter"

end Feature

/-- The trigger characters of a feature (see the table above). -/
def triggerBytes : Feature → Bytes
  | .strikethrough => [0x7E]
  | .tagfilter => [0x3C]
  | .table => [0x7C, 0x2D]
  | .autolink => [0x3A, 0x77, 0x40]
  | .tasklist => [0x5B]
  | .superscript => [0x5E]
  | .footnotes => [0x5E]
  | .descriptionLists => [0x3A]
  | .multilineBlockQuotes => [0x3E]
  | .alerts => [0x3E]
  | .mathDollars => [0x24]
  | .mathCode => [0x24]
  | .wikilinksTitleAfterPipe => [0x5B]
  | .wikilinksTitleBeforePipe => [0x5B]
  | .underline => [0x5F]
  | .subscript => [0x7E]
  | .spoiler => [0x7C]
  | .greentext => [0x3E]
  | .smart => [0x22, 0x27, 0x2E, 0x2D]
  | .relaxedTasklistMatching => [0x5B]
  | .relaxedAutolinks => [0x3A, 0x77, 0x40]
  | .headerIds => [0x23, 0x3D, 0x2D]
  | .frontMatterDelimiter => [0x2D]

/-- `trigger F c`: is `c` one of the characters the documented syntax of `F` is spelled with? -/
def trigger (F : Feature) (c : UInt8) : Bool := (triggerBytes F).contains c

/-- A document (or any byte string) that contains none of `F`'s trigger characters. -/
def triggerFree (F : Feature) (s : Bytes) : Bool := s.all fun c => !trigger F c

/-- Every switchable feature as one bit (the two non-boolean ones as present / absent). -/
structure Opts where
  strikethrough : Bool := false
  tagfilter : Bool := false
  table : Bool := false
  autolink : Bool := false
  tasklist : Bool := false
  superscript : Bool := false
  footnotes : Bool := false
  descriptionLists : Bool := false
  multilineBlockQuotes : Bool := false
  alerts : Bool := false
  mathDollars : Bool := false
  mathCode : Bool := false
  wikilinksTitleAfterPipe : Bool := false
  wikilinksTitleBeforePipe : Bool := false
  underline : Bool := false
  subscript : Bool := false
  spoiler : Bool := false
  greentext : Bool := false
  smart : Bool := false
  relaxedTasklistMatching : Bool := false
  relaxedAutolinks : Bool := false
  headerIds : Bool := false
  frontMatterDelimiter : Bool := false
  deriving DecidableEq, Repr, Inhabited

/-- `o.enable F` is "`o + F`": the same options with feature `F` switched on. -/
def Opts.enable (o : Opts) : Feature → Opts
  | .strikethrough => { o with strikethrough := true }
  | .tagfilter => { o with tagfilter := true }
  | .table => { o with table := true }
  | .autolink => { o with autolink := true }
  | .tasklist => { o with tasklist := true }
  | .superscript => { o with superscript := true }
  | .footnotes => { o with footnotes := true }
  | .descriptionLists => { o with descriptionLists := true }
  | .multilineBlockQuotes => { o with multilineBlockQuotes := true }
  | .alerts => { o with alerts := true }
  | .mathDollars => { o with mathDollars := true }
  | .mathCode => { o with mathCode := true }
  | .wikilinksTitleAfterPipe => { o with wikilinksTitleAfterPipe := true }
  | .wikilinksTitleBeforePipe => { o with wikilinksTitleBeforePipe := true }
  | .underline => { o with underline := true }
  | .subscript => { o with subscript := true }
  | .spoiler => { o with spoiler := true }
  | .greentext => { o with greentext := true }
  | .smart => { o with smart := true }
  | .relaxedTasklistMatching => { o with relaxedTasklistMatching := true }
  | .relaxedAutolinks => { o with relaxedAutolinks := true }
  | .headerIds => { o with headerIds := true }
  | .frontMatterDelimiter => { o with frontMatterDelimiter := true }

/-- `wikilinks()` of `ExtensionOptions`: some mode is selected. -/
def Opts.wikilinks (o : Opts) : Bool := o.wikilinksTitleAfterPipe || o.wikilinksTitleBeforePipe

end Comrak
