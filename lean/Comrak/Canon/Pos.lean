/-
Canonical documents, source positions: `Doc.toTreeP d` is `Doc.toTree d` with the line/column span
every node's own text occupies in `Doc.write d` (1-based, columns in bytes, both ends inclusive),
computed alongside the writer's layout: a block that starts on line `l` at column `c` continues
at column `c` on its further lines (the canonical writer indents list-item content by exactly the
marker width + 1 and prefixes block-quote content with `> `); blocks of a loose container are one
blank line apart.

Positions are claimed for the kinds comrak's documentation calls reliable.  A node whose span is
left zero claims nothing: lists and list items (documented as unreliable), indented code blocks
(comrak's end position for these is off: a C11 finding), and the inlines of a table cell that contains `\|` (comrak computes them on the cell
text from which the backslash has been removed).
-/
import Comrak.Canon.Doc
import Comrak.Sourcepos
namespace Comrak.Canon
open Comrak Bytes

abbrev Pos := Nat × Nat

/-- The position after the bytes `s`, written from `p` on; a new line starts at column `c0`. -/
def adv (c0 : Nat) (p : Pos) (s : Bytes) : Pos :=
  s.foldl (fun q b => if b = 0x0A then (q.1 + 1, c0) else (q.1, q.2 + 1)) p

/-- The span of the non-empty text `s` written at `p`: from `p` to the position of its last byte
    (a line end counts as a byte of the line it ends). -/
def spanOf (c0 : Nat) (p : Pos) (s : Bytes) : Sp :=
  let e := adv c0 p s.dropLast
  { sl := p.1, sc := p.2, el := e.1, ec := e.2 }

mutual
def Inl.toTreeP (c0 : Nat) (p : Pos) : Inl → Tree
  | .text as => .node (.text (atomsVal as)) (spanOf c0 p (Inl.text as).src) .nil
  | .code n s => .node (.code n s) (spanOf c0 p (Inl.code n s).src) .nil
  | .emph us cs => .node .emph (spanOf c0 p (Inl.emph us cs).src) (cs.toForestP c0 (p.1, p.2 + 1))
  | .strong us cs => .node .strong (spanOf c0 p (Inl.strong us cs).src) (cs.toForestP c0 (p.1, p.2 + 2))
  | .strike cs => .node .strikethrough (spanOf c0 p (Inl.strike cs).src) (cs.toForestP c0 (p.1, p.2 + 2))
  | .link url title a sp cs =>
    .node (.link url title) (spanOf c0 p (Inl.link url title a sp cs).src) (cs.toForestP c0 (p.1, p.2 + 1))
  | .image url title a cs =>
    .node (.image url title) (spanOf c0 p (Inl.image url title a cs).src) (cs.toForestP c0 (p.1, p.2 + 2))
  | .autolink s r =>
    .node (.link (autolinkUrl s r) []) (spanOf c0 p (Inl.autolink s r).src)
      (.cons (.node (.text (autolinkUrl s r)) (spanOf c0 (p.1, p.2 + 1) (autolinkUrl s r)) .nil) .nil)
  | .hard b => .node .lineBreak (spanOf c0 p (Inl.hard b).src) .nil
  | .soft => .node .softBreak (spanOf c0 p Inl.soft.src) .nil
  | .fnref name rn ix => .node (.footnoteReference name rn ix) (spanOf c0 p (Inl.fnref name rn ix).src) .nil
def Inls.toForestP (c0 : Nat) (p : Pos) : Inls → Forest
  | .nil => .nil
  | .cons i r => .cons (i.toTreeP c0 p) (r.toForestP c0 (adv c0 p i.src))
end

/-- The span of a block written as the lines `ls` from line `l`, column `c` on. -/
def spanLines (l c : Nat) (ls : List Bytes) : Sp :=
  { sl := l, sc := c, el := l + ls.length - 1, ec := c - 1 + (ls.getLastD []).length }

/-- The cells of a row; `c`: the column after the pipe that opens the cell.  A cell spans the
    padding and the content between two pipes. -/
def cellsP (l : Nat) : Nat → List Inls → Forest
  | _, [] => .nil
  | c, x :: r =>
    let w := x.src.length
    .cons (.node .tableCell { sl := l, sc := c, el := l, ec := c + w + 1 }
            (if x.src.contains 0x7C then x.toForest else x.toForestP 0 (l, c + 1)))
      (cellsP l (c + w + 3) r)

def rowsP (c : Nat) : Nat → List (List Inls) → Forest
  | _, [] => .nil
  | l, r :: rs =>
    .cons (.node (.tableRow false) (spanLines l c [rowSrc (r.map Inls.src)]) (cellsP l (c + 1) r)) (rowsP c (l + 1) rs)

mutual
/-- `l`: first line; `c0`: column at which the block's lines start; `c1`: the same for the first
    line (differs from `c0` only for the paragraph after a task marker). -/
def Blk.toTreeP (l c0 c1 : Nat) : Blk → Tree
  | .para is => .node .paragraph (spanOf c0 (l, c1) is.src) (is.toForestP c0 (l, c1))
  | .heading lv is =>
    .node (.heading lv false) (spanLines l c1 (Blk.heading lv is).lines) (is.toForestP c0 (l, c1 + lv + 1))
  | .setext lv n is =>
    .node (.heading lv true) { sl := l, sc := c1, el := l + (splitNl is.src).length, ec := c0 - 1 + n }
      (is.toForestP c0 (l, c1))
  | .hr ch n => .node .thematicBreak (spanLines l c1 (Blk.hr ch n).lines) .nil
  | .fence c len info lines =>
    .node (.codeBlock true c len 0 info (joinLines lines)) (spanLines l c1 (Blk.fence c len info lines).lines) .nil
  | .icode lines => .node (.codeBlock false 0 0 0 [] (joinLines lines)) {} .nil
  | .quote bs => .node .blockQuote (spanLines l c1 (Blk.quote bs).lines) (bs.toForestP false l (c1 + 2) (c1 + 2))
  | .list m items =>
    .node (.list { m.nlist m.start m.tight with isTaskList := items.anyTask }) {} (items.toForestP m m.start l c1)
  | .htmlb ls => .node (.htmlBlock 6 (joinLines ls)) (spanLines l c1 ls) .nil
  | .table al h rows =>
    .node (.table al h.length rows.length (bodyCells rows)) (spanLines l c1 (Blk.table al h rows).lines)
      (.cons (.node (.tableRow true) (spanLines l c1 [rowSrc (h.map Inls.src)]) (cellsP l (c1 + 1) h))
        (rowsP c1 (l + 2) rows))
def Blks.toForestP (tight : Bool) (l c0 c1 : Nat) : Blks → Forest
  | .nil => .nil
  | .cons b r =>
    .cons (b.toTreeP l c0 c1) (r.toForestP tight (l + b.lines.length + (if tight then 0 else 1)) c0 c0)
def Items.toForestP (m : Marker) (k l c : Nat) : Items → Forest
  | .nil => .nil
  | .cons t bs r =>
    let w := (m.src k).length + 1
    .cons (.node (t.value (m.nlist k false)) {} (bs.toForestP m.tight l (c + w) (c + w + t.src.length)))
      (r.toForestP m (k + 1) (l + (bs.lines m.tight).length + (if m.tight then 0 else 1)) c)
end

/-- Blocks followed by `tail`, as `Blks.toForestThen`. -/
def Blks.toForestThenP (tail : Forest) (l : Nat) : Blks → Forest
  | .nil => tail
  | .cons b r => .cons (b.toTreeP l 1 1) (r.toForestThenP tail (l + b.lines.length + 1))

/-- A footnote definition written on line `l`: `[^name]: ` and the paragraph.  `last`: it is the
    last line of the document; otherwise comrak lets the definition end with the blank line that
    follows it (`l+1:0`). -/
def Note.toTreeP (n : Note) (l : Nat) (last : Bool) : Tree :=
  let c := n.name.length + 6
  .node (.footnoteDefinition n.name n.total)
    (if last then spanLines l 1 [n.line] else { sl := l, sc := 1, el := l + 1, ec := 0 })
    (.cons (.node .paragraph (spanOf 0 (l, c) n.body.src) (n.body.toForestP 0 (l, c))) .nil)

/-- `l0`: line of the first written definition; note number `i` of `notes` stands at the position
    it has in the writer's order, every definition two lines after the one before. -/
def notesForestP (order : List Nat) (l0 nwritten : Nat) : Nat → List Note → Forest
  | _, [] => .nil
  | i, n :: r =>
    .cons (n.toTreeP (l0 + 2 * order.idxOf i) (order.idxOf i + 1 == nwritten))
      (notesForestP order l0 nwritten (i + 1) r)

def Doc.toTreeP (d : Doc) : Tree :=
  let ds := d.useDefs
  let g1 := (ds.filter (fun x => x.before)).length
  let g2 := (d.blocks.lines false).length
  let g3 := (ds.filter (fun x => !x.before)).length + d.shadow.length
  let l2 := if g1 = 0 then 1 else g1 + 2
  let l3 := if g2 = 0 then l2 else l2 + g2 + 1
  let l4 := if g3 = 0 then l3 else l3 + g3 + 1
  let all := splitNl d.write
  -- `write` ends every line with a newline: the piece after the last one is empty
  let nlines := all.length - 1
  let last := (all.dropLast.getLastD []).length
  .node .document (if nlines = 0 then {} else { sl := 1, sc := 1, el := nlines, ec := last })
    (d.blocks.toForestThenP (notesForestP d.noteOrder l4 d.writtenNotes.length 0 d.notes) l2)

/-! ## The C11 / C12 oracles on the positions the model claims -/

mutual
/-- `rangeCheckT` of Comrak/Sourcepos.lean (every position lies in the source, children lie within
    their nearest reliable ancestor, siblings are in order) restricted to the nodes for which a
    position is claimed: a node with start line 0 is passed over like a node of an unreliable kind. -/
def claimCheckT (lt : List LineEnt) (anc : Option Sp) : Tree → Option SpFail
  | .node v sp cs =>
    if v.kind.spReliable && sp.sl != 0 then
      match spRangeFail lt sp with
      | some c => some ⟨c, v.kind, sp⟩
      | none =>
        match anc with
        | some p => if spNested p sp then claimCheckF lt (some sp) none cs else some ⟨"nested", v.kind, sp⟩
        | none => claimCheckF lt (some sp) none cs
    else claimCheckF lt anc none cs
def claimCheckF (lt : List LineEnt) (anc prev : Option Sp) : Forest → Option SpFail
  | .nil => none
  | .cons t ts =>
    let k := t.value.kind
    let takes := k.spInOrder && t.sp.sl != 0
    let bad := match prev with
      | some p => takes && !spOrdered p t.sp
      | none => false
    if bad then some ⟨"ordered", k, t.sp⟩ else
    match claimCheckT lt anc t with
    | some f => some f
    | none => claimCheckF lt anc (if takes then some t.sp else prev) ts
end

/-- The claimed positions of `d` lie inside `write d`, nest and are ordered (C11), and denote the
    text the node kinds claim (C12: `sliceCheckT`). -/
def Doc.posOk (d : Doc) : Bool :=
  (claimCheckT (lineEnts d.write) none d.toTreeP).isNone &&
  (sliceCheckT (lineEnts d.write) d.write d.toTreeP).isNone

end Comrak.Canon
