/-
Canonical documents (DESIGN.md section 5), stage 1: an inductive type of Markdown documents,
the AST each document spells (`toTree`, positions left zero) and an independent canonical
writer (`Doc.write`).  The side conditions that make the spelling unambiguous are in
Comrak/Canon/Ok.lean (`Doc.ok`), the reference renderer in Comrak/Canon/Ref.lean.

Blocks: paragraph, ATX and setext heading, thematic break, fenced and indented code block, block
quote, tight and loose bullet / ordered lists with task items, GFM tables with alignments, HTML blocks; footnote definitions (one paragraph each) at the end.  Inlines: footnote references, text (plain characters, backslash escapes, named and
numeric character references, multi-byte characters), code span, emphasis, strong, strikethrough (GFM), inline
link with title, image, autolink, hard break (both spellings), soft break.
Core Lean only (linked into the driver).
-/
import Comrak.Ast
namespace Comrak.Canon
open Comrak Bytes

/-! ## Text atoms -/

/-- Named character references the class uses: (name, UTF-8 of the character). -/
def entTable : List (Bytes × Bytes) :=
  [ ([0x61,0x6D,0x70], [0x26]),                         -- amp
    ([0x6C,0x74], [0x3C]),                              -- lt
    ([0x67,0x74], [0x3E]),                              -- gt
    ([0x71,0x75,0x6F,0x74], [0x22]),                    -- quot
    ([0x63,0x6F,0x70,0x79], [0xC2,0xA9]),               -- copy
    ([0x6E,0x62,0x73,0x70], [0xC2,0xA0]),               -- nbsp
    ([0x61,0x75,0x6D,0x6C], [0xC3,0xA4]),               -- auml
    ([0x6F,0x75,0x6D,0x6C], [0xC3,0xB6]),               -- ouml
    ([0x66,0x72,0x61,0x63,0x33,0x34], [0xC2,0xBE]),     -- frac34
    ([0x68,0x65,0x61,0x72,0x74,0x73], [0xE2,0x99,0xA5]),-- hearts
    ([0x6E,0x64,0x61,0x73,0x68], [0xE2,0x80,0x93]),     -- ndash
    ([0x44,0x63,0x61,0x72,0x6F,0x6E], [0xC4,0x8E]),     -- Dcaron
    ([0x6E,0x65], [0xE2,0x89,0xA0]) ]                   -- ne

/-- Multi-byte characters the text alphabet contains (whole UTF-8 sequences). -/
def uniTable : List Bytes :=
  [ [0xC3,0xA9], [0xC3,0x9F], [0xD1,0x8F], [0xE6,0x97,0xA5], [0xF0,0x9F,0x98,0x80], [0xE2,0x82,0xAC] ]

inductive Atom where
  /-- a character written as itself (letters, digits, space, harmless punctuation) -/
  | ch (c : UInt8)
  /-- an ASCII punctuation character written with a backslash: `\c` -/
  | esc (c : UInt8)
  /-- named character reference number `i` of `entTable`: `&name;` -/
  | ent (i : Nat)
  /-- numeric character reference of an ASCII character: `&#DD;` or `&#xHH;` -/
  | num (c : UInt8) (hex : Bool)
  /-- multi-byte character number `i` of `uniTable`, written as itself -/
  | uni (i : Nat)
  deriving Repr, DecidableEq, Inhabited

/-- Decimal digits of a number (kernel-friendly). -/
def decBytes (n : Nat) : Bytes := (Nat.toDigits 10 n).map fun c => UInt8.ofNat c.toNat
def hexBytes (n : Nat) : Bytes := (Nat.toDigits 16 n).map fun c => UInt8.ofNat c.toNat

/-- The text an atom stands for. -/
def Atom.val : Atom → Bytes
  | .ch c => [c]
  | .esc c => [c]
  | .ent i => (entTable.getD i ([], [])).2
  | .num c _ => [c]
  | .uni i => uniTable.getD i []

/-- How the canonical writer spells an atom. -/
def Atom.src : Atom → Bytes
  | .ch c => [c]
  | .esc c => [0x5C, c]
  | .ent i => [0x26] ++ (entTable.getD i ([], [])).1 ++ [0x3B]
  | .num c false => [0x26, 0x23] ++ decBytes c.toNat ++ [0x3B]
  | .num c true => [0x26, 0x23, 0x78] ++ hexBytes c.toNat ++ [0x3B]
  | .uni i => uniTable.getD i []

def atomsVal (as : List Atom) : Bytes := as.flatMap Atom.val
def atomsSrc (as : List Atom) : Bytes := as.flatMap Atom.src

/-! ## Documents -/

/-- URI schemes used by autolinks. -/
def schemeTable : List Bytes :=
  [ [0x68,0x74,0x74,0x70], [0x68,0x74,0x74,0x70,0x73], [0x66,0x74,0x70],
    [0x6D,0x61,0x69,0x6C,0x74,0x6F], [0x69,0x72,0x63] ]   -- http https ftp mailto irc

/-- How a link is spelled: inline `[text](dest "title")`, or as a full reference `[text][label]`
    whose definition `[defLabel]: dest "title"` the writer puts into the leading (`before`) or the
    trailing definition block of the document. `label` and `defLabel` may differ in letter case. -/
inductive Spell where
  | inline
  | ref (label defLabel : Bytes) (before : Bool)
  deriving Repr, DecidableEq, Inhabited

/-- A link reference definition as written. -/
structure RefDef where
  label : Bytes
  url : Bytes
  title : Bytes
  angle : Bool
  before : Bool
  /-- the label as spelled at the use site (empty for a definition nothing refers to) -/
  useLabel : Bytes := []
  deriving Repr, DecidableEq, Inhabited

mutual
inductive Inl where
  | text (as : List Atom)
  /-- code span delimited by `n` backticks -/
  | code (n : Nat) (s : Bytes)
  /-- `us`: delimiter is `_` instead of `*` -/
  | emph (us : Bool) (cs : Inls)
  | strong (us : Bool) (cs : Inls)
  /-- GFM strikethrough `~~..~~` -/
  | strike (cs : Inls)
  /-- inline link; `angle`: destination written `<url>`; empty title = no title -/
  | link (url title : Bytes) (angle : Bool) (sp : Spell) (cs : Inls)
  | image (url title : Bytes) (angle : Bool) (cs : Inls)
  /-- `<scheme:rest>` -/
  | autolink (scheme : Nat) (rest : Bytes)
  /-- hard line break; `bs`: written backslash-newline, otherwise two spaces and newline -/
  | hard (bs : Bool)
  | soft
  /-- footnote reference `[^name]`; `refNum`: this is the n-th reference to that note, `ix`: the
      number of the note (notes are numbered in the order of their first reference): the two
      fields comrak's footnote pass fills in; `Doc.ok` wants them to be exactly these numbers -/
  | fnref (name : Bytes) (refNum ix : Nat)
inductive Inls where
  | nil
  | cons (i : Inl) (r : Inls)
end

/-- List marker: bullet character or start number and delimiter; tightness. -/
structure Marker where
  ordered : Bool := false
  bullet : UInt8 := 0x2D
  start : Nat := 1
  paren : Bool := false
  tight : Bool := true
  deriving Repr, DecidableEq, Inhabited

/-- Task-list marker of a list item (GFM tasklist extension): none, `[ ]`, or `[x]` / `[X]`. -/
inductive Task where
  | no
  | unchecked
  | checked (c : UInt8)
  deriving Repr, DecidableEq, Inhabited

mutual
inductive Blk where
  | para (is : Inls)
  | heading (level : Nat) (is : Inls)
  /-- setext heading (level 1: `=`, level 2: `-`), underline of `n` characters -/
  | setext (level : Nat) (n : Nat) (is : Inls)
  /-- thematic break: `n` copies of `c` -/
  | hr (c : UInt8) (n : Nat)
  /-- fenced code block: fence of `len` copies of `c`, info string, literal lines -/
  | fence (c : UInt8) (len : Nat) (info : Bytes) (lines : List Bytes)
  /-- indented code block: every non-empty line indented by four spaces -/
  | icode (lines : List Bytes)
  | quote (bs : Blks)
  | list (m : Marker) (items : Items)
  /-- GFM table: one alignment per column, the header cells, the body rows (cells are inline
      sequences; `Doc.ok` wants every row to have exactly one cell per column) -/
  | table (aligns : List Align) (header : List Inls) (rows : List (List Inls))
  /-- HTML block (start condition 6: `<div>`, `</table>`, ...): the lines up to the next blank line -/
  | htmlb (lines : List Bytes)
inductive Blks where
  | nil
  | cons (b : Blk) (r : Blks)
inductive Items where
  | nil
  /-- `task`: the item's first block is a paragraph written after a task marker -/
  | cons (task : Task) (bs : Blks) (r : Items)
end

/-- A footnote: name, number of references to it (`total_references`), one paragraph of text. -/
structure Note where
  name : Bytes
  total : Nat
  body : Inls

structure Doc where
  blocks : Blks
  /-- extra definitions written after every other one: they can only lose ("first definition wins") -/
  shadow : List RefDef := []
  /-- the footnotes that are referenced, in the order of their first reference (the order comrak
      moves them into at the end of the document) -/
  notes : List Note := []
  /-- the order in which the writer emits the definitions: positions in `notes` -/
  noteOrder : List Nat := []
  /-- definitions nothing refers to: written after the others, dropped by comrak -/
  unused : List Note := []

instance : Inhabited Inls := ⟨.nil⟩
instance : Inhabited Blks := ⟨.nil⟩
instance : Inhabited Items := ⟨.nil⟩

def Inls.isNil : Inls → Bool | .nil => true | .cons .. => false
def Blks.isNil : Blks → Bool | .nil => true | .cons .. => false
def Items.isNil : Items → Bool | .nil => true | .cons .. => false
def Task.isTask : Task → Bool | .no => false | _ => true
def Items.anyTask : Items → Bool | .nil => false | .cons t _ r => t.isTask || r.anyTask
def Inls.length : Inls → Nat | .nil => 0 | .cons _ r => r.length + 1
def Blks.length : Blks → Nat | .nil => 0 | .cons _ r => r.length + 1
def Items.length : Items → Nat | .nil => 0 | .cons _ _ r => r.length + 1

def Inls.ofList : List Inl → Inls | [] => .nil | i :: r => .cons i (Inls.ofList r)
def Blks.ofList : List Blk → Blks | [] => .nil | b :: r => .cons b (Blks.ofList r)
def Items.ofList : List Blks → Items | [] => .nil | b :: r => .cons .no b (Items.ofList r)
def Items.ofListT : List (Task × Blks) → Items | [] => .nil | b :: r => .cons b.1 b.2 (Items.ofListT r)

/-! ## The tree a document spells -/

def autolinkUrl (scheme : Nat) (rest : Bytes) : Bytes := schemeTable.getD scheme [] ++ [0x3A] ++ rest

def leaf (v : NodeValue) : Tree := .node v {} .nil

mutual
def Inl.toTree : Inl → Tree
  | .text as => leaf (.text (atomsVal as))
  | .code n s => leaf (.code n s)
  | .emph _ cs => .node .emph {} cs.toForest
  | .strong _ cs => .node .strong {} cs.toForest
  | .strike cs => .node .strikethrough {} cs.toForest
  | .link url title _ _ cs => .node (.link url title) {} cs.toForest
  | .image url title _ cs => .node (.image url title) {} cs.toForest
  | .autolink s r => .node (.link (autolinkUrl s r) []) {} (.cons (leaf (.text (autolinkUrl s r))) .nil)
  | .hard _ => leaf .lineBreak
  | .soft => leaf .softBreak
  | .fnref name rn ix => leaf (.footnoteReference name rn ix)
def Inls.toForest : Inls → Forest
  | .nil => .nil
  | .cons i r => .cons i.toTree r.toForest
end

/-- Width of the list marker of item number `k`. -/
def Marker.width (m : Marker) (k : Nat) : Nat := if m.ordered then (decBytes k).length + 1 else 1

/-- comrak's `NodeList` for item number `k` (the list node carries the first item's data plus
    `tight`): `marker_offset` 0 (canonical documents do not indent markers), `padding` = marker
    width + the one space the writer puts after it. -/
def Marker.nlist (m : Marker) (k : Nat) (tight : Bool) : NList :=
  { ty := if m.ordered then .ordered else .bullet
    markerOffset := 0
    padding := m.width k + 1
    start := if m.ordered then k else 1
    delim := if m.ordered && m.paren then .paren else .period
    bulletChar := if m.ordered then 0 else m.bullet
    tight := tight
    isTaskList := false }

/-- The node of a list item: comrak turns an item whose first paragraph starts with a task marker
    into a `TaskItem` that carries the marker's character and no list data. -/
def Task.value (t : Task) (l : NList) : NodeValue :=
  match t with
  | .no => .item l
  | .unchecked => .taskItem none
  | .checked c => .taskItem (some [c])

/-- Literal of a code block: every line followed by a newline. -/
def joinLines (ls : List Bytes) : Bytes := ls.flatMap fun l => l ++ [0x0A]

/-- The cells of one table row. -/
def cellsForest : List Inls → Forest
  | [] => .nil
  | c :: r => .cons (.node .tableCell {} c.toForest) (cellsForest r)

/-- The body rows of a table. -/
def rowsForest : List (List Inls) → Forest
  | [] => .nil
  | r :: rs => .cons (.node (.tableRow false) {} (cellsForest r)) (rowsForest rs)

/-- Number of cells the body rows spell (`num_nonempty_cells`: comrak counts the cells it read
    from the input, for the body rows only; the header row is counted on the paragraph node the
    table replaces, i.e. not at all). -/
def bodyCells (rows : List (List Inls)) : Nat := (rows.map List.length).sum

mutual
def Blk.toTree : Blk → Tree
  | .para is => .node .paragraph {} is.toForest
  | .heading l is => .node (.heading l false) {} is.toForest
  | .setext l _ is => .node (.heading l true) {} is.toForest
  | .hr _ _ => leaf .thematicBreak
  | .fence c len info lines => leaf (.codeBlock true c len 0 info (joinLines lines))
  | .icode lines => leaf (.codeBlock false 0 0 0 [] (joinLines lines))
  | .quote bs => .node .blockQuote {} bs.toForest
  | .list m items =>
    .node (.list { m.nlist m.start m.tight with isTaskList := items.anyTask }) {} (items.toForest m m.start)
  | .htmlb ls => leaf (.htmlBlock 6 (joinLines ls))
  | .table al h rows =>
    .node (.table al h.length rows.length (bodyCells rows)) {}
      (.cons (.node (.tableRow true) {} (cellsForest h)) (rowsForest rows))
def Blks.toForest : Blks → Forest
  | .nil => .nil
  | .cons b r => .cons b.toTree r.toForest
def Items.toForest (m : Marker) (k : Nat) : Items → Forest
  | .nil => .nil
  | .cons t bs r => .cons (.node (t.value (m.nlist k false)) {} bs.toForest) (r.toForest m (k + 1))
end

/-- The blocks followed by `tail` (the footnote definitions of the document). -/
def Blks.toForestThen (tail : Forest) : Blks → Forest
  | .nil => tail
  | .cons b r => .cons b.toTree (r.toForestThen tail)

/-- A footnote definition holds one paragraph. -/
def Note.toTree (n : Note) : Tree :=
  .node (.footnoteDefinition n.name n.total) {} (.cons (.node .paragraph {} n.body.toForest) .nil)

def notesForest : List Note → Forest
  | [] => .nil
  | n :: r => .cons n.toTree (notesForest r)

/-- comrak's footnote pass moves the referenced definitions to the end of the document, ordered by
    first reference, and drops the others. -/
def Doc.toTree (d : Doc) : Tree := .node .document {} (d.blocks.toForestThen (notesForest d.notes))

/-! ## The canonical writer -/

def rep (n : Nat) (c : UInt8) : Bytes := List.replicate n c

def titleSrc (title : Bytes) : Bytes := if title.isEmpty then [] else [0x20, 0x22] ++ title ++ [0x22]
def destSrc (url : Bytes) (angle : Bool) : Bytes := if angle then [0x3C] ++ url ++ [0x3E] else url

mutual
/-- Inline content as one byte string; breaks contribute the newline. -/
def Inl.src : Inl → Bytes
  | .text as => atomsSrc as
  | .code n s => rep n 0x60 ++ s ++ rep n 0x60
  | .emph us cs => let d : UInt8 := if us then 0x5F else 0x2A; [d] ++ cs.src ++ [d]
  | .strong us cs => let d : UInt8 := if us then 0x5F else 0x2A; [d, d] ++ cs.src ++ [d, d]
  | .strike cs => [0x7E, 0x7E] ++ cs.src ++ [0x7E, 0x7E]
  | .link url title angle .inline cs => [0x5B] ++ cs.src ++ [0x5D, 0x28] ++ destSrc url angle ++ titleSrc title ++ [0x29]
  | .link _ _ _ (.ref label _ _) cs => [0x5B] ++ cs.src ++ [0x5D, 0x5B] ++ label ++ [0x5D]
  | .image url title angle cs => [0x21, 0x5B] ++ cs.src ++ [0x5D, 0x28] ++ destSrc url angle ++ titleSrc title ++ [0x29]
  | .autolink s r => [0x3C] ++ autolinkUrl s r ++ [0x3E]
  | .hard true => [0x5C, 0x0A]
  | .hard false => [0x20, 0x20, 0x0A]
  | .soft => [0x0A]
  | .fnref name _ _ => [0x5B, 0x5E] ++ name ++ [0x5D]
def Inls.src : Inls → Bytes
  | .nil => []
  | .cons i r => i.src ++ r.src
end

/-- Split at newlines (no terminator on the last piece). -/
def splitNl : Bytes → List Bytes
  | [] => [[]]
  | b :: r =>
    match splitNl r with
    | [] => [[]]   -- unreachable
    | l :: ls => if b = 0x0A then [] :: l :: ls else (b :: l) :: ls

/-- The list marker of item number `k`. -/
def Marker.src (m : Marker) (k : Nat) : Bytes :=
  if m.ordered then decBytes k ++ [if m.paren then 0x29 else 0x2E] else [m.bullet]

/-- Lines of a list item: marker and one space before the first line, marker width + 1 spaces
    before every other non-blank line. -/
def itemLines (mk : Bytes) : List Bytes → List Bytes
  | [] => [mk]
  | l :: rest => (mk ++ [0x20] ++ l) :: rest.map fun l => if l.isEmpty then [] else rep (mk.length + 1) 0x20 ++ l

/-- The task marker and the space after it. -/
def Task.src : Task → Bytes
  | .no => []
  | .unchecked => [0x5B, 0x20, 0x5D, 0x20]
  | .checked c => [0x5B, c, 0x5D, 0x20]

/-- The marker stands at the start of the item's first line. -/
def Task.mark (t : Task) : List Bytes → List Bytes
  | [] => []
  | l :: r => (t.src ++ l) :: r

def quoteLine (l : Bytes) : Bytes := if l.isEmpty then [0x3E] else [0x3E, 0x20] ++ l

/-- Delimiter-row cell of a column. -/
def alignSrc : Align → Bytes
  | .none => [0x2D, 0x2D, 0x2D]
  | .left => [0x3A, 0x2D, 0x2D]
  | .right => [0x2D, 0x2D, 0x3A]
  | .center => [0x3A, 0x2D, 0x3A]

/-- A table row: leading pipe, every cell padded with one space on each side and closed by a pipe. -/
def rowSrc (cells : List Bytes) : Bytes := [0x7C] ++ cells.flatMap fun c => [0x20] ++ c ++ [0x20, 0x7C]

mutual
/-- Lines (without terminators) of a block. -/
def Blk.lines : Blk → List Bytes
  | .para is => splitNl is.src
  | .heading l is => [rep l 0x23 ++ [0x20] ++ is.src]
  | .setext l n is => splitNl is.src ++ [rep n (if l = 1 then 0x3D else 0x2D)]
  | .hr c n => [rep n c]
  | .fence c len info ls => [rep len c ++ info] ++ ls ++ [rep len c]
  | .icode ls => ls.map fun l => if l.isEmpty then [] else rep 4 0x20 ++ l
  | .quote bs => (bs.lines false).map quoteLine
  | .list m items => items.lines m m.start
  | .htmlb ls => ls
  | .table al h rows =>
    [rowSrc (h.map Inls.src), rowSrc (al.map alignSrc)] ++ rows.map fun r => rowSrc (r.map Inls.src)
/-- Blocks of one container; separated by one blank line unless `tight`. -/
def Blks.lines (tight : Bool) : Blks → List Bytes
  | .nil => []
  | .cons b r => b.lines ++ (if tight || r.isNil then [] else [[]]) ++ r.lines tight
def Items.lines (m : Marker) (k : Nat) : Items → List Bytes
  | .nil => []
  | .cons t bs r =>
    itemLines (m.src k) (t.mark (bs.lines m.tight)) ++ (if m.tight || r.isNil then [] else [[]]) ++ r.lines m (k + 1)
end

/-! ### Reference definitions -/

mutual
/-- The definitions the reference-spelled links of this content need, in document order. -/
def Inl.defs : Inl → List RefDef
  | .emph _ cs => cs.defs
  | .strong _ cs => cs.defs
  | .strike cs => cs.defs
  | .link url title angle (.ref label dl b) cs =>
    { label := dl, url := url, title := title, angle := angle, before := b, useLabel := label } :: cs.defs
  | .link _ _ _ .inline cs => cs.defs
  | .image _ _ _ cs => cs.defs
  | _ => []
def Inls.defs : Inls → List RefDef
  | .nil => []
  | .cons i r => i.defs ++ r.defs
end

mutual
def Blk.defs : Blk → List RefDef
  | .para is => is.defs
  | .heading _ is => is.defs
  | .setext _ _ is => is.defs
  | .quote bs => bs.defs
  | .list _ items => items.defs
  | .table _ h rows => h.flatMap Inls.defs ++ rows.flatMap fun r => r.flatMap Inls.defs
  | _ => []
def Blks.defs : Blks → List RefDef
  | .nil => []
  | .cons b r => b.defs ++ r.defs
def Items.defs : Items → List RefDef
  | .nil => []
  | .cons _ bs r => bs.defs ++ r.defs
end

/-- `[label]: dest "title"` -/
def RefDef.line (d : RefDef) : Bytes :=
  [0x5B] ++ d.label ++ [0x5D, 0x3A, 0x20] ++ destSrc d.url d.angle ++ titleSrc d.title

/-- `[^name]: text` -/
def Note.line (n : Note) : Bytes := [0x5B, 0x5E] ++ n.name ++ [0x5D, 0x3A, 0x20] ++ n.body.src

/-- The footnote definitions in the order they are written. -/
def Doc.writtenNotes (d : Doc) : List Note :=
  d.noteOrder.filterMap (fun i => d.notes[i]?) ++ d.unused

/-- The definitions the reference-spelled links of the whole document need (blocks, then footnotes). -/
def Doc.useDefs (d : Doc) : List RefDef :=
  d.blocks.defs ++ d.writtenNotes.flatMap fun n => n.body.defs

/-- All definitions in the order they are written: the leading block, then the trailing block,
    then the shadowed ones. -/
def Doc.allDefs (d : Doc) : List RefDef :=
  let ds := d.useDefs
  ds.filter (fun x => x.before) ++ ds.filter (fun x => !x.before) ++ d.shadow

/-- Groups of lines separated by one blank line (empty groups vanish). -/
def joinGroups : List (List Bytes) → List Bytes
  | [] => []
  | g :: rest =>
    let r := joinGroups rest
    if g.isEmpty then r else if r.isEmpty then g else g ++ [[]] ++ r

/-- (footnote definitions come last, each after a blank line)
    The Markdown text of a document: every line terminated by a newline; the definitions of
    reference-spelled links stand in a block before or after the content. -/
def Doc.write (d : Doc) : Bytes :=
  let ds := d.useDefs
  joinLines (joinGroups
    ([ (ds.filter (fun x => x.before)).map RefDef.line,
       d.blocks.lines false,
       (ds.filter (fun x => !x.before) ++ d.shadow).map RefDef.line ] ++
     d.writtenNotes.map fun n => [n.line]))

end Comrak.Canon
