/-
The part of `Doc.ok` the renderer-agreement theorem uses (everything else in `Doc.ok` only makes
the *spelling* unambiguous for the parser):

* URLs are not of a scheme comrak's default safe mode blanks (`javascript:`, `vbscript:`,
  `file:`, `data:` other than four image types) and contain no `'` (comrak writes it `&#x27;`,
  a choice the specification's examples do not cover); footnote names are letters and digits
  (they are written into `href` / `id` attributes as they are);
* the info string of a code block is not exactly `math` (comrak renders that block with an extra
  `data-math-style` attribute even with every extension off) and has no line ending in it.
-/
import Comrak.Canon.Doc
import Comrak.Url
namespace Comrak.Canon
open Comrak Bytes

def urlSafe (url : Bytes) : Bool := url.all (fun b => b != 0x27) && !dangerousUrl url

def mathInfo : Bytes := [0x6D, 0x61, 0x74, 0x68]

def infoSafe (info : Bytes) : Bool := info != mathInfo && info.all (fun b => b != 0x0A && b != 0x0D)

mutual
def Inl.safe : Inl → Bool
  | .emph _ cs => cs.safe
  | .strong _ cs => cs.safe
  | .strike cs => cs.safe
  | .link url _ _ _ cs => urlSafe url && cs.safe
  | .image url _ _ cs => urlSafe url && cs.safe
  | .autolink s r => urlSafe (autolinkUrl s r)
  | .fnref name _ _ => name.all isAsciiAlnum
  | _ => true
def Inls.safe : Inls → Bool
  | .nil => true
  | .cons i r => i.safe && r.safe
end

mutual
def Blk.safe : Blk → Bool
  | .para is => is.safe
  | .heading _ is => is.safe
  | .setext _ _ is => is.safe
  | .hr _ _ => true
  | .icode _ => true
  | .fence _ _ info _ => infoSafe info
  | .quote bs => bs.safe
  | .list _ items => items.safe
  | .htmlb _ => true
  | .table _ h rows => h.all Inls.safe && rows.all fun r => r.all Inls.safe
def Blks.safe : Blks → Bool
  | .nil => true
  | .cons b r => b.safe && r.safe
def Items.safe : Items → Bool
  | .nil => true
  | .cons _ bs r => bs.safe && r.safe
end

def Note.safe (n : Note) : Bool := n.name.all isAsciiAlnum && n.body.safe

def Doc.safe (d : Doc) : Bool := d.blocks.safe && d.notes.all Note.safe

end Comrak.Canon
