/-
`Doc.ok`: the decidable side condition under which the canonical spelling `Doc.write d` is
unambiguous (stage 1).  `Doc.ok d = d.wf && d.safe`; `safe` (Comrak/Canon/Safe.lean) is the part
the renderer-agreement theorem needs, `wf` is what keeps the parser from reading the text any
other way.  The clauses, by construct:

text      non-empty; inside link text / image descriptions a text is one run of plain characters
          or one escape / reference (comrak does not merge text nodes there); plain characters are letters, digits, space and `, ; ? / { } @ %`;
          every other ASCII punctuation character appears only backslash-escaped or as a
          character reference, so no text byte can start a block, a delimiter run, a bracket, an
          entity, a code span or raw HTML; no space at the start of a line or of heading content,
          none before a line end; two text inlines are never adjacent (the parser merges them).
code      1..5 backticks, longer than every backtick run of the content; content printable ASCII,
          non-empty, not starting/ending with space or backtick; no backtick right before or
          after the span; fewer than 3 backticks at the start of a line (would open a fence); no `]`
          in a code span inside link text (at the start of a paragraph `[..]:` would be read as a
          link reference definition, which does not respect code spans).
emphasis  (also `~~` strikethrough, with `~` excluded next to every run)
          (`*` or `_`, single or double) the content starts and ends with a letter or digit of a
          text inline; the byte before the opening run is a line start, a space or ASCII
          punctuation other than `*`/`_`, and so is the byte after the closing run: openers
          cannot close, closers cannot open, runs never touch (no rule-of-three cases).
links     a reference-spelled link `[text][label]` has a label of 2..20 letters/digits (a one-letter
          label `x` would turn a task marker `[x]` into a link) equal to the
          label of its definition up to letter case, and the first definition written for that
          label (leading block, then trailing block, then the shadowed extras) carries exactly
          this link's destination and title;
          no link or autolink inside link text; destination over `A-Za-z0-9/:.-_~?=#%+&@,`
          (bare: non-empty; in `<..>` also spaces and empty); title over letters, digits,
          space and `'(),.!?<>:;-`, no space at its ends, written in double quotes.
breaks    never first or last in their sequence, never in headings, not next to a space or
          another break; inside link text / image descriptions the two-space hard break follows
          a plain text run (after anything else comrak leaves an empty text node there).
blocks    heading level 1..6 with non-empty content; setext heading level 1 or 2 with an underline
          of 2..12 characters, content as a paragraph; indented code: printable ASCII lines, blank
          lines empty, first and last line not blank, not after a list or another indented code
          block, in a tight item only as the first block; thematic break of 3+ `*`, `-` or `_`, not the
          bullet character of the item it starts, not `-` inside a tight item (setext);
          fence of 3+ backticks or tildes, info word over letters, digits and `-+.#_`, content
          lines printable ASCII, none starting (after spaces) with three fence characters;
          block quotes and list items non-empty; adjacent lists differ in bullet character or
          in delimiter; in a tight item only the first block may be a paragraph and a later
          ordered list starts at 1 and two block quotes are never adjacent; a loose list has a
          blank line that the parser registers (tables: see below): some block other than the very last one does not
          end in a thematic break (known finding: comrak ignores a blank line after a thematic
          break when it decides tightness); numbers below 10^9.
tables    at least one column; the header and every body row have exactly one cell per column; a
          cell is one line of inline content without breaks, not starting or ending with a space,
          possibly empty; `|` appears only as `\|` in text outside link text / image descriptions
          (or as a character reference), never in a code span; in a tight item only as the first
          block (the header row is a paragraph line until the delimiter row arrives); a tight
          list holds a table without body rows only as the very last block of its last item
          (known finding: comrak takes the end of the delimiter row for a blank line).
tasks     `[ ]`, `[x]` or `[X]` and one space before the first paragraph of a list item (the item
          must start with a paragraph); an item without marker must not start with text that reads
          `[ ]`/`[x]`/`[X]` after unescaping (known finding: comrak takes `\[x\] a` for a task).
notes     a reference `[^name]` (name of 1..8 letters/digits, spelled exactly as in the definition)
          stands outside link text and image descriptions, not after `!`, not before `[`, `(`, `:`;
          its two numbers are the ones comrak's footnote pass assigns (`fnCheck`); every referenced
          name has exactly one definition `[^name]: text` (one line of inline content without
          footnote references) written after everything else, in any order; names differ in more
          than letter case; extra definitions nothing refers to may follow.
html      start condition 6 with a lower-case tag name out of twelve; every line non-empty, printable
          ASCII, not starting with a space; in a tight item only as the last block (only a blank
          line ends the block).
-/
import Comrak.Canon.Safe
namespace Comrak.Canon
open Comrak Bytes

def isPunct (c : UInt8) : Bool :=
  (0x21 ≤ c && c ≤ 0x2F) || (0x3A ≤ c && c ≤ 0x40) || (0x5B ≤ c && c ≤ 0x60) || (0x7B ≤ c && c ≤ 0x7E)

/-- `, ; ? / { } @ %` -/
def plainPunct : Bytes := [0x2C, 0x3B, 0x3F, 0x2F, 0x7B, 0x7D, 0x40, 0x25]

def Atom.ok : Atom → Bool
  | .ch c => isAsciiAlnum c || c == 0x20 || plainPunct.contains c
  | .esc c => isPunct c
  | .ent i => i < entTable.length
  | .num c _ => 0x21 ≤ c && c ≤ 0x7E
  | .uni i => i < uniTable.length

def Atom.isSpace : Atom → Bool | .ch c => c == 0x20 | _ => false
def Atom.isAlnum : Atom → Bool | .ch c => isAsciiAlnum c | _ => false

def urlChar (c : UInt8) : Bool :=
  isAsciiAlnum c || [0x2F, 0x3A, 0x2E, 0x2D, 0x5F, 0x7E, 0x3F, 0x3D, 0x23, 0x25, 0x2B, 0x26, 0x40, 0x2C].contains c

def destOk (url : Bytes) (angle : Bool) : Bool :=
  if angle then url.all (fun c => urlChar c || c == 0x20) else !url.isEmpty && url.all urlChar

def titleChar (c : UInt8) : Bool :=
  isAsciiAlnum c || c == 0x20 || [0x27, 0x28, 0x29, 0x2C, 0x2E, 0x21, 0x3F, 0x3C, 0x3E, 0x3A, 0x3B, 0x2D].contains c

def titleOk (t : Bytes) : Bool :=
  t.all titleChar && t.head? != some 0x20 && t.getLast? != some 0x20

/-- Longest run of backticks. -/
def maxTicks (cur best : Nat) : Bytes → Nat
  | [] => max cur best
  | c :: r => if c = 0x60 then maxTicks (cur + 1) best r else maxTicks 0 (max cur best) r

/-- A byte that may stand right outside an emphasis delimiter run. -/
def okOutside (c : UInt8) : Bool := c == 0x0A || c == 0x20 || (isPunct c && c != 0x2A && c != 0x5F && c != 0x7E)

/-- Reference labels: letters and digits (case variants allowed between use and definition). -/
def labelOk (l : Bytes) : Bool := 2 ≤ l.length && l.length ≤ 20 && l.all isAsciiAlnum

def lowerB (l : Bytes) : Bytes := l.map toLowerAscii

/-- "First definition wins": the first written definition whose label matches case-insensitively. -/
def resolve (all : List RefDef) (label : Bytes) : Option RefDef :=
  all.find? fun d => lowerB d.label == lowerB label

def Inl.firstB : Inl → UInt8
  | .text as => (atomsSrc as).headD 0
  | .code .. => 0x60
  | .emph us _ => if us then 0x5F else 0x2A
  | .strong us _ => if us then 0x5F else 0x2A
  | .strike _ => 0x7E
  | .link .. => 0x5B
  | .image .. => 0x21
  | .autolink .. => 0x3C
  | .hard true => 0x5C
  | .hard false => 0x20
  | .soft => 0x0A
  | .fnref .. => 0x5B

def Inl.lastB : Inl → UInt8
  | .text as => (atomsSrc as).getLastD 0
  | .code .. => 0x60
  | .emph us _ => if us then 0x5F else 0x2A
  | .strong us _ => if us then 0x5F else 0x2A
  | .strike _ => 0x7E
  | .link _ _ _ .inline _ => 0x29
  | .link _ _ _ (.ref ..) _ => 0x5D
  | .image .. => 0x29
  | .autolink .. => 0x3E
  | .hard _ => 0x0A
  | .soft => 0x0A
  | .fnref .. => 0x5D

/-- Footnote names: 1..8 letters and digits. -/
def fnNameOk (l : Bytes) : Bool := !l.isEmpty && l.length ≤ 8 && l.all isAsciiAlnum

def Inl.isText : Inl → Bool | .text _ => true | _ => false

def Atom.isPlain : Atom → Bool | .ch _ => true | .uni _ => true | _ => false

/-- 0: not a text; 1: a run of plain characters; 2: one escape or character reference; 3: mixed.
    Inside link text and image descriptions comrak leaves the text nodes as the inline parser
    made them (one per plain run, one per escape / reference); everywhere else it merges them. -/
def Inl.textClass : Inl → Nat
  | .text as => if as.all Atom.isPlain then 1 else if as.length == 1 then 2 else 3
  | _ => 0

/-- May a text of class `c` follow a sibling of class `p`? -/
def textAdjOk (inBr : Bool) (p c : Nat) : Bool :=
  if inBr then c != 3 && !(p == 1 && c == 1) else !(p != 0 && c != 0)
def Inl.isBreak : Inl → Bool | .hard _ => true | .soft => true | _ => false

def Inls.firstB (after : UInt8) : Inls → UInt8 | .nil => after | .cons i _ => i.firstB

def Inls.startsAlnum : Inls → Bool
  | .cons (.text (a :: _)) _ => a.isAlnum
  | _ => false

def Inls.endsAlnum : Inls → Bool
  | .nil => false
  | .cons (.text as) .nil => match as.getLast? with | some a => a.isAlnum | none => false
  | .cons _ .nil => false
  | .cons _ r => r.endsAlnum

mutual
/-- `prev`/`nxt`: the bytes written right before and after this inline; `first`/`last`: its
    position in its sequence. -/
def Inl.wf (inLink inBr breaks : Bool) (prev nxt : UInt8) (first last : Bool) (prevClass : Nat) : Inl → Bool
  | .text as =>
    !as.isEmpty && as.all Atom.ok &&
    (match as.head? with | some a => !(a.isSpace && (prev == 0x0A || prev == 0x20)) | none => true) &&
    (match as.getLast? with | some a => !(a.isSpace && (nxt == 0x0A || nxt == 0x20)) | none => true)
  | .code n s =>
    1 ≤ n && n ≤ 5 && !s.isEmpty && s.all (fun c => 0x20 ≤ c && c ≤ 0x7E) &&
    s.head? != some 0x20 && s.head? != some 0x60 && s.getLast? != some 0x20 && s.getLast? != some 0x60 &&
    maxTicks 0 0 s < n && prev != 0x60 && nxt != 0x60 && (prev != 0x0A || n < 3) && !(inBr && s.contains 0x5D)
  | .emph us cs =>
    let d : UInt8 := if us then 0x5F else 0x2A
    okOutside prev && okOutside nxt && cs.startsAlnum && cs.endsAlnum && cs.wf inLink inBr breaks d d true 0
  | .strong us cs =>
    let d : UInt8 := if us then 0x5F else 0x2A
    okOutside prev && okOutside nxt && cs.startsAlnum && cs.endsAlnum && cs.wf inLink inBr breaks d d true 0
  | .strike cs =>
    okOutside prev && okOutside nxt && cs.startsAlnum && cs.endsAlnum && cs.wf inLink inBr breaks 0x7E 0x7E true 0
  | .link url title angle sp cs =>
    (match sp with
     | .inline => true
     | .ref label dl _ => labelOk label && labelOk dl && lowerB label == lowerB dl && (angle || !url.isEmpty)) &&
    !inLink && !cs.isNil && destOk url angle && titleOk title && cs.wf true true breaks 0x5B 0x5D true 0
  | .image url title angle cs =>
    !cs.isNil && destOk url angle && titleOk title && cs.wf inLink true breaks 0x5B 0x5D true 0
  | .autolink s r => !inLink && s < schemeTable.length && r.all urlChar
  | .hard bs => breaks && !first && !last && prev != 0x0A && prev != 0x20 && nxt != 0x0A && nxt != 0x20 &&
    (bs || !inBr || prevClass == 1)
  | .soft => breaks && !first && !last && prev != 0x0A && prev != 0x20 && nxt != 0x0A && nxt != 0x20
  | .fnref name rn ix =>
    !inBr && fnNameOk name && 1 ≤ rn && 1 ≤ ix && prev != 0x21 && nxt != 0x5B && nxt != 0x28 && nxt != 0x3A
def Inls.wf (inLink inBr breaks : Bool) (prev after : UInt8) (first : Bool) (prevClass : Nat) : Inls → Bool
  | .nil => true
  | .cons i r =>
    textAdjOk inBr prevClass i.textClass &&
    i.wf inLink inBr breaks prev (r.firstB after) first r.isNil prevClass &&
    r.wf inLink inBr breaks i.lastB after false i.textClass
end

/-! ## Table cells -/

mutual
/-- Inside a table cell the row splitter sees the bytes before the inline parser does: a code span
    must not contain `|` (the splitter would end the cell there, and `\|` would lose its
    backslash), and inside link text / image descriptions, where comrak keeps one text node per
    escape, `\|` is not used (the splitter has already turned it into a plain `|`). -/
def Inl.cellOk (inBr : Bool) : Inl → Bool
  | .text as => !(inBr && as.contains (.esc 0x7C))
  | .code _ s => !s.contains 0x7C
  | .emph _ cs => cs.cellOk inBr
  | .strong _ cs => cs.cellOk inBr
  | .strike cs => cs.cellOk inBr
  | .link _ _ _ _ cs => cs.cellOk true
  | .image _ _ _ cs => cs.cellOk true
  | _ => true
def Inls.cellOk (inBr : Bool) : Inls → Bool
  | .nil => true
  | .cons i r => i.cellOk inBr && r.cellOk inBr
end

/-- A cell: one line of inline content (no breaks) between `| ` and ` |`; may be empty. -/
def cellWf (c : Inls) : Bool := c.wf false false false 0x20 0x20 true 0 && c.cellOk false

/-! ## Blocks -/

def Blk.isPara : Blk → Bool | .para _ => true | _ => false

/-- Would two adjacent lists be read as one? -/
def sameList (a b : Marker) : Bool :=
  if a.ordered then b.ordered && a.paren == b.paren else !b.ordered && a.bullet == b.bullet

/-- What the next sibling needs to know about a block. -/
inductive Prev where
  | none | list (m : Marker) | quote | icode | other
  deriving Inhabited

def Blk.asPrev : Blk → Prev | .list m _ => .list m | .quote _ => .quote | .icode _ => .icode | _ => .other

def blankLine (l : Bytes) : Bool := l.all (fun b => b == 0x20)

def infoChar (c : UInt8) : Bool := isAsciiAlnum c || [0x2D, 0x2B, 0x2E, 0x23, 0x5F].contains c

/-- Tag names of HTML-block start condition 6 the class uses. -/
def html6Tags : List Bytes :=
  [ [0x64,0x69,0x76], [0x70], [0x74,0x61,0x62,0x6C,0x65], [0x75,0x6C], [0x73,0x65,0x63,0x74,0x69,0x6F,0x6E],
    [0x68,0x31], [0x62,0x6C,0x6F,0x63,0x6B,0x71,0x75,0x6F,0x74,0x65], [0x64,0x65,0x74,0x61,0x69,0x6C,0x73],
    [0x66,0x6F,0x72,0x6D], [0x6C,0x69], [0x74,0x64], [0x68,0x72] ]
  -- div p table ul section h1 blockquote details form li td hr

/-- CommonMark 4.6, start condition 6: `<` or `</`, a tag name of the list, then a space, `>`,
    `/>` or the end of the line. -/
def html6Start (l : Bytes) : Bool :=
  match l with
  | 0x3C :: r =>
    let r := if r.head? == some 0x2F then r.tail else r
    html6Tags.any fun t =>
      t.isPrefixOf r &&
        (match r.drop t.length with
         | [] => true
         | c :: r2 => c == 0x20 || c == 0x3E || (c == 0x2F && r2.head? == some 0x3E))
  | _ => false

/-- The text of a list item's first paragraph begins like a task marker (`[ ]`, `[x]`, `[X]`
    followed by a space or by the end of the text node): comrak looks for the marker in the parsed
    text, so brackets written as `\[x\]` or `&#91;x]` are taken for one too (known finding). -/
def taskMatch (v : Bytes) : Bool :=
  match v with
  | 0x5B :: c :: 0x5D :: rest => (c == 0x20 || c == 0x78 || c == 0x58) && (rest.isEmpty || rest.head? == some 0x20)
  | _ => false

def Blks.taskLike : Blks → Bool
  | .cons (.para (.cons (.text as) _)) _ => taskMatch (atomsVal as)
  | _ => false

def Blks.startsPara : Blks → Bool
  | .cons (.para _) _ => true
  | _ => false

def Blk.isHtml : Blk → Bool | .htmlb _ => true | _ => false

/-- A task marker needs a paragraph to stand in; an item without one must not look like it had one. -/
def Task.ok (t : Task) (bs : Blks) : Bool :=
  match t with
  | .no => !bs.taskLike
  | .unchecked => bs.startsPara
  | .checked c => (c == 0x78 || c == 0x58) && bs.startsPara

/-- A code line that could be taken for the closing fence. -/
def closesFence (c : UInt8) (l : Bytes) : Bool :=
  match l.dropWhile (fun b => b == 0x20) with
  | a :: b :: d :: _ => a == c && b == c && d == c
  | _ => false

mutual
/-- The last line of the block is a thematic break: comrak (like cmark) does not register a
    blank line that follows it, so such a blank line cannot make a list loose. -/
def Blk.hrEnding : Blk → Bool
  | .hr _ _ => true
  | .list _ items => items.hrEnding
  | _ => false
def Blks.hrEnding : Blks → Bool
  | .nil => false
  | .cons b .nil => b.hrEnding
  | .cons _ r => r.hrEnding
def Items.hrEnding : Items → Bool
  | .nil => false
  | .cons _ bs .nil => bs.hrEnding
  | .cons _ _ r => r.hrEnding
end

/-- Some block other than the very last one does not end in a thematic break. -/
def Blks.witness (lastItem : Bool) : Blks → Bool
  | .nil => false
  | .cons b r => (!(lastItem && r.isNil) && !b.hrEnding) || r.witness lastItem

/-- A loose list is written with a blank line after every block but the last; at least one of
    them must be registered by the parser. -/
def Items.witness : Items → Bool
  | .nil => false
  | .cons _ bs r => bs.witness r.isNil || r.witness

mutual
/-- The last line of the block is the delimiter row of a table without body rows: comrak consumes
    the rest of that line and then takes the (now empty) remainder for a blank line, so the table
    counts as "followed by a blank line" when list tightness is decided (known finding). -/
def Blk.tblEnding : Blk → Bool
  | .table _ _ rows => rows.isEmpty
  | .list _ items => items.tblEnding
  | _ => false
def Blks.tblEnding : Blks → Bool
  | .nil => false
  | .cons b .nil => b.tblEnding
  | .cons _ r => r.tblEnding
def Items.tblEnding : Items → Bool
  | .nil => false
  | .cons _ bs .nil => bs.tblEnding
  | .cons _ _ r => r.tblEnding
end

/-- Some block other than the very last one ends in a header-only table. -/
def Blks.trap (lastItem : Bool) : Blks → Bool
  | .nil => false
  | .cons b r => (!(lastItem && r.isNil) && b.tblEnding) || r.trap lastItem

/-- A tight list must not contain, anywhere but at its very end, a block that ends in a header-only
    table: comrak would make the list loose. -/
def Items.trap : Items → Bool
  | .nil => false
  | .cons _ bs r => bs.trap r.isNil || r.trap

mutual
/-- `tight`: direct child of an item of a tight list; `bullet`: bullet character of the item this
    block starts (0 if none); `idx`: position among its siblings; `prevList`: marker of the
    preceding sibling if that is a list, or the fact that it is a block quote. -/
def Blk.wf (tight : Bool) (bullet : UInt8) (idx : Nat) (prev : Prev) : Blk → Bool
  | .para is => !(tight && idx != 0) && !is.isNil && is.wf false false true 0x0A 0x0A true 0
  | .heading l is => 1 ≤ l && l ≤ 6 && !is.isNil && is.wf false false false 0x20 0x0A true 0
  | .setext l n is =>
    (l == 1 || l == 2) && 2 ≤ n && n ≤ 12 && !(tight && idx != 0) && !is.isNil && is.wf false false true 0x0A 0x0A true 0
  | .icode ls =>
    !(tight && idx != 0) && (match prev with | .list _ => false | .icode => false | _ => true) &&
    !ls.isEmpty && ls.all (fun l => l.all (fun b => 0x20 ≤ b && b ≤ 0x7E) && (l.isEmpty || !blankLine l)) &&
    (match ls.head? with | some l => !l.isEmpty | none => false) &&
    (match ls.getLast? with | some l => !l.isEmpty | none => false)
  | .hr c n =>
    (c == 0x2A || c == 0x2D || c == 0x5F) && 3 ≤ n && n ≤ 12 && !(idx == 0 && c == bullet) && !(tight && c == 0x2D)
  | .fence c len info ls =>
    (c == 0x60 || c == 0x7E) && 3 ≤ len && len ≤ 12 && info.all infoChar &&
    ls.all (fun l => l.all (fun b => 0x20 ≤ b && b ≤ 0x7E) && !closesFence c l)
  | .quote bs => !(tight && (match prev with | .quote => true | _ => false)) && !bs.isNil && bs.wf false 0 0 .none
  | .list m items =>
    (match prev with | .list p => !sameList p m | _ => true) &&
    (if m.ordered then m.start + items.length ≤ 999999999 && !(tight && idx != 0 && m.start != 1)
     else m.bullet == 0x2D || m.bullet == 0x2B || m.bullet == 0x2A) &&
    !items.isNil && (m.tight || items.witness) && !(m.tight && items.trap) &&
    items.wf m
  | .htmlb ls =>
    (match ls.head? with | some l => html6Start l | none => false) &&
    ls.all (fun l => !l.isEmpty && l.all (fun b => 0x20 ≤ b && b ≤ 0x7E) && l.head? != some 0x20)
  | .table al h rows =>
    !(tight && idx != 0) && !al.isEmpty && h.length == al.length && rows.all (fun r => r.length == al.length) &&
    h.all cellWf && rows.all (fun r => r.all cellWf)
def Blks.wf (tight : Bool) (bullet : UInt8) (idx : Nat) (prev : Prev) : Blks → Bool
  | .nil => true
  | .cons b r =>
    b.wf tight bullet idx prev && !(tight && b.isHtml && !r.isNil) && r.wf tight bullet (idx + 1) b.asPrev
def Items.wf (m : Marker) : Items → Bool
  | .nil => true
  | .cons t bs r => !bs.isNil && t.ok bs && bs.wf m.tight (if m.ordered then 0 else m.bullet) 0 .none && r.wf m
end

/-! ## Footnotes -/

mutual
/-- The footnote references of inline content, in document order: (name, refNum, ix). -/
def Inl.fnrefs : Inl → List (Bytes × Nat × Nat)
  | .fnref n r i => [(n, r, i)]
  | .emph _ cs => cs.fnrefs
  | .strong _ cs => cs.fnrefs
  | .strike cs => cs.fnrefs
  | .link _ _ _ _ cs => cs.fnrefs
  | .image _ _ _ cs => cs.fnrefs
  | _ => []
def Inls.fnrefs : Inls → List (Bytes × Nat × Nat)
  | .nil => []
  | .cons i r => i.fnrefs ++ r.fnrefs
end

mutual
def Blk.fnrefs : Blk → List (Bytes × Nat × Nat)
  | .para is => is.fnrefs
  | .heading _ is => is.fnrefs
  | .setext _ _ is => is.fnrefs
  | .quote bs => bs.fnrefs
  | .list _ items => items.fnrefs
  | .table _ h rows => h.flatMap Inls.fnrefs ++ rows.flatMap fun r => r.flatMap Inls.fnrefs
  | _ => []
def Blks.fnrefs : Blks → List (Bytes × Nat × Nat)
  | .nil => []
  | .cons b r => b.fnrefs ++ r.fnrefs
def Items.fnrefs : Items → List (Bytes × Nat × Nat)
  | .nil => []
  | .cons _ bs r => bs.fnrefs ++ r.fnrefs
end

/-- comrak's numbering: walking the references in document order, a name seen for the first time
    gets the next note number and reference number 1; a name seen before keeps its note number
    and counts up.  `seen`: the notes so far with their reference counts.  Returns the final
    (name, total) list if every reference carries exactly these numbers. -/
def fnCheck : List (Bytes × Nat) → List (Bytes × Nat × Nat) → Option (List (Bytes × Nat))
  | seen, [] => some seen
  | seen, (n, rn, ix) :: rest =>
    match seen.findIdx? (fun p => p.1 == n) with
    | some i =>
      let c := (seen.getD i ([], 0)).2
      if ix == i + 1 && rn == c + 1 then fnCheck (seen.set i (n, c + 1)) rest else none
    | none => if ix == seen.length + 1 && rn == 1 then fnCheck (seen ++ [(n, 1)]) rest else none

/-- A footnote definition `[^name]: text`: one line of inline content (it starts a paragraph inside
    the definition, so it obeys the rules of a paragraph start), no footnote references inside. -/
def Note.wf (n : Note) : Bool :=
  fnNameOk n.name && !n.body.isNil && n.body.wf false false false 0x0A 0x0A true 0 && n.body.fnrefs.isEmpty

def distinctB : List Bytes → Bool
  | [] => true
  | a :: r => !r.contains a && distinctB r

/-- The notes are exactly the referenced names in the order of first reference with their
    reference counts; names are distinct up to letter case (comrak folds case when it looks a
    name up, and keeps the spelling of the definition); the writer's order is a permutation. -/
def Doc.notesOk (d : Doc) : Bool :=
  fnCheck [] d.blocks.fnrefs == some (d.notes.map fun n => (n.name, n.total)) &&
  d.notes.all Note.wf && d.unused.all Note.wf &&
  distinctB ((d.notes ++ d.unused).map fun n => lowerB n.name) &&
  d.noteOrder.length == d.notes.length && (List.range d.notes.length).all (fun i => d.noteOrder.contains i)

def RefDef.ok (d : RefDef) : Bool := labelOk d.label && destOk d.url d.angle && titleOk d.title

/-- Every reference-spelled link resolves, under first-definition-wins over all the definitions
    the writer emits, to its own destination and title. -/
def Doc.refsOk (d : Doc) : Bool :=
  d.shadow.all RefDef.ok &&
  d.useDefs.all fun u =>
    match resolve d.allDefs u.useLabel with
    | some x => x.url == u.url && x.title == u.title
    | none => false

def Doc.wf (d : Doc) : Bool := d.blocks.wf false 0 0 .none && d.refsOk && d.notesOk

/-- The documents the class consists of. -/
def Doc.ok (d : Doc) : Bool := d.wf && d.safe

end Comrak.Canon
