/-
Reference HTML renderer for canonical documents, written from the prose and the examples of the
CommonMark 0.31.2 specification (vendor/commonmark-spec/spec.txt), not from src/html.rs:

* paragraphs `<p>..</p>`, headings `<hN>..</hN>`, `<hr />`, block quotes
  `<blockquote>\n..</blockquote>`, each followed by a newline (the layout of every example);
* fenced code `<pre><code class="language-WORD">` with the first word of the info string
  (section 4.5), the literal escaped;
* lists `<ul>`/`<ol>` with `start="N"` when the start number is not 1 (section 5.3); in a
  tight list the paragraphs of the items are not wrapped in `<p>` (section 5.3, "tight");
* inlines: `<em>`, `<strong>`, `<del>` (GFM strikethrough), `<code>`, `<a href title>`, `<img src alt title />` with the
  plain-text content of the description as `alt` (section 6.4), `<br />` + newline, soft break
  as newline (sections 6.7, 6.8);
* HTML blocks: comrak's default safe mode is kept, in which raw HTML is replaced by the comment
  `<!-- raw HTML omitted -->` (the specification's pass-through needs `render.unsafe_`);
* text: `<`, `>`, `&`, `"` as entities; URLs percent-encoded outside the URL-safe set with `&`
  as `&amp;` (the convention of the spec's examples, e.g. 6.3 "foo%20b%C3%A4").

Where a block starts in the middle of an output line (the first block of a list item, a block
after a tight paragraph) a newline is written first: `bol` records whether the output so far
ends at the beginning of a line, exactly as the `cr()` of the reference implementations.
-/
import Comrak.Canon.Doc
import Comrak.Canon.Names
namespace Comrak.Canon
open Comrak Bytes

/-- HTML-escape one byte of text. -/
def refEscByte (b : UInt8) : Bytes :=
  if b = 0x3C then H.e_lt else if b = 0x3E then H.e_gt else if b = 0x26 then H.e_amp
  else if b = 0x22 then H.e_quot else [b]

def refEsc (s : Bytes) : Bytes := s.flatMap refEscByte

def upHex (n : UInt8) : UInt8 := if n < 10 then 0x30 + n else 0x41 + (n - 10)

/-- Bytes that stay as they are in a URL attribute: letters, digits and `-_.+!*(),%#@?=;:/$~`. -/
def refUrlSafe (b : UInt8) : Bool :=
  (0x30 ≤ b && b ≤ 0x39) || (0x41 ≤ b && b ≤ 0x5A) || (0x61 ≤ b && b ≤ 0x7A) ||
  [0x2D, 0x5F, 0x2E, 0x2B, 0x21, 0x2A, 0x28, 0x29, 0x2C, 0x25, 0x23, 0x40, 0x3F, 0x3D, 0x3B, 0x3A, 0x2F, 0x24, 0x7E].contains b

def refUrlByte (b : UInt8) : Bytes :=
  if refUrlSafe b then [b] else if b = 0x26 then H.e_amp else [0x25, upHex (b >>> 4), upHex (b &&& 0xF)]

def refUrl (s : Bytes) : Bytes := s.flatMap refUrlByte

/-- Does the output end at the beginning of a line after `out` has been appended? -/
def atBol (was : Bool) (out : Bytes) : Bool :=
  match out.getLast? with
  | none => was
  | some b => b == 0x0A

/-- Newline unless already at the beginning of a line. -/
def crB (bol : Bool) : Bytes := if bol then [] else H.nl

mutual
/-- Plain-text content of inlines (the `alt` attribute of an image). -/
def Inl.plain : Inl → Bytes
  | .text as => atomsVal as
  | .code _ s => s
  | .emph _ cs => cs.plain
  | .strong _ cs => cs.plain
  | .strike cs => cs.plain
  | .link _ _ _ _ cs => cs.plain
  | .image _ _ _ cs => cs.plain
  | .autolink s r => autolinkUrl s r
  | .hard _ => [0x20]
  | .soft => [0x20]
  | .fnref .. => []
def Inls.plain : Inls → Bytes
  | .nil => []
  | .cons i r => i.plain ++ r.plain
end

/-- `-N` for the second and later references to a note. -/
def fnSuffix (n : Nat) : Bytes := if n > 1 then H.dash ++ ofNatDec n else []

def refTitle (title : Bytes) : Bytes := if title.isEmpty then [] else H.title_attr ++ refEsc title

mutual
def Inl.html : Inl → Bytes
  | .text as => refEsc (atomsVal as)
  | .code _ s => H.code_open ++ refEsc s ++ H.code_close
  | .emph _ cs => H.em_open ++ cs.html ++ H.em_close
  | .strong _ cs => H.strong_open ++ cs.html ++ H.strong_close
  | .strike cs => H.del_open ++ cs.html ++ H.del_close
  | .link url title _ _ cs => H.a_href ++ refUrl url ++ refTitle title ++ H.q_gt ++ cs.html ++ H.a_close
  | .image url title _ cs => H.img_src ++ refUrl url ++ H.alt_attr ++ refEsc cs.plain ++ refTitle title ++ H.img_end
  | .autolink s r => H.a_href ++ refUrl (autolinkUrl s r) ++ H.q_gt ++ refEsc (autolinkUrl s r) ++ H.a_close
  | .hard _ => H.br
  | .soft => H.nl
  | .fnref name rn ix =>
    H.fnref_open ++ name ++ H.fnref_id ++ name ++ fnSuffix rn ++ H.fnref_mid ++ ofNatDec ix ++ H.fnref_close
def Inls.html : Inls → Bytes
  | .nil => []
  | .cons i r => i.html ++ r.html
end

/-- First word of an info string. -/
def firstWord : Bytes → Bytes
  | [] => []
  | c :: r => if c = 0x20 || c = 0x09 then [] else c :: firstWord r

def refCodeOpen (info : Bytes) : Bytes :=
  H.pre_code ++ (if info.isEmpty then [] else H.lang_attr ++ refEsc (firstWord info) ++ H.q) ++ H.gt

def refListOpen (m : Marker) : Bytes :=
  if m.ordered then H.ol_open ++ (if m.start = 1 then [] else H.ol_start ++ ofNatDec m.start ++ H.q) ++ H.gt_nl
  else H.ul_open

def refListClose (m : Marker) : Bytes := if m.ordered then H.ol_close else H.ul_close

/-- `align` attribute of a cell (GFM spec, tables: "the cells of that column are aligned"). -/
def refAlign : Align → Bytes
  | .none => []
  | .left => H.align_attr ++ H.left ++ H.q
  | .right => H.align_attr ++ H.right ++ H.q
  | .center => H.align_attr ++ H.center ++ H.q

/-- The cells of a row, one per line: `<th align="..">content</th>`; `i` is the column of the
    first cell. -/
def refCells (open_ close : Bytes) (al : List Align) : Nat → List Inls → Bytes
  | _, [] => []
  | i, c :: r => open_ ++ refAlign (al.getD i .none) ++ H.gt ++ c.html ++ close ++ refCells open_ close al (i + 1) r

def refRow (open_ close : Bytes) (al : List Align) (cells : List Inls) : Bytes :=
  H.tr_open ++ refCells open_ close al 0 cells ++ H.tr_close

def refRows (al : List Align) : List (List Inls) → Bytes
  | [] => []
  | r :: rs => refRow H.td_open H.td_close al r ++ refRows al rs

/-- GFM spec, tables (extension): `<table>`, the header row in `<thead>`, the body rows in
    `<tbody>`, which is left out when there are none. -/
def refTable (al : List Align) (h : List Inls) (rows : List (List Inls)) : Bytes :=
  H.table_open ++ H.thead_open ++ refRow H.th_open H.th_close al h ++ H.thead_close ++
    (if rows.isEmpty then [] else H.tbody_open ++ refRows al rows ++ H.tbody_close) ++ H.table_close

/-- GFM spec, task list items (extension): the marker is replaced by a disabled checkbox followed
    by a space (attribute order and `/>` as comrak writes them; the spec's test normaliser treats
    both as equal to its own `<input disabled="" type="checkbox">`). -/
def Task.html : Task → Bytes
  | .no => []
  | .unchecked => H.checkbox
  | .checked _ => H.checkbox_checked

mutual
/-- One block. `tight`: the block is a direct child of an item of a tight list;
    `bol`: the output so far ends at the beginning of a line. -/
def Blk.html (tight bol : Bool) : Blk → Bytes
  | .para is => if tight then is.html else crB bol ++ H.p_open ++ is.html ++ H.p_close
  | .heading l is => crB bol ++ H.h_open ++ ofNatDec l ++ H.gt ++ is.html ++ H.h_close ++ ofNatDec l ++ H.gt_nl
  | .setext l _ is => crB bol ++ H.h_open ++ ofNatDec l ++ H.gt ++ is.html ++ H.h_close ++ ofNatDec l ++ H.gt_nl
  | .hr _ _ => crB bol ++ H.hr
  | .fence _ _ info ls => crB bol ++ refCodeOpen info ++ refEsc (joinLines ls) ++ H.code_pre_close
  | .icode ls => crB bol ++ refCodeOpen [] ++ refEsc (joinLines ls) ++ H.code_pre_close
  | .quote bs => crB bol ++ H.bq_open ++ bs.html false true ++ H.bq_close
  | .list m items => crB bol ++ refListOpen m ++ items.html m.tight ++ refListClose m
  | .table al h rows => crB bol ++ refTable al h rows
  | .htmlb _ => crB bol ++ H.omitted
def Blks.html (tight bol : Bool) : Blks → Bytes
  | .nil => []
  | .cons b r => let s := b.html tight bol; s ++ r.html tight (atBol bol s)
def Items.html (tight : Bool) : Items → Bytes
  | .nil => []
  | .cons t bs r => H.li_open ++ t.html ++ bs.html tight false ++ H.li_close ++ r.html tight
end

/-- The back-links of note number `ix`: one per reference, the second and later ones numbered. -/
def refBackrefs (name : Bytes) (ix : Nat) : Nat → Nat → Bytes
  | 0, _ => []
  | k + 1, n =>
    (if n > 1 then H.sp else []) ++
    H.backref_open ++ name ++ fnSuffix n ++ H.backref_cls ++ ofNatDec ix ++ fnSuffix n ++
    H.backref_aria ++ ofNatDec ix ++ fnSuffix n ++ H.backref_arrow ++
    (if n > 1 then H.backref_sup_open ++ ofNatDec n ++ H.backref_sup_close else []) ++ H.a_close ++
    refBackrefs name ix k (n + 1)

/-- One footnote: `<li id="fn-NAME">`, its paragraph, a space and the back-links at its end. -/
def refNote (n : Note) (ix : Nat) : Bytes :=
  H.fn_li_open ++ n.name ++ H.fn_li_mid ++ n.body.html ++ H.sp ++ refBackrefs n.name ix n.total 1 ++ H.fn_p_close

def refNoteItems : Nat → List Note → Bytes
  | _, [] => []
  | k, n :: r => refNote n k ++ refNoteItems (k + 1) r

/-- The footnote section (the format GitHub and the footnotes extension of cmark-gfm / comrak
    write; there is no specification text for it): an ordered list of the referenced notes in the
    order of their first reference. -/
def refNotes (notes : List Note) : Bytes :=
  if notes.isEmpty then [] else H.fn_section_open ++ refNoteItems 1 notes ++ H.fn_section_close

/-- The HTML the specification prescribes for the structure `d` spells. -/
def Doc.refHtml (d : Doc) : Bytes := d.blocks.html false true ++ refNotes d.notes

end Comrak.Canon
