/-
C16  Model of the `comrak` binary (src/main.rs).

* `Cli`            the record clap fills in (src/main.rs:30-159), one field per flag / value
* `parseArgs`      the fragment of clap's grammar the definition uses (long/short names, `--name=value`,
                   `-e a,b`, repeated `-e`, `--`, duplicates and `conflicts_with_all` rejected with exit 2)
* `mergeConfig`    the argument list built by `cli_with_config` (process arguments, then config words)
* `cliToOptions`   hand model of the builder calls (src/main.rs:256-311), every `|| cli.gfm` included
* `documented`     the mapping written from the help text / README "Usage" only
* `chosenFormat`, `chosenHighlighter`, `chosenSink`, `checkInplace`, `readInputs`, `execute`, `mainModel`
                   formatter / sink selection, input concatenation, exit codes (src/main.rs:242-252, 313-378)

Core Lean only (linked into the driver). Paths, prefixes, themes are byte strings (`Bytes`).
-/
import Comrak.CliNames
namespace Comrak.Cli
open Comrak Bytes

/-! ## Values -/

/-- `-t, --to <FORMAT>` (`enum Format`). -/
inductive Format | html | xml | commonmark
  deriving DecidableEq, Repr

/-- `--list-style <LIST_STYLE>` (`enum ListStyle`, converted 1:1 to `ListStyleType`). -/
inductive ListStyle | dash | plus | star
  deriving DecidableEq, Repr

/-- `-e, --extension <EXTENSION>` possible values (`enum Extension`). -/
inductive Ext
  | strikethrough | tagfilter | table | autolink | tasklist | superscript | footnotes
  | descriptionLists | multilineBlockQuotes | mathDollars | mathCode | wikilinksTitleAfterPipe
  | wikilinksTitleBeforePipe | underline | subscript | spoiler | greentext | alerts
  deriving DecidableEq, Repr

def Ext.all : List Ext :=
  [.strikethrough, .tagfilter, .table, .autolink, .tasklist, .superscript, .footnotes,
   .descriptionLists, .multilineBlockQuotes, .mathDollars, .mathCode, .wikilinksTitleAfterPipe,
   .wikilinksTitleBeforePipe, .underline, .subscript, .spoiler, .greentext, .alerts]

/-- The struct `Cli` of src/main.rs after clap has applied its defaults. The default config path is
    computed from the environment (`get_default_config_path`), so it is a parameter of `Cli.default`. -/
structure Cli where
  files : Option (List Bytes) := none
  configFile : Bytes
  inplace : Bool := false
  hardbreaks : Bool := false
  smart : Bool := false
  githubPreLang : Bool := false
  fullInfoString : Bool := false
  gfm : Bool := false
  gfmQuirks : Bool := false
  relaxedTasklistCharacter : Bool := false
  relaxedAutolinks : Bool := false
  tasklistClasses : Bool := false
  defaultInfoString : Option Bytes := none
  unsafe_ : Bool := false
  escape : Bool := false
  escapedCharSpans : Bool := false
  extensions : List Ext := []
  format : Format := .html
  output : Option Bytes := none
  width : Nat := 0
  headerIds : Option Bytes := none
  frontMatterDelimiter : Option Bytes := none
  syntaxHighlighting : Bytes := N.base16_ocean_dark
  listStyle : ListStyle := .dash
  sourcepos : Bool := false
  ignoreSetext : Bool := false
  ignoreEmptyLinks : Bool := false
  experimentalMinimizeCommonmark : Bool := false
  deriving DecidableEq, Repr

def Cli.default (defaultConfigPath : Bytes) : Cli := { configFile := defaultConfigPath }

/-! ## Library options (`comrak::Options`, default build: no `shortcodes` feature) -/

structure ExtensionOptions where
  strikethrough : Bool := false
  tagfilter : Bool := false
  table : Bool := false
  autolink : Bool := false
  tasklist : Bool := false
  superscript : Bool := false
  headerIds : Option Bytes := none
  footnotes : Bool := false
  descriptionLists : Bool := false
  frontMatterDelimiter : Option Bytes := none
  multilineBlockQuotes : Bool := false
  alerts : Bool := false
  mathDollars : Bool := false
  mathCode : Bool := false
  wikilinksTitleAfterPipe : Bool := false
  wikilinksTitleBeforePipe : Bool := false
  underline : Bool := false
  subscript : Bool := false
  spoiler : Bool := false
  greentext : Bool := false
  deriving DecidableEq, Repr

structure ParseOptions where
  smart : Bool := false
  defaultInfoString : Option Bytes := none
  relaxedTasklistMatching : Bool := false
  relaxedAutolinks : Bool := false
  deriving DecidableEq, Repr

structure RenderOptions where
  hardbreaks : Bool := false
  githubPreLang : Bool := false
  fullInfoString : Bool := false
  width : Nat := 0
  unsafe_ : Bool := false
  escape : Bool := false
  listStyle : ListStyle := .dash
  sourcepos : Bool := false
  experimentalMinimizeCommonmark : Bool := false
  escapedCharSpans : Bool := false
  ignoreSetext : Bool := false
  ignoreEmptyLinks : Bool := false
  gfmQuirks : Bool := false
  preferFenced : Bool := false
  figureWithCaption : Bool := false
  tasklistClasses : Bool := false
  olWidth : Nat := 0
  deriving DecidableEq, Repr

/-- `comrak::Options`; `{}` is `Options::default()`. -/
structure Options where
  extension : ExtensionOptions := {}
  parse : ParseOptions := {}
  render : RenderOptions := {}
  deriving DecidableEq, Repr

/-! ## The wiring as written in main.rs -/

/-- src/main.rs:254-311: the three builder chains, field by field. Fields no builder call mentions
    (`prefer_fenced`, `figure_with_caption`, `ol_width`) keep the builder's default. -/
def cliToOptions (c : Cli) : Options :=
  let exts := c.extensions
  { extension :=
      { strikethrough := exts.contains .strikethrough || c.gfm
        tagfilter := exts.contains .tagfilter || c.gfm
        table := exts.contains .table || c.gfm
        autolink := exts.contains .autolink || c.gfm
        tasklist := exts.contains .tasklist || c.gfm
        superscript := exts.contains .superscript
        headerIds := c.headerIds
        footnotes := exts.contains .footnotes
        descriptionLists := exts.contains .descriptionLists
        multilineBlockQuotes := exts.contains .multilineBlockQuotes
        mathDollars := exts.contains .mathDollars
        mathCode := exts.contains .mathCode
        wikilinksTitleAfterPipe := exts.contains .wikilinksTitleAfterPipe
        wikilinksTitleBeforePipe := exts.contains .wikilinksTitleBeforePipe
        underline := exts.contains .underline
        subscript := exts.contains .subscript
        spoiler := exts.contains .spoiler
        greentext := exts.contains .greentext
        alerts := exts.contains .alerts
        frontMatterDelimiter := c.frontMatterDelimiter }
    parse :=
      { smart := c.smart
        defaultInfoString := c.defaultInfoString
        relaxedTasklistMatching := c.relaxedTasklistCharacter
        relaxedAutolinks := c.relaxedAutolinks }
    render :=
      { hardbreaks := c.hardbreaks
        githubPreLang := c.githubPreLang || c.gfm
        fullInfoString := c.fullInfoString
        width := c.width
        unsafe_ := c.unsafe_
        escape := c.escape
        listStyle := c.listStyle
        sourcepos := c.sourcepos
        experimentalMinimizeCommonmark := c.experimentalMinimizeCommonmark
        escapedCharSpans := c.escapedCharSpans
        ignoreSetext := c.ignoreSetext
        ignoreEmptyLinks := c.ignoreEmptyLinks
        gfmQuirks := c.gfmQuirks || c.gfm
        tasklistClasses := c.tasklistClasses } }

/-! ## The mapping as documented (help text / README "Usage"), written without looking at the wiring

"-e, --extension <EXTENSION>: Specify extension name(s) to use": each listed name turns on the
extension of that name, starting from the library default (everything off). -/
def enableExt (o : ExtensionOptions) : Ext → ExtensionOptions
  | .strikethrough => { o with strikethrough := true }
  | .tagfilter => { o with tagfilter := true }
  | .table => { o with table := true }
  | .autolink => { o with autolink := true }
  | .tasklist => { o with tasklist := true }
  | .superscript => { o with superscript := true }
  | .footnotes => { o with footnotes := true }
  | .descriptionLists => { o with descriptionLists := true }
  | .multilineBlockQuotes => { o with multilineBlockQuotes := true }
  | .mathDollars => { o with mathDollars := true }
  | .mathCode => { o with mathCode := true }
  | .wikilinksTitleAfterPipe => { o with wikilinksTitleAfterPipe := true }
  | .wikilinksTitleBeforePipe => { o with wikilinksTitleBeforePipe := true }
  | .underline => { o with underline := true }
  | .subscript => { o with subscript := true }
  | .spoiler => { o with spoiler := true }
  | .greentext => { o with greentext := true }
  | .alerts => { o with alerts := true }

/-- The option field carrying an extension's name. -/
def getExt (o : ExtensionOptions) : Ext → Bool
  | .strikethrough => o.strikethrough
  | .tagfilter => o.tagfilter
  | .table => o.table
  | .autolink => o.autolink
  | .tasklist => o.tasklist
  | .superscript => o.superscript
  | .footnotes => o.footnotes
  | .descriptionLists => o.descriptionLists
  | .multilineBlockQuotes => o.multilineBlockQuotes
  | .mathDollars => o.mathDollars
  | .mathCode => o.mathCode
  | .wikilinksTitleAfterPipe => o.wikilinksTitleAfterPipe
  | .wikilinksTitleBeforePipe => o.wikilinksTitleBeforePipe
  | .underline => o.underline
  | .subscript => o.subscript
  | .spoiler => o.spoiler
  | .greentext => o.greentext
  | .alerts => o.alerts

/-- "--gfm: Enable GitHub-flavored markdown extensions: strikethrough, tagfilter, table, autolink, and
    tasklist." -/
def gfmExtensions : List Ext := [.strikethrough, .tagfilter, .table, .autolink, .tasklist]

/-- `--gfm` is documented as shorthand: the five extensions, "Also enables --github-pre-lang and
    --gfm-quirks". -/
def expandGfm (c : Cli) : Cli :=
  if c.gfm then
    { c with extensions := c.extensions ++ gfmExtensions, githubPreLang := true, gfmQuirks := true }
  else c

/-- Every flag other than `--gfm` sets the library option its help line names, nothing else; an option
    no flag documents stays at the library default. -/
def documentedFlags (c : Cli) : Options :=
  { extension :=
      { c.extensions.foldl enableExt {} with
        headerIds := c.headerIds                           -- --header-ids <PREFIX>
        frontMatterDelimiter := c.frontMatterDelimiter }   -- --front-matter-delimiter <DELIMITER>
    parse :=
      { smart := c.smart                                   -- --smart
        defaultInfoString := c.defaultInfoString           -- --default-info-string <INFO>
        relaxedTasklistMatching := c.relaxedTasklistCharacter  -- --relaxed-tasklist-character
        relaxedAutolinks := c.relaxedAutolinks }           -- --relaxed-autolinks
    render :=
      { ({} : RenderOptions) with
        hardbreaks := c.hardbreaks                         -- --hardbreaks
        githubPreLang := c.githubPreLang                   -- --github-pre-lang
        fullInfoString := c.fullInfoString                 -- --full-info-string
        width := c.width                                   -- --width <WIDTH>
        unsafe_ := c.unsafe_                               -- --unsafe
        escape := c.escape                                 -- --escape
        listStyle := c.listStyle                           -- --list-style <LIST_STYLE>
        sourcepos := c.sourcepos                           -- --sourcepos
        experimentalMinimizeCommonmark := c.experimentalMinimizeCommonmark
        escapedCharSpans := c.escapedCharSpans             -- --escaped-char-spans
        ignoreSetext := c.ignoreSetext                     -- --ignore-setext
        ignoreEmptyLinks := c.ignoreEmptyLinks             -- --ignore-empty-links
        gfmQuirks := c.gfmQuirks                           -- --gfm-quirks
        tasklistClasses := c.tasklistClasses } }           -- --tasklist-classes

def documented (c : Cli) : Options := documentedFlags (expandGfm c)

/-! ## Formatter, highlighter and sink selection (src/main.rs:313-376) -/

/-- `--inplace` forces CommonMark; otherwise `--to`. -/
def chosenFormat (c : Cli) : Format := if c.inplace then .commonmark else c.format

/-- The syntect adapter is created unless the theme is empty or `none`, and is plugged in only on the
    HTML arm of the formatter `match` (which `--inplace` bypasses). `some theme` = highlighting on. -/
def chosenHighlighter (c : Cli) : Option Bytes :=
  if c.syntaxHighlighting = [] || c.syntaxHighlighting = N.none then none
  else if c.inplace then none
  else match c.format with
    | .html => some c.syntaxHighlighting
    | _ => none

inductive Sink
  | stdout
  | file (path : Bytes)
  deriving DecidableEq, Repr

/-- `--output` first, then `--inplace` (the first input file), then stdout. -/
def chosenSink (c : Cli) : Sink :=
  match c.output with
  | some p => .file p
  | none =>
    if c.inplace then
      match c.files with
      | some (f :: _) => .file f
      | _ => .stdout        -- unreachable after `checkInplace`
    else .stdout

/-- src/main.rs:242-252: `--inplace` needs exactly one input file, else exit 4. -/
def checkInplace (c : Cli) : Option Nat :=
  if c.inplace then
    match c.files with
    | some [_] => none
    | _ => some 4
  else none

/-! ## Inputs -/

/-- What the process can read: files by path (`none` = cannot be opened) and standard input. -/
structure World where
  file : Bytes → Option Bytes
  stdin : Bytes

/-- src/main.rs:325-344: the files are appended to one buffer in command-line order; the first file that
    cannot be opened aborts (exit 3); no file arguments = standard input. -/
def readFiles (w : World) : List Bytes → Bytes → Except Bytes Bytes
  | [], acc => .ok acc
  | f :: fs, acc =>
    match w.file f with
    | some content => readFiles w fs (acc ++ content)
    | none => .error f

def readInputs (w : World) : Option (List Bytes) → Except Bytes Bytes
  | none => .ok w.stdin
  | some fs => readFiles w fs []

/-! ## The whole run, over an abstract library -/

/-- The library side: UTF-8 validity of the input buffer and the three formatters applied to the parsed
    document (`highlighter = some theme` stands for `plugins.render.codefence_syntax_highlighter`). -/
structure Lib where
  validUtf8 : Bytes → Bool
  render : Options → Format → (highlighter : Option Bytes) → Bytes → Bytes

structure Result where
  exit : Nat
  stdout : Bytes
  /-- file created (and completely written) by the run -/
  written : Option (Bytes × Bytes)
  /-- something was printed on stderr -/
  message : Bool
  deriving DecidableEq, Repr

def Result.fail (code : Nat) : Result := { exit := code, stdout := [], written := none, message := true }

/-- `main` after argument parsing. The sink is opened only after the input was read and validated, so
    every failure leaves stdout and the file system untouched. -/
def execute (L : Lib) (w : World) (c : Cli) : Result :=
  match checkInplace c with
  | some code => .fail code
  | none =>
    match readInputs w c.files with
    | .error _ => .fail 3
    | .ok s =>
      if L.validUtf8 s then
        let out := L.render (cliToOptions c) (chosenFormat c) (chosenHighlighter c) s
        match chosenSink c with
        | .stdout => { exit := 0, stdout := out, written := none, message := false }
        | .file p => { exit := 0, stdout := [], written := some (p, out), message := false }
      else .fail 1

/-! ## Arguments: the config file splice and the clap grammar -/

/-- The pinned `cli_with_config` (before /repo commit f3c2040): `cfg` = the words of the config file;
    every process argument that is valid Unicode (`some`) is inserted at *its own index*; the others
    are skipped. `Vec::insert` panics when the index is past the end (`none`). Kept for the
    historical counterexamples. -/
def mergeLoop : Nat → List (Option Bytes) → List Bytes → Option (List Bytes)
  | _, [], args => some args
  | i, some s :: rest, args =>
    if i ≤ args.length then mergeLoop (i + 1) rest (args.insertIdx i s) else none
  | i, none :: rest, args => mergeLoop (i + 1) rest args

def mergeConfigOld (env : List (Option Bytes)) (cfg : List Bytes) : Option (List Bytes) := mergeLoop 0 env cfg

/-- `cli_with_config` as it is: the process arguments as they are (`OsString`s: arbitrary bytes),
    followed by the words of the config file. Total. -/
def mergeConfig (env : List Bytes) (cfg : List Bytes) : List Bytes := env ++ cfg

/-- Boolean flags (clap `SetTrue`). -/
inductive BFlag
  | inplace | hardbreaks | smart | githubPreLang | fullInfoString | gfm | gfmQuirks
  | relaxedTasklistCharacter | relaxedAutolinks | tasklistClasses | unsafe_ | escape | escapedCharSpans
  | sourcepos | ignoreSetext | ignoreEmptyLinks | experimentalMinimizeCommonmark
  deriving DecidableEq, Repr

/-- Options taking a value. -/
inductive VOpt
  | configFile | defaultInfoString | extension | to | output | width | headerIds | frontMatterDelimiter
  | syntaxHighlighting | listStyle
  deriving DecidableEq, Repr

def BFlag.all : List BFlag :=
  [.inplace, .hardbreaks, .smart, .githubPreLang, .fullInfoString, .gfm, .gfmQuirks,
   .relaxedTasklistCharacter, .relaxedAutolinks, .tasklistClasses, .unsafe_, .escape, .escapedCharSpans,
   .sourcepos, .ignoreSetext, .ignoreEmptyLinks, .experimentalMinimizeCommonmark]

def VOpt.all : List VOpt :=
  [.configFile, .defaultInfoString, .extension, .to, .output, .width, .headerIds, .frontMatterDelimiter,
   .syntaxHighlighting, .listStyle]

/-- Long names: clap derives them from the field names (`_` -> `-`), `unsafe_` is renamed explicitly. -/
def BFlag.long : BFlag → Bytes
  | .inplace => N.inplace | .hardbreaks => N.hardbreaks | .smart => N.smart
  | .githubPreLang => N.github_pre_lang | .fullInfoString => N.full_info_string | .gfm => N.gfm
  | .gfmQuirks => N.gfm_quirks | .relaxedTasklistCharacter => N.relaxed_tasklist_character
  | .relaxedAutolinks => N.relaxed_autolinks | .tasklistClasses => N.tasklist_classes
  | .unsafe_ => N.unsafe_ | .escape => N.escape | .escapedCharSpans => N.escaped_char_spans
  | .sourcepos => N.sourcepos | .ignoreSetext => N.ignore_setext | .ignoreEmptyLinks => N.ignore_empty_links
  | .experimentalMinimizeCommonmark => N.experimental_minimize_commonmark

def VOpt.long : VOpt → Bytes
  | .configFile => N.config_file | .defaultInfoString => N.default_info_string
  | .extension => N.extension | .to => N.to_ | .output => N.output | .width => N.width
  | .headerIds => N.header_ids | .frontMatterDelimiter => N.front_matter_delimiter
  | .syntaxHighlighting => N.syntax_highlighting | .listStyle => N.list_style

/-- `-i`. -/
def BFlag.short : BFlag → Option UInt8
  | .inplace => some 0x69
  | _ => none

/-- `-c`, `-e`, `-t`, `-o`. -/
def VOpt.short : VOpt → Option UInt8
  | .configFile => some 0x63 | .extension => some 0x65 | .to => some 0x74 | .output => some 0x6F
  | _ => none

/-- `allow_hyphen_values = true` only on `--front-matter-delimiter`. -/
def VOpt.allowHyphen : VOpt → Bool
  | .frontMatterDelimiter => true
  | _ => false

inductive Arg
  | flag (f : BFlag)
  | opt (o : VOpt) (v : Bytes)
  | pos (p : Bytes)
  deriving DecidableEq, Repr

/-- `usage`: clap prints an error and exits 2. `panic`: the process panics (exit 101). `unsupported`: the token sequence is outside the fragment
    of clap's grammar modelled here (bundled short flags, `--help`, values that start with `-`, ...);
    the harness never generates it. -/
inductive PErr | usage | unsupported | panic
  deriving DecidableEq, Repr

/-- Splits `name=value` at the first `=`. -/
def splitEq : Bytes → Bytes × Option Bytes
  | [] => ([], none)
  | b :: r =>
    if b = 0x3D then ([], some r)
    else let (n, v) := splitEq r; (b :: n, v)

def startsHyphen : Bytes → Bool
  | 0x2D :: _ => true
  | _ => false

def consArg (a : Arg) : Except PErr (List Arg) → Except PErr (List Arg)
  | .ok l => .ok (a :: l)
  | .error e => .error e

/-- Tokens -> arguments. `pending = some o`: the previous token was a valued option without `=`. -/
def lexArgs : Option VOpt → List Bytes → Except PErr (List Arg)
  | none, [] => .ok []
  | some _, [] => .error .usage
  | some o, v :: r =>
    if startsHyphen v && !o.allowHyphen then .error .unsupported
    else consArg (.opt o v) (lexArgs none r)
  | none, t :: r =>
    match t with
    | [0x2D, 0x2D] => .ok (r.map .pos)
    | 0x2D :: 0x2D :: body =>
      let (name, val) := splitEq body
      match BFlag.all.find? (fun f => f.long == name) with
      | some f =>
        match val with
        | some _ => .error .usage
        | none => consArg (.flag f) (lexArgs none r)
      | none =>
        match VOpt.all.find? (fun o => o.long == name) with
        | some o =>
          match val with
          | some v => consArg (.opt o v) (lexArgs none r)
          | none => lexArgs (some o) r
        | none => if name == N.help || name == N.version then .error .unsupported else .error .usage
    | [0x2D, ch] =>
      match BFlag.all.find? (fun f => f.short == some ch) with
      | some f => consArg (.flag f) (lexArgs none r)
      | none =>
        match VOpt.all.find? (fun o => o.short == some ch) with
        | some o => lexArgs (some o) r
        | none => .error .unsupported
    | 0x2D :: _ => .error .unsupported
    | _ => consArg (.pos t) (lexArgs none r)

def parseExt (n : Bytes) : Option Ext :=
  if n = N.strikethrough then some .strikethrough else if n = N.tagfilter then some .tagfilter
  else if n = N.table then some .table else if n = N.autolink then some .autolink
  else if n = N.tasklist then some .tasklist else if n = N.superscript then some .superscript
  else if n = N.footnotes then some .footnotes else if n = N.description_lists then some .descriptionLists
  else if n = N.multiline_block_quotes then some .multilineBlockQuotes
  else if n = N.math_dollars then some .mathDollars else if n = N.math_code then some .mathCode
  else if n = N.wikilinks_title_after_pipe then some .wikilinksTitleAfterPipe
  else if n = N.wikilinks_title_before_pipe then some .wikilinksTitleBeforePipe
  else if n = N.underline then some .underline else if n = N.subscript then some .subscript
  else if n = N.spoiler then some .spoiler else if n = N.greentext then some .greentext
  else if n = N.alerts then some .alerts else none

def parseFormat (n : Bytes) : Option Format :=
  if n = N.html then some .html else if n = N.xml then some .xml
  else if n = N.commonmark then some .commonmark else none

def parseListStyle (n : Bytes) : Option ListStyle :=
  if n = N.dash then some .dash else if n = N.plus then some .plus
  else if n = N.star then some .star else none

/-- `value_delimiter = ','`. -/
def splitComma : Bytes → List Bytes
  | [] => [[]]
  | b :: r =>
    if b = 0x2C then [] :: splitComma r
    else match splitComma r with
      | [] => [[b]]
      | w :: ws => (b :: w) :: ws

def parseDec : Bytes → Option Nat
  | [] => none
  | ds => ds.foldl (fun acc d => acc.bind fun n =>
      if 0x30 ≤ d && d ≤ 0x39 then some (n * 10 + (d - 0x30).toNat) else none) (some 0)

def parseExts : List Bytes → Option (List Ext)
  | [] => some []
  | n :: r =>
    match parseExt n, parseExts r with
    | some e, some es => some (e :: es)
    | _, _ => none

def setFlag (c : Cli) : BFlag → Cli
  | .inplace => { c with inplace := true }
  | .hardbreaks => { c with hardbreaks := true }
  | .smart => { c with smart := true }
  | .githubPreLang => { c with githubPreLang := true }
  | .fullInfoString => { c with fullInfoString := true }
  | .gfm => { c with gfm := true }
  | .gfmQuirks => { c with gfmQuirks := true }
  | .relaxedTasklistCharacter => { c with relaxedTasklistCharacter := true }
  | .relaxedAutolinks => { c with relaxedAutolinks := true }
  | .tasklistClasses => { c with tasklistClasses := true }
  | .unsafe_ => { c with unsafe_ := true }
  | .escape => { c with escape := true }
  | .escapedCharSpans => { c with escapedCharSpans := true }
  | .sourcepos => { c with sourcepos := true }
  | .ignoreSetext => { c with ignoreSetext := true }
  | .ignoreEmptyLinks => { c with ignoreEmptyLinks := true }
  | .experimentalMinimizeCommonmark => { c with experimentalMinimizeCommonmark := true }

/-- Stores one option value (value parsers of the clap definition). -/
def setOpt (c : Cli) : VOpt → Bytes → Except PErr Cli
  | .configFile, v => .ok { c with configFile := v }
  | .defaultInfoString, v => .ok { c with defaultInfoString := some v }
  | .extension, v =>
    match parseExts (splitComma v) with
    | some es => .ok { c with extensions := c.extensions ++ es }
    | none => .error .usage
  | .to, v =>
    match parseFormat v with
    | some f => .ok { c with format := f }
    | none => .error .usage
  | .output, v => .ok { c with output := some v }
  | .width, v =>
    match parseDec v with
    | some n => if n < 2 ^ 64 then .ok { c with width := n } else .error .usage
    | none => if v.all (fun d => 0x30 ≤ d && d ≤ 0x39) then .error .usage else .error .unsupported
  | .headerIds, v => .ok { c with headerIds := some v }
  | .frontMatterDelimiter, v => .ok { c with frontMatterDelimiter := some v }
  | .syntaxHighlighting, v => .ok { c with syntaxHighlighting := v }
  | .listStyle, v =>
    match parseListStyle v with
    | some s => .ok { c with listStyle := s }
    | none => .error .usage

/-- Parser state: the record so far and which arguments were already given. -/
structure Acc where
  cli : Cli
  seenB : List BFlag := []
  seenV : List VOpt := []

/-- A flag or a single-valued option given twice is an error ("cannot be used multiple times");
    `--extension` appends (`Vec`), file arguments accumulate. -/
def applyArg (a : Acc) : Arg → Except PErr Acc
  | .flag f =>
    if a.seenB.contains f then .error .usage
    else .ok { a with cli := setFlag a.cli f, seenB := f :: a.seenB }
  | .opt o v =>
    if o != .extension && a.seenV.contains o then .error .usage
    else match setOpt a.cli o v with
      | .ok c => .ok { a with cli := c, seenV := o :: a.seenV }
      | .error e => .error e
  | .pos p => .ok { a with cli := { a.cli with files := some (a.cli.files.getD [] ++ [p]) } }

def applyArgs (a : Acc) : List Arg → Except PErr Acc
  | [] => .ok a
  | x :: r =>
    match applyArg a x with
    | .ok a' => applyArgs a' r
    | .error e => .error e

/-- `conflicts_with_all(["format", "output"])` on `--inplace` (explicitly given values only). -/
def finish (a : Acc) : Except PErr Cli :=
  if a.cli.inplace && (a.seenV.contains .to || a.seenV.contains .output) then .error .usage
  else .ok a.cli

/-- `Cli::parse_from(argv)`: `argv[0]` is the program name. -/
def parseArgs (defaultConfigPath : Bytes) (argv : List Bytes) : Except PErr Cli :=
  match lexArgs none (argv.drop 1) with
  | .error e => .error e
  | .ok args =>
    match applyArgs { cli := Cli.default defaultConfigPath } args with
    | .error e => .error e
    | .ok a => finish a

/-- What `fs::read_to_string(config) + shell_words::split` gives for a path: `none` = unreadable (not an
    error), `some none` = unbalanced quotes (exit 2), `some (some words)`. -/
abbrev ConfigFs := Bytes → Option (Option (List Bytes))

/-- `cli_with_config` (src/main.rs:210-237). -/
def cliWithConfig (defaultConfigPath : Bytes) (cfgFs : ConfigFs) (argv : List Bytes) : Except PErr Cli :=
  match parseArgs defaultConfigPath argv with
  | .error e => .error e
  | .ok cli =>
    if cli.configFile = N.none then .ok cli
    else match cfgFs cli.configFile with
      | none => .ok cli
      | some none => .error .usage
      | some (some words) =>
        parseArgs defaultConfigPath (mergeConfig argv words)

/-- The whole program for Unicode arguments; `none` = outside the modelled clap fragment. -/
def mainModel (L : Lib) (w : World) (defaultConfigPath : Bytes) (cfgFs : ConfigFs) (argv : List Bytes) :
    Option Result :=
  match cliWithConfig defaultConfigPath cfgFs argv with
  | .error .unsupported => none
  | .error .usage => some (.fail 2)
  | .error .panic => some (.fail 101)
  | .ok c => some (execute L w c)

/-! ## Wire form of an option vector (bit order = `BOOLS` of /verif/harness/src/opts.rs) -/

def Options.bits (o : Options) : List Bool :=
  [o.extension.strikethrough, o.extension.tagfilter, o.extension.table, o.extension.autolink,
   o.extension.tasklist, o.extension.superscript, o.extension.footnotes, o.extension.descriptionLists,
   o.extension.multilineBlockQuotes, o.extension.alerts, o.extension.mathDollars, o.extension.mathCode,
   o.extension.wikilinksTitleAfterPipe, o.extension.wikilinksTitleBeforePipe, o.extension.underline,
   o.extension.subscript, o.extension.spoiler, o.extension.greentext,
   o.parse.smart, o.parse.relaxedTasklistMatching, o.parse.relaxedAutolinks,
   o.render.hardbreaks, o.render.githubPreLang, o.render.fullInfoString, o.render.unsafe_, o.render.escape,
   o.render.sourcepos, o.render.escapedCharSpans, o.render.ignoreSetext, o.render.ignoreEmptyLinks,
   o.render.gfmQuirks, o.render.preferFenced, o.render.figureWithCaption, o.render.tasklistClasses,
   o.render.experimentalMinimizeCommonmark]

def ListStyle.code : ListStyle → Nat
  | .dash => 0 | .plus => 1 | .star => 2

end Comrak.Cli
