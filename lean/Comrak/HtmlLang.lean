/-
The language of comrak's own HTML output: a lexer from bytes to tags/text (`lexHtml`), the
tag-stack machine `balanced`, and the fixed element/attribute vocabulary (`allowedTag`).
These are the oracles the C02/C10/C15/C18 theorems are about; the driver runs them on the
real implementation's output.
-/
import Comrak.Html
namespace Comrak
open Bytes

/-- Lexed unit of HTML text. Attribute values are kept raw (still escaped). -/
inductive LTok where
  | op (name : Bytes) (attrs : List (Bytes × Option Bytes))
  | cl (name : Bytes)
  | vd (name : Bytes) (attrs : List (Bytes × Option Bytes))
  | text (v : Bytes)
  | cmt (v : Bytes)
  deriving Repr, DecidableEq, Inhabited

/-- Lexer state (one byte at a time, so the lexer is a structural fold). -/
inductive LexSt where
  | text (acc : Bytes)                                        -- outside tags (acc reversed)
  | lt                                                        -- just after `<`
  | closeName (n : Bytes)                                     -- `</na`
  | name (n : Bytes)                                          -- `<na`
  | attrs (n : Bytes) (as : List (Bytes × Option Bytes))      -- after a space inside a tag
  | attrName (n : Bytes) (as : List (Bytes × Option Bytes)) (an : Bytes)
  | afterEq (n : Bytes) (as : List (Bytes × Option Bytes)) (an : Bytes)
  | value (n : Bytes) (as : List (Bytes × Option Bytes)) (an : Bytes) (v : Bytes)
  | afterValue (n : Bytes) (as : List (Bytes × Option Bytes))
  | slash (n : Bytes) (as : List (Bytes × Option Bytes))      -- saw `/` inside a start tag
  | bang (k : Nat)                                            -- `<!`, `<!-` (k dashes seen)
  | comment (v : Bytes) (dashes : Nat)                        -- inside `<!-- ... `, trailing dashes
  | fail
  deriving Repr, Inhabited

def tagNameChar (c : UInt8) : Bool := isAsciiAlnum c
def attrNameChar (c : UInt8) : Bool := isAsciiAlnum c || c == 0x2D || c == 0x5F || c == 0x3A

def flushText (acc : Bytes) (out : List LTok) : List LTok :=
  if acc.isEmpty then out else .text acc.reverse :: out

/-- One lexer step: new state and output (reversed accumulation). -/
def lexStep (st : LexSt) (out : List LTok) (c : UInt8) : LexSt × List LTok :=
  match st with
  | .text acc =>
    if c = 0x3C then (.lt, flushText acc out)
    else if c = 0x3E then (.fail, out)            -- raw `>` never occurs in comrak's own output
    else (.text (c :: acc), out)
  | .lt =>
    if c = 0x2F then (.closeName [], out)
    else if c = 0x21 then (.bang 0, out)
    else if isAsciiAlpha c then (.name [c], out)
    else (.fail, out)
  | .closeName n =>
    if c = 0x3E then (if n.isEmpty then (.fail, out) else (.text [], .cl n.reverse :: out))
    else if tagNameChar c then (.closeName (c :: n), out)
    else (.fail, out)
  | .name n =>
    if tagNameChar c then (.name (c :: n), out)
    else if c = 0x3E then (.text [], .op n.reverse [] :: out)
    else if c = 0x20 then (.attrs n.reverse [], out)
    else (.fail, out)
  | .attrs n as =>
    if c = 0x2F then (.slash n as, out)
    else if attrNameChar c then (.attrName n as [c], out)
    else (.fail, out)
  | .attrName n as an =>
    if attrNameChar c then (.attrName n as (c :: an), out)
    else if c = 0x3D then (.afterEq n as an.reverse, out)
    else if c = 0x20 then (.attrs n (as ++ [(an.reverse, none)]), out)
    else if c = 0x3E then (.text [], .op n (as ++ [(an.reverse, none)]) :: out)
    else (.fail, out)
  | .afterEq n as an =>
    if c = 0x22 then (.value n as an [], out) else (.fail, out)
  | .value n as an v =>
    if c = 0x22 then (.afterValue n (as ++ [(an, some v.reverse)]), out)
    else (.value n as an (c :: v), out)
  | .afterValue n as =>
    if c = 0x20 then (.attrs n as, out)
    else if c = 0x3E then (.text [], .op n as :: out)
    else (.fail, out)
  | .slash n as =>
    if c = 0x3E then (.text [], .vd n as :: out) else (.fail, out)
  | .bang k =>
    if c = 0x2D then (if k = 1 then (.comment [] 0, out) else (.bang 1, out)) else (.fail, out)
  | .comment v d =>
    if c = 0x2D then (.comment (c :: v) (d + 1), out)
    else if c = 0x3E && d ≥ 2 then (.text [], .cmt (v.drop 2).reverse :: out)
    else (.comment (c :: v) 0, out)
  | .fail => (.fail, out)

def lexLoop : LexSt → List LTok → Bytes → LexSt × List LTok
  | st, out, [] => (st, out)
  | st, out, c :: r => let p := lexStep st out c; lexLoop p.1 p.2 r

/-- Lex a complete HTML fragment; `none` if it is not made of complete tags, comments and text. -/
def lexHtml (bs : Bytes) : Option (List LTok) :=
  match lexLoop (.text []) [] bs with
  | (.text acc, out) => some (flushText acc out).reverse
  | _ => none

/-! ## Balance -/

def voidNames : List Bytes := [S.t_br, S.t_hr, S.t_img, S.t_input]

/-- Stack entry: element name and, for `table`, which sections were already opened. -/
structure Open where
  name : Bytes
  thead : Bool := false
  tbody : Bool := false
  deriving Repr, DecidableEq

/-- Result codes: "1" balanced; anything else names the first failure. -/
inductive BalErr where
  | unlexable | closeMismatch (want got : Bytes) | closeEmpty (got : Bytes) | voidNotSelfClosed (n : Bytes)
  | selfClosedNonVoid (n : Bytes) | leftOpen (n : Bytes) | sectionTwice (n : Bytes) | sectionOutsideTable (n : Bytes)
  | footnotesTwice
  deriving Repr

def isFootnoteSection (name : Bytes) (attrs : List (Bytes × Option Bytes)) : Bool :=
  name == S.t_section && attrs.any fun a => a.1 == S.a_class && a.2 == some S.v_footnotes

def balStep (stack : List Open) (fn : Nat) : LTok → Except BalErr (List Open × Nat)
  | .text _ => .ok (stack, fn)
  | .cmt _ => .ok (stack, fn)
  | .vd n _ => if voidNames.contains n then .ok (stack, fn) else .error (.selfClosedNonVoid n)
  | .op n attrs =>
    if voidNames.contains n then .error (.voidNotSelfClosed n) else
    let fn' := if isFootnoteSection n attrs then fn + 1 else fn
    if fn' > 1 then .error .footnotesTwice else
    if n == S.t_thead || n == S.t_tbody then
      match stack with
      | top :: rest =>
        if top.name != S.t_table then .error (.sectionOutsideTable n)
        else if n == S.t_thead then
          (if top.thead then .error (.sectionTwice n) else .ok (⟨n, false, false⟩ :: { top with thead := true } :: rest, fn'))
        else
          (if top.tbody then .error (.sectionTwice n) else .ok (⟨n, false, false⟩ :: { top with tbody := true } :: rest, fn'))
      | [] => .error (.sectionOutsideTable n)
    else .ok (⟨n, false, false⟩ :: stack, fn')
  | .cl n =>
    match stack with
    | [] => .error (.closeEmpty n)
    | top :: rest => if top.name == n then .ok (rest, fn) else .error (.closeMismatch top.name n)

def balLoop : List Open → Nat → List LTok → Except BalErr Unit
  | [], _, [] => .ok ()
  | top :: _, _, [] => .error (.leftOpen top.name)
  | st, fn, t :: ts =>
    match balStep st fn t with
    | .ok (st', fn') => balLoop st' fn' ts
    | .error e => .error e

/-- The C10 oracle on bytes. -/
def balancedBytes (bs : Bytes) : Except BalErr Unit :=
  match lexHtml bs with
  | none => .error .unlexable
  | some ts => balLoop [] 0 ts

def strOf (b : Bytes) : String := String.ofList (b.map fun c => Char.ofNat c.toNat)

def BalErr.code : BalErr → String
  | .unlexable => "unlexable"
  | .closeMismatch w g => s!"close-mismatch:{strOf w}:{strOf g}"
  | .closeEmpty g => s!"close-without-open:{strOf g}"
  | .voidNotSelfClosed n => s!"void-not-self-closed:{strOf n}"
  | .selfClosedNonVoid n => s!"self-closed-non-void:{strOf n}"
  | .leftOpen n => s!"left-open:{strOf n}"
  | .sectionTwice n => s!"table-section-twice:{strOf n}"
  | .sectionOutsideTable n => s!"table-section-outside-table:{strOf n}"
  | .footnotesTwice => "footnote-section-twice"

/-! ## Token-level balance (what the theorems are about) -/

/-- Abstract tag event of a model token. -/
inductive Ev where
  | op (n : Bytes) | cl (n : Bytes)
  deriving Repr, DecidableEq

def Tok.events : Tok → List Ev
  | .op n _ => [.op n]
  | .cl n => [.cl n]
  | _ => []

def events (ts : List Tok) : List Ev := ts.flatMap Tok.events

/-- Runs tag events against a stack of open element names; `none` on a mismatched close. -/
def run : List Bytes → List Ev → Option (List Bytes)
  | st, [] => some st
  | st, .op n :: r => run (n :: st) r
  | [], .cl _ :: _ => none
  | top :: st, .cl n :: r => if top = n then run st r else none

/-- Token-level balance: every start tag closed in the right order, nothing left open. -/
def balanced (ts : List Tok) : Bool := run [] (events ts) == some []

end Comrak
