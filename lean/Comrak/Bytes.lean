/-
Basic byte-string vocabulary shared by all models.
Rust `&[u8]`, `String` and `&str` values are modelled as their UTF-8 bytes.
Core Lean only (the driver links this file into a `lean_exe`).
-/
namespace Comrak

abbrev Bytes := List UInt8

namespace Bytes

/-- `isPrefixB p s`: `s` starts with `p` (Boolean, structural on `p`). -/
def isPrefixB : Bytes → Bytes → Bool
  | [], _ => true
  | _ :: _, [] => false
  | a :: p, b :: s => a == b && isPrefixB p s

theorem isPrefixB_append (p s t : Bytes) (h : isPrefixB p s = true) :
    isPrefixB p (s ++ t) = true := by
  induction p generalizing s with
  | nil => simp [isPrefixB]
  | cons a p ih =>
    cases s with
    | nil => simp [isPrefixB] at h
    | cons b s =>
      simp only [isPrefixB, Bool.and_eq_true, List.cons_append] at h ⊢
      exact ⟨h.1, ih s h.2⟩

theorem isPrefixB_self_append (p t : Bytes) : isPrefixB p (p ++ t) = true := by
  induction p with
  | nil => simp [isPrefixB]
  | cons a p ih => simp [isPrefixB, ih]

theorem isPrefixB_iff (p s : Bytes) : isPrefixB p s = true ↔ ∃ t, s = p ++ t := by
  induction p generalizing s with
  | nil => simp [isPrefixB]
  | cons a p ih =>
    cases s with
    | nil => simp [isPrefixB]
    | cons b s =>
      simp only [isPrefixB, Bool.and_eq_true, beq_iff_eq, List.cons_append, List.cons.injEq, ih]
      constructor
      · rintro ⟨rfl, t, rfl⟩; exact ⟨t, rfl, rfl⟩
      · rintro ⟨t, rfl, rfl⟩; exact ⟨rfl, t, rfl⟩

def isAsciiAlpha (c : UInt8) : Bool := (0x41 ≤ c && c ≤ 0x5A) || (0x61 ≤ c && c ≤ 0x7A)
def isAsciiDigit (c : UInt8) : Bool := 0x30 ≤ c && c ≤ 0x39
def isAsciiAlnum (c : UInt8) : Bool := isAsciiAlpha c || isAsciiDigit c
def toLowerAscii (c : UInt8) : UInt8 := if 0x41 ≤ c && c ≤ 0x5A then c + 0x20 else c

/-- ASCII upper-case hexadecimal digit for a nibble. -/
def hexDigit (n : UInt8) : UInt8 := if n < 10 then 0x30 + n else 0x37 + n

/-- Value of an ASCII hex digit (either case). -/
def hexVal? (c : UInt8) : Option UInt8 :=
  if 0x30 ≤ c && c ≤ 0x39 then some (c - 0x30)
  else if 0x41 ≤ c && c ≤ 0x46 then some (c - 0x37)
  else if 0x61 ≤ c && c ≤ 0x66 then some (c - 0x57)
  else none

/-- comrak's `ctype::isspace` (src/ctype.rs, class 1): tab, LF, CR, space - no VT, no FF. -/
def isSpace (c : UInt8) : Bool := c == 0x09 || c == 0x0A || c == 0x0D || c == 0x20

/-- White space of the HTML tokenizer (what ends a tag name for a browser): tab, LF, FF, CR, space. -/
def htmlSpace (c : UInt8) : Bool := c == 0x09 || c == 0x0A || c == 0x0C || c == 0x0D || c == 0x20

/-- Decimal digits, most significant first (`fuel` bounds the number of digits). -/
def ofNatDecAux : Nat → Nat → Bytes → Bytes
  | 0, _, acc => acc
  | fuel + 1, n, acc =>
    let d : UInt8 := UInt8.ofNat (48 + n % 10)
    if n < 10 then d :: acc else ofNatDecAux fuel (n / 10) (d :: acc)

/-- Decimal spelling of a natural number (as `write!("{}")` does). -/
def ofNatDec (n : Nat) : Bytes := ofNatDecAux (n + 1) n []

theorem ofNatDecAux_digits (fuel n : Nat) (acc : Bytes) (h : ∀ c ∈ acc, isAsciiDigit c = true) :
    ∀ c ∈ ofNatDecAux fuel n acc, isAsciiDigit c = true := by
  induction fuel generalizing n acc with
  | zero => simpa [ofNatDecAux] using h
  | succ k ih =>
    have hd : isAsciiDigit (UInt8.ofNat (48 + n % 10)) = true := by
      have : n % 10 < 10 := Nat.mod_lt _ (by omega)
      have h2 : ∀ m : Fin 10, isAsciiDigit (UInt8.ofNat (48 + m.val)) = true := by decide
      exact h2 ⟨n % 10, this⟩
    simp only [ofNatDecAux]
    split
    · intro c hc
      rcases List.mem_cons.mp hc with rfl | hc
      · exact hd
      · exact h c hc
    · apply ih
      intro c hc
      rcases List.mem_cons.mp hc with rfl | hc
      · exact hd
      · exact h c hc

/-- Every byte of a decimal spelling is an ASCII digit. -/
theorem ofNatDec_digits (n : Nat) : ∀ c ∈ ofNatDec n, isAsciiDigit c = true :=
  ofNatDecAux_digits _ _ _ (by simp)

/-- Hex wire encoding used by the line protocol. -/
def toHex (bs : Bytes) : String :=
  String.ofList (bs.flatMap fun (b : UInt8) =>
    let d (n : UInt8) : Char := Char.ofNat (if n < 10 then 48 + n.toNat else 87 + n.toNat)
    [d (b >>> 4), d (b &&& 0xF)])

def ofHex? (s : String) : Option Bytes :=
  let rec go : List Char → Option Bytes
    | [] => some []
    | [_] => none
    | a :: b :: r =>
      match hexVal? (UInt8.ofNat a.toNat), hexVal? (UInt8.ofNat b.toNat), go r with
      | some x, some y, some t => if a.toNat < 128 && b.toNat < 128 then some ((x <<< 4 ||| y) :: t) else none
      | _, _, _ => none
  if s == "-" then some [] else go s.toList

end Bytes
end Comrak
