/-
C06  Bounded work and output.

Proved here: the size bounds of the escapers, the linear bound of the backtick scanner with its memo,
the exact quadratic cost of the memo-less code-dollar scanner on the family `("$`a")^n` (a defect of
the pinned tree, listed as a known finding), and the caps (reference budget, table autocompletion,
XML indentation, link label length, parenthesis depth). Linearity of the block parser and of the whole
inline loop is measured by the search stage (step counters on input families), not proved.
-/
import Comrak.Cost
namespace Comrak.C06
open Comrak Bytes Comrak.Cost

/-! ## Output size of the escapers -/

theorem escByte_len (b : UInt8) : (escByte b).length ≤ 6 := by
  unfold escByte; repeat' split
  all_goals simp [entQuot, entAmp, entLt, entGt]

theorem hrefByte_len (b : UInt8) : (hrefByte b).length ≤ 6 := by
  unfold hrefByte; repeat' split
  all_goals simp [entAmp, entApos, pctByte]

theorem flatMap_len_le (f : UInt8 → Bytes) (k : Nat) (h : ∀ b, (f b).length ≤ k) (l : Bytes) :
    (l.flatMap f).length ≤ k * l.length := by
  induction l with
  | nil => simp
  | cons b r ih =>
    simp only [List.flatMap_cons, List.length_append, List.length_cons]
    have := h b
    rw [Nat.mul_succ]; omega

/-- `html::escape` writes at most 6 bytes per input byte. -/
theorem escape_len (b : Bytes) : (escape b).length ≤ 6 * b.length :=
  flatMap_len_le escByte 6 escByte_len b

/-- `html::escape_href` writes at most 6 bytes per input byte. -/
theorem escapeHref_len (b : Bytes) : (escapeHref b).length ≤ 6 * b.length :=
  flatMap_len_le hrefByte 6 hrefByte_len b

/-- ... and never fewer than it read: output size is within a factor 6 of input size both ways. -/
theorem escape_len_ge (b : Bytes) : b.length ≤ (escape b).length := by
  induction b with
  | nil => simp [escape]
  | cons c r ih =>
    have h1 : 1 ≤ (escByte c).length := by
      unfold escByte; repeat' split
      all_goals simp [entQuot, entAmp, entLt, entGt]
    simp only [escape, List.flatMap_cons, List.length_append, List.length_cons] at ih ⊢
    omega

/-! ## Backtick scanner -/

/-- A successful scan consumes exactly what it costs and strictly shortens the list of runs. -/
theorem findCloser_some (L : Nat) (rs : List Run) (c : Nat) (rest : List Run)
    (h : findCloser L rs = some (c, rest)) : c + totalLen rest = totalLen rs ∧ rest.length < rs.length := by
  induction rs generalizing c rest with
  | nil => simp [findCloser] at h
  | cons r rs ih =>
    simp only [findCloser] at h
    split at h
    · simp only [Option.some.injEq, Prod.mk.injEq] at h
      obtain ⟨rfl, rfl⟩ := h
      simp [totalLen]
    · cases hf : findCloser L rs with
      | none => simp [hf] at h
      | some p =>
        obtain ⟨c', rest'⟩ := p
        simp only [hf, Option.some.injEq, Prod.mk.injEq] at h
        obtain ⟨rfl, rfl⟩ := h
        have := ih c' rest' hf
        simp only [totalLen, List.length_cons]; omega

/-- A scan fails exactly when no run of that length lies ahead: what the memo records. -/
theorem findCloser_none_iff (L : Nat) (rs : List Run) :
    findCloser L rs = none ↔ (rs.any fun q => q.len == L) = false := by
  induction rs with
  | nil => simp [findCloser]
  | cons r rs ih =>
    simp only [findCloser, List.any_cons]
    by_cases h : r.len = L
    · simp [h]
    · simp only [h, if_false]
      have hb : (r.len == L) = false := by simpa using h
      rw [hb, Bool.false_or, ← ih]
      cases findCloser L rs with
      | none => simp
      | some p => simp

/-- The amortised bound, by flag state. -/
def btBound : Bool → List Run → Nat → Nat
  | true, rs, _ => rs.length + totalLen rs
  | false, rs, tail => rs.length + 2 * totalLen rs + tail

/-- Amortised bound: one step per opener, every byte is scanned at most once by a successful scan,
    and at most one scan runs to the end of the input unsuccessfully (it sets the flag). -/
theorem btLoop_bound (fuel : Nat) (scanned : Bool) (rs : List Run) (tail : Nat) :
    btLoop fuel scanned rs tail ≤ btBound scanned rs tail := by
  induction fuel generalizing scanned rs with
  | zero => simp [btLoop]
  | succ fuel ih =>
    cases rs with
    | nil => simp [btLoop]
    | cons r rs =>
      simp only [btLoop]
      split
      · have := ih scanned rs
        cases scanned <;> simp only [btBound, totalLen, List.length_cons] at * <;> omega
      · split
        · have := ih scanned rs
          cases scanned <;> simp only [btBound, totalLen, List.length_cons] at * <;> omega
        · rename_i hmemo
          split
          · rename_i c rest hf
            have ⟨h1, h2⟩ := findCloser_some r.len rs c rest hf
            have := ih scanned rest
            cases scanned <;> simp only [btBound, totalLen, List.length_cons] at * <;> omega
          · rename_i hf
            have hany := (findCloser_none_iff r.len rs).mp hf
            have hs : scanned = false := by
              cases scanned with
              | false => rfl
              | true => simp [hany] at hmemo
            subst hs
            have := ih true rs
            simp only [btBound, totalLen, List.length_cons] at *
            omega

/-- **The backtick scanner is linear**: over a whole inline text of `n` bytes (runs + tail) the counted
    steps (1 per `scan_to_closing_backtick` call + 1 per byte it scans) are at most `3 n`. -/
theorem backticks_linear (rs : List Run) (tail : Nat) (hpos : ∀ r ∈ rs, 1 ≤ r.len) :
    btSteps rs tail ≤ 3 * (totalLen rs + tail) := by
  have hl : rs.length ≤ totalLen rs := by
    induction rs with
    | nil => simp [totalLen]
    | cons r rs ih =>
      have := hpos r (by simp)
      have := ih (fun q hq => hpos q (by simp [hq]))
      simp only [totalLen, List.length_cons]; omega
  have hb := btLoop_bound rs.length false rs tail
  unfold btSteps
  simp only [btBound] at hb
  omega

/-- The positional memo of the code is not the specification-level memo of `btSteps`: on
    `a``a`a`a`a`` the implementation rejects the third single backtick in one step (its entry was
    overwritten by the first code span's closer) although a closer follows, so it takes fewer steps -
    and drops a code span (reported to the lead as a parsing defect outside C06). The correspondence
    stage ties the real counter to `btStepsPos` (equality) and checks the `3 n` bound on every input. -/
theorem btStepsPos_differs_counterexample :
    btStepsPos [⟨1, 2⟩, ⟨1, 1⟩, ⟨1, 1⟩, ⟨1, 1⟩, ⟨1, 1⟩] 0 = 14 ∧ btSteps [⟨1, 2⟩, ⟨1, 1⟩, ⟨1, 1⟩, ⟨1, 1⟩, ⟨1, 1⟩] 0 = 15 := by
  decide

/-! ## The code-dollar scanner has no memo: quadratic on `("$`a")^n` -/

def tri : Nat → Nat
  | 0 => 0
  | n + 1 => tri n + (n + 1)

theorem sum_replicate (n p : Nat) : (List.replicate n p).sum = n * p := by
  induction n with
  | zero => simp
  | succ n ih => simp [List.replicate_succ, ih, Nat.add_mul]; omega

theorem cdSteps_replicate (n p : Nat) : cdSteps (List.replicate n p) = (p + 1) * tri n := by
  induction n with
  | zero => simp [cdSteps, tri]
  | succ n ih =>
    simp only [List.replicate_succ, cdSteps, sum_replicate, List.length_replicate, ih, tri]
    simp only [Nat.mul_add, Nat.add_mul, Nat.mul_one, Nat.one_mul]
    have : n * p = p * n := Nat.mul_comm n p
    omega

theorem tri_ge (n : Nat) : n * n ≤ 2 * tri n := by
  induction n with
  | zero => simp [tri]
  | succ n ih =>
    simp only [tri, Nat.mul_add, Nat.add_mul, Nat.mul_one, Nat.one_mul]
    omega

/-- **Quadratic lower bound** for the pinned `scan_to_closing_code_dollar`: on a text with `n` openers
    none of which has a closer (e.g. `"$`a"` repeated `n` times: each `$` is preceded by `a`, never by a
    backtick) the scanner takes at least `n^2 / 2` steps for 3 n bytes of input.
    Known finding C06-code-dollar-quadratic; repair: a "no closer ahead" flag as for backticks. -/
theorem dollar_quadratic (n p : Nat) : n * n ≤ 2 * cdSteps (List.replicate n p) := by
  rw [cdSteps_replicate]
  have h1 := tri_ge n
  have h2 : tri n ≤ (p + 1) * tri n := Nat.le_mul_of_pos_left _ (by omega)
  omega

/-! ## Caps -/

/-- The expanded reference text never exceeds the budget, whatever is looked up and how often. -/
theorem refmap_budget (st : RefState) (sizes : List Nat) (h : st.refSize ≤ st.maxRefSize) :
    refGranted st sizes + st.refSize ≤ st.maxRefSize := by
  induction sizes generalizing st with
  | nil => simpa [refGranted] using h
  | cons s rest ih =>
    simp only [refGranted, refLookup]
    split
    · have := ih st h
      simp; omega
    · rename_i hs
      have := ih { st with refSize := st.refSize + s } (by simp; omega)
      simp at this ⊢; omega

/-- Table rows stop being added once more than `MAX_AUTOCOMPLETED_CELLS` cells were autocompleted:
    at most one row's worth (`cols`) beyond the cap. -/
theorem autocomplete_cap (cols auto : Nat) (rows : List Nat) (h : auto ≤ MAX_AUTOCOMPLETED_CELLS + cols) :
    autocompleteRows cols auto rows ≤ MAX_AUTOCOMPLETED_CELLS + cols := by
  induction rows generalizing auto with
  | nil => simpa [autocompleteRows] using h
  | cons c rest ih =>
    simp only [autocompleteRows]
    split
    · exact h
    · exact ih _ (by omega)

theorem xml_indent_cap (depth : Nat) : xmlIndent depth ≤ 40 := by
  unfold xmlIndent XML_MAX_INDENT; omega

/-- `link_label` gives up after `MAX_LINK_LABEL_LENGTH + 1` steps. -/
theorem label_bounded (length steps : Nat) (l : Bytes) (h : length ≤ MAX_LINK_LABEL_LENGTH) :
    labelScan length steps l ≤ steps + (MAX_LINK_LABEL_LENGTH + 1 - length) := by
  induction l generalizing length steps with
  | nil => simp [labelScan]
  | cons c r ih =>
    simp only [labelScan]
    split
    · omega
    · split
      · omega
      · have := ih (length + 1) (steps + 1) (by omega)
        omega

theorem paren_depth_bounded (d : Nat) (l : Bytes) (k : Nat) (hd : d ≤ 32) (h : parenDepth d l = some k) : k ≤ 32 := by
  induction l generalizing d with
  | nil => simp [parenDepth] at h; omega
  | cons c r ih =>
    simp only [parenDepth] at h
    split at h
    · split at h
      · simp at h
      · exact ih (d + 1) (by omega) h
    · split at h
      · split at h
        · simp at h; omega
        · exact ih (d - 1) (by omega) h
      · exact ih d hd h

/-! Non-vacuity -/
example : (escape [0x22, 0x61]).length = 7 := by decide
example : findCloser 2 [⟨1, 1⟩, ⟨0, 2⟩, ⟨3, 1⟩] = some (4, [⟨3, 1⟩]) := by decide
-- a`b``c`d : opener 1 fails? no: closes at the third run; ``c is skipped over
example : btSteps [⟨1, 1⟩, ⟨1, 2⟩, ⟨1, 1⟩] 1 = 6 := by decide
-- three openers of different lengths: the first failing scan sets the flag, the others cost 1 each
example : btSteps [⟨1, 1⟩, ⟨1, 2⟩, ⟨1, 3⟩] 1 = 1 + 8 + 1 + 1 := by decide
example : cdSteps [2, 2, 2] = 3 + 2 * 3 + 3 * 3 := by decide
example : refGranted ⟨10, 0⟩ [4, 4, 4, 2] = 10 := by decide
example : labelScan 0 0 (List.replicate 2000 0x61) = 1001 := by decide +kernel

end Comrak.C06
