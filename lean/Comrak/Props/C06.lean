/-
C06  Bounded work and output.

Proved here: the size bounds of the escapers; the linear bound of the backtick scanner, for the
specification-level memo and for the positional memo the code implements; termination of `process_emphasis`,
the linear bound of its opener search for the code as it is (since /repo commits 9704a60 and e31def4, every
delimiter character) and the quadratic
lower bound of the loop before that repair on the rule-of-three family; the linear bound of the dollar
scanners with their "no closer ahead" flags (since /repo commit 657287d; `$` scans ended by the space / digit
rule excepted, with a counterexample) and the quadratic cost of the memo-less code-dollar scanner before it; the output size of the
HTML formatter model (per node, and whole trees without footnote definitions); the caps (reference budget,
table autocompletion, XML indentation, link label length, parenthesis depth). Linearity of the block parser
and of the whole inline loop is measured by the search stage (step counters on input families), not proved.
-/
import Comrak.Cost
import Comrak.Lemmas.CostBt
import Comrak.Lemmas.CostEmph
import Comrak.Lemmas.CostEmphQ
import Comrak.Lemmas.CostHtml
import Comrak.Lemmas.CostDl
namespace Comrak.C06
open Comrak Bytes Comrak.Cost

/-! ## Output size of the escapers -/

theorem escByte_len (b : UInt8) : (escByte b).length ≤ 6 := by
  unfold escByte; repeat' split
  all_goals simp [entQuot, entAmp, entLt, entGt]

theorem hrefByte_len (b : UInt8) : (hrefByte b).length ≤ 6 := by
  unfold hrefByte; repeat' split
  all_goals simp [entAmp, entApos, pctByte]

theorem flatMap_len_le (f : UInt8 → Bytes) (k : Nat) (h : ∀ b, (f b).length ≤ k) (l : Bytes) :
    (l.flatMap f).length ≤ k * l.length := by
  induction l with
  | nil => simp
  | cons b r ih =>
    simp only [List.flatMap_cons, List.length_append, List.length_cons]
    have := h b
    rw [Nat.mul_succ]; omega

/-- `html::escape` writes at most 6 bytes per input byte. -/
theorem escape_len (b : Bytes) : (escape b).length ≤ 6 * b.length :=
  flatMap_len_le escByte 6 escByte_len b

/-- `html::escape_href` writes at most 6 bytes per input byte. -/
theorem escapeHref_len (b : Bytes) : (escapeHref b).length ≤ 6 * b.length :=
  flatMap_len_le hrefByte 6 hrefByte_len b

/-- ... and never fewer than it read: output size is within a factor 6 of input size both ways. -/
theorem escape_len_ge (b : Bytes) : b.length ≤ (escape b).length := by
  induction b with
  | nil => simp [escape]
  | cons c r ih =>
    have h1 : 1 ≤ (escByte c).length := by
      unfold escByte; repeat' split
      all_goals simp [entQuot, entAmp, entLt, entGt]
    simp only [escape, List.flatMap_cons, List.length_append, List.length_cons] at ih ⊢
    omega

/-! ## Backtick scanner -/

/-- A successful scan consumes exactly what it costs and strictly shortens the list of runs. -/
theorem findCloser_some (L : Nat) (rs : List Run) (c : Nat) (rest : List Run)
    (h : findCloser L rs = some (c, rest)) : c + totalLen rest = totalLen rs ∧ rest.length < rs.length := by
  induction rs generalizing c rest with
  | nil => simp [findCloser] at h
  | cons r rs ih =>
    simp only [findCloser] at h
    split at h
    · simp only [Option.some.injEq, Prod.mk.injEq] at h
      obtain ⟨rfl, rfl⟩ := h
      simp [totalLen]
    · cases hf : findCloser L rs with
      | none => simp [hf] at h
      | some p =>
        obtain ⟨c', rest'⟩ := p
        simp only [hf, Option.some.injEq, Prod.mk.injEq] at h
        obtain ⟨rfl, rfl⟩ := h
        have := ih c' rest' hf
        simp only [totalLen, List.length_cons]; omega

/-- A scan fails exactly when no run of that length lies ahead: what the memo records. -/
theorem findCloser_none_iff (L : Nat) (rs : List Run) :
    findCloser L rs = none ↔ (rs.any fun q => q.len == L) = false := by
  induction rs with
  | nil => simp [findCloser]
  | cons r rs ih =>
    simp only [findCloser, List.any_cons]
    by_cases h : r.len = L
    · simp [h]
    · simp only [h, if_false]
      have hb : (r.len == L) = false := by simpa using h
      rw [hb, Bool.false_or, ← ih]
      cases findCloser L rs with
      | none => simp
      | some p => simp

/-- The amortised bound, by flag state. -/
def btBound : Bool → List Run → Nat → Nat
  | true, rs, _ => rs.length + totalLen rs
  | false, rs, tail => rs.length + 2 * totalLen rs + tail

/-- Amortised bound: one step per opener, every byte is scanned at most once by a successful scan,
    and at most one scan runs to the end of the input unsuccessfully (it sets the flag). -/
theorem btLoop_bound (fuel : Nat) (scanned : Bool) (rs : List Run) (tail : Nat) :
    btLoop fuel scanned rs tail ≤ btBound scanned rs tail := by
  induction fuel generalizing scanned rs with
  | zero => simp [btLoop]
  | succ fuel ih =>
    cases rs with
    | nil => simp [btLoop]
    | cons r rs =>
      simp only [btLoop]
      split
      · have := ih scanned rs
        cases scanned <;> simp only [btBound, totalLen, List.length_cons] at * <;> omega
      · split
        · have := ih scanned rs
          cases scanned <;> simp only [btBound, totalLen, List.length_cons] at * <;> omega
        · rename_i hmemo
          split
          · rename_i c rest hf
            have ⟨h1, h2⟩ := findCloser_some r.len rs c rest hf
            have := ih scanned rest
            cases scanned <;> simp only [btBound, totalLen, List.length_cons] at * <;> omega
          · rename_i hf
            have hany := (findCloser_none_iff r.len rs).mp hf
            have hs : scanned = false := by
              cases scanned with
              | false => rfl
              | true => simp [hany] at hmemo
            subst hs
            have := ih true rs
            simp only [btBound, totalLen, List.length_cons] at *
            omega

/-- **The backtick scanner is linear**: over a whole inline text of `n` bytes (runs + tail) the counted
    steps (1 per `scan_to_closing_backtick` call + 1 per byte it scans) are at most `3 n`. -/
theorem backticks_linear (rs : List Run) (tail : Nat) (hpos : ∀ r ∈ rs, 1 ≤ r.len) :
    btSteps rs tail ≤ 3 * (totalLen rs + tail) := by
  have hl : rs.length ≤ totalLen rs := by
    induction rs with
    | nil => simp [totalLen]
    | cons r rs ih =>
      have := hpos r (by simp)
      have := ih (fun q hq => hpos q (by simp [hq]))
      simp only [totalLen, List.length_cons]; omega
  have hb := btLoop_bound rs.length false rs tail
  unfold btSteps
  simp only [btBound] at hb
  omega

/-- The positional memo of the code is not the specification-level memo of `btSteps`: on
    `a``a`a`a`a`` the implementation rejects the third single backtick in one step (its entry was
    overwritten by the first code span's closer) although a closer follows, so it takes fewer steps -
    and drops a code span (reported to the lead as a parsing defect outside C06). The correspondence
    stage ties the real counter to `btStepsPos` (equality) and checks the `3 n` bound on every input. -/
theorem btStepsPos_differs_counterexample :
    btStepsPos [⟨1, 2⟩, ⟨1, 1⟩, ⟨1, 1⟩, ⟨1, 1⟩, ⟨1, 1⟩] 0 = 14 ∧ btSteps [⟨1, 2⟩, ⟨1, 1⟩, ⟨1, 1⟩, ⟨1, 1⟩, ⟨1, 1⟩] 0 = 15 := by
  decide

/-! ## The positional memo, exactly as implemented (`btStepsPos` = the real `backtick-scan` counter in K)

`backticks[k]` may be overwritten by any scan, successful ones included, so the implementation can forget
a closer (`btStepsPos_differs_counterexample`). It can never *invent* one: every entry that lies ahead of
the current position is the start of a run of that length that is still ahead (`MemoInv`). Hence, once
`scanned_for_backticks` is set, an opener that passes the memo test always finds its closer - at most one
scan of a whole inline text fails - and the amortised bound of the specification-level memo carries over
unchanged. The bound does not depend on `MAXBACKTICKS`. -/

/-- The invariant of the positional memo holds initially (all entries 0, position 0). -/
theorem memoInv_initial (rs : List Run) : MemoInv (fun _ => 0) 0 rs := memoInv_init rs

/-- With the flag set, an opener that is not rejected by `backticks[len] <= pos` has a closer ahead:
    after the first failed scan no scan fails again. -/
theorem scanPos_succeeds_after_flag (memo : Nat → Nat) (pos : Nat) (r : Run) (rs : List Run)
    (hI : MemoInv memo pos (r :: rs)) (hm : pos + r.gap + r.len < memo r.len) :
    (scanPos r.len memo (pos + r.gap + r.len) rs).found = true :=
  scanPos_found_of_ahead r.len _ memo _ rs (memoInv_tail memo pos r rs hI r.len hm)

/-- Amortised bound for the positional memo, by flag state, from any state that satisfies the invariant. -/
theorem btLoopPos_amortised (fuel : Nat) (scanned : Bool) (memo : Nat → Nat) (pos : Nat) (rs : List Run) (tail : Nat)
    (hI : MemoInv memo pos rs) : btLoopPos fuel scanned memo pos rs tail ≤ btBound scanned rs tail := by
  have := btLoopPos_bound fuel scanned memo pos rs tail hI
  cases scanned <;> simpa [btBound, btBoundPos] using this

/-- **The backtick scanner as implemented is linear**: the model that equals the real `backtick-scan`
    counter takes at most `3 n` steps on an inline text of `n` bytes, for all inputs. -/
theorem backticks_pos_linear (rs : List Run) (tail : Nat) (hpos : ∀ r ∈ rs, 1 ≤ r.len) :
    btStepsPos rs tail ≤ 3 * (totalLen rs + tail) := by
  have hl : rs.length ≤ totalLen rs := by
    induction rs with
    | nil => simp [totalLen]
    | cons r rs ih =>
      have := hpos r (by simp)
      have := ih (fun q hq => hpos q (by simp [hq]))
      simp only [totalLen, List.length_cons]; omega
  have hb := btLoopPos_amortised rs.length false (fun _ => 0) 0 rs tail (memoInv_init rs)
  unfold btStepsPos
  simp only [btBound] at hb
  omega

/-- Without the positivity hypothesis (runs of length 0 do not occur in a text): one step per opener
    plus twice the bytes. -/
theorem backticks_pos_linear' (rs : List Run) (tail : Nat) :
    btStepsPos rs tail ≤ rs.length + 2 * totalLen rs + tail := by
  simpa [btBound, btStepsPos] using btLoopPos_amortised rs.length false (fun _ => 0) 0 rs tail (memoInv_init rs)

/-! ## `process_emphasis`: termination, the linear bound, and the loop before its repair

Model: `Cost.emLoop` (the outer closer loop and the inner opener search over an abstract delimiter stack with
`openers_bottom`), counting what the hook counter `emphasis-opener-search` counts; `emSteps fix ds` runs it on
a whole inline text with the termination measure as fuel. `fix = true` is the code as it is since /repo
commits 9704a60 and e31def4 (42 slots: every delimiter character split by can_open x length % 3; after every
failed search the bottom is raised, `mod_three_rule_invoked` is gone) and is tied to the real counter by
equality in K, `~` (strikethrough) with its `insert_emph` exit included. `fix = false` is the loop before
those commits (12 slots, a single one for `_`, raised only `if !mod_three_rule_invoked`), kept for the
historical counterexample. -/

def emSorted (ds : List Delim) : Prop := ds.Pairwise (fun a b => a.pos < b.pos)

/-- **`process_emphasis` terminates**: with the measure "characters left + delimiters still to visit" as fuel
    the loop never runs out, as it is and as it was before the repair, for every delimiter list. -/
theorem emphasis_terminates (fix : Bool) (ds : List Delim) : ∃ k, emSteps fix ds = some k :=
  emLoop_terminates fix _ _ [] ds (Nat.le_refl _)

/-- The amortised bound from any state that satisfies the stack invariant (positions increase up the
    stack, no bottom above the current closer), when every closer with property `P` either has its bottom
    raised after every failed search (always, for the code as it is) or has no odd match among the openers
    with property `P`. -/
theorem emLoop_amortised (P : Delim → Prop) (hP : ∀ d n, P d → P { d with cur := n }) (fix : Bool)
    (hfix : ∀ c, P c → c.canClose = true → alwaysRaise fix c = true ∨
      ∀ o, P o → o.canOpen = true → o.ch = c.ch → oddMatch o c = false)
    (fuel : Nat) (bot : Nat → Nat) (left right : List Delim) (hI : EmInv P bot left right)
    (hf : sumCur right + right.length ≤ fuel) :
    ∃ k, emLoop fix fuel bot left right = some k ∧ k ≤ emPot bot left right :=
  emLoop_bound P hP fix hfix fuel bot left right hI hf

theorem emPot_initial (ds : List Delim) : emPot (fun _ => 0) [] ds = 44 * ds.length + sumCur ds := by
  simp only [emPot, potA_zero, List.length_nil, sumCur]; omega

/-- The bound for either loop under the hypothesis in the form `emLoop_amortised` wants, from the start state. -/
theorem emphasis_linear_of (fix : Bool) (ds : List Delim) (hs : emSorted ds)
    (hok : ∀ c ∈ ds, c.canClose = true → alwaysRaise fix c = true ∨
      ∀ o ∈ ds, o.canOpen = true → o.ch = c.ch → oddMatch o c = false) :
    ∃ k, emSteps fix ds = some k ∧ k ≤ 44 * ds.length + sumCur ds := by
  -- P d: d is a delimiter of the text up to its current length
  let P : Delim → Prop := fun d => ∃ d0 ∈ ds, d0.ch = d.ch ∧ d0.len = d.len ∧ d0.canOpen = d.canOpen ∧ d0.canClose = d.canClose
  have hP : ∀ d n, P d → P { d with cur := n } := fun d n ⟨d0, h0, h⟩ => ⟨d0, h0, h⟩
  have hfix : ∀ c, P c → c.canClose = true → alwaysRaise fix c = true ∨
      ∀ o, P o → o.canOpen = true → o.ch = c.ch → oddMatch o c = false := by
    intro c ⟨c0, hc0, b1, b2, b3, b4⟩ hcl
    rcases hok c0 hc0 (by rw [b4]; exact hcl) with h | h
    · left; simpa [alwaysRaise] using h
    · right
      intro o ⟨o0, ho0, a1, a2, a3, a4⟩ h1 h3
      have := h o0 ho0 (by rw [a3]; exact h1) (by rw [a1, b1]; exact h3)
      simpa [oddMatch, a2, a4, b2, b3] using this
  have hI : EmInv P (fun _ => 0) [] ds :=
    ⟨fun d hd => by simp at hd, hs, fun _ _ _ => Nat.zero_le _, fun d hd => by simp at hd,
      fun d hd => ⟨d, hd, rfl, rfl, rfl, rfl⟩⟩
  obtain ⟨k, h1, h2⟩ := emLoop_bound P hP fix hfix _ _ [] ds hI (Nat.le_refl _)
  exact ⟨k, h1, by rw [emPot_initial] at h2; exact h2⟩

/-- **The opener search of `process_emphasis`, as the code is now, is linear for every delimiter character**:
    at most `44 n + chars` counted steps for `n` delimiter runs with `chars` delimiter characters in all (42
    slots pay for the failed searches, each delimiter is dropped once, each match uses up characters, each
    delimiter is visited as a closer) - no hypothesis about the characters or the rule of three. The model
    `emSteps true` equals the real `emphasis-opener-search` counter on every text of the K stage (`* _ ~`).
    History: /repo commit 9704a60 raised the bottom unconditionally only for `*` and `_`; `~ ^ |` kept the
    guarded update and `"|~a|"^n a "|a~|"^n` was still quadratic (found by the thorough tier); commit e31def4
    gave every character its six slots and dropped the guard. -/
theorem emphasis_linear (ds : List Delim) (hs : emSorted ds) :
    ∃ k, emSteps true ds = some k ∧ k ≤ 44 * ds.length + sumCur ds :=
  emphasis_linear_of true ds hs (fun _ _ _ => Or.inl rfl)

/-- In bytes: every delimiter run has at least one character, so at most `45` steps per delimiter byte. -/
theorem emphasis_linear_bytes (ds : List Delim) (hs : emSorted ds) (hc : ∀ d ∈ ds, 1 ≤ d.cur) :
    ∃ k, emSteps true ds = some k ∧ k ≤ 45 * sumCur ds := by
  obtain ⟨k, h1, h2⟩ := emphasis_linear ds hs
  have hl : ds.length ≤ sumCur ds := by
    clear h1 h2 hs
    induction ds with
    | nil => simp [sumCur]
    | cons d ds ih =>
      have := hc d (by simp)
      have := ih (fun e he => hc e (by simp [he]))
      simp only [List.length_cons, sumCur]; omega
  exact ⟨k, h1, by omega⟩

/-- No opener / closer pair of the text falls under the rule of three. -/
def noOddMatch (ds : List Delim) : Prop :=
  ∀ o ∈ ds, ∀ c ∈ ds, o.canOpen = true → c.canClose = true → o.ch = c.ch → oddMatch o c = false

/-- The loop before /repo commit 9704a60 was linear only on texts without an odd match (then
    `mod_three_rule_invoked` stays false and `openers_bottom` is raised after every failed search). -/
theorem emphasis_linear_old_noodd (ds : List Delim) (hs : emSorted ds) (hno : noOddMatch ds) :
    ∃ k, emSteps false ds = some k ∧ k ≤ 44 * ds.length + sumCur ds :=
  emphasis_linear_of false ds hs (fun c hc hcl => Or.inr (fun o ho h1 h3 => hno o ho c hc h1 hcl h3))

/-- **Quadratic lower bound for `process_emphasis` as it was before /repo commit 9704a60** (`emSteps false`;
    repaired there and in e31def4: `openers_bottom[ix]` is now raised after every failed search and every
    character has its own can_open x length % 3 slots - see `emphasis_linear`, `emphasis_fixed_on_family`). On `"**b*a "`
    repeated `2 m` times (`4 m` delimiter runs, `6 m` delimiter characters, `12 m` bytes) the single `*`
    closers that find no opener walked over all the `**` openers left below (rule of three), the bottom was
    not raised, and the `**` openers accumulated - at least `m^2 / 2` steps. Former known finding
    C06-emphasis-rule-of-three-quadratic (same mechanism as `"*a **b"` repeated), now `fixed`. -/
theorem emphasis_quadratic_counterexample (m : Nat) :
    ∃ k, emSteps false (emFam 0 m) = some k ∧ m * m ≤ 2 * k ∧
      (emFam 0 m).length = 4 * m ∧ sumCur (emFam 0 m) = 6 * m ∧ emSorted (emFam 0 m) := by
  obtain ⟨hl, hc⟩ := emFam_length m 0
  refine ⟨qcost 0 m, ?_, ?_, hl, hc, (emFam_sorted m 0).1⟩
  · unfold emSteps
    have := emLoop_fam m (sumCur (emFam 0 m) + (emFam 0 m).length) (fun _ => 0) [] 0 (by omega) rfl (by simp)
    simpa using this
  · have := qcost_ge m 0
    omega

/-- ... so the bound of `emphasis_linear` did not hold for the loop before /repo commit 9704a60: on
    `emFam 0 370` (4440 bytes of `*`-only text) it took more than `44 n + chars` steps. -/
theorem emphasis_pinned_not_linear_counterexample :
    ∃ ds, emSorted ds ∧ (∀ d ∈ ds, d.ch = 0x2A) ∧
      ∃ k, emSteps false ds = some k ∧ 44 * ds.length + sumCur ds < k := by
  obtain ⟨k, h1, h2, h3, h4, h5⟩ := emphasis_quadratic_counterexample 370
  exact ⟨emFam 0 370, h5, emFam_star 370 0, k, h1, by omega⟩

/-- The code as it is on the same family: linear (at most `182 m` steps for `12 m` bytes by the general bound). -/
theorem emphasis_fixed_on_family (m : Nat) : ∃ k, emSteps true (emFam 0 m) = some k ∧ k ≤ 182 * m := by
  obtain ⟨k, h1, h2⟩ := emphasis_linear (emFam 0 m) (emFam_sorted m 0).1
  obtain ⟨hl, hc⟩ := emFam_length m 0
  exact ⟨k, h1, by omega⟩

/-! ## Output size of the HTML formatter (model `renderHtml` of Html.lean)

`HtmlSize.tokSize` over-approximates what a token spells (6 bytes per byte that goes through `escape` /
`escape_href`, everything else exactly); what `enter` / `exit` write for one node is bounded for all 41 kinds
(`enter_size`, `exit_size`), and the bound is summed over the tree by mutual induction. -/

open HtmlSize in
/-- What `enter` writes for one node, in any writer state: at most 6 bytes per byte of its strings (for an
    image: plus its alternative text) + 300 + the source position (up to 12 times: twice plain or once
    escaped) + its other decimal numbers + the heading anchor (twice) and the id prefix. -/
theorem html_enter_size (o : HtmlOpts) (nt : NormTable) (cx : Ctx) (v : NodeValue) (sp : Sp) (cs : Forest) (A : Nat)
    (hA : o.headerIds ≠ none → ∀ issued h, ((anchorize nt issued h).1).length ≤ A) (st : St) :
    (spell (enter o nt cx v sp cs st).1).length ≤
      6 * (payloadIn v + altLen v cs) + 300 + 12 * spLen sp + numLen v + 2 * A + pfxLen o :=
  Nat.le_trans (spell_le_size _) (enter_size o nt cx v sp cs A hA st)

open HtmlSize in
/-- What `exit` writes for one node that is neither a footnote definition nor the last paragraph of one. -/
theorem html_exit_size (o : HtmlOpts) (cx : Ctx) (v : NodeValue) (cs : Forest)
    (hv : ∀ n t, v ≠ .footnoteDefinition n t) (hp : ∀ n t, cx.parent ≠ some (.footnoteDefinition n t)) (st : St) :
    (spell (exit o cx v cs st).1).length ≤ 6 * payloadOut v + 64 + numLen v :=
  Nat.le_trans (spell_le_size _) (exit_size o cx v cs hv hp st)

open HtmlSize in
/-- **Output size of the HTML formatter is linear in the size of the tree**, for every option vector and
    every tree without footnote definitions: 6 bytes per byte of document text (`textBytesT`: image titles and
    escaped tags count twice, they are written twice), a constant per node, and the decimal strings of source positions and numbers.
    With `header_ids` on, the heading anchors are bounded by `A` by hypothesis (the `NormTable` and the `-N`
    uniqueness suffix are outside this bound; the hypothesis is void with `header_ids` off, see
    `html_size_bound_noids_partial`).
    `_partial`: footnote definitions are excluded; their back-references are `total_references` links of
    bounded size each (`html_backrefs_size`), the sum over definitions is not carried through the induction. -/
theorem html_size_bound_partial (o : HtmlOpts) (nt : NormTable) (t : Tree) (A : Nat)
    (hA : o.headerIds ≠ none → ∀ issued h, ((anchorize nt issued h).1).length ≤ A) (hno : noFnT t) :
    (renderHtml o nt t).length ≤
      6 * textBytesT t + (364 + 2 * A + pfxLen o) * nodesT t + 12 * spDigitsT t + 2 * numDigitsT t + 17 :=
  renderHtml_size o nt t A hA hno

open HtmlSize in
/-- Without `header_ids` (no anchors are generated) the bound needs no hypothesis about the normaliser. -/
theorem html_size_bound_noids_partial (o : HtmlOpts) (nt : NormTable) (t : Tree) (hid : o.headerIds = none)
    (hno : noFnT t) :
    (renderHtml o nt t).length ≤ 6 * textBytesT t + 364 * nodesT t + 12 * spDigitsT t + 2 * numDigitsT t + 17 := by
  have h := renderHtml_size o nt t 0 (fun h => absurd hid h) hno
  have hp : pfxLen o = 0 := by simp [pfxLen, hid]
  simpa [hp] using h

open HtmlSize in
/-- The back-references of one footnote definition: `k` links, each at most
    `6 |name| + 2 digits(index) + 4 D + 256` bytes (`D` bounds the digits of the reference numbers). -/
theorem html_backrefs_size (name : Bytes) (fnIx D k r : Nat) (h : ∀ n, r ≤ n → n < r + k → dig n ≤ D) :
    (spell (backrefToks name fnIx k r)).length ≤ k * (6 * name.length + 2 * dig fnIx + 4 * D + 256) :=
  Nat.le_trans (spell_le_size _) (backrefToks_size name fnIx D k r h)

/-- The factor 6 is reached: a text node of `n` double quotes renders as `6 n` bytes. -/
theorem html_size_factor_six_counterexample :
    (renderHtml {} {} (.node (.text [0x22, 0x22, 0x22]) {} .nil)).length = 6 * 3 := by decide

/-! ## The dollar scanners: linear since /repo commits 657287d and b4925f3

`Cost.dlLoop true mc md` is the inline loop restricted to letters, digits, spaces, `$`, backtick and backslash
with `handle_dollars` as the code is now: `scan_to_closing_code_dollar` returns at once when
`no_code_dollar_closer` is set and sets it when a scan runs to the end of the input; `scan_to_closing_dollar(len)`
returns at once when it would start before `no_dollar_closer_before[len]`, and every failed scan (end of the
input, space before the closing `$`, digit after it) records the position at which it failed.
`dlSteps mc md` is its `dollar-scan` step count, equal to the real counter in K. -/

/-- The amortised bound from any state of the inline loop: 2 per byte ahead + the potential of the memos. -/
theorem dlLoop_amortised (mc md : Bool) (inp : Bytes) (fuel pos : Nat) (memo : Nat → Nat) (scanned : Bool) (fl : DlFlags) :
    dlCost (dlLoop true mc md inp fuel pos memo scanned fl) ≤ 2 * (inp.length - pos) + flagPot md fl inp.length :=
  dlLoop_bound mc md inp fuel pos memo scanned fl

/-- **The code-dollar scanner as it is now is linear**: with `math_dollars` off, the `dollar-scan` steps of a
    whole inline text are at most `3 n` for `n` bytes, for every text (at most one scan runs to the end - it
    sets `no_code_dollar_closer` -, a scan that finds its `` `$ `` costs what it consumes and the loop resumes
    behind it, a closer too close to make a span costs at most 2). -/
theorem dollar_linear (mc : Bool) (inp : Bytes) : dlSteps mc false inp ≤ 3 * inp.length := by
  have h := dlLoop_bound mc false inp (inp.length + 1) 0 (fun _ => 0) false {}
  simp only [dlSteps, dlEvents]
  simp only [flagPot, nb] at h
  simp at h
  omega

/-- **The dollar scanners as they are now are linear, with `math_dollars` too**: at most `5 n` `dollar-scan`
    steps for every text of `n` bytes, with or without `math_code`. A `$` / `$$` scan only runs when it starts at
    or behind the position where the last one of its length failed; it then either finds its closer (and the
    loop resumes behind what it consumed) or fails at a later byte `q` after `q - p + 1` steps and moves the
    record to `q`: the records only move forward, `n` bytes each in all.
    History: /repo commit 657287d only remembered scans that ran to the end of the input; the `$` scans ended by
    the space / digit rule set nothing, and `"a" ++ "$\\" x k ++ " $"` (every `$` an opener, every scan refused
    at the last `$`) still cost about `1.5 k^2` steps (241001 for 1203 bytes at `k = 400`, found by this model
    and confirmed against the real counter); repaired in /repo commit b4925f3, which this model follows. -/
theorem math_dollar_linear (mc : Bool) (inp : Bytes) : dlSteps mc true inp ≤ 5 * inp.length := by
  have h := dlLoop_bound mc true inp (inp.length + 1) 0 (fun _ => 0) false {}
  simp only [dlSteps, dlEvents]
  simp only [flagPot, nb] at h
  simp at h
  omega

/-! ## Before /repo commit 657287d the code-dollar scanner had no memo: quadratic on `("$`a")^n`

The theorems of this section are about `cdStepsOld` / `dlStepsOld`, the scanner as it was; the defect was
repaired in /repo commit 657287d (`dollar_linear`, `math_dollar_linear`). -/

def tri : Nat → Nat
  | 0 => 0
  | n + 1 => tri n + (n + 1)

theorem sum_replicate (n p : Nat) : (List.replicate n p).sum = n * p := by
  induction n with
  | zero => simp
  | succ n ih => simp [List.replicate_succ, ih, Nat.add_mul]; omega

/-- On `n` unclosed openers `p` bytes apart: `(p + 1) n (n + 1) / 2 - n` steps. -/
theorem cdSteps_replicate (n p : Nat) : cdStepsOld (List.replicate n p) + n = (p + 1) * tri n := by
  induction n with
  | zero => simp [cdStepsOld, tri]
  | succ n ih =>
    simp only [List.replicate_succ, cdStepsOld, sum_replicate, List.length_replicate, tri]
    simp only [Nat.mul_add, Nat.add_mul, Nat.mul_one, Nat.one_mul] at ih ⊢
    have : n * p = p * n := Nat.mul_comm n p
    omega

theorem tri_ge (n : Nat) : n * n + n ≤ 2 * tri n := by
  induction n with
  | zero => simp [tri]
  | succ n ih =>
    simp only [tri, Nat.mul_add, Nat.add_mul, Nat.mul_one, Nat.one_mul]
    omega

/-- **Quadratic lower bound for `scan_to_closing_code_dollar` as it was before /repo commit 657287d**
    (repaired there: `no_code_dollar_closer`; see `dollar_linear`): on a text with `n` executed
    openers none of which has a closer, `p >= 1` bytes after each `$` up to the next opener (the backtick at
    least), the scanner took at least `n^2 / 2` steps for `(p + 1) n` bytes of input (e.g. `` "$`a" ``
    repeated: the backtick of a failed opener opens a code span with the next backtick, which swallows every
    other `$`; the executed openers are 6 bytes apart, `p = 5`).
    Former known finding C06-code-dollar-quadratic, now `fixed`. -/
theorem dollar_quadratic (n p : Nat) (hp : 1 ≤ p) : n * n ≤ 2 * cdStepsOld (List.replicate n p) := by
  have h0 := cdSteps_replicate n p
  have h1 := tri_ge n
  have h2 : 2 * tri n ≤ (p + 1) * tri n := Nat.mul_le_mul_right _ (by omega)
  omega

/-! ### The byte-level scanner and the abstraction `cdStepsOld`

`Cost.dlStepsOld` (the loop without the flags; it equalled the real `dollar-scan` counter in K before the repair)
is the sum of the costs of the executed openers; a failed scan costs the bytes after its `` $` `` + 1, i.e. the
bytes after its `$`; summed over openers at increasing positions that is `cdStepsOld` of the pieces between
them (the driver still checks this abstraction against `dlStepsOld`). -/

/-- A failed scan costs everything that is left + 1. -/
theorem cdScan_fail_cost (prev : UInt8) (bs : Bytes) (h : (cdScan prev bs).2 = none) :
    (cdScan prev bs).1 = bs.length + 1 := by
  induction bs generalizing prev with
  | nil => simp [cdScan]
  | cons b r ih =>
    simp only [cdScan] at h ⊢
    split at h
    · simp at h
    · rename_i hc
      simp only [hc, if_false, List.length_cons]
      have := ih b (by simpa using h)
      omega

/-- Any scan costs at most that, and a successful one exactly what it consumes. -/
theorem cdScan_cost_le (prev : UInt8) (bs : Bytes) :
    (cdScan prev bs).1 ≤ bs.length + 1 ∧ ∀ c, (cdScan prev bs).2 = some c → (cdScan prev bs).1 = c ∧ c ≤ bs.length := by
  induction bs generalizing prev with
  | nil => simp [cdScan]
  | cons b r ih =>
    simp only [cdScan]
    split
    · simp
    · have ⟨h1, h2⟩ := ih b
      refine ⟨by simp only [List.length_cons]; omega, ?_⟩
      intro c hc
      simp only [Option.map_eq_some_iff] at hc
      obtain ⟨c', hc', rfl⟩ := hc
      have := h2 c' hc'
      simp only [List.length_cons]; omega

/-- Opener positions increase and lie inside the text (each `$` is followed by its backtick). -/
def cdAsc (len : Nat) : List Nat → Prop
  | [] => True
  | [s] => s < len
  | s :: s' :: r => s < s' ∧ cdAsc len (s' :: r)

theorem cdPieces_total (len : Nat) : ∀ (r : List Nat) (s : Nat), cdAsc len (s :: r) →
    s < len ∧ (cdPieces len (s :: r)).sum + (cdPieces len (s :: r)).length = len - s
  | [], s, h => by simp only [cdAsc] at h; simp [cdPieces]; omega
  | s' :: r, s, h => by
    simp only [cdAsc] at h
    have ih := cdPieces_total len r s' h.2
    simp only [cdPieces, List.sum_cons, List.length_cons] at ih ⊢
    omega

/-- **`cdStepsOld` is the sum of the failed scans**: if the executed openers have their `$` at increasing
    positions `ss` of a text of `len` bytes and every scan fails (cost = bytes after the `$`), the total is
    `cdStepsOld` of the pieces. -/
theorem cdSteps_pieces (len : Nat) : ∀ ss : List Nat, cdAsc len ss →
    cdStepsOld (cdPieces len ss) = (ss.map (fun s => len - s - 1)).sum
  | [], _ => by simp [cdPieces, cdStepsOld]
  | [s], h => by simp [cdPieces, cdStepsOld]
  | s :: s' :: r, h => by
    simp only [cdAsc] at h
    have ih := cdSteps_pieces len (s' :: r) h.2
    have ht := cdPieces_total len r s' h.2
    simp only [cdPieces, cdStepsOld, List.map_cons, List.sum_cons] at ih ⊢
    rw [ih]
    omega

/-! ## Caps -/

/-- The expanded reference text never exceeds the budget, whatever is looked up and how often. -/
theorem refmap_budget (st : RefState) (sizes : List Nat) (h : st.refSize ≤ st.maxRefSize) :
    refGranted st sizes + st.refSize ≤ st.maxRefSize := by
  induction sizes generalizing st with
  | nil => simpa [refGranted] using h
  | cons s rest ih =>
    simp only [refGranted, refLookup]
    split
    · have := ih st h
      simp; omega
    · rename_i hs
      have := ih { st with refSize := st.refSize + s } (by simp; omega)
      simp at this ⊢; omega

/-- Table rows stop being added once more than `MAX_AUTOCOMPLETED_CELLS` cells were autocompleted:
    at most one row's worth (`cols`) beyond the cap. -/
theorem autocomplete_cap (cols auto : Nat) (rows : List Nat) (h : auto ≤ MAX_AUTOCOMPLETED_CELLS + cols) :
    autocompleteRows cols auto rows ≤ MAX_AUTOCOMPLETED_CELLS + cols := by
  induction rows generalizing auto with
  | nil => simpa [autocompleteRows] using h
  | cons c rest ih =>
    simp only [autocompleteRows]
    split
    · exact h
    · exact ih _ (by omega)

/-- Every cell of an accepted body row is either in the source or autocompleted: `cols` cells per row. -/
theorem body_cells_eq (cols auto : Nat) (rows : List Nat) :
    cols * acceptedRows cols auto rows + auto = presentCells cols auto rows + autocompleteRows cols auto rows := by
  induction rows generalizing auto with
  | nil => simp [acceptedRows, presentCells, autocompleteRows]
  | cons k ks ih =>
    simp only [acceptedRows, presentCells, autocompleteRows]
    split
    · simp
    · have := ih (auto + (cols - k))
      rw [Nat.mul_add, Nat.mul_one]
      omega

/-- **Table auto-completion is capped.**  The body of a table has at most the cells that are in the
    source, plus `MAX_AUTOCOMPLETED_CELLS`, plus one row: for every column count and every sequence
    of row widths (the harness compares `acceptedRows` / `autocompleteRows` with the `num_rows` /
    `num_nonempty_cells` bookkeeping of the real `NodeTable` and observes the bound on tables above the cap). -/
theorem table_cells_capped (cols : Nat) (rows : List Nat) :
    cols * acceptedRows cols 0 rows ≤ presentCells cols 0 rows + MAX_AUTOCOMPLETED_CELLS + cols := by
  have h1 := body_cells_eq cols 0 rows
  have h2 := autocomplete_cap cols 0 rows (by omega)
  omega

example : acceptedRows 3 0 [1, 5, 3] = 3 ∧ presentCells 3 0 [1, 5, 3] = 7 ∧ autocompleteRows 3 0 [1, 5, 3] = 2 := by decide

theorem xml_indent_cap (depth : Nat) : xmlIndent depth ≤ 40 := by
  unfold xmlIndent XML_MAX_INDENT; omega

/-- `link_label` gives up after `MAX_LINK_LABEL_LENGTH + 1` steps. -/
theorem label_bounded (length steps : Nat) (l : Bytes) (h : length ≤ MAX_LINK_LABEL_LENGTH) :
    labelScan length steps l ≤ steps + (MAX_LINK_LABEL_LENGTH + 1 - length) := by
  induction l generalizing length steps with
  | nil => simp [labelScan]
  | cons c r ih =>
    simp only [labelScan]
    split
    · omega
    · split
      · omega
      · have := ih (length + 1) (steps + 1) (by omega)
        omega

theorem paren_depth_bounded (d : Nat) (l : Bytes) (k : Nat) (hd : d ≤ 32) (h : parenDepth d l = some k) : k ≤ 32 := by
  induction l generalizing d with
  | nil => simp [parenDepth] at h; omega
  | cons c r ih =>
    simp only [parenDepth] at h
    split at h
    · split at h
      · simp at h
      · exact ih (d + 1) (by omega) h
    · split at h
      · split at h
        · simp at h; omega
        · exact ih (d - 1) (by omega) h
      · exact ih d hd h

/-! Non-vacuity -/
example : (escape [0x22, 0x61]).length = 7 := by decide
example : findCloser 2 [⟨1, 1⟩, ⟨0, 2⟩, ⟨3, 1⟩] = some (4, [⟨3, 1⟩]) := by decide
-- a`b``c`d : opener 1 fails? no: closes at the third run; ``c is skipped over
example : btSteps [⟨1, 1⟩, ⟨1, 2⟩, ⟨1, 1⟩] 1 = 6 := by decide
-- three openers of different lengths: the first failing scan sets the flag, the others cost 1 each
example : btSteps [⟨1, 1⟩, ⟨1, 2⟩, ⟨1, 3⟩] 1 = 1 + 8 + 1 + 1 := by decide
-- the positional memo on the witness of `btStepsPos_differs_counterexample` stays below 3 n = 30
example : btStepsPos [⟨1, 2⟩, ⟨1, 1⟩, ⟨1, 1⟩, ⟨1, 1⟩, ⟨1, 1⟩] 0 ≤ 3 * 10 := by decide
-- `a*a*`: one opener, one closer: 2 closer-loop iterations + 1 search step; `*a **b*a **b*a **b`: 9 steps
example : emSteps true [⟨0x2A, 1, 1, true, false, 2⟩, ⟨0x2A, 1, 1, false, true, 4⟩] = some 3 := by decide
example : emSteps false (emFam 0 3) = some 24 ∧ emSteps true (emFam 0 3) = some 21 := by decide
-- `a~~b~ c`: the `~` closer finds the `~~` opener, the remaining lengths differ, insert_emph returns None: the loop ends
example : emSteps true [⟨0x7E, 2, 2, true, false, 3⟩, ⟨0x7E, 1, 1, false, true, 5⟩, ⟨0x2A, 1, 1, false, true, 8⟩] = some 3 := by decide
example : noOddMatch [⟨0x2A, 1, 1, true, false, 2⟩, ⟨0x2A, 1, 1, false, true, 4⟩] := by
  intro o ho c hc; simp at ho hc; rcases ho with rfl | rfl <;> rcases hc with rfl | rfl <;> decide
example : cdStepsOld [2, 2, 2] = 8 + 5 + 2 := by decide
-- "a" + "$`a" x 5. Before the repair: every other `$` is swallowed by the code span that the backtick of a failed
-- opener opens with the next backtick; the executed openers are 6 bytes apart and none closes: 14 + 8 + 2 steps.
example : (dlEventsOld true false [0x61, 0x24,0x60,0x61, 0x24,0x60,0x61, 0x24,0x60,0x61, 0x24,0x60,0x61, 0x24,0x60,0x61]).map
    (fun e => (e.dpos, e.cost, e.ranOut)) = [(1, 14, true), (7, 8, true), (13, 2, true)] := by decide
example : cdStepsOld (cdPieces 16 [1, 7, 13]) = 14 + 8 + 2 := by decide
example : cdAsc 16 [1, 7, 13] := by simp [cdAsc]
-- As the code is: the first scan sets the flag, the later openers cost nothing.
example : (dlEvents true false [0x61, 0x24,0x60,0x61, 0x24,0x60,0x61, 0x24,0x60,0x61, 0x24,0x60,0x61, 0x24,0x60,0x61]).map
    (fun e => (e.dpos, e.cost, e.ranOut)) = [(1, 14, true)] := by decide
-- a closer is a `$` right after a backtick, escaped or not: a$`a\`$
example : (dlEvents true false [0x61, 0x24, 0x60, 0x61, 0x5C, 0x60, 0x24]).map (fun e => (e.dpos, e.cost, e.closed)) = [(1, 4, true)] := by decide
-- math_dollars: a$b$ closes (2 steps); a$b $ is ended by the space rule (3 steps, rejected; the last `$` then runs out in 1 step); "$\\" x 3: one scan to the end
example : (dlEvents false true [0x61, 0x24, 0x62, 0x24]).map (fun e => (e.cost, e.closed)) = [(2, true)] := by decide
example : (dlEvents false true [0x61, 0x24, 0x62, 0x20, 0x24]).map (fun e => (e.cost, e.rejected)) = [(3, true), (1, false)] := by decide
example : dlSteps false true [0x61, 0x24,0x5C,0x5C, 0x24,0x5C,0x5C, 0x24,0x5C,0x5C] = 9 ∧
    dlStepsOld false true [0x61, 0x24,0x5C,0x5C, 0x24,0x5C,0x5C, 0x24,0x5C,0x5C] = 9 + 6 + 3 := by decide
-- hypotheses of html_size_bound_partial are satisfiable: a paragraph with a text, no header ids
example : HtmlSize.noFnT (.node .paragraph {} (.cons (.node (.text [0x61]) {} .nil) .nil)) := by
  simp [HtmlSize.noFnT, HtmlSize.noFnF]
example : refGranted ⟨10, 0⟩ [4, 4, 4, 2] = 10 := by decide
example : labelScan 0 0 (List.replicate 2000 0x61) = 1001 := by decide +kernel

end Comrak.C06
