/-
C19  Escaping helpers are total, injective and leave no active character.
Property theorems only; helper lemmas live in Comrak/Lemmas/Escape.lean.
All statements are for every byte string (no length bound).
-/
import Comrak.Lemmas.Escape
import Comrak.Lemmas.EscapeTag
namespace Comrak.C19
open Comrak Bytes

/-- The slice-copy loop of `html::escape` computes the per-byte specification. -/
theorem escape_loop_eq_spec (bs : Bytes) : escapeLoop [] bs = escape bs := by
  simpa using escapeLoop_eq [] bs

/-- The run-copy loop of `html::escape_href` computes the per-byte specification. -/
theorem escapeHref_loop_eq_spec (bs : Bytes) : escapeHrefLoop [] bs = escapeHref bs := by
  simpa using escapeHrefLoop_eq [] bs

/-- Character by character: escaping a concatenation is concatenating the escapes. -/
theorem escape_append (a b : Bytes) : escape (a ++ b) = escape a ++ escape b := by
  simp [escape, List.flatMap_append]

theorem escapeHref_append (a b : Bytes) : escapeHref (a ++ b) = escapeHref a ++ escapeHref b := by
  simp [escapeHref, List.flatMap_append]

/-- No raw `<`, `>`, `"` and no `&` other than at the start of one of the four entities. -/
theorem escape_no_active (a : Bytes) : noActive (escape a) = true := by
  induction a with
  | nil => rfl
  | cons b r ih => rw [escape_cons]; exact noActive_append _ _ (noActive_escByte b) ih

/-- In particular none of the three bytes `<`, `>`, `"` occurs in the output. -/
theorem escape_no_raw (a : Bytes) (c : UInt8) (hc : c = 0x3C ∨ c = 0x3E ∨ c = 0x22) :
    c ∉ escape a := by
  have key : ∀ x : Bytes, noActive x = true → c ∉ x := by
    intro x
    induction x with
    | nil => simp
    | cons b r ih =>
      intro h
      simp only [noActive, Bool.and_eq_true] at h
      have h1 := h.1
      intro hm
      rcases List.mem_cons.mp hm with rfl | hm
      · rcases hc with rfl | rfl | rfl <;> simp at h1
      · exact ih h.2 hm
  exact key _ (escape_no_active a)

/-- Every output byte of the href escaper is URL-safe, or is an `&` starting `&amp;` / `&#x27;`. -/
theorem escapeHref_alphabet (a : Bytes) : hrefAlphabet (escapeHref a) = true := by
  induction a with
  | nil => rfl
  | cons b r ih => rw [escapeHref_cons]; exact hrefAlphabet_append _ _ (hrefAlphabet_hrefByte b) ih

/-- No information is lost by the text escaper: the strict decoder recovers the input. -/
theorem unescapeText_escape (a : Bytes) : unescapeText (escape a) = some a := by
  unfold unescapeText
  induction a with
  | nil => rfl
  | cons b r ih => rw [escape_cons, unescapeTextAux_escByte, ih]; rfl

theorem escape_injective (a b : Bytes) (h : escape a = escape b) : a = b := by
  have := unescapeText_escape a
  rw [h, unescapeText_escape] at this
  exact (Option.some.inj this).symm

/-- The literal round trip fails for the href escaper: `%` is deliberately in the safe set,
    so an already percent-encoded byte and the raw byte escape to the same text.
    (By design, documented at `escape_href`; recorded in known_findings.json.) -/
theorem escapeHref_not_injective :
    escapeHref [0x01] = escapeHref [0x25, 0x30, 0x31] ∧ ([0x01] : Bytes) ≠ [0x25, 0x30, 0x31] := by
  decide

/-- What does hold: on inputs without `%` decoding returns the original bytes ... -/
theorem hrefDecode_escapeHref_partial (a : Bytes) (h : (0x25 : UInt8) ∉ a) :
    hrefDecode (escapeHref a) = a := by
  unfold hrefDecode
  induction a with
  | nil => rfl
  | cons b r ih =>
    simp only [List.mem_cons, not_or] at h
    rw [escapeHref_cons, hrefDecodeAux_hrefByte b (fun e => h.1 e.symm), ih h.2]

/-- ... hence the href escaper is injective on inputs without `%`. -/
theorem escapeHref_injective_partial (a b : Bytes) (ha : (0x25 : UInt8) ∉ a) (hb : (0x25 : UInt8) ∉ b)
    (h : escapeHref a = escapeHref b) : a = b := by
  have := hrefDecode_escapeHref_partial a ha
  rw [h, hrefDecode_escapeHref_partial b hb] at this
  exact this.symm

/-- Wider class: the input may hold any number of `%`, as long as none of them is followed by two hex digits
    (no text that already reads as a percent escape).  Decoding then returns the original bytes ... -/
theorem hrefDecode_escapeHref_noPctEscape (a : Bytes) (h : noPctEscape a = true) :
    hrefDecode (escapeHref a) = a := by
  unfold hrefDecode
  induction a with
  | nil => rfl
  | cons b r ih =>
    simp only [noPctEscape, Bool.and_eq_true, Bool.not_eq_true', Bool.and_eq_false_iff, beq_eq_false_iff_ne] at h
    by_cases hb : b = 0x25
    · subst hb
      have h2 : twoHexPrefix r = false := by
        rcases h.1 with h1 | h1
        · exact absurd rfl h1
        · exact h1
      rw [escapeHref_cons, hrefByte_pct]
      show hrefDecodeAux 0 (0x25 :: escapeHref r) = _
      rw [hrefDecodeAux_pct_literal _ (by rw [twoHexPrefix_escapeHref]; exact h2), ih h.2]
    · rw [escapeHref_cons, hrefDecodeAux_hrefByte b hb, ih h.2]

/-- ... hence the href escaper is injective on that class: the only collisions of `escape_href` are between
    inputs of which at least one already contains `%XY` with two hex digits (the listed by-design finding). -/
theorem escapeHref_injective_noPctEscape (a b : Bytes) (ha : noPctEscape a = true) (hb : noPctEscape b = true)
    (h : escapeHref a = escapeHref b) : a = b := by
  have := hrefDecode_escapeHref_noPctEscape a ha
  rw [h, hrefDecode_escapeHref_noPctEscape b hb] at this
  exact this.symm

/-- The class without any `%` (the `_partial` theorems above) is inside the wider one. -/
theorem noPctEscape_of_no_pct (a : Bytes) (h : (0x25 : UInt8) ∉ a) : noPctEscape a = true := by
  induction a with
  | nil => rfl
  | cons b r ih =>
    simp only [List.mem_cons, not_or] at h
    have hb : (b == 0x25) = false := by simpa using fun e => h.1 e.symm
    simp [noPctEscape, hb, ih h.2]

/-- The class is tight at its boundary: one `%XY` in the input is enough for a collision. -/
theorem noPctEscape_boundary :
    noPctEscape [0x25, 0x30, 0x31] = false ∧ noPctEscape [0x25, 0x30, 0x47] = true ∧
    noPctEscape [0x25, 0x25, 0x30] = true ∧ escapeHref [0x25, 0x01] = escapeHref [0x25, 0x25, 0x30, 0x31] := by
  decide

/-! Non-vacuity: concrete non-trivial values. -/
example : escape [0x3C, 0x61, 0x26, 0x22] = entLt ++ [0x61] ++ entAmp ++ entQuot := by decide
example : (0x25 : UInt8) ∉ ([0x01, 0x27, 0x26, 0xC3] : Bytes) := by decide
example : noPctEscape [0x31, 0x30, 0x25, 0x20, 0x25, 0x41, 0x01, 0x25] = true := by decide
example : hrefDecode (escapeHref [0x31, 0x30, 0x25, 0x20, 0x25, 0x41, 0x01, 0x25]) = [0x31, 0x30, 0x25, 0x20, 0x25, 0x41, 0x01, 0x25] := by decide
example : escapeHref [0x01, 0x27, 0x26, 0xC3] =
    [0x25,0x30,0x31] ++ entApos ++ entAmp ++ [0x25,0x43,0x33] := by decide

/-! ## The tag writer yields one syntactically complete start tag

`parseStartTag` (Escape.lean) accepts exactly `<` name (` ` name `="` value `"`)* `>` with nothing before or
after, every value free of raw `<`, `>`, `"` and stray `&` (it is run through the strict decoder).  Its fuel
(`length + 1`) always suffices here: one unit per attribute plus one. -/

/-- **C19 (tag writer).** For a valid element name and valid attribute names - values are arbitrary byte
    strings - `write_opening_tag` writes exactly one complete start tag, and reading it back returns the element
    name and every attribute value exactly. -/
theorem openTag_complete (tag : Bytes) (attrs : List (Bytes × Bytes)) (ht : validName tag = true)
    (hk : ∀ kv ∈ attrs, validName kv.1 = true) :
    parseStartTag (openTag tag attrs) = some (tag, attrs) :=
  parseStartTag_openTag tag attrs ht hk

/-- Hence the writer is injective on such arguments: two calls writing the same bytes had the same arguments. -/
theorem openTag_injective (t1 t2 : Bytes) (a1 a2 : List (Bytes × Bytes))
    (h1 : validName t1 = true) (h2 : validName t2 = true)
    (k1 : ∀ kv ∈ a1, validName kv.1 = true) (k2 : ∀ kv ∈ a2, validName kv.1 = true)
    (h : openTag t1 a1 = openTag t2 a2) : t1 = t2 ∧ a1 = a2 := by
  have e1 := openTag_complete t1 a1 h1 k1
  rw [h, openTag_complete t2 a2 h2 k2] at e1
  have := Option.some.inj e1
  exact ⟨(Prod.mk.inj this).1.symm, (Prod.mk.inj this).2.symm⟩

/-- The name hypothesis is needed: names are written raw (the caller's obligation in comrak), so a name holding
    `>` ends the tag early and the result is not one start tag. -/
theorem openTag_raw_name_counterexample :
    parseStartTag (openTag [0x61, 0x3E, 0x62] []) = none ∧ parseStartTag (openTag [0x61] [([0x3E], [])]) = none := by
  decide

/-! ## Href escaper: no information is lost up to percent-decoding -/

/-- Reading `&amp;` / `&#x27;` back as `&` / `'` turns the href escaper's output into the plain percent-encoding
    of the input (safe bytes, `&`, `'` as they are, every other byte as `%XX`). -/
theorem entityDecode_escapeHref_eq_pctEnc (a : Bytes) : entityDecode (escapeHref a) = pctEnc a :=
  entityDecode_escapeHref a

/-- **C19 (href escaper, the round trip that does hold for every byte string).** Entity-decoding and then
    percent-decoding the output gives the percent-decoding of the input: what a browser requests for the
    escaped href is what it would request for the original one.  (The literal round trip is refuted by
    `escapeHref_not_injective`; the lenient `entityDecode` is harmless because every `&` of the output starts
    an entity the escaper wrote itself.) -/
theorem escapeHref_decode_equiv (a : Bytes) : pctDecode (entityDecode (escapeHref a)) = pctDecode a := by
  rw [entityDecode_escapeHref]; exact pctDecode_pctEnc a

/-- Two inputs with the same escaped form are equal up to percent-decoding. -/
theorem escapeHref_injective_mod_pct (a b : Bytes) (h : escapeHref a = escapeHref b) : pctDecode a = pctDecode b := by
  rw [← escapeHref_decode_equiv a, h, escapeHref_decode_equiv b]

/-- The order of the two decoders matters (it is the order a browser uses: attribute value first, URL second):
    swapped, `%26amp;` percent-decodes to `&amp;`, which then entity-decodes to `&`, while the input percent-decodes
    to `&amp;`. -/
theorem escapeHref_decode_order_counterexample :
    entityDecode (pctDecode (escapeHref [0x25,0x32,0x36,0x61,0x6D,0x70,0x3B])) ≠
      pctDecode [0x25,0x32,0x36,0x61,0x6D,0x70,0x3B] := by
  decide

/-! Output length bounds (`(escape b).length ≤ 6 * b.length`, `(escapeHref b).length ≤ 6 * b.length`) are
    `Comrak.C06.escape_len` / `escapeHref_len` in Props/C06.lean. -/

/-! Non-vacuity: `<code class="x&quot; y" data-n="&lt;1&gt;">` - values holding `"`, space, `<`, `>`. -/
example : validName [0x63,0x6F,0x64,0x65] = true ∧ validName [0x63,0x6C,0x61,0x73,0x73] = true ∧
    validName [0x64,0x61,0x74,0x61,0x2D,0x6E] = true := by decide
example : openTag [0x63,0x6F,0x64,0x65] [([0x63,0x6C,0x61,0x73,0x73], [0x78,0x22,0x20,0x79]),
                                          ([0x64,0x61,0x74,0x61,0x2D,0x6E], [0x3C,0x31,0x3E])] =
    [0x3C,0x63,0x6F,0x64,0x65,0x20,0x63,0x6C,0x61,0x73,0x73,0x3D,0x22,0x78] ++ entQuot ++ [0x20,0x79,0x22,
     0x20,0x64,0x61,0x74,0x61,0x2D,0x6E,0x3D,0x22] ++ entLt ++ [0x31] ++ entGt ++ [0x22,0x3E] := by decide
example : parseStartTag (openTag [0x63,0x6F,0x64,0x65] [([0x63,0x6C,0x61,0x73,0x73], [0x78,0x22,0x20,0x79]),
                                                         ([0x64,0x61,0x74,0x61,0x2D,0x6E], [0x3C,0x31,0x3E])]) =
    some ([0x63,0x6F,0x64,0x65], [([0x63,0x6C,0x61,0x73,0x73], [0x78,0x22,0x20,0x79]),
                                  ([0x64,0x61,0x74,0x61,0x2D,0x6E], [0x3C,0x31,0x3E])]) :=
  openTag_complete _ _ (by decide) (by decide)
-- `%41` and `A` and a raw control byte next to `&`, `'`: the escaped form decodes to the same bytes as the input.
example : pctDecode (entityDecode (escapeHref [0x25,0x34,0x31,0x26,0x27,0x01,0x25])) = [0x41,0x26,0x27,0x01,0x25] ∧
    pctDecode [0x25,0x34,0x31,0x26,0x27,0x01,0x25] = [0x41,0x26,0x27,0x01,0x25] := by decide

end Comrak.C19
