/-
C19  Escaping helpers are total, injective and leave no active character.
Property theorems only; helper lemmas live in Comrak/Lemmas/Escape.lean.
All statements are for every byte string (no length bound).
-/
import Comrak.Lemmas.Escape
namespace Comrak.C19
open Comrak Bytes

/-- The slice-copy loop of `html::escape` computes the per-byte specification. -/
theorem escape_loop_eq_spec (bs : Bytes) : escapeLoop [] bs = escape bs := by
  simpa using escapeLoop_eq [] bs

/-- The run-copy loop of `html::escape_href` computes the per-byte specification. -/
theorem escapeHref_loop_eq_spec (bs : Bytes) : escapeHrefLoop [] bs = escapeHref bs := by
  simpa using escapeHrefLoop_eq [] bs

/-- Character by character: escaping a concatenation is concatenating the escapes. -/
theorem escape_append (a b : Bytes) : escape (a ++ b) = escape a ++ escape b := by
  simp [escape, List.flatMap_append]

theorem escapeHref_append (a b : Bytes) : escapeHref (a ++ b) = escapeHref a ++ escapeHref b := by
  simp [escapeHref, List.flatMap_append]

/-- No raw `<`, `>`, `"` and no `&` other than at the start of one of the four entities. -/
theorem escape_no_active (a : Bytes) : noActive (escape a) = true := by
  induction a with
  | nil => rfl
  | cons b r ih => rw [escape_cons]; exact noActive_append _ _ (noActive_escByte b) ih

/-- In particular none of the three bytes `<`, `>`, `"` occurs in the output. -/
theorem escape_no_raw (a : Bytes) (c : UInt8) (hc : c = 0x3C ∨ c = 0x3E ∨ c = 0x22) :
    c ∉ escape a := by
  have key : ∀ x : Bytes, noActive x = true → c ∉ x := by
    intro x
    induction x with
    | nil => simp
    | cons b r ih =>
      intro h
      simp only [noActive, Bool.and_eq_true] at h
      have h1 := h.1
      intro hm
      rcases List.mem_cons.mp hm with rfl | hm
      · rcases hc with rfl | rfl | rfl <;> simp at h1
      · exact ih h.2 hm
  exact key _ (escape_no_active a)

/-- Every output byte of the href escaper is URL-safe, or is an `&` starting `&amp;` / `&#x27;`. -/
theorem escapeHref_alphabet (a : Bytes) : hrefAlphabet (escapeHref a) = true := by
  induction a with
  | nil => rfl
  | cons b r ih => rw [escapeHref_cons]; exact hrefAlphabet_append _ _ (hrefAlphabet_hrefByte b) ih

/-- No information is lost by the text escaper: the strict decoder recovers the input. -/
theorem unescapeText_escape (a : Bytes) : unescapeText (escape a) = some a := by
  unfold unescapeText
  induction a with
  | nil => rfl
  | cons b r ih => rw [escape_cons, unescapeTextAux_escByte, ih]; rfl

theorem escape_injective (a b : Bytes) (h : escape a = escape b) : a = b := by
  have := unescapeText_escape a
  rw [h, unescapeText_escape] at this
  exact (Option.some.inj this).symm

/-- The literal round trip fails for the href escaper: `%` is deliberately in the safe set,
    so an already percent-encoded byte and the raw byte escape to the same text.
    (By design, documented at `escape_href`; recorded in known_findings.json.) -/
theorem escapeHref_not_injective :
    escapeHref [0x01] = escapeHref [0x25, 0x30, 0x31] ∧ ([0x01] : Bytes) ≠ [0x25, 0x30, 0x31] := by
  decide

/-- What does hold: on inputs without `%` decoding returns the original bytes ... -/
theorem hrefDecode_escapeHref_partial (a : Bytes) (h : (0x25 : UInt8) ∉ a) :
    hrefDecode (escapeHref a) = a := by
  unfold hrefDecode
  induction a with
  | nil => rfl
  | cons b r ih =>
    simp only [List.mem_cons, not_or] at h
    rw [escapeHref_cons, hrefDecodeAux_hrefByte b (fun e => h.1 e.symm), ih h.2]

/-- ... hence the href escaper is injective on inputs without `%`. -/
theorem escapeHref_injective_partial (a b : Bytes) (ha : (0x25 : UInt8) ∉ a) (hb : (0x25 : UInt8) ∉ b)
    (h : escapeHref a = escapeHref b) : a = b := by
  have := hrefDecode_escapeHref_partial a ha
  rw [h, hrefDecode_escapeHref_partial b hb] at this
  exact this.symm

/-! Non-vacuity: concrete non-trivial values. -/
example : escape [0x3C, 0x61, 0x26, 0x22] = entLt ++ [0x61] ++ entAmp ++ entQuot := by decide
example : (0x25 : UInt8) ∉ ([0x01, 0x27, 0x26, 0xC3] : Bytes) := by decide
example : escapeHref [0x01, 0x27, 0x26, 0xC3] =
    [0x25,0x30,0x31] ++ entApos ++ entAmp ++ [0x25,0x43,0x33] := by decide

end Comrak.C19
