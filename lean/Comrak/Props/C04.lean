/-
C04  Parsed tree is always structurally valid.
`Shape` (Comrak/Shape.lean) is the executable predicate the property states: the containment
table on every edge (`can_contain_type`, tied to the code exhaustively on all 41 x 41 kind
pairs on every run), placement of rows/cells/footnote definitions/documents, table geometry
(header row first and unique, every row has exactly `num_columns = alignments.length` cells),
heading level 1-6.  That *every parsed tree* satisfies `Shape` is a statement about the whole
block and inline parser, which is not modelled: it is decided on every run by evaluating this
Lean predicate on the real parser's trees (search stage).  What is proved here: what `Shape`
buys ("formatters never meet a node in a context they do not handle"), and the small
mechanisms the parser uses to establish it.
-/
import Comrak.Shape
import Comrak.Html
import Comrak.Props.C10
import Comrak.Lemmas.R2Geom
namespace Comrak.C04
open Comrak Bytes

-- `Shape` implies what the library's own validator checks.
mutual
theorem shapeT_validate : ∀ (t : Tree) (p : Option NodeValue), shapeT p t = true → validateT t = true
  | .node v sp cs, p, h => by
    simp only [shapeT, Bool.and_eq_true] at h
    simp only [validateT]
    exact shapeF_validate cs v h.2
theorem shapeF_validate : ∀ (f : Forest) (v : NodeValue), shapeF (some v) f = true → validateF v.kind f = true
  | .nil, _, _ => rfl
  | .cons t ts, v, h => by
    simp only [shapeF, Bool.and_eq_true] at h
    simp only [validateF, Bool.and_eq_true]
    refine ⟨⟨?_, shapeT_validate t (some v) h.1⟩, shapeF_validate ts v h.2⟩
    cases t with
    | node w sp cs =>
      simp only [shapeT, Bool.and_eq_true] at h
      simpa [Tree.value] using h.1.1.1.1
end

theorem shape_validate (t : Tree) (h : Shape t = true) : validateT t = true := shapeT_validate t none h

/-! ### The unwrap / index sites of html.rs, as a predicate -/

/-- The places where `format_node_default` would panic (`unwrap`, `panic!`, indexing):
    a paragraph without a parent (`render_paragraph`), a table without rows (`render_table`),
    a cell whose parent is not a row or whose grandparent is not a table, or whose index is
    beyond the alignments (`render_table_cell`). -/
def nodeNoPanic (cx : Ctx) (v : NodeValue) (cs : Forest) : Bool :=
  match v with
  | .paragraph => paraTight cx || cx.parent.isSome
  | .table .. => cs.length ≥ 1
  | .tableCell =>
    (match cx.parent with | some (.tableRow _) => true | _ => false) &&
    (match cx.grand with | some (.table aligns ..) => decide (cx.index < aligns.length) | _ => false)
  | _ => true

mutual
def noPanicT (cx : Ctx) : Tree → Bool
  | .node v _ cs => nodeNoPanic cx v cs && (if htmlChildren v then noPanicF (some v) cx.parent none 0 cs else true)
def noPanicF (parent grand prev : Option NodeValue) (idx : Nat) : Forest → Bool
  | .nil => true
  | .cons t ts =>
    noPanicT { parent := parent, grand := grand, prev := prev, isLast := ts.isNil, index := idx } t &&
    noPanicF parent grand (some t.value) (idx + 1) ts
end

theorem rowsOk_length (cs : Forest) (h : rowsOk cs = true) : cs.length ≥ 1 := by
  cases cs with
  | nil => simp [rowsOk] at h
  | cons t ts => simp [Forest.length]

/-- Under `Shape` a table has a row, so `render_table`'s `last_child().unwrap()` is safe. -/
theorem table_noPanic (cx : Ctx) (aligns : List Align) (n r c : Nat) (cs : Forest)
    (h : localOk (.table aligns n r c) cs = true) : nodeNoPanic cx (.table aligns n r c) cs = true := by
  simp only [localOk, Bool.and_eq_true] at h
  simpa [nodeNoPanic] using rowsOk_length cs h.1.1

/-- Under `Shape` every cell of a row sits below a row below a table and its index is within the
    alignments, so `render_table_cell`'s `unwrap`s and `alignments[i]` are safe. -/
theorem cell_noPanic (aligns : List Align) (n r c : Nat) (hdr : Bool) (prev : Option NodeValue) (last : Bool)
    (ncells i : Nat) (kids : Forest)
    (hal : (aligns.length == n) = true) (hrow : (ncells == n) = true) (hi : i < ncells) :
    nodeNoPanic { parent := some (.tableRow hdr), grand := some (.table aligns n r c), prev := prev, isLast := last, index := i }
      .tableCell kids = true := by
  have h1 : aligns.length = n := by simpa using hal
  have h2 : ncells = n := by simpa using hrow
  simp [nodeNoPanic]; omega

/-- A paragraph below any node never reaches `node.parent().unwrap()` on `None`. -/
theorem paragraph_noPanic (cx : Ctx) (cs : Forest) (h : cx.parent.isSome = true) :
    nodeNoPanic cx .paragraph cs = true := by
  simp [nodeNoPanic, h]

/-- Table row completion as the parser does it (`table.rs`): keep at most `n` cells, then pad with
    empty cells; the result always has exactly `n` cells. -/
def completeRow {α} (n : Nat) (empty : α) (cells : List α) : List α :=
  cells.take n ++ List.replicate (n - cells.length) empty

theorem row_completion_length {α} (n : Nat) (empty : α) (cells : List α) :
    (completeRow n empty cells).length = n := by
  simp only [completeRow, List.length_append, List.length_take, List.length_replicate]
  omega

/-- ATX heading level as the block parser computes it: the number of leading `#` (the scanner
    accepts 1 to 6 of them), hence always in range. -/
def atxLevel (hashes : Nat) : Option Nat := if 1 ≤ hashes ∧ hashes ≤ 6 then some hashes else none

theorem atx_level_range (h l : Nat) (e : atxLevel h = some l) : 1 ≤ l ∧ l ≤ 6 := by
  unfold atxLevel at e
  split at e
  · cases e; assumption
  · cases e

/-! ### "Formatters never meet a node in a context they do not handle": whole trees

`geomT` (Lemmas/R2Geom.lean) is the formatter-independent content of that sentence; it follows
from `Shape` for every tree whose root is not itself a paragraph / item / task item (every parsed
tree has the document as root), by an induction that carries the table geometry from the table
node through its rows to their cells.  Each formatter's own panic sites then follow node by
node. -/

theorem nodeNoPanic_of_geom (cx : Ctx) (v : NodeValue) (cs : Forest)
    (h : nodeGeom cx.parent cx.grand cx.index v cs = true) : nodeNoPanic cx v cs = true := by
  cases v
  case tableCell =>
    simp only [nodeGeom, Bool.and_eq_true] at h
    obtain ⟨h1, h2⟩ := h
    cases hp : cx.parent with
    | none => simp [hp, isRowV] at h1
    | some p =>
      cases p <;> simp [hp, isRowV] at h1
      simp only [nodeNoPanic, hp, Bool.true_and]
      exact h2
  all_goals simp_all [nodeNoPanic, nodeGeom]

mutual
theorem noPanicT_of_geom : ∀ (t : Tree) (cx : Ctx), geomT cx.parent cx.grand cx.index t = true → noPanicT cx t = true
  | .node v sp cs, cx, h => by
    simp only [geomT, Bool.and_eq_true] at h
    simp only [noPanicT, Bool.and_eq_true]
    refine ⟨nodeNoPanic_of_geom cx v cs h.1, ?_⟩
    split
    · exact noPanicF_of_geom cs (some v) cx.parent none 0 h.2
    · rfl
theorem noPanicF_of_geom : ∀ (f : Forest) (parent grand prev : Option NodeValue) (idx : Nat),
    geomF parent grand idx f = true → noPanicF parent grand prev idx f = true
  | .nil, _, _, _, _, _ => rfl
  | .cons t ts, parent, grand, prev, idx, h => by
    simp only [geomF, Bool.and_eq_true] at h
    simp only [noPanicF, Bool.and_eq_true]
    exact ⟨noPanicT_of_geom t { parent := parent, grand := grand, prev := prev, isLast := ts.isNil, index := idx } h.1,
      noPanicF_of_geom ts parent grand (some t.value) (idx + 1) h.2⟩
end

/-- **HTML.** Under the C04 shape predicate none of `html.rs`'s `unwrap()` / `panic!` / index
    sites (`render_paragraph`, `render_table`, `render_table_cell`) can fire, at any node of a tree
    of any depth and width, provided the root is not itself a paragraph, item or task item. -/
theorem shape_imp_noPanic (t : Tree) (h : Shape t = true) (hr : rootOk t.value = true) : noPanicT {} t = true :=
  noPanicT_of_geom t {} (geom_of_shape t h hr)

/-- ... in particular for every tree rooted at a document (what the parser returns). -/
theorem shape_imp_noPanic_doc (sp : Sp) (cs : Forest) (h : Shape (.node .document sp cs) = true) :
    noPanicT {} (.node .document sp cs) = true :=
  shape_imp_noPanic _ h rfl

/-- The root condition is needed: a lone paragraph satisfies `Shape` (nothing in the containment
    table forbids a paragraph root) but `render_paragraph` unwraps its parent on the way out. -/
theorem shape_root_paragraph_counterexample :
    Shape (.node .paragraph {} .nil) = true ∧ noPanicT {} (.node .paragraph {} .nil) = false := by decide

/-- **XML.** Under `Shape` neither the two `ancestors.next().unwrap()` nor `alignments[ix]` of
    `xml.rs`'s table-cell arm can fire (`xmlNodeNoPanic` lists the sites and why the rest of
    `format_node` is total). -/
theorem xml_no_panic (t : Tree) (h : Shape t = true) (hr : rootOk t.value = true) : xmlNoPanicT {} t = true :=
  xmlNoPanicT_of_geom t {} (geom_of_shape t h hr)

/-- The XML model's `aligns.getD ix none` never falls back to the default where the code would
    have indexed out of range. -/
theorem xml_align_index_in_range (cx : XCtx) (aligns : List Align) (n r c : Nat)
    (hp : cx.parent = some (.tableRow true)) (hg : cx.grand = some (.table aligns n r c))
    (h : xmlNodeNoPanic cx .tableCell = true) :
    ∃ hlt : cx.index < aligns.length, aligns.getD cx.index .none = aligns[cx.index] :=
  xml_align_in_range cx true aligns n r c hp hg h

/-- **CommonMark.** Under `Shape`, and if no code span has an empty literal (which the inline
    parser guarantees: `C01.normalizeCode_nonempty`; `Shape` says nothing about payloads),
    none of `cm.rs`'s sites can fire: `format_item`'s `parent().unwrap()` / `unreachable!()`,
    `format_code`'s `literal[0]`, `format_table_cell`'s `unwrap()`s and `panic!()`s
    (`cmNodeNoPanic` lists them).  The debug-build `validate()` panic is `shape_validate`. -/
theorem cm_no_panic (t : Tree) (h : Shape t = true) (hr : rootOk t.value = true)
    (hc : t.allV codeLitNonEmpty = true) : cmNoPanicT {} t = true :=
  cmNoPanicT_of_geom t {} 0 (geom_of_shape t h hr) hc

/-- The payload hypothesis is needed: `Shape` holds of a paragraph with an empty code span. -/
theorem cm_empty_code_counterexample :
    Shape (.node .document {} (.cons (.node .paragraph {} (.cons (.node (.code 1 []) {} .nil) .nil)) .nil)) = true ∧
    cmNoPanicT {} (.node .document {} (.cons (.node .paragraph {} (.cons (.node (.code 1 []) {} .nil) .nil)) .nil)) = false := by
  decide

/-- What `Shape` buys downstream (C10): balanced HTML for every option vector. -/
theorem shape_gives_balanced_html (o : HtmlOpts) (nt : NormTable) (t : Tree) (h : Shape t = true) :
    balanced (renderToks o nt t) = true :=
  Comrak.C10.html_balanced_of_shape o nt t h

/-! Non-vacuity -/
example : Shape Comrak.C10.sampleTree = true := by decide
example : validateT Comrak.C10.sampleTree = true := shape_validate _ (by decide)
example : canContain .escaped .text = true ∧ canContain .tableCell .escaped = true ∧ canContain .tableCell .escapedTag = true := by decide
example : canContain .document .item = false ∧ canContain .list .paragraph = false ∧ canContain .paragraph .paragraph = false := by decide

example : noPanicT {} Comrak.C10.sampleTree = true := shape_imp_noPanic _ (by decide) (by decide)
example : xmlNoPanicT {} Comrak.C10.sampleTree = true := xml_no_panic _ (by decide) (by decide)
example : cmNoPanicT {} Comrak.C10.sampleTree = true := cm_no_panic _ (by decide) (by decide) (by decide)
-- a header cell beyond the alignments is what the predicates exclude
example : noPanicT {} (.node .document {} (.cons (.node (.table [.left] 1 1 1) {}
    (.cons (.node (.tableRow true) {} (.cons (.node .tableCell {} .nil) (.cons (.node .tableCell {} .nil) .nil))) .nil)) .nil)) = false := by
  decide

end Comrak.C04
