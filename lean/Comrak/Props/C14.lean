/-
C14  Tagfilter neutralises exactly the disallowed raw HTML tags.
`tagfilter`/`tagfilterBlock` model src/html.rs with every index explicit; `disallowedAt` and
`rewriteSpec` are written independently from the GFM "Disallowed Raw HTML" rule.
-/
import Comrak.Lemmas.TagFilter
import Comrak.Lemmas.TagFilterSurv
import Comrak.Html
import Comrak.Drv.C14
namespace Comrak.C14
open Comrak Bytes

/-- The index panic of the pinned tree, kept as a witness of the repaired defect:
    `tagfilter("<xmp")` read `literal[4]` of a 4-byte literal. -/
theorem tagfilter_oob_before_fix : tagfilterE [0x3C, 0x78, 0x6D, 0x70] = none := by decide

/-- The code as it is now never fails and agrees with the pinned code wherever that was defined. -/
theorem tagfilter_total (l : Bytes) (b : Bool) (h : tagfilterE l = some b) : tagfilter l = b := by
  simp [tagfilter, h]

theorem core (l r' : Bytes) (i : Nat) (h : l.drop i = r') :
    (match firstBlacklisted r' with
      | none => some false
      | some t => delimAt l (i + t.length)).getD false
    = tagBlacklist.any fun name => isPrefixCI name r' && tagDelimW isSpace (r'.drop name.length) := by
  rw [← find_eq_any tagBlacklist (fun n => isPrefixCI n r') (fun n => tagDelimW isSpace (r'.drop n.length))
    (fun a ha b hb pa pb => blacklist_unique r' a b ha hb pa pb)]
  unfold firstBlacklisted
  cases hf : tagBlacklist.find? (fun n => isPrefixCI n r') with
  | none => rfl
  | some n =>
    simp only []
    by_cases hj : i + n.length < l.length
    · rw [delimAt_eq_tagDelim _ _ hj, ← h, List.drop_drop]
      simp [Nat.add_comm]
    · have h1 : l[i + n.length]? = none := by apply List.getElem?_eq_none; omega
      have h2 : r'.drop n.length = [] := by
        rw [← h, List.drop_drop]; apply List.drop_eq_nil_of_le; omega
      simp [delimAt, h1, h2, tagDelimW]

/-- The filter decides exactly the GFM rule read with comrak's own white-space class, for every literal. -/
theorem tagfilter_eq_specC (l : Bytes) : tagfilter l = disallowedAtC l := by
  unfold tagfilter tagfilterE disallowedAtC
  cases l with
  | nil => rfl
  | cons b r =>
    by_cases hb : b = 0x3C
    · subst hb
      by_cases hlen : r.length < 2
      · -- too short for any name
        have h0 : ((0x3C :: r : Bytes).length < 3) := by simp; omega
        simp only [h0, decide_true, Bool.true_or, if_true, Option.getD_some]
        symm
        simp only [disallowedAtW, if_true]
        rw [List.any_eq_false]
        intro n hn
        have h3 := blacklist_min_len n hn
        have : isPrefixCI n (stripSlash r) = false := by
          apply Bool.eq_false_iff.mpr
          intro hp
          have h1 := isPrefixCI_length _ _ hp
          have hle : (stripSlash r).length ≤ r.length := by
            unfold stripSlash; split
            · split <;> simp
            · simp
          omega
        simp [this]
      · have h0 : ¬ ((0x3C :: r : Bytes).length < 3) := by simp; omega
        simp only [h0, decide_false, List.getElem?_cons_zero, bne_self_eq_false, Bool.or_self,
          Bool.false_eq_true, if_false, disallowedAtW, if_true]
        have hdrop : (0x3C :: r : Bytes).drop (if ((0x3C :: r : Bytes)[1]? == some 0x2F) = true then 2 else 1) = stripSlash r := by
          cases r with
          | nil => simp at hlen
          | cons c t =>
            by_cases hc : c = 0x2F
            · subst hc; simp [stripSlash]
            · simp [stripSlash, hc]
        rw [hdrop]
        exact core (0x3C :: r) (stripSlash r) _ hdrop
    · have h1 : ((some b : Option UInt8) != some 0x3C) = true := by simpa using hb
      simp only [List.getElem?_cons_zero, h1, Bool.or_true, if_true, Option.getD_some, disallowedAtW, hb, if_false]

/-- **C14 (partial): the filter decides exactly the GFM rule** - `<`, optional `/`, one of the nine
    names in any letter case, then HTML white space, `>` or `/>` - on every literal without a form feed. -/
theorem tagfilter_eq_spec_partial (l : Bytes) (h : (0x0C : UInt8) ∉ l) : tagfilter l = disallowedAt l := by
  rw [tagfilter_eq_specC, disallowedAtW_congr l h]

/-- The excluded point: a form feed ends a tag name for a browser (and for cmark-gfm's `isspace`),
    but not for comrak's `isspace`, so `<title\f` passes the filter. Recorded in known_findings.json. -/
theorem tagfilter_formfeed_counterexample :
    tagfilter [0x3C, 0x74, 0x69, 0x74, 0x6C, 0x65, 0x0C] = false ∧
    disallowedAt [0x3C, 0x74, 0x69, 0x74, 0x6C, 0x65, 0x0C] = true := by decide

theorem tagfilterBlock_eq_rewriteC (l : Bytes) : tagfilterBlock l = rewriteSpecW isSpace l := by
  induction l with
  | nil => rfl
  | cons b r ih =>
    have e := tagfilter_eq_specC (b :: r)
    unfold disallowedAtC at e
    simp only [tagfilterBlock, rewriteSpecW, ih, e]
    by_cases hb : b = 0x3C
    · subst hb; by_cases hd : disallowedAtW isSpace (0x3C :: r) = true <;> simp [hd]
    · simp [hb]

theorem rewriteSpecW_congr (l : Bytes) (h : (0x0C : UInt8) ∉ l) : rewriteSpecW isSpace l = rewriteSpec l := by
  unfold rewriteSpec
  induction l with
  | nil => rfl
  | cons b r ih =>
    have hr : (0x0C : UInt8) ∉ r := fun hm => h (by simp [hm])
    have e := disallowedAtW_congr (b :: r) h
    unfold disallowedAt disallowedAtC at e
    simp only [rewriteSpecW, ih hr, e]

/-- In an HTML block the output is the input with `<` -> `&lt;` exactly at the disallowed
    positions: nothing else is altered (literals without form feed). -/
theorem tagfilterBlock_eq_rewriteSpec_partial (l : Bytes) (h : (0x0C : UInt8) ∉ l) :
    tagfilterBlock l = rewriteSpec l := by
  rw [tagfilterBlock_eq_rewriteC, rewriteSpecW_congr l h]

/-- The inline cascade (escape > safe placeholder > tagfilter > raw): with raw HTML allowed and
    the extension on, an inline literal is written with its leading `<` as `&lt;` iff the rule
    says so, and verbatim otherwise. -/
theorem inline_filtered_iff (o : HtmlOpts) (l : Bytes) (he : o.escape = false) (hu : o.unsafe_ = true)
    (ht : o.tagfilter = true) :
    spell (htmlInlineToks o l) = if disallowedAtC l then S.v_lt ++ l.drop 1 else l := by
  simp only [htmlInlineToks, he, hu, ht, tagfilter_eq_specC]
  by_cases hd : disallowedAtC l = true <;> simp [hd, spell, Tok.spell]

theorem block_filtered (o : HtmlOpts) (l : Bytes) (he : o.escape = false) (hu : o.unsafe_ = true)
    (ht : o.tagfilter = true) :
    spell (htmlBlockToks o l) = rewriteSpecW isSpace l := by
  simp [htmlBlockToks, he, hu, ht, spell, Tok.spell, tagfilterBlock_eq_rewriteC]

/-- With the extension off (raw HTML allowed) literals are written verbatim. -/
theorem unfiltered_verbatim (o : HtmlOpts) (l : Bytes) (he : o.escape = false) (hu : o.unsafe_ = true)
    (ht : o.tagfilter = false) :
    spell (htmlBlockToks o l) = l ∧ spell (htmlInlineToks o l) = l := by
  simp [htmlBlockToks, htmlInlineToks, he, hu, ht, spell, Tok.spell]

/-! Non-vacuity -/
example : disallowedAt [0x3C, 0x2F, 0x58, 0x4D, 0x70, 0x20] = true := by decide      -- "</XMp "
example : disallowedAt [0x3C, 0x78, 0x6D, 0x70, 0x73, 0x3E] = false := by decide     -- "<xmps>"
example : rewriteSpec [0x61, 0x3C, 0x78, 0x6D, 0x70, 0x3E, 0x3C, 0x62, 0x3E] =
    [0x61] ++ S.v_lt ++ [0x78, 0x6D, 0x70, 0x3E, 0x3C, 0x62, 0x3E] := by decide

/-! ## No disallowed tag survives in an HTML block

`survivorsW sp out` (Lemmas/TagFilterSurv.lean) counts the positions `p` of `out` that hold a `<` with
`disallowedAtW sp (out.drop p)`; `survivorsC` uses comrak's white-space class, `survivorsH` the HTML
tokenizer's.  Two facts are needed: a `<` rewritten to `&lt;` leaves no `<` behind, and the decision taken at a
*kept* `<` is the same on the output as on the input (`disallowedAtW_rewrite`: the bytes it reads - optional `/`,
name letters, one delimiter byte, possibly `>` - are never `<`, and a later `<` that becomes `&` is a mismatch /
non-delimiter either way). -/

/-- **C14: no GFM-disallowed tag survives in a filtered HTML block** (comrak's own white-space class),
    for every literal. -/
theorem no_disallowed_survives (l : Bytes) : survivorsC (tagfilterBlock l) = 0 := by
  rw [tagfilterBlock_eq_rewriteC]
  exact survivorsW_rewrite isSpace spOk_isSpace l

/-- The same with the HTML tokenizer's white space (tab, LF, FF, CR, space) on every literal without form feed. -/
theorem no_disallowed_survives_partial (l : Bytes) (h : (0x0C : UInt8) ∉ l) :
    survivorsH (tagfilterBlock l) = 0 := by
  rw [tagfilterBlock_eq_rewriteSpec_partial l h]
  exact survivorsW_rewrite htmlSpace spOk_htmlSpace l

/-- The excluded point again: `<title\f` is kept and is a disallowed tag for an HTML tokenizer. -/
theorem no_disallowed_survives_formfeed_counterexample :
    survivorsH (tagfilterBlock [0x3C, 0x74, 0x69, 0x74, 0x6C, 0x65, 0x0C]) = 1 := by decide

/-- The counter the harness asks the driver for (`survivors`, Drv/C14.lean) is `survivorsH`. -/
theorem drv_survivors_eq (out : Bytes) : Comrak.Drv.C14.survivors out = survivorsH out := by
  induction out with
  | nil => rfl
  | cons b r ih =>
    simp only [Comrak.Drv.C14.survivors, survivorsH, survivorsW, disallowedAt] at ih ⊢
    rw [ih]
    rfl

/-- The filtered inline literal: its only rewritten position is the first byte, and after the rewrite that
    position holds no `<`. -/
theorem inline_first_not_disallowed (l : Bytes) :
    disallowedAtC (if disallowedAtC l then S.v_lt ++ l.drop 1 else l) = false := by
  by_cases hd : disallowedAtC l = true
  · simp only [hd, if_true]; simp [disallowedAtC, disallowedAtW, S.v_lt]
  · simp only [hd]; simpa using hd

/-! Non-vacuity: a block with two disallowed tags, one allowed tag and a `<` directly after a tag name. -/
example : survivorsC [0x3C, 0x78, 0x6D, 0x70, 0x3E, 0x3C, 0x62, 0x3E, 0x3C, 0x2F, 0x58, 0x4D, 0x50, 0x3E] = 2 := by decide
example : survivorsC (tagfilterBlock [0x3C, 0x78, 0x6D, 0x70, 0x3E, 0x3C, 0x62, 0x3E, 0x3C, 0x2F, 0x58, 0x4D, 0x50, 0x3E]) = 0 := by
  decide
-- "<xmp<xmp>" : the first `<` is not disallowed (delimiter position holds `<`), the second is; after the rewrite
-- the first is followed by `xmp&lt;xmp>` and still is not disallowed.
example : tagfilterBlock [0x3C, 0x78, 0x6D, 0x70, 0x3C, 0x78, 0x6D, 0x70, 0x3E] =
    [0x3C, 0x78, 0x6D, 0x70] ++ S.v_lt ++ [0x78, 0x6D, 0x70, 0x3E] := by decide

end Comrak.C14
