/-
C14  Tagfilter neutralises exactly the disallowed raw HTML tags.
`tagfilter`/`tagfilterBlock` model src/html.rs with every index explicit; `disallowedAt` and
`rewriteSpec` are written independently from the GFM "Disallowed Raw HTML" rule.
-/
import Comrak.Lemmas.TagFilter
import Comrak.Lemmas.TagFilterSurv
import Comrak.Html
import Comrak.Drv.C14
namespace Comrak.C14
open Comrak Bytes

/-- The index panic of the pinned tree, kept as a witness of the repaired defect:
    `tagfilter("<xmp")` read `literal[4]` of a 4-byte literal. -/
theorem tagfilter_oob_before_fix : tagfilterE [0x3C, 0x78, 0x6D, 0x70] = none := by decide

/-- The code as it is now never fails and agrees with the pinned code wherever that was defined. -/
theorem tagfilter_total (l : Bytes) (b : Bool) (h : tagfilterE l = some b) : tagfilter l = b := by
  simp [tagfilter, h]

theorem core (l r' : Bytes) (i : Nat) (h : l.drop i = r') :
    (match firstBlacklisted r' with
      | none => some false
      | some t => delimAt l (i + t.length)).getD false
    = tagBlacklist.any fun name => isPrefixCI name r' && tagDelimW htmlSpace (r'.drop name.length) := by
  rw [← find_eq_any tagBlacklist (fun n => isPrefixCI n r') (fun n => tagDelimW htmlSpace (r'.drop n.length))
    (fun a ha b hb pa pb => blacklist_unique r' a b ha hb pa pb)]
  unfold firstBlacklisted
  cases hf : tagBlacklist.find? (fun n => isPrefixCI n r') with
  | none => rfl
  | some n =>
    simp only []
    by_cases hj : i + n.length < l.length
    · rw [delimAt_eq_tagDelim _ _ hj, ← h, List.drop_drop]
      simp [Nat.add_comm]
    · have h1 : l[i + n.length]? = none := by apply List.getElem?_eq_none; omega
      have h2 : r'.drop n.length = [] := by
        rw [← h, List.drop_drop]; apply List.drop_eq_nil_of_le; omega
      simp [delimAt, h1, h2, tagDelimW]

/-- **C14: the filter decides exactly the GFM rule** - `<`, optional `/`, one of the nine names in
    any letter case, then HTML white space (tab, LF, FF, CR, space), `>` or `/>` - for every literal.
    (On the pinned tree form feed was not a delimiter; repaired in /repo commit e44bf23.) -/
theorem tagfilter_eq_spec (l : Bytes) : tagfilter l = disallowedAt l := by
  unfold tagfilter tagfilterE disallowedAt
  cases l with
  | nil => rfl
  | cons b r =>
    by_cases hb : b = 0x3C
    · subst hb
      by_cases hlen : r.length < 2
      · -- too short for any name
        have h0 : ((0x3C :: r : Bytes).length < 3) := by simp; omega
        simp only [h0, decide_true, Bool.true_or, if_true, Option.getD_some]
        symm
        simp only [disallowedAtW, if_true]
        rw [List.any_eq_false]
        intro n hn
        have h3 := blacklist_min_len n hn
        have : isPrefixCI n (stripSlash r) = false := by
          apply Bool.eq_false_iff.mpr
          intro hp
          have h1 := isPrefixCI_length _ _ hp
          have hle : (stripSlash r).length ≤ r.length := by
            unfold stripSlash; split
            · split <;> simp
            · simp
          omega
        simp [this]
      · have h0 : ¬ ((0x3C :: r : Bytes).length < 3) := by simp; omega
        simp only [h0, decide_false, List.getElem?_cons_zero, bne_self_eq_false, Bool.or_self,
          Bool.false_eq_true, if_false, disallowedAtW, if_true]
        have hdrop : (0x3C :: r : Bytes).drop (if ((0x3C :: r : Bytes)[1]? == some 0x2F) = true then 2 else 1) = stripSlash r := by
          cases r with
          | nil => simp at hlen
          | cons c t =>
            by_cases hc : c = 0x2F
            · subst hc; simp [stripSlash]
            · simp [stripSlash, hc]
        rw [hdrop]
        exact core (0x3C :: r) (stripSlash r) _ hdrop
    · have h1 : ((some b : Option UInt8) != some 0x3C) = true := by simpa using hb
      simp only [List.getElem?_cons_zero, h1, Bool.or_true, if_true, Option.getD_some, disallowedAtW, hb, if_false]

/-- The former partial statement (literals without a form feed), now a special case. -/
theorem tagfilter_eq_spec_partial (l : Bytes) (_h : (0x0C : UInt8) ∉ l) : tagfilter l = disallowedAt l :=
  tagfilter_eq_spec l

/-- The point that was excluded on the pinned tree: a form feed ends a tag name for a browser (and for
    cmark-gfm's `isspace`); `<title\f` is now filtered. -/
theorem tagfilter_formfeed_filtered :
    tagfilter [0x3C, 0x74, 0x69, 0x74, 0x6C, 0x65, 0x0C] = true ∧
    disallowedAt [0x3C, 0x74, 0x69, 0x74, 0x6C, 0x65, 0x0C] = true ∧
    disallowedAtC [0x3C, 0x74, 0x69, 0x74, 0x6C, 0x65, 0x0C] = false := by decide

/-- In an HTML block the output is the input with `<` -> `&lt;` exactly at the disallowed
    positions: nothing else is altered, for every literal. -/
theorem tagfilterBlock_eq_rewriteSpec (l : Bytes) : tagfilterBlock l = rewriteSpec l := by
  unfold rewriteSpec
  induction l with
  | nil => rfl
  | cons b r ih =>
    have e := tagfilter_eq_spec (b :: r)
    unfold disallowedAt at e
    simp only [tagfilterBlock, rewriteSpecW, ih, e]
    by_cases hb : b = 0x3C
    · subst hb; by_cases hd : disallowedAtW htmlSpace (0x3C :: r) = true <;> simp [hd]
    · simp [hb]

theorem rewriteSpecW_congr (l : Bytes) (h : (0x0C : UInt8) ∉ l) : rewriteSpecW isSpace l = rewriteSpec l := by
  unfold rewriteSpec
  induction l with
  | nil => rfl
  | cons b r ih =>
    have hr : (0x0C : UInt8) ∉ r := fun hm => h (by simp [hm])
    have e := disallowedAtW_congr (b :: r) h
    unfold disallowedAt disallowedAtC at e
    simp only [rewriteSpecW, ih hr, e]

theorem tagfilterBlock_eq_rewriteSpec_partial (l : Bytes) (_h : (0x0C : UInt8) ∉ l) :
    tagfilterBlock l = rewriteSpec l := tagfilterBlock_eq_rewriteSpec l

/-- The inline cascade (escape > safe placeholder > tagfilter > raw): with raw HTML allowed and
    the extension on, an inline literal is written with its leading `<` as `&lt;` iff the rule
    says so, and verbatim otherwise. -/
theorem inline_filtered_iff (o : HtmlOpts) (l : Bytes) (he : o.escape = false) (hu : o.unsafe_ = true)
    (ht : o.tagfilter = true) :
    spell (htmlInlineToks o l) = if disallowedAt l then S.v_lt ++ l.drop 1 else l := by
  simp only [htmlInlineToks, he, hu, ht, tagfilter_eq_spec]
  by_cases hd : disallowedAt l = true <;> simp [hd, spell, Tok.spell]

theorem block_filtered (o : HtmlOpts) (l : Bytes) (he : o.escape = false) (hu : o.unsafe_ = true)
    (ht : o.tagfilter = true) :
    spell (htmlBlockToks o l) = rewriteSpec l := by
  simp [htmlBlockToks, he, hu, ht, spell, Tok.spell, tagfilterBlock_eq_rewriteSpec]

/-- With the extension off (raw HTML allowed) literals are written verbatim. -/
theorem unfiltered_verbatim (o : HtmlOpts) (l : Bytes) (he : o.escape = false) (hu : o.unsafe_ = true)
    (ht : o.tagfilter = false) :
    spell (htmlBlockToks o l) = l ∧ spell (htmlInlineToks o l) = l := by
  simp [htmlBlockToks, htmlInlineToks, he, hu, ht, spell, Tok.spell]

/-! Non-vacuity -/
example : disallowedAt [0x3C, 0x2F, 0x58, 0x4D, 0x70, 0x20] = true := by decide      -- "</XMp "
example : disallowedAt [0x3C, 0x78, 0x6D, 0x70, 0x73, 0x3E] = false := by decide     -- "<xmps>"
example : rewriteSpec [0x61, 0x3C, 0x78, 0x6D, 0x70, 0x3E, 0x3C, 0x62, 0x3E] =
    [0x61] ++ S.v_lt ++ [0x78, 0x6D, 0x70, 0x3E, 0x3C, 0x62, 0x3E] := by decide

/-! ## No disallowed tag survives in an HTML block

`survivorsW sp out` (Lemmas/TagFilterSurv.lean) counts the positions `p` of `out` that hold a `<` with
`disallowedAtW sp (out.drop p)`; `survivorsC` uses comrak's white-space class, `survivorsH` the HTML
tokenizer's.  Two facts are needed: a `<` rewritten to `&lt;` leaves no `<` behind, and the decision taken at a
*kept* `<` is the same on the output as on the input (`disallowedAtW_rewrite`: the bytes it reads - optional `/`,
name letters, one delimiter byte, possibly `>` - are never `<`, and a later `<` that becomes `&` is a mismatch /
non-delimiter either way). -/

/-- **C14: no GFM-disallowed tag survives in a filtered HTML block** (the HTML tokenizer's white
    space: tab, LF, FF, CR, space), for every literal. -/
theorem no_disallowed_survives (l : Bytes) : survivorsH (tagfilterBlock l) = 0 := by
  rw [tagfilterBlock_eq_rewriteSpec]
  exact survivorsW_rewrite htmlSpace spOk_htmlSpace l

theorem no_disallowed_survives_partial (l : Bytes) (_h : (0x0C : UInt8) ∉ l) :
    survivorsH (tagfilterBlock l) = 0 := no_disallowed_survives l

/-- The formerly excluded point: `<title\f` is rewritten, nothing survives. -/
theorem no_disallowed_survives_formfeed :
    survivorsH (tagfilterBlock [0x3C, 0x74, 0x69, 0x74, 0x6C, 0x65, 0x0C]) = 0 := by decide

/-- The counter the harness asks the driver for (`survivors`, Drv/C14.lean) is `survivorsH`. -/
theorem drv_survivors_eq (out : Bytes) : Comrak.Drv.C14.survivors out = survivorsH out := by
  induction out with
  | nil => rfl
  | cons b r ih =>
    simp only [Comrak.Drv.C14.survivors, survivorsH, survivorsW, disallowedAt] at ih ⊢
    rw [ih]
    rfl

/-- The filtered inline literal: its only rewritten position is the first byte, and after the rewrite that
    position holds no `<`. -/
theorem inline_first_not_disallowed (l : Bytes) :
    disallowedAt (if disallowedAt l then S.v_lt ++ l.drop 1 else l) = false := by
  by_cases hd : disallowedAt l = true
  · simp only [hd, if_true]; simp [disallowedAt, disallowedAtW, S.v_lt]
  · simp only [hd]; simpa using hd

/-- **Locality.** The block filter carries no state from one tag to the next: what is written for the text in
    front of a `<` does not depend on what follows that `<`, and what is written from a `<` on does not depend on
    what precedes it - no quote, comment or open-tag context can switch the filter off (or on). -/
theorem tagfilterBlock_local (p t : Bytes) :
    tagfilterBlock (p ++ 0x3C :: t) = tagfilterBlock p ++ tagfilterBlock (0x3C :: t) := by
  rw [tagfilterBlock_eq_rewriteSpec, tagfilterBlock_eq_rewriteSpec, tagfilterBlock_eq_rewriteSpec]
  exact rewriteSpecW_append_lt htmlSpace (by decide) p t

/-- Hence a disallowed tag is neutralised behind every prefix. -/
theorem disallowed_neutralised_in_context (p t : Bytes) (h : disallowedAt (0x3C :: t) = true) :
    tagfilterBlock (p ++ 0x3C :: t) = tagfilterBlock p ++ S.v_lt ++ tagfilterBlock t := by
  rw [tagfilterBlock_local]
  have e := tagfilter_eq_spec (0x3C :: t)
  simp [tagfilterBlock, e, h]

/-! Non-vacuity: a block with two disallowed tags, one allowed tag and a `<` directly after a tag name. -/
example : survivorsH [0x3C, 0x78, 0x6D, 0x70, 0x3E, 0x3C, 0x62, 0x3E, 0x3C, 0x2F, 0x58, 0x4D, 0x50, 0x3E] = 2 := by decide
example : survivorsH (tagfilterBlock [0x3C, 0x78, 0x6D, 0x70, 0x3E, 0x3C, 0x62, 0x3E, 0x3C, 0x2F, 0x58, 0x4D, 0x50, 0x3E]) = 0 := by
  decide
-- "<xmp<xmp>" : the first `<` is not disallowed (delimiter position holds `<`), the second is; after the rewrite
-- the first is followed by `xmp&lt;xmp>` and still is not disallowed.
example : tagfilterBlock [0x3C, 0x78, 0x6D, 0x70, 0x3C, 0x78, 0x6D, 0x70, 0x3E] =
    [0x3C, 0x78, 0x6D, 0x70] ++ S.v_lt ++ [0x78, 0x6D, 0x70, 0x3E] := by decide
-- `<div title="` in front of `<xmp>`: the open quote changes nothing.
example : tagfilterBlock ([0x3C, 0x64, 0x69, 0x76, 0x20, 0x74, 0x69, 0x74, 0x6C, 0x65, 0x3D, 0x22] ++ [0x3C, 0x78, 0x6D, 0x70, 0x3E]) =
    [0x3C, 0x64, 0x69, 0x76, 0x20, 0x74, 0x69, 0x74, 0x6C, 0x65, 0x3D, 0x22] ++ S.v_lt ++ [0x78, 0x6D, 0x70, 0x3E] := by decide
example : disallowedAt [0x3C, 0x78, 0x6D, 0x70, 0x3E] = true := by decide

end Comrak.C14
