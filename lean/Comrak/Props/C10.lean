/-
C10  HTML output is balanced and properly nested.
Token-level statements about the complete model of `format_node_default` (Comrak/Html.lean),
for every option vector and every tree of any depth and width that respects `Shape`
(raw-HTML pass-through produces `Tok.raw`, which carries no tag events: the byte-level reading
is the one the property states, "whenever raw HTML is not passed through").
-/
import Comrak.Lemmas.HtmlTree
namespace Comrak.C10
open Comrak Bytes

/-- Per node, for all 41 kinds and all options: `enter` leaves exactly `opened` on the tag stack. -/
theorem enter_leaves_opened (o : HtmlOpts) (nt : NormTable) (cx : Ctx) (v : NodeValue) (sp : Sp) (cs : Forest)
    (st : St) (s : List Bytes) :
    run s (events (enter o nt cx v sp cs st).1) = some (opened o cx st v ++ s) :=
  enter_opened o nt cx v sp cs st s

/-- Per node: `exit` closes exactly `closing` (paired conditions - paragraph tightness,
    strong-in-strong, link-in-link, header/body cells - are computed identically on both sides). -/
theorem exit_closes_closing (o : HtmlOpts) (cx : Ctx) (v : NodeValue) (cs : Forest) (st : St) (s : List Bytes) :
    run (closing o cx v cs ++ s) (events (exit o cx v cs st).1) = some s :=
  exit_closing o cx v cs st s

/-- The back-links of a footnote definition are balanced for any number of references. -/
theorem backrefs_balanced (name : Bytes) (ix total : Nat) (s : List Bytes) :
    run s (events (backrefToks name ix total 1)) = some s :=
  run_backrefToks s name ix total 1

/-- `<tbody>` is left open by the rows exactly when the table closes it. -/
theorem tbody_once (rows : Forest) (h : rowsOk rows = true) :
    rowsEff none rows = if rows.length ≠ 1 then [S.t_tbody] else [] :=
  rowsEff_rowsOk rows h

mutual
theorem shapeT_imp_balShapeT : ∀ (t : Tree) (p : Option NodeValue), shapeT p t = true → balShapeT p t = true
  | .node v sp cs, p, h => by
    simp only [shapeT, Bool.and_eq_true] at h
    simp only [balShapeT, Bool.and_eq_true]
    refine ⟨⟨h.1.1.2, ?_⟩, shapeF_imp_balShapeF cs _ h.2⟩
    have hl := h.1.2
    cases v <;> simp_all [tableOk, localOk]
theorem shapeF_imp_balShapeF : ∀ (f : Forest) (p : Option NodeValue), shapeF p f = true → balShapeF p f = true
  | .nil, _, _ => rfl
  | .cons t ts, p, h => by
    simp only [shapeF, Bool.and_eq_true] at h
    simp only [balShapeF, Bool.and_eq_true]
    exact ⟨shapeT_imp_balShapeT t p h.1, shapeF_imp_balShapeF ts p h.2⟩
end

/-- **C10, token level.** Every start tag is closed in the right order and nothing is left open
    at the end of the document: for every option vector, normalisation table and tree with
    `balShapeT` (rows only under tables with the header row first and unique, footnote
    definitions only under the document or another definition). -/
theorem html_balanced (o : HtmlOpts) (nt : NormTable) (t : Tree) (h : balShapeT none t = true) :
    balanced (renderToks o nt t) = true := by
  have hT := renderT_goal o nt t {} h ({} : St) []
  unfold balanced renderToks
  simp only [W.seq_fst, events_append]
  cases t with
  | node v sp cs =>
    simp only [balShapeT, Bool.and_eq_true] at h
    have hp := h.1.1
    simp only [Tree.value] at hT
    by_cases hd : isDoc v = true
    · have T := hT.1 hd
      have h0 : sec ({} : St) = [] := by simp [sec]
      simp only [h0, List.nil_append, List.append_nil] at T
      rw [run_append_some _ T]
      unfold finish sec
      split <;> split <;> simp_all [Tok.events, nl]
    · have hd' : isDoc v = false := by simpa using hd
      have hndef : isDef v = false := by cases v <;> simp_all [isDef, placeOk, isDocOrDef]
      have hnrow : isRow v = false := by cases v <;> simp_all [isRow, placeOk, isTable]
      obtain ⟨T1, T2⟩ := hT.2.2.2 hd' hndef hnrow
      rw [run_append_some _ T1]
      have : (renderT o nt {} (Tree.node v sp cs) {}).2.fnIx = 0 := by rw [T2]
      unfold finish
      simp [this]

/-- **C10 for every tree satisfying the full shape predicate of C04.** -/
theorem html_balanced_of_shape (o : HtmlOpts) (nt : NormTable) (t : Tree) (h : Shape t = true) :
    balanced (renderToks o nt t) = true :=
  html_balanced o nt t (shapeT_imp_balShapeT t none h)

/-! Non-vacuity: a concrete shape-respecting tree with a two-row table and a footnote. -/
def sampleTree : Tree :=
  .node .document {} (.cons
    (.node (.table [.left] 1 2 2) {} (.cons
      (.node (.tableRow true) {} (.cons (.node .tableCell {} (.cons (.node (.text [0x61]) {} .nil) .nil)) .nil)) (.cons
      (.node (.tableRow false) {} (.cons (.node .tableCell {} .nil) .nil)) .nil))) (.cons
    (.node (.footnoteDefinition [0x78] 2) {} (.cons (.node .paragraph {} .nil) .nil)) .nil))

example : Shape sampleTree = true := by decide
example : (events (renderToks {} {} sampleTree)).length > 20 := by decide

end Comrak.C10
