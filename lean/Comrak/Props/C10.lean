/-
C10  HTML output is balanced and properly nested.
Token-level statements about the complete model of `format_node_default` (Comrak/Html.lean),
for every option vector and every tree of any depth and width that respects `Shape`
(raw-HTML pass-through produces `Tok.raw`, which carries no tag events: the byte-level reading
is the one the property states, "whenever raw HTML is not passed through").
-/
import Comrak.Lemmas.HtmlTree
import Comrak.Lemmas.HtmlLexBal
import Comrak.Lemmas.HtmlLexFn
import Comrak.Lemmas.HtmlLexTableTree
namespace Comrak.C10
open Comrak Bytes

/-- Per node, for all 41 kinds and all options: `enter` leaves exactly `opened` on the tag stack. -/
theorem enter_leaves_opened (o : HtmlOpts) (nt : NormTable) (cx : Ctx) (v : NodeValue) (sp : Sp) (cs : Forest)
    (st : St) (s : List Bytes) :
    run s (events (enter o nt cx v sp cs st).1) = some (opened o cx st v ++ s) :=
  enter_opened o nt cx v sp cs st s

/-- Per node: `exit` closes exactly `closing` (paired conditions - paragraph tightness,
    strong-in-strong, link-in-link, header/body cells - are computed identically on both sides). -/
theorem exit_closes_closing (o : HtmlOpts) (cx : Ctx) (v : NodeValue) (cs : Forest) (st : St) (s : List Bytes) :
    run (closing o cx v cs ++ s) (events (exit o cx v cs st).1) = some s :=
  exit_closing o cx v cs st s

/-- The back-links of a footnote definition are balanced for any number of references. -/
theorem backrefs_balanced (name : Bytes) (ix total : Nat) (s : List Bytes) :
    run s (events (backrefToks name ix total 1)) = some s :=
  run_backrefToks s name ix total 1

/-- `<tbody>` is left open by the rows exactly when the table closes it. -/
theorem tbody_once (rows : Forest) (h : rowsOk rows = true) :
    rowsEff none rows = if rows.length ≠ 1 then [S.t_tbody] else [] :=
  rowsEff_rowsOk rows h

mutual
theorem shapeT_imp_balShapeT : ∀ (t : Tree) (p : Option NodeValue), shapeT p t = true → balShapeT p t = true
  | .node v sp cs, p, h => by
    simp only [shapeT, Bool.and_eq_true] at h
    simp only [balShapeT, Bool.and_eq_true]
    refine ⟨⟨h.1.1.2, ?_⟩, shapeF_imp_balShapeF cs _ h.2⟩
    have hl := h.1.2
    cases v <;> simp_all [tableOk, localOk]
theorem shapeF_imp_balShapeF : ∀ (f : Forest) (p : Option NodeValue), shapeF p f = true → balShapeF p f = true
  | .nil, _, _ => rfl
  | .cons t ts, p, h => by
    simp only [shapeF, Bool.and_eq_true] at h
    simp only [balShapeF, Bool.and_eq_true]
    exact ⟨shapeT_imp_balShapeT t p h.1, shapeF_imp_balShapeF ts p h.2⟩
end

/-- **C10, token level.** Every start tag is closed in the right order and nothing is left open
    at the end of the document: for every option vector, normalisation table and tree with
    `balShapeT` (rows only under tables with the header row first and unique, footnote
    definitions only under the document or another definition). -/
theorem html_balanced (o : HtmlOpts) (nt : NormTable) (t : Tree) (h : balShapeT none t = true) :
    balanced (renderToks o nt t) = true := by
  have hT := renderT_goal o nt t {} h ({} : St) []
  unfold balanced renderToks
  simp only [W.seq_fst, events_append]
  cases t with
  | node v sp cs =>
    simp only [balShapeT, Bool.and_eq_true] at h
    have hp := h.1.1
    simp only [Tree.value] at hT
    by_cases hd : isDoc v = true
    · have T := hT.1 hd
      have h0 : sec ({} : St) = [] := by simp [sec]
      simp only [h0, List.nil_append, List.append_nil] at T
      rw [run_append_some _ T]
      unfold finish sec
      split <;> split <;> simp_all [Tok.events, nl]
    · have hd' : isDoc v = false := by simpa using hd
      have hndef : isDef v = false := by cases v <;> simp_all [isDef, placeOk, isDocOrDef]
      have hnrow : isRow v = false := by cases v <;> simp_all [isRow, placeOk, isTable]
      obtain ⟨T1, T2⟩ := hT.2.2.2 hd' hndef hnrow
      rw [run_append_some _ T1]
      have : (renderT o nt {} (Tree.node v sp cs) {}).2.fnIx = 0 := by rw [T2]
      unfold finish
      simp [this]

/-- **C10 for every tree satisfying the full shape predicate of C04.** -/
theorem html_balanced_of_shape (o : HtmlOpts) (nt : NormTable) (t : Tree) (h : Shape t = true) :
    balanced (renderToks o nt t) = true :=
  html_balanced o nt t (shapeT_imp_balShapeT t none h)

/-! ### From tokens to bytes

The byte-level lexer `lexHtml` (the front end of the oracle `balancedBytes` that is run on the real
output) is proved to invert the spelling of comrak's own safe markup; token-level balance then gives
byte-level balance for the core of the oracle. -/

/-- **The lexer inverts the spelling**: for every token list of comrak's own safe markup
    (`allowedTok`: vocabulary names, attribute values that are `escape`/`escape_href` images or
    harmless literals, text escaped or harmless, the placeholder comment) the byte-level lexer run
    over the spelled bytes returns exactly the tokens' image `toL` (adjacent text pieces merged,
    attribute values as spelled).  No side condition beyond `allowedTok` is needed. -/
theorem lex_spell (ts : List Tok) (h : ts.all allowedTok = true) : lexHtml (spell ts) = some (toL ts) :=
  Comrak.lex_spell ts h

/-- `balancedBytesCore` (lexer + tag stack + void elements self-closed and only they) is the oracle
    `balancedBytes` minus its `<thead>`/`<tbody>`-once-under-`<table>` and footnote-section-once
    clauses: whatever the full oracle accepts the core accepts. -/
theorem balancedBytes_imp_core (bs : Bytes) (h : balancedBytes bs = .ok ()) : balancedBytesCore bs = .ok () :=
  Comrak.balancedBytes_imp_core bs h

/-- Every start tag the renderer writes is for a non-void element, every self-closed tag for a void
    one (`br`, `hr`, `img`, `input`) - all options, all trees. -/
theorem html_void_discipline (o : HtmlOpts) (nt : NormTable) (t : Tree) : (renderToks o nt t).all voidOk = true :=
  renderToks_void o nt t

/-- Token-level balance is byte-level balance, for any allowed void-respecting token list. -/
theorem balanced_tokens_balanced_bytes (ts : List Tok) (ha : ts.all allowedTok = true) (hv : ts.all voidOk = true)
    (hb : balanced ts = true) : balancedBytesCore (spell ts) = .ok () :=
  balancedBytesCore_spell ts ha hv hb

/-- **C10 on bytes, core oracle** (kept for reference; now SUBSUMED by `html_balanced_bytes` below via
    `balancedBytes_imp_core`).  In safe mode (`unsafe_ = false`, so no raw HTML is passed through) the
    *bytes* of the rendered document lex as complete tags, comments and text, every end tag matches the
    innermost open start tag, nothing is left open, void elements are self-closed and no other element
    is.  Hypotheses: `balShapeT` (C10), `treeSafe`, `NormSafe` and a harmless `header_ids` prefix (C02).
    Relative to the run-time oracle `balancedBytes` this statement lacks its two bookkeeping clauses
    (`<thead>` / `<tbody>` at most once and directly under `<table>`; the footnote `<section>` at most
    once); the full oracle is `html_balanced_bytes`. -/
theorem html_balanced_bytes_partial (o : HtmlOpts) (nt : NormTable) (t : Tree)
    (hb : balShapeT none t = true) (hu : o.unsafe_ = false)
    (hp : ∀ p, o.headerIds = some p → litSafe p = true) (hn : NormSafe nt) (ht : treeSafe t = true) :
    balancedBytesCore (renderHtml o nt t) = .ok () :=
  balancedBytesCore_spell _ (renderToks_allowed o hu hp nt hn t ht) (renderToks_void o nt t)
    (html_balanced o nt t hb)

/-- **Footnote section at most once, on bytes** (the `footnotesTwice` clause of `balancedBytes`,
    which does not depend on the tag stack): in safe mode the rendered bytes lex, and the lexed tokens
    contain at most one `<section class="footnotes" ...>` start tag.  (Also a consequence of
    `html_balanced_bytes`; this form needs no shape hypothesis.) -/
theorem html_footnote_section_once_bytes (o : HtmlOpts) (nt : NormTable) (t : Tree) (hu : o.unsafe_ = false)
    (hp : ∀ p, o.headerIds = some p → litSafe p = true) (hn : NormSafe nt) (ht : treeSafe t = true) :
    ∃ l, lexHtml (renderHtml o nt t) = some l ∧ l.countP isFnSecL ≤ 1 := by
  obtain ⟨l, h1, h2⟩ := lex_spell_fnCount _ (renderToks_allowed o hu hp nt hn t ht)
  exact ⟨l, h1, by rw [h2]; exact renderToks_fnCount o nt t⟩

/-! ### The full byte-level oracle

`runO` is the stack discipline of `balStep` (entries carry the `<thead>`/`<tbody>`-seen flags of a
`<table>`) on the abstract tag events of model tokens. -/

/-- **Table sections, token level**: run against the *flagged* tag stack of the oracle, the tag events
    of the rendered document succeed and leave nothing open: every `<thead>` / `<tbody>` start tag is
    written directly under a `<table>` and at most once per table, every end tag matches the innermost
    open element.  All options, every tree with `balShapeT` (rows only under tables, the header row
    first and unique - the same hypothesis as `html_balanced`). -/
theorem html_table_sections (o : HtmlOpts) (nt : NormTable) (t : Tree) (h : balShapeT none t = true) :
    runO [] (events (renderToks o nt t)) = some [] :=
  renderToks_runO o nt t h

/-- From the flagged token-level machine to the full byte oracle, for any allowed, void-respecting
    token list with at most one footnote-section start tag. -/
theorem flagged_tokens_balanced_bytes (ts : List Tok) (ha : ts.all allowedTok = true) (hv : ts.all voidOk = true)
    (hf : fnCount ts ≤ 1) (hr : runO [] (events ts) = some []) : balancedBytes (spell ts) = .ok () := by
  unfold balancedBytes
  rw [Comrak.lex_spell ts ha]
  exact balLoop_of_runO ts [] 0 [] hv (by omega) hr

/-- **C10 on bytes, full oracle.**  In safe mode (`unsafe_ = false`, so no raw HTML is passed
    through) the *bytes* of the rendered document pass the complete run-time oracle `balancedBytes`:
    they lex as complete tags, comments and text; every end tag matches the innermost open start tag
    and nothing is left open; void elements are self-closed and no other element is; `<thead>` and
    `<tbody>` occur only directly under `<table>` and at most once per table; the footnote
    `<section>` is opened at most once.  Same hypotheses as `html_balanced_bytes_partial`:
    `balShapeT` (C10), `treeSafe`, `NormSafe` and a harmless `header_ids` prefix (C02). -/
theorem html_balanced_bytes (o : HtmlOpts) (nt : NormTable) (t : Tree)
    (hb : balShapeT none t = true) (hu : o.unsafe_ = false)
    (hp : ∀ p, o.headerIds = some p → litSafe p = true) (hn : NormSafe nt) (ht : treeSafe t = true) :
    balancedBytes (renderHtml o nt t) = .ok () :=
  flagged_tokens_balanced_bytes _ (renderToks_allowed o hu hp nt hn t ht) (renderToks_void o nt t)
    (renderToks_fnCount o nt t) (renderToks_runO o nt t hb)

/-! Non-vacuity: a concrete shape-respecting tree with a two-row table and a footnote. -/
def sampleTree : Tree :=
  .node .document {} (.cons
    (.node (.table [.left] 1 2 2) {} (.cons
      (.node (.tableRow true) {} (.cons (.node .tableCell {} (.cons (.node (.text [0x61]) {} .nil) .nil)) .nil)) (.cons
      (.node (.tableRow false) {} (.cons (.node .tableCell {} .nil) .nil)) .nil))) (.cons
    (.node (.footnoteDefinition [0x78] 2) {} (.cons (.node .paragraph {} .nil) .nil)) .nil))

example : Shape sampleTree = true := by decide
example : (events (renderToks {} {} sampleTree)).length > 20 := by decide
example : treeSafe sampleTree = true := by decide
example : fnCount (renderToks {} {} sampleTree) = 1 := by decide +kernel
example : (match balancedBytes (renderHtml {} {} sampleTree) with | .ok _ => true | .error _ => false) = true := by decide +kernel

/-- The hypotheses of `html_balanced_bytes` are satisfiable (two-row table + footnote). -/
example : balancedBytes (renderHtml {} {} sampleTree) = .ok () :=
  html_balanced_bytes {} {} sampleTree (by decide) rfl (by intro p h; cases h) normSafe_empty (by decide)

/-- The table part of `balShapeT` is needed: a table whose second row is another header row is
    rejected by the oracle (`<thead>` twice). -/
def twoHeaders : Tree :=
  .node .document {} (.cons
    (.node (.table [.left] 1 2 2) {} (.cons
      (.node (.tableRow true) {} (.cons (.node .tableCell {} .nil) .nil)) (.cons
      (.node (.tableRow true) {} (.cons (.node .tableCell {} .nil) .nil)) .nil))) .nil)

theorem html_balanced_bytes_needs_shape :
    balShapeT none twoHeaders = false ∧
    (match balancedBytes (renderHtml {} {} twoHeaders) with | .error (.sectionTwice _) => true | _ => false) = true := by
  decide +kernel

end Comrak.C10
