/-
C07 - CommonMark output re-parses to the same document.
Theorems about the model of src/cm.rs (Comrak/Cm.lean), which the correspondence harness ties to
the real `format_commonmark` byte for byte. What is proved for all inputs: the delimiter choices
(code span, fence) can never be closed by their own content, the escape decision of `outc` covers
the characters it claims, `table_escape` guards every pipe. What is NOT provable - because it is
false on the pinned tree - is kept visible as counterexample theorems: characters `outc` leaves
raw, the container prefix lost after a literal block. (The ordered-list marker width computed from
the already incremented number and the space-padded `%{:2X}` were repaired in /repo; their
counterexample theorems became `item_exit_restores_prefix` and `pct2X_wellformed`.)
-/
import Comrak.Cm
import Comrak.Lemmas.Cm
import Comrak.Lemmas.CmFrame
import Comrak.Lemmas.Escape
import Comrak.Lemmas.CmCanonC
namespace Comrak.C07
open Comrak Bytes Comrak.Cm

/-! ## `longest_char_sequence` -/

/-- No run of `ch` in `lit` is longer than `longestCharSequence lit ch`. -/
theorem longestCharSequence_spec (lit : Bytes) (ch : UInt8) (k : Nat)
    (h : List.replicate k ch <:+: lit) : k ≤ longestCharSequence lit ch :=
  longestAux_ge_infix ch k lit 0 0 h

example : longestCharSequence [0x61, 0x60, 0x60, 0x62, 0x60] 0x60 = 2 := by decide

/-- The fence `format_code_block` chooses cannot be closed by the content: a run of `fenceLen`
    fence characters does not occur anywhere in the literal; and it is a valid fence (≥ 3). -/
theorem code_fence_longer_than_content (info lit : Bytes) :
    ¬ (List.replicate (fenceLen info lit) (fenceChar info) <:+: lit) ∧ 3 ≤ fenceLen info lit := by
  constructor
  · intro h
    have := longestCharSequence_spec lit (fenceChar info) _ h
    simp only [fenceLen] at this
    omega
  · simp only [fenceLen]; omega

/-- The fence character does not occur in the info string (a backtick fence may not have one). -/
theorem fence_char_not_in_info (info : Bytes) (h : fenceChar info = 0x60) : 0x60 ∉ info := by
  intro hm
  have : info.contains 0x60 = true := List.contains_iff_mem.mpr hm
  simp [fenceChar, this] at h
  exact h hm

example : fenceLen [] [0x60, 0x60, 0x60, 0x0A] = 4 ∧ fenceChar [0x61, 0x60] = 0x7E := by decide

/-! ## `shortest_unused_sequence` -/

/-- The chosen delimiter length is between 1 and 32; below 32 it is the least positive length
    that is not the length of a maximal run of `ch` in the literal. -/
theorem shortestUnused_spec (lit : Bytes) (ch : UInt8) :
    1 ≤ shortestUnusedSequence lit ch ∧ shortestUnusedSequence lit ch ≤ 32 ∧
    (shortestUnusedSequence lit ch < 32 → shortestUnusedSequence lit ch ∉ runs ch lit) ∧
    (∀ m, 1 ≤ m → m < shortestUnusedSequence lit ch → m ∈ runs ch lit) := by
  have hs := firstUnused_spec (usedAux ch lit 0 []) 33 0 (by omega)
  simp only [shortestUnusedSequence]
  obtain ⟨_, h2, h3⟩ := hs
  refine ⟨?_, by omega, ?_, ?_⟩
  · by_cases h0 : firstUnused (usedAux ch lit 0 []) 33 0 = 0
    · exfalso; apply h3; exact ⟨by omega, Or.inl h0⟩
    · omega
  · intro hlt hmem
    apply h3
    refine ⟨hlt, Or.inr ?_⟩
    rw [mem_usedAux]
    exact Or.inr ⟨hmem, hlt⟩
  · intro m hm hlt
    have := firstUnused_min (usedAux ch lit 0 []) 33 0 m (by omega) hlt
    rcases this.2 with h0 | hmem
    · omega
    · rw [mem_usedAux] at hmem
      rcases hmem with h | h
      · simp at h
      · exact h.1

/-- For literals whose backtick runs are all shorter than 32 (always the case for parsed code
    spans: `MAXBACKTICKS` = 80 is the scanner's limit, the writer's set holds 31), the delimiter
    length `format_code` chooses is not the length of any maximal backtick run of the literal,
    so the span cannot be closed early. -/
theorem code_span_ticks_unused (lit : Bytes) (h : ∀ r ∈ runs 0x60 lit, r < 32) :
    shortestUnusedSequence lit 0x60 ∉ runs 0x60 lit := by
  have hs := shortestUnused_spec lit 0x60
  intro hm
  by_cases hlt : shortestUnusedSequence lit 0x60 < 32
  · exact hs.2.2.1 hlt hm
  · have := h _ hm; omega

/-- Without the bound the statement is false: 32 is returned although a run of 32 may occur. -/
theorem code_span_ticks_counterexample :
    shortestUnusedSequence ((List.range 31).flatMap (fun n => List.replicate (n + 1) 0x60 ++ [0x61]) ++ List.replicate 32 0x60) 0x60
      ∈ runs 0x60 ((List.range 31).flatMap (fun n => List.replicate (n + 1) 0x60 ++ [0x61]) ++ List.replicate 32 0x60) := by
  decide +kernel

example : shortestUnusedSequence [0x60, 0x61, 0x60, 0x60, 0x60] 0x60 = 2 ∧ runs 0x60 [0x60, 0x61, 0x60, 0x60, 0x60] = [1, 3] := by decide

/-! ## the escape decision of `outc` -/

/-- Bytes that start inline syntax wherever they stand. -/
def inlineSpecial (c : UInt8) : Bool :=
  c == 0x2A || c == 0x5F || c == 0x5B || c == 0x5D || c == 0x23 || c == 0x3C || c == 0x3E || c == 0x5C || c == 0x60 || c == 0x21

/-- In normal text every one of `* _ [ ] # < > \ ` !` is written with a backslash, whatever the
    context; at the start of content `- + =` (not after a digit) and `. )` (after a digit, before
    white space or the end) are; `&` before a letter is; control characters become numeric
    references; in a destination white space is percent-encoded and `` ` < > \ ( ) `` escaped; in a
    title `` ` < > " \ `` are. -/
theorem outc_escapes_specials :
    (∀ c bc fd nx, inlineSpecial c = true → outcBytes c .normal bc fd nx = [0x5C, c]) ∧
    (∀ c nx, (c = 0x2D ∨ c = 0x2B ∨ c = 0x3D) → outcBytes c .normal true false nx = [0x5C, c]) ∧
    (∀ c nx, (c = 0x2E ∨ c = 0x29) → (nx = 0 ∨ isSpace nx = true) → outcBytes c .normal true true nx = [0x5C, c]) ∧
    (∀ bc fd nx, isAsciiAlpha nx = true → outcBytes 0x26 .normal bc fd nx = [0x5C, 0x26]) ∧
    (∀ c bc fd nx, c < 0x20 → outcBytes c .normal bc fd nx = [0x26, 0x23] ++ ofNatDec c.toNat ++ [0x3B]) ∧
    (∀ c bc fd nx, (c = 0x60 ∨ c = 0x3C ∨ c = 0x3E ∨ c = 0x5C ∨ c = 0x28 ∨ c = 0x29) → outcBytes c .url bc fd nx = [0x5C, c]) ∧
    (∀ c bc fd nx, isSpace c = true → outcBytes c .url bc fd nx = pct2X c) ∧
    (∀ c bc fd nx, (c = 0x60 ∨ c = 0x3C ∨ c = 0x3E ∨ c = 0x22 ∨ c = 0x5C) → outcBytes c .title bc fd nx = [0x5C, c]) := by
  refine ⟨?_, ?_, ?_, ?_, ?_, ?_, ?_, ?_⟩
  · intro c bc fd nx h
    simp only [inlineSpecial, Bool.or_eq_true, beq_iff_eq] at h
    rcases h with ((((((((h | h) | h) | h) | h) | h) | h) | h) | h) | h <;> subst h <;>
      simp [outcBytes, needsEscape, isPunct, isSpace]
  · intro c nx h
    rcases h with h | h | h <;> subst h <;> simp [outcBytes, needsEscape, isPunct, isSpace]
  · intro c nx h hn
    rcases h with h | h <;> subst h <;> rcases hn with hn | hn <;>
      simp [outcBytes, needsEscape, isPunct, hn]
  · intro bc fd nx h
    simp [outcBytes, needsEscape, isPunct, isSpace, h]
  · intro c bc fd nx h
    have hp : isPunct c = false := by
      revert h; revert c
      exact forall_uint8_of_fin (by decide +kernel)
    have h80 : c < 0x80 := by
      revert h; revert c
      exact forall_uint8_of_fin (by decide +kernel)
    simp [outcBytes, needsEscape, hp, h, h80]
  · intro c bc fd nx h
    rcases h with h | h | h | h | h | h <;> subst h <;> simp [outcBytes, needsEscape, isPunct, isSpace]
  · intro c bc fd nx h
    have h80 : c < 0x80 := by
      revert h; revert c
      exact forall_uint8_of_fin (by decide +kernel)
    simp [outcBytes, needsEscape, h, h80]
  · intro c bc fd nx h
    rcases h with h | h | h | h | h <;> subst h <;> simp [outcBytes, needsEscape, isPunct, isSpace]

example : outcBytes 0x2A .normal false false 0x61 = [0x5C, 0x2A] ∧ outcBytes 0x09 .url false false 0 = [0x25, 0x30, 0x39]
    ∧ outcBytes 0x01 .normal false false 0 = [0x26, 0x23, 0x31, 0x3B] := by decide

/-- What the decision does NOT cover (each is the seed of a listed finding): `~` (strikethrough),
    `|` outside a table node, `:` `@` `w` (extended autolinks), `"` `'` `.` `-` (smart punctuation)
    are always written raw; `-`, `+`, `=`, `.`, `)` are written raw as soon as `begin_content` is
    off, which it is after a wrap break although the byte then stands at the start of a line. -/
theorem outc_gaps_counterexample :
    (∀ bc fd nx, outcBytes 0x7E .normal bc fd nx = [0x7E]) ∧
    (∀ bc fd nx, outcBytes 0x7C .normal bc fd nx = [0x7C]) ∧
    (∀ bc fd nx, outcBytes 0x3A .normal bc fd nx = [0x3A]) ∧
    (∀ bc fd nx, outcBytes 0x40 .normal bc fd nx = [0x40]) ∧
    (∀ bc fd nx, outcBytes 0x22 .normal bc fd nx = [0x22]) ∧
    (∀ fd nx, outcBytes 0x2D .normal false fd nx = [0x2D]) ∧
    (∀ fd nx, outcBytes 0x3D .normal false fd nx = [0x3D]) := by
  refine ⟨?_, ?_, ?_, ?_, ?_, ?_, ?_⟩ <;> intros <;> simp [outcBytes, needsEscape]

/-! ## `table_escape` -/

/-- Inside a table (custom escape installed, current node not the table/row/cell itself) every
    `|` the writer emits for a literal byte is immediately preceded by a backslash, in every state. -/
theorem table_escape_pipes (st : St) :
    (litByte (pre true st 0x7C) 0x7C).rv = 0x7C :: 0x5C :: (pre false st 0x7C).rv ∧
    (∀ k, k ≠ .table → k ≠ .tableRow → k ≠ .tableCell → tableEscape k 0x7C = true) ∧
    (∀ k c, c ≠ 0x7C → tableEscape k c = false) := by
  refine ⟨?_, ?_, ?_⟩
  · by_cases hb : st.beginLine <;> simp [pre, litByte, hb]
  · intro k h1 h2 h3
    cases k <;> simp_all [tableEscape]
  · intro k c hc
    cases k <;> simp_all [tableEscape]

/-! ## what is false on the pinned tree (model witnesses; the harness replays them on the real code) -/

def txt (s : Bytes) : Tree := .node (.text s) {} .nil
def para (s : Bytes) : Tree := .node .paragraph {} (.cons (txt s) .nil)

/-- `> ```\n> code\n> ```\n>\n> p`: the block is written indented (`>     code`), its literal ends
    the line itself, and the blank line after it is written without the `> ` prefix (the pending
    newline loop adds the prefix only while `need_cr > 1`), so the text re-parses as two block quotes. -/
def quoteCodePara : Tree :=
  .node .document {} (.cons (.node .blockQuote {} (.cons (.node (.codeBlock true 0x60 3 0 [] [0x63, 0x6F, 0x64, 0x65, 0x0A]) {} .nil) (.cons (para [0x70]) .nil))) .nil)

theorem cm_prefix_after_literal_counterexample :
    renderCm {} quoteCodePara =
      [0x3E, 0x20, 0x0A, 0x3E, 0x20, 0x0A, 0x3E, 0x20, 0x20, 0x20, 0x20, 0x20, 0x63, 0x6F, 0x64, 0x65, 0x0A, 0x0A, 0x3E, 0x20, 0x70, 0x0A] := by
  decide +kernel

/-- The percent-encoding of a byte is `%` and two upper-case hex digits: it contains no white
    space and decodes (`hexVal?`) back to the byte. (With the `{:2X}` format of the pinned tree
    bytes below 16 were written `% 9`, which is not an escape and contains a space; repaired.) -/
theorem pct2X_wellformed (c : UInt8) :
    (∀ b ∈ pct2X c, isSpace b = false) ∧
    pct2X c = [0x25, hexDigit (c >>> 4), hexDigit (c &&& 0xF)] ∧
    hexVal? (hexDigit (c >>> 4)) = some (c >>> 4) ∧ hexVal? (hexDigit (c &&& 0xF)) = some (c &&& 0xF) := by
  have h : ∀ c : UInt8, ((pct2X c).all (fun b => !isSpace b) = true) ∧
      hexVal? (hexDigit (c >>> 4)) = some (c >>> 4) ∧ hexVal? (hexDigit (c &&& 0xF)) = some (c &&& 0xF) :=
    forall_uint8_of_fin (by decide +kernel)
  refine ⟨?_, rfl, (h c).2.1, (h c).2.2⟩
  intro b hb
  have := List.all_eq_true.mp (h c).1 b hb
  simpa using this

/-- Leaving a list item removes from the prefix exactly what entering it added, for every list
    kind, number, `ol_width` and state, whatever was written in between (anything that, like
    `output`, leaves prefix and list stack alone: `output_frame`). On the pinned tree this was false
    at a digit boundary (`9.` -> `10.`): the exit marker was computed from the incremented number. -/
theorem item_exit_restores_prefix (o : CmOpts) (ep ep' : Bool) (pl : NList) (s : Nat) (st st2 : St)
    (h : SameFrame (fmtItem o ep pl s true st) st2) :
    (fmtItem o ep' pl s false st2).prefix_ = st.prefix_ :=
  fmtItem_exit_restores_prefix o ep ep' pl s st st2 h

/-- Every write leaves the container prefix and the ordered-list stack as they were. -/
theorem output_keeps_frame (o : CmOpts) (e : Bool) (st : St) (b : Bytes) (w : Bool) (esc : Esc) :
    (output o e st b w esc).prefix_ = st.prefix_ ∧ (output o e st b w esc).olStack = st.olStack :=
  output_frame o e st b w esc

/-- `9. a` / `10. b` inside a block quote (the former failing input): every line keeps `> `. -/
def quoteNineTen : Tree :=
  let l : NList := { ty := .ordered, start := 9, tight := true }
  .node .document {} (.cons (.node .blockQuote {} (.cons (.node (.list l) {}
    (.cons (.node (.item l) {} (.cons (para [0x61]) .nil)) (.cons (.node (.item l) {} (.cons (para [0x62]) .nil)) .nil))) .nil)) .nil)

example :
    renderCm {} quoteNineTen = [0x3E, 0x20, 0x39, 0x2E, 0x20, 0x61, 0x0A, 0x3E, 0x20, 0x31, 0x30, 0x2E, 0x20, 0x62, 0x0A] := by
  decide +kernel

/-- **Round trip on the canonical class (partial), modulo the parser correspondence.** For a
    canonical document in the sub-class `Doc.cmOk` (see `C17.cm_fixed_point_canon_partial` for the
    class and the excluded constructs) the writer's output is the document's own text; hence any
    `parse` that maps that text to the tree the document spells (what the K harness checks for
    comrak's `parse_document`) maps the writer's output back to the tree it was given. -/
theorem cm_round_trip_canon_partial (parse : Bytes → Tree) (d : Canon.Doc) (_h : d.ok = true) (hc : d.cmOk = true)
    (hK : parse d.write = d.toTree) :
    parse (renderCm {} d.toTree) = d.toTree := by
  rw [CmCanon.cm_fixed d hc, hK]

end Comrak.C07
