/-
C08  Output is invariant under line-ending style, final newline, NUL and BOM.

What is proved here is the splitter half (DESIGN.md section 7, C08): the sequence of lines that
`Parser::feed`/`finish` hand to `process_line` - the only thing the block parser ever reads of the
text - is the same for a text and for each of its four rewrites.  `parseLines` mirrors the code's
loops, `splitLines` is the specification; the correspondence harness ties `parseLines` and the
prelude to the real `process_line` calls through the line tap.
The two places where the raw text is read otherwise (front matter, `total_size`) are outside these
theorems; for the front matter splitter see Props/C20.lean (`front_matter_any_line_endings`; the
former CR-only defect: `front_matter_cr_repaired`), for `total_size` the known findings.
-/
import Comrak.Lemmas.Feed
namespace Comrak.C08
open Comrak Bytes Comrak.Feed

/-- `f` applied to the first element only. -/
def mapHead (f : Bytes → Bytes) : List Bytes → List Bytes
  | [] => []
  | l :: ls => f l :: ls

/-- **The loop is the specification**: the `process_line` calls made by `parse_document`
    (`feed` with `eof`, then `finish`) are exactly `splitLines`. -/
theorem feed_eq_splitLines (s : Bytes) : parseLines s = splitLines [] false s := by
  cases s with
  | nil => decide
  | cons c t =>
    have := feedLoop_spec (c :: t).length [] (c :: t) (Nat.le_refl _)
    simpa [parseLines, feed] using this

/-! ### LF -> CRLF, LF -> CR -/

theorem splitLines_crlf (x cur : Bytes) (h : (0x0D : UInt8) ∉ x) :
    splitLines cur false (lfToCrlf x) = splitLines cur false x := by
  induction x generalizing cur with
  | nil => rfl
  | cons b r ih =>
    have hr : (0x0D : UInt8) ∉ r := fun m => h (List.mem_cons_of_mem _ m)
    have hb : b ≠ 0x0D := fun e => h (by simp [e])
    by_cases h1 : b = 0x0A
    · subst h1; simp [lfToCrlf, splitLines, ih _ hr]
    · simp only [lfToCrlf, h1, if_false, splitLines, hb]; split <;> exact ih _ hr

/-- Rewriting every LF of a CR-free text as CRLF does not change the lines. -/
theorem lines_crlf (x : Bytes) (h : (0x0D : UInt8) ∉ x) : parseLines (lfToCrlf x) = parseLines x := by
  rw [feed_eq_splitLines, feed_eq_splitLines, splitLines_crlf x [] h]

theorem lfToCr_noLF (x : Bytes) : (0x0A : UInt8) ∉ lfToCr x := by
  induction x with
  | nil => simp [lfToCr]
  | cons b r ih =>
    simp only [lfToCr]
    split
    · simp [ih]
    · rename_i hb; simp only [List.mem_cons, not_or]; exact ⟨fun e => hb e.symm, ih⟩

theorem splitLines_cr (x cur : Bytes) (h : (0x0D : UInt8) ∉ x) :
    splitLines cur false (lfToCr x) = splitLines cur false x := by
  induction x generalizing cur with
  | nil => rfl
  | cons b r ih =>
    have hr : (0x0D : UInt8) ∉ r := fun m => h (List.mem_cons_of_mem _ m)
    have hb : b ≠ 0x0D := fun e => h (by simp [e])
    by_cases h1 : b = 0x0A
    · subst h1
      have e := splitLines_noLF [] true _ (lfToCr_noLF r)
      simp [lfToCr, splitLines, e, ih _ hr]
    · simp only [lfToCr, h1, if_false, splitLines, hb]; split <;> exact ih _ hr

/-- Rewriting every LF of a CR-free text as a bare CR does not change the lines. -/
theorem lines_cr (x : Bytes) (h : (0x0D : UInt8) ∉ x) : parseLines (lfToCr x) = parseLines x := by
  rw [feed_eq_splitLines, feed_eq_splitLines, splitLines_cr x [] h]

theorem splitLines_toLf (x cur : Bytes) (cr : Bool) :
    splitLines cur false (toLf cr x) = splitLines cur cr x := by
  induction x generalizing cur cr with
  | nil => simp [toLf, splitLines]
  | cons b r ih =>
    by_cases h1 : b = 0x0A
    · subst h1
      cases cr <;> simp [toLf, splitLines, ih]
    · by_cases h2 : b = 0x0D
      · subst h2; simp [toLf, splitLines, ih]
      · simp only [toLf, h1, h2, if_false, splitLines]
        split <;> exact ih _ _

/-- Any mix of line-end conventions: rewriting every CRLF, bare CR and LF as LF does not change
    the lines (so all spellings of the line ends of a text give the same lines). -/
theorem lines_any_endings (x : Bytes) : parseLines (toLf false x) = parseLines x := by
  rw [feed_eq_splitLines, feed_eq_splitLines, splitLines_toLf]

/-! ### Final newline -/

theorem splitLines_final (x cur : Bytes) (cr : Bool)
    (hlast : ∀ c, x.getLast? = some c → c ≠ 0x0A ∧ c ≠ 0x0D) (hne : x ≠ [] ∨ cur ≠ []) :
    splitLines cur cr (x ++ [0x0A]) = splitLines cur cr x := by
  induction x generalizing cur cr with
  | nil =>
    have hc : cur ≠ [] := by simpa using hne
    cases cr <;> simp [splitLines, hc]
  | cons b r ih =>
    by_cases hr : r = []
    · subst hr
      have hb := hlast b (by simp)
      by_cases h0 : b = 0x00
      · subst h0; simp [splitLines, FFFD]
      · simp [splitLines, hb.1, hb.2, h0]
    · have hl : ∀ c, r.getLast? = some c → c ≠ 0x0A ∧ c ≠ 0x0D := by
        intro c hc
        apply hlast c
        cases r with
        | nil => exact absurd rfl hr
        | cons c' r' => rw [List.getLast?_cons_cons]; exact hc
      simp only [List.cons_append, splitLines]
      split
      · split
        · exact ih cur false hl (Or.inl hr)
        · rw [ih [] false hl (Or.inl hr)]
      · split
        · rw [ih [] true hl (Or.inl hr)]
        · split
          · exact ih _ false hl (Or.inl hr)
          · exact ih _ false hl (Or.inl hr)

/-- Adding a newline to a non-empty text that lacks a final line end does not change the lines. -/
theorem lines_final_newline (x : Bytes) (hne : x ≠ [])
    (hlast : ∀ c, x.getLast? = some c → c ≠ 0x0A ∧ c ≠ 0x0D) :
    parseLines (x ++ [0x0A]) = parseLines x := by
  rw [feed_eq_splitLines, feed_eq_splitLines, splitLines_final x [] false hlast (Or.inl hne)]

/-- The empty text is the one exception at the level of lines: it has no line, `"\n"` has one
    (blank) line.  Both parse to the empty document. -/
theorem lines_final_newline_empty : parseLines [] = [] ∧ parseLines [0x0A] = [[]] := by decide

/-! ### NUL -/

theorem splitLines_nul (x cur : Bytes) (cr : Bool) :
    splitLines cur cr (nulToFFFD x) = splitLines cur cr x := by
  induction x generalizing cur cr with
  | nil => rfl
  | cons b r ih =>
    by_cases h0 : b = 0x00
    · subst h0
      simp [nulToFFFD, FFFD, splitLines, ih]
    · simp only [nulToFFFD, h0, if_false, splitLines]
      split
      · split <;> simp [ih]
      · split <;> simp [ih]

/-- Replacing every NUL by U+FFFD beforehand does not change the lines. -/
theorem lines_nul (x : Bytes) : parseLines (nulToFFFD x) = parseLines x := by
  rw [feed_eq_splitLines, feed_eq_splitLines, splitLines_nul]

/-! ### BOM -/

theorem splitLines_prefix (p x cur : Bytes) (hne : x ≠ [] ∨ cur ≠ []) :
    splitLines (p ++ cur) false x = mapHead (p ++ ·) (splitLines cur false x) := by
  induction x generalizing cur with
  | nil =>
    have hc : cur ≠ [] := by simpa using hne
    simp [splitLines, hc, mapHead]
  | cons b r ih =>
    simp only [splitLines]
    split
    · simp [mapHead]
    · split
      · simp [mapHead]
      · split
        · rw [List.append_assoc, ih _ (Or.inr (by simp [FFFD]))]
        · rw [List.append_assoc, ih _ (Or.inr (by simp))]

/-- A byte-order mark in front of a non-empty text changes the lines only in that the first line
    carries the three BOM bytes as a prefix. -/
theorem bom_first_line (x : Bytes) (hne : x ≠ []) :
    parseLines (BOM ++ x) = mapHead (BOM ++ ·) (parseLines x) := by
  rw [feed_eq_splitLines, feed_eq_splitLines]
  have h1 : splitLines [] false (BOM ++ x) = splitLines (BOM ++ []) false x := by
    simp [BOM, splitLines]
  rw [h1, splitLines_prefix BOM x [] (Or.inl hne)]

theorem sentinel_append (p l : Bytes) (hp : ∀ c, p.getLast? = some c → isLineEnd c = false) :
    Feed.sentinel (p ++ l) = p ++ Feed.sentinel l ∨ (l = [] ∧ p = []) := by
  by_cases hl : l = []
  · subst hl
    by_cases hp0 : p = []
    · exact Or.inr ⟨rfl, hp0⟩
    · left
      obtain ⟨c, hc⟩ : ∃ c, p.getLast? = some c := by
        cases h : p.getLast? with
        | none => exact absurd (List.getLast?_eq_none_iff.mp h) hp0
        | some c => exact ⟨c, rfl⟩
      simp [Feed.sentinel, hc, hp c hc]
  · left
    have : (p ++ l).getLast? = l.getLast? := by
      rw [List.getLast?_append]
      cases h : l.getLast? with
      | none => exact absurd (List.getLast?_eq_none_iff.mp h) hl
      | some c => rfl
    unfold Feed.sentinel
    rw [this]
    cases h : l.getLast? with
    | none => exact absurd (List.getLast?_eq_none_iff.mp h) hl
    | some c => by_cases hc : isLineEnd c = true <;> simp [hc]

theorem blockInput_succ (n : Nat) (ls : List Bytes) : blockInput (n + 1) ls = ls.map Feed.sentinel := by
  induction ls generalizing n with
  | nil => rfl
  | cons l ls ih =>
    have := ih (n + 1)
    simp only [blockInput] at this ⊢
    simp [preludes, prelude, bomOffset, this]

/-- ... and `process_line` skips exactly that prefix: with a BOM in front, the block parser reads
    the terminated lines of the text itself. -/
theorem bom_skipped (x : Bytes) (hne : x ≠ []) :
    blockInput 0 (parseLines (BOM ++ x)) = (parseLines x).map Feed.sentinel := by
  rw [bom_first_line x hne]
  cases h : parseLines x with
  | nil => rfl
  | cons l ls =>
    have hs : Feed.sentinel (BOM ++ l) = BOM ++ Feed.sentinel l := by
      rcases sentinel_append BOM l (by intro c hc; simp [BOM] at hc; subst hc; decide) with h | h
      · exact h
      · exact absurd h.2 (by simp [BOM])
    have hb := blockInput_succ 0 ls
    simp only [blockInput] at hb ⊢
    simp only [mapHead, preludes, prelude, List.map_cons, hs, bomOffset, isPrefixB_self_append,
      and_self, if_true, hb, Nat.zero_add]
    simp [BOM]

/-- The excluded points, kept visible: an empty text gains a (blank) line, and a BOM in front of a
    text that already starts with one is ordinary text (U+FEFF) for the parser. -/
theorem bom_counterexample :
    blockInput 0 (parseLines BOM) = [[0x0A]] ∧ blockInput 0 (parseLines []) = [] ∧
    blockInput 0 (parseLines (BOM ++ BOM ++ [0x61])) = [BOM ++ [0x61, 0x0A]] ∧
    blockInput 0 (parseLines (BOM ++ [0x61])) = [[0x61, 0x0A]] := by decide

/-! ### The sentinel -/

/-- Every line handed to the block parser is non-empty, ends in `\n` (supplied by `process_line`),
    and contains no `\n`, `\r` or NUL before it. -/
theorem sentinel (x : Bytes) (n : Nat) : ∀ l ∈ parseLines x,
    (prelude n l).1 = l ++ [0x0A] ∧ (prelude n l).1 ≠ [] ∧ ∀ b ∈ l, b ≠ 0x0A ∧ b ≠ 0x0D ∧ b ≠ 0x00 := by
  intro l hl
  rw [feed_eq_splitLines] at hl
  have hp : ∀ b ∈ l, plain b :=
    splitLines_bytes plain (by simp [FFFD, plain]) x [] false (fun _ _ h => h) (by simp) l hl
  have hs : Feed.sentinel l = l ++ [0x0A] := by
    unfold Feed.sentinel
    cases h : l.getLast? with
    | none => simp [List.getLast?_eq_none_iff.mp h]
    | some c =>
      have hc := hp c (List.mem_of_getLast? h)
      simp [isLineEnd, hc.1, hc.2.1]
  refine ⟨hs, ?_, hp⟩
  simp [prelude, hs]

/-! Non-vacuity -/
-- "a\nb\n" as CRLF / CR / without the final newline; "a\0b"; BOM
example : parseLines (lfToCrlf [0x61, 0x0A, 0x62, 0x0A]) = [[0x61], [0x62]] := by decide
example : lfToCrlf [0x61, 0x0A, 0x62, 0x0A] = [0x61, 0x0D, 0x0A, 0x62, 0x0D, 0x0A] := by decide
example : parseLines (lfToCr [0x61, 0x0A, 0x0A, 0x62]) = [[0x61], [], [0x62]] := by decide
example : parseLines [0x61, 0x0A, 0x62] = parseLines [0x61, 0x0A, 0x62, 0x0A] := by decide
example : parseLines [0x61, 0x00, 0x62] = [[0x61, 0xEF, 0xBF, 0xBD, 0x62]] := by decide
example : parseLines (BOM ++ [0x61, 0x0A, 0x62]) = [BOM ++ [0x61], [0x62]] := by decide
example : toLf false [0x61, 0x0D, 0x0A, 0x62, 0x0D, 0x63, 0x0A, 0x0D, 0x0D, 0x0A] = [0x61, 0x0A, 0x62, 0x0A, 0x63, 0x0A, 0x0A, 0x0A] := by decide
-- the CR hypothesis of `lines_crlf` is needed: "a\r\nb" has two lines, "a\r\r\nb" three
example : parseLines [0x61, 0x0D, 0x0A, 0x62] ≠ parseLines (lfToCrlf [0x61, 0x0D, 0x0A, 0x62]) := by decide

end Comrak.C08
