/-
C20  Front matter is carried verbatim and never leaks into the document.

`splitOffFrontMatter` models `strings::split_off_front_matter` exactly (tied by the correspondence
harness, exhaustively over short strings).  Proved here, for every text and delimiter:
soundness (whatever is taken is a prefix of the text that starts with the delimiter alone on its
line and ends with a line that is the delimiter alone, followed by a line end or the end of input),
one `split_none_*` lemma per "merely resembles front matter" clause of the statement, completeness
on uniformly terminated texts whose body lines do not start with the delimiter, and the line-number
shift of the rest.  The points where the code departs from the statement are kept as
`_counterexample` theorems and listed in known_findings.json.
-/
import Comrak.Lemmas.FrontMatter
import Comrak.Lemmas.Feed
import Comrak.Lemmas.R2FrontMatter
import Comrak.Lemmas.R2CmPrefix
namespace Comrak.C20
open Comrak Bytes Comrak.FrontMatter Comrak.Feed

/-- Everything the splitter can return, spelled out. -/
theorem split_cases (s0 d fm rest : Bytes) (h : splitOffFrontMatter s0 d = some (fm, rest)) :
    ∃ eb A B, IsEol eb ∧ stripBom s0 = d ++ eb ++ A ++ 0x0A :: d ++ B ∧
      ((B = [] ∧ fm = stripBom s0 ∧ rest = []) ∨
       (∃ e2 B2, IsEol e2 ∧ B = e2 ++ B2 ∧
          ((eolLen B2 = none ∧ fm = d ++ eb ++ A ++ 0x0A :: d ++ e2 ∧ rest = B2) ∨
           (∃ e3 B3, IsEol e3 ∧ B2 = e3 ++ B3 ∧
              fm = d ++ eb ++ A ++ 0x0A :: d ++ e2 ++ e3 ∧ rest = B3)))) := by
  unfold splitOffFrontMatter at h
  generalize stripBom s0 = s at h ⊢
  simp only [] at h
  split at h
  · rename_i hpre
    obtain ⟨t, ht⟩ := (isPrefixB_iff _ _).mp hpre
    subst ht
    rw [drop_len] at h
    split at h
    · exact absurd h (by simp)
    · rename_i e1 he1
      obtain ⟨eb, heb, hebl, ht⟩ := eolLen_some _ _ he1
      generalize t.drop e1 = body at ht h
      subst ht
      have hd1 : (d ++ (eb ++ body)).drop (d.length + e1) = body := by
        rw [← hebl, ← List.append_assoc, ← List.length_append, drop_len]
      rw [hd1] at h
      split at h
      · exact absurd h (by simp)
      · rename_i n hn
        obtain ⟨A, B, hbody, hA⟩ := findClose_some _ _ _ hn
        subst hbody
        have hX : d.length + e1 + (n + 1 + d.length) = (d ++ eb ++ A ++ 0x0A :: d).length := by
          simp only [List.length_append, List.length_cons]; omega
        have hs : d ++ (eb ++ (A ++ 0x0A :: d ++ B)) = (d ++ eb ++ A ++ 0x0A :: d) ++ B := by
          simp
        rw [hX, hs] at h
        refine ⟨eb, A, B, heb, by simp, ?_⟩
        split at h
        · rename_i hend
          left
          have hB : B = [] := by
            have := congrArg List.length hs
            simp only [List.length_append] at hend this
            exact List.eq_nil_of_length_eq_zero (by omega)
          simp only [Option.some.injEq, Prod.mk.injEq] at h
          subst hB
          exact ⟨rfl, by rw [← h.1]; simp, h.2.symm⟩
        · right
          rw [drop_len] at h
          split at h
          · exact absurd h (by simp)
          · rename_i e2 he2
            obtain ⟨e2b, he2b, he2l, hB⟩ := eolLen_some _ _ he2
            generalize B.drop e2 = B2 at hB h
            subst hB
            refine ⟨e2b, B2, he2b, rfl, ?_⟩
            have hd2 : ((d ++ eb ++ A ++ 0x0A :: d) ++ (e2b ++ B2)).drop
                ((d ++ eb ++ A ++ 0x0A :: d).length + e2) = B2 := by
              rw [drop_len_add, ← he2l, drop_len]
            rw [hd2] at h
            simp only [Option.some.injEq, Prod.mk.injEq] at h
            cases he3 : eolLen B2 with
            | none =>
              left
              simp only [he3, Option.getD_none, Nat.add_zero] at h
              refine ⟨rfl, ?_, ?_⟩
              · rw [← h.1, take_len_add, ← he2l]; simp
              · rw [← h.2, drop_len_add, ← he2l]; simp
            | some e3 =>
              right
              obtain ⟨e3b, he3b, he3l, hB2⟩ := eolLen_some _ _ he3
              generalize B2.drop e3 = B3 at hB2
              subst hB2
              simp only [he3, Option.getD_some] at h
              refine ⟨e3b, B3, he3b, rfl, ?_, ?_⟩
              · rw [← h.1, Nat.add_assoc, take_len_add, ← he2l, ← he3l]
                have : (e2b ++ (e3b ++ B3)).take (e2b.length + e3b.length) = e2b ++ e3b := by
                  rw [take_len_add]; simp
                rw [this]; simp
              · rw [← h.2, Nat.add_assoc, drop_len_add, ← he2l, ← he3l, drop_len_add]; simp
  · exact absurd h (by simp)

/-- **Soundness.** If the splitter takes a front matter then: front matter and rest are the text
    (after an optional BOM); the front matter starts with the delimiter followed by a line end; its
    closing delimiter is preceded by a line break and followed by a line end (plus at most one
    blank line) or by the end of the input. -/
theorem split_sound (s d fm rest : Bytes) (h : splitOffFrontMatter s d = some (fm, rest)) :
    stripBom s = fm ++ rest ∧
    ∃ e1 body tail, IsEol e1 ∧ fm = d ++ e1 ++ body ++ 0x0A :: d ++ tail ∧
      ((tail = [] ∧ rest = []) ∨ IsEol tail ∨ ∃ e2 e3, IsEol e2 ∧ IsEol e3 ∧ tail = e2 ++ e3) := by
  obtain ⟨eb, A, B, heb, hs, hc⟩ := split_cases s d fm rest h
  rcases hc with ⟨hB, hfm, hrest⟩ | ⟨e2, B2, he2, hB, hc⟩
  · subst hB hrest
    refine ⟨by simp [hfm], eb, A, [], heb, by rw [hfm, hs], Or.inl ⟨rfl, rfl⟩⟩
  · rcases hc with ⟨_, hfm, hrest⟩ | ⟨e3, B3, he3, hB2, hfm, hrest⟩
    · subst hB hrest
      refine ⟨by rw [hs, hfm]; simp, eb, A, e2, heb, hfm, Or.inr (Or.inl he2)⟩
    · subst hB hB2 hrest
      refine ⟨by rw [hs, hfm]; simp, eb, A, e2 ++ e3, heb, by rw [hfm]; simp, Or.inr (Or.inr ⟨e2, e3, he2, he3, rfl⟩)⟩

/-! ### Text that merely resembles front matter -/

/-- Not at the very start: unless the text (after an optional BOM) begins with the delimiter,
    nothing is taken. -/
theorem split_none_not_at_start (s d : Bytes) (h : isPrefixB d (stripBom s) = false) :
    splitOffFrontMatter s d = none := by
  simp [splitOffFrontMatter, h]

/-- Opening delimiter not alone on its line. -/
theorem split_none_open_not_alone (s d t : Bytes) (hs : stripBom s = d ++ t)
    (h1 : isPrefixB [0x0A] t = false) (h2 : isPrefixB [0x0D, 0x0A] t = false) :
    splitOffFrontMatter s d = none := by
  cases h : splitOffFrontMatter s d with
  | none => rfl
  | some p =>
    obtain ⟨eb, A, B, heb, hs', _⟩ := split_cases s d p.1 p.2 h
    rw [hs] at hs'
    have : t = eb ++ (A ++ 0x0A :: d ++ B) := by
      have := List.append_cancel_left (as := d) (by simpa using hs')
      simpa using this
    subst this
    rcases heb with rfl | rfl
    · simp [isPrefixB] at h1
    · simp [isPrefixB] at h2

/-- Unterminated: no later line break is followed by the delimiter. -/
theorem split_none_unterminated (s d : Bytes)
    (h : ∀ A B, stripBom s ≠ A ++ 0x0A :: d ++ B) : splitOffFrontMatter s d = none := by
  cases hsp : splitOffFrontMatter s d with
  | none => rfl
  | some p =>
    obtain ⟨eb, A, B, _, hs, _⟩ := split_cases s d p.1 p.2 hsp
    exact absurd hs (h (d ++ eb ++ A) B)

/-- Closing delimiter not alone on its line: if every line break + delimiter in the text is followed
    by something other than a line end or the end of the input, nothing is taken. -/
theorem split_none_close_not_alone (s d : Bytes)
    (h : ∀ A B, stripBom s = A ++ 0x0A :: d ++ B → B ≠ [] ∧ eolLen B = none) :
    splitOffFrontMatter s d = none := by
  cases hsp : splitOffFrontMatter s d with
  | none => rfl
  | some p =>
    obtain ⟨eb, A, B, _, hs, hc⟩ := split_cases s d p.1 p.2 hsp
    have hB := h (d ++ eb ++ A) B hs
    rcases hc with ⟨hnil, _, _⟩ | ⟨e2, B2, he2, hB2, _⟩
    · exact absurd hnil hB.1
    · exact absurd hB2 (eolLen_none B hB.2 e2 B2 he2)

/-! ### Completeness on well-formed front matter -/

/-- **Completeness (partial).** A text (after an optional BOM) that consists of the delimiter line,
    a body of at least one line none of whose lines starts with the delimiter, the delimiter line
    again and then anything, all with one line-end convention (`crlf = false`: LF and no CR
    anywhere; `crlf = true`: CRLF around the delimiters), is split exactly there; one directly
    following blank line goes with the front matter. -/
theorem split_complete_partial (s0 d body rest : Bytes) (crlf : Bool)
    (hne : d ≠ []) (hlf : (0x0A : UInt8) ∉ d) (hcr : (0x0D : UInt8) ∉ d)
    (hbody : noLineStartsWith d true body = true)
    (hu : crlf = false → (0x0D : UInt8) ∉ body ∧ (0x0D : UInt8) ∉ rest)
    (hs : stripBom s0 = d ++ eol crlf ++ body ++ eol crlf ++ d ++ eol crlf ++ rest) :
    splitOffFrontMatter s0 d
      = some (d ++ eol crlf ++ body ++ eol crlf ++ d ++ eol crlf ++ rest.take ((eolLen rest).getD 0),
              rest.drop ((eolLen rest).getD 0)) := by
  have hf := findClose_complete d body rest crlf hne hlf hcr hbody hu
  cases crlf with
  | false =>
    have := split_of_parts s0 d [0x0A] body [0x0A] rest (Or.inl rfl) (Or.inl rfl)
      (by simpa [eol] using hs) (by simpa [eol] using hf)
    simpa [eol] using this
  | true =>
    have := split_of_parts s0 d [0x0D, 0x0A] (body ++ [0x0D]) [0x0D, 0x0A] rest (Or.inr rfl) (Or.inr rfl)
      (by simpa [eol] using hs) (by simpa [eol] using hf)
    simpa [eol] using this

/-- **Completeness (partial), closing delimiter at the end of the input.** -/
theorem split_complete_eof_partial (s0 d body : Bytes) (crlf : Bool)
    (hne : d ≠ []) (hlf : (0x0A : UInt8) ∉ d) (hcr : (0x0D : UInt8) ∉ d)
    (hbody : noLineStartsWith d true body = true)
    (hs : stripBom s0 = d ++ eol crlf ++ body ++ eol crlf ++ d) :
    splitOffFrontMatter s0 d = some (stripBom s0, []) := by
  have hf := findClose_complete_eof d body crlf hne hlf hcr hbody
  cases crlf with
  | false =>
    exact split_of_parts_eof s0 d [0x0A] body (Or.inl rfl) (by simpa [eol] using hs) (by simpa [eol] using hf)
  | true =>
    exact split_of_parts_eof s0 d [0x0D, 0x0A] (body ++ [0x0D]) (Or.inr rfl) (by simpa [eol] using hs)
      (by simpa [eol] using hf)


/-- The hypothesis on body lines is needed exactly where the code departs from the statement: see
    `body_line_eof_counterexample`; the uniformity hypothesis: see `mixed_endings_counterexample`;
    "at least one body line" (the shape `body ++ eol`): see `empty_body_counterexample`. -/
theorem split_complete_hypotheses_satisfiable :
    noLineStartsWith [0x2D] true [0x61, 0x3A, 0x2D, 0x0A, 0x20, 0x2D] = true ∧
    splitOffFrontMatter [0x2D, 0x0A, 0x61, 0x3A, 0x2D, 0x0A, 0x20, 0x2D, 0x0A, 0x2D, 0x0A, 0x0A, 0x78] [0x2D]
      = some ([0x2D, 0x0A, 0x61, 0x3A, 0x2D, 0x0A, 0x20, 0x2D, 0x0A, 0x2D, 0x0A, 0x0A], [0x78]) := by decide

/-! ### The rest of the document: same lines, line numbers shifted -/

theorem preludes_shift (k n : Nat) (ls : List Bytes)
    (hb : n = 0 → k ≠ 0 → ∀ l, ls.head? = some l → isPrefixB BOM (Feed.sentinel l) = false) :
    preludes (n + k) ls = (preludes n ls).map (fun p => (p.1, p.2.1, p.2.2 + k)) := by
  induction ls generalizing n with
  | nil => rfl
  | cons l ls ih =>
    have hoff : bomOffset (n + k) (Feed.sentinel l) = bomOffset n (Feed.sentinel l) := by
      by_cases hn : n = 0
      · subst hn
        by_cases hk : k = 0
        · subst hk; rfl
        · have := hb rfl hk l rfl
          simp [bomOffset, this]
      · have : n + k ≠ 0 := by omega
        simp [bomOffset, hn, this]
    have htail := ih (n + 1) (fun h => absurd h (by omega))
    have e : n + k + 1 = n + 1 + k := by omega
    simp only [preludes, prelude, List.map_cons, hoff, e, htail]

/-- With front matter taken, the block parser is handed exactly the lines of the rest, numbered
    from the line after the front matter (a rest that itself starts with U+FEFF excepted: there the
    mark is text, see `bom_rest_counterexample`). -/
theorem lines_shift (s d fm rest : Bytes) (h : splitOffFrontMatter s d = some (fm, rest))
    (hb : ∀ l, (parseLines rest).head? = some l → isPrefixB BOM (Feed.sentinel l) = false) :
    parseDoc (some d) s
      = (some fm, (parseDoc none rest).2.map (fun p => (p.1, p.2.1, p.2.2 + countLF fm))) := by
  simp only [parseDoc, h]
  have := preludes_shift (countLF fm) 0 (parseLines rest) (fun _ _ => hb)
  simp only [Nat.zero_add] at this
  rw [this]

/-- Without a recognised front matter the option changes nothing. -/
theorem unrecognised_is_ordinary (s d : Bytes) (h : splitOffFrontMatter s d = none) :
    parseDoc (some d) s = parseDoc none s := by
  simp [parseDoc, h]

/-! ### Renderer half: what the three formatter models do with the `FrontMatter` node

`doc spd fm sp rest` is the tree the parser builds when it recognises front matter: a document
whose first child is the `FrontMatter` node (payload `fm`), followed by the blocks of the rest. -/

/-- A document node with the given children. -/
def docOf (spd : Sp) (cs : Forest) : Tree := .node .document spd cs
/-- The front matter node (a leaf). -/
def fmNode (fm : Bytes) (sp : Sp) : Tree := .node (.frontMatter fm) sp .nil

/-- **HTML, node level** (`render_frontmatter`): in every context and writer state, for every
    option vector, the node contributes no token and leaves the writer state untouched. -/
theorem html_front_matter_absent (o : HtmlOpts) (nt : NormTable) (cx : Ctx) (fm : Bytes) (sp : Sp) (st : St) :
    renderT o nt cx (fmNode fm sp) st = ([], st) :=
  renderT_frontMatter o nt cx fm sp st

/-- **HTML, document level.** The tokens of `Document [FrontMatter fm, rest…]` are exactly the
    tokens of `Document [rest…]`, for every option vector and every `rest` (no shape hypothesis:
    the following siblings see another `prev`/`index`, but `prev` matters only to the
    `<thead>`/`<tbody>` choice of a table row, for which a front matter predecessor counts like
    none, and `index` only to a cell, through its grandparent's alignments, which a child of
    the root does not have). -/
theorem html_front_matter_absent_doc (o : HtmlOpts) (nt : NormTable) (fm : Bytes) (spd sp : Sp) (rest : Forest) :
    renderToks o nt (docOf spd (.cons (fmNode fm sp) rest)) = renderToks o nt (docOf spd rest) := by
  unfold renderToks docOf fmNode W.seq
  simp only [renderT_doc_frontMatter]

/-- ... hence the same bytes. -/
theorem html_front_matter_absent_bytes (o : HtmlOpts) (nt : NormTable) (fm : Bytes) (spd sp : Sp) (rest : Forest) :
    renderHtml o nt (docOf spd (.cons (fmNode fm sp) rest)) = renderHtml o nt (docOf spd rest) := by
  unfold renderHtml; rw [html_front_matter_absent_doc]

/-- **XML, node level.** In XML the node is *not* absent: it is one self-closing element
    `<frontmatter />` (with the position attribute when asked for).  The payload is never
    written (`NodeValue::FrontMatter(_) => ()` in `format_node`). -/
theorem xml_front_matter_is_empty_element (o : XmlOpts) (ind : Nat) (cx : XCtx) (fm : Bytes) (sp : Sp) :
    renderXmlT o ind cx (fmNode fm sp) = [.empty ind XS.e_frontmatter (xmlSpAttr o sp)] :=
  renderXmlT_frontMatter o ind cx fm sp

/-- **XML, document level.** With a non-empty rest, the tokens of `Document [FrontMatter fm,
    rest…]` are the tokens of `Document [rest…]` with the one `<frontmatter />` line inserted
    right after the document start tag; everything else is identical (the shifted sibling index
    is only read by cells of a header row, which are not children of the root). -/
theorem xml_front_matter_one_element_doc (o : XmlOpts) (fm : Bytes) (spd sp : Sp) (r : Tree) (rs : Forest) :
    ∃ hd body,
      renderXmlToks o (docOf spd (.cons r rs)) = hd :: body ∧
      renderXmlToks o (docOf spd (.cons (fmNode fm sp) (.cons r rs)))
        = hd :: .empty 2 XS.e_frontmatter (xmlSpAttr o sp) :: body := by
  refine ⟨.opn 0 XS.e_document (xmlAttrs o {} .document spd),
    renderXmlF o 2 (some .document) none 0 (.cons r rs) ++ [.close 0 XS.e_document], ?_, ?_⟩
  · simp [renderXmlToks, docOf, renderXmlT, xmlLiteral, xmlName, Forest.isNil]
  · have hi := renderXmlF_index_irrel o 2 (some .document) none (by simp) (.cons r rs) 1 0
    have hf := renderXmlT_frontMatter o 2 { parent := some .document, grand := none, index := 0 } fm sp
    simp only [renderXmlToks, docOf, fmNode, renderXmlT, xmlLiteral, xmlName, Forest.isNil] at hf ⊢
    simp only [Bool.false_eq_true, if_false, Nat.zero_add, List.cons.injEq, true_and]
    rw [renderXmlF]
    simp only [renderXmlT, xmlLiteral, xmlName, Forest.isNil, if_true, Nat.zero_add] at hf hi ⊢
    rw [hi, hf]
    rfl

/-- The XML of the document with front matter is never the XML of the rest alone. -/
theorem xml_front_matter_not_absent (o : XmlOpts) (fm : Bytes) (spd sp : Sp) (r : Tree) (rs : Forest) :
    renderXmlToks o (docOf spd (.cons (fmNode fm sp) (.cons r rs))) ≠ renderXmlToks o (docOf spd (.cons r rs)) := by
  obtain ⟨hd, body, h1, h2⟩ := xml_front_matter_one_element_doc o fm spd sp r rs
  rw [h1, h2]
  intro h
  have := congrArg List.length h
  simp at this

/-- **CommonMark, the node alone** (`format_front_matter` on a fresh writer): for every option
    vector, whatever the width, the buffer holds exactly the payload. -/
theorem cm_front_matter_alone (o : Cm.CmOpts) (fm : Bytes) (spd sp : Sp) :
    Cm.renderCm o (docOf spd (.cons (fmNode fm sp) .nil)) = Cm.finalBytes fm.reverse := by
  rw [Cm.renderCm_eq_finalBytes]
  unfold docOf fmNode
  rw [Cm.renderT_doc_fm_nil, Cm.output_frontMatter_fresh_rv]

/-- ... in particular a payload that ends with a line feed (every front matter block that is
    followed by anything does) is reproduced exactly. -/
theorem cm_front_matter_alone_lf (o : Cm.CmOpts) (body : Bytes) (spd sp : Sp) :
    Cm.renderCm o (docOf spd (.cons (fmNode (body ++ [0x0A]) sp) .nil)) = body ++ [0x0A] := by
  rw [cm_front_matter_alone]
  simp [Cm.finalBytes]

/-- **CommonMark, verbatim at the top.** For every option vector (every `width`, not only 0),
    every payload and every following siblings: the CommonMark rendering of
    `Document [FrontMatter fm, rest…]` starts with `fm`, byte for byte.  (Nothing written later
    reaches back: pending newlines, prefixes and escapes only append, and the re-wrap at the last
    breakable space happens at a position recorded after the payload was written.) -/
theorem cm_front_matter_verbatim (o : Cm.CmOpts) (fm : Bytes) (spd sp : Sp) (rest : Forest) :
    fm <+: Cm.renderCm o (docOf spd (.cons (fmNode fm sp) rest)) :=
  Cm.renderCm_frontMatter_prefix o fm spd sp rest

/-! ### Where the code departs from the statement (known findings) -/

/-- `---\rfoo\r---\rt`: CR-only line endings are not recognised (C08 finding), the LF form is. -/
theorem front_matter_cr_counterexample :
    splitOffFrontMatter [0x2D, 0x2D, 0x2D, 0x0D, 0x66, 0x6F, 0x6F, 0x0D, 0x2D, 0x2D, 0x2D, 0x0D, 0x74]
      [0x2D, 0x2D, 0x2D] = none ∧
    splitOffFrontMatter [0x2D, 0x2D, 0x2D, 0x0A, 0x66, 0x6F, 0x6F, 0x0A, 0x2D, 0x2D, 0x2D, 0x0A, 0x74]
      [0x2D, 0x2D, 0x2D]
      = some ([0x2D, 0x2D, 0x2D, 0x0A, 0x66, 0x6F, 0x6F, 0x0A, 0x2D, 0x2D, 0x2D, 0x0A], [0x74]) := by
  decide

/-- `---\na\n---b\n---`: a body line that starts with the delimiter defeats the end-of-input
    alternative, although the last line is the delimiter alone. -/
theorem body_line_eof_counterexample :
    splitOffFrontMatter [0x2D, 0x2D, 0x2D, 0x0A, 0x61, 0x0A, 0x2D, 0x2D, 0x2D, 0x62, 0x0A, 0x2D, 0x2D, 0x2D]
      [0x2D, 0x2D, 0x2D] = none := by decide

/-- `---\n---\nt`: an empty body is not recognised. -/
theorem empty_body_counterexample :
    splitOffFrontMatter [0x2D, 0x2D, 0x2D, 0x0A, 0x2D, 0x2D, 0x2D, 0x0A, 0x74] [0x2D, 0x2D, 0x2D] = none := by
  decide

/-- `---\na\n---\nb\n---\r\nc`: with mixed line endings a later CRLF-terminated delimiter line
    is preferred over the first (LF-terminated) one, so `b` disappears into the front matter. -/
theorem mixed_endings_counterexample :
    splitOffFrontMatter
      [0x2D, 0x2D, 0x2D, 0x0A, 0x61, 0x0A, 0x2D, 0x2D, 0x2D, 0x0A, 0x62, 0x0A, 0x2D, 0x2D, 0x2D, 0x0D, 0x0A, 0x63]
      [0x2D, 0x2D, 0x2D]
    = some ([0x2D, 0x2D, 0x2D, 0x0A, 0x61, 0x0A, 0x2D, 0x2D, 0x2D, 0x0A, 0x62, 0x0A, 0x2D, 0x2D, 0x2D, 0x0D, 0x0A],
            [0x63]) := by decide

/-- A rest that starts with U+FEFF: inside the document the mark is text (offset 0 on line 3),
    on its own it is skipped (offset 3). Not a defect: a byte-order mark exists only at the very
    start of a text; the search oracle excludes such rests. `-\na\n-\n<BOM>t` with delimiter `-`. -/
theorem bom_rest_counterexample :
    parseDoc (some [0x2D]) [0x2D, 0x0A, 0x61, 0x0A, 0x2D, 0x0A, 0xEF, 0xBB, 0xBF, 0x74]
      = (some [0x2D, 0x0A, 0x61, 0x0A, 0x2D, 0x0A], [([0xEF, 0xBB, 0xBF, 0x74, 0x0A], 0, 4)]) ∧
    parseDoc none [0xEF, 0xBB, 0xBF, 0x74] = (none, [([0xEF, 0xBB, 0xBF, 0x74, 0x0A], 3, 1)]) := by
  decide

/-! Non-vacuity -/
-- "<BOM>ab\r\n\r\nab\r\n\r\nx" with delimiter "ab": BOM stripped, blank body line, blank line absorbed
example : splitOffFrontMatter
    [0xEF, 0xBB, 0xBF, 0x61, 0x62, 0x0D, 0x0A, 0x0D, 0x0A, 0x61, 0x62, 0x0D, 0x0A, 0x0D, 0x0A, 0x78] [0x61, 0x62]
    = some ([0x61, 0x62, 0x0D, 0x0A, 0x0D, 0x0A, 0x61, 0x62, 0x0D, 0x0A, 0x0D, 0x0A], [0x78]) := by decide
-- closing delimiter at the end of the input
example : splitOffFrontMatter [0x2D, 0x0A, 0x61, 0x0A, 0x2D] [0x2D] = some ([0x2D, 0x0A, 0x61, 0x0A, 0x2D], []) := by
  decide
-- hypotheses of the `split_none_*` lemmas are satisfiable: " -\na\n-\n", "- \na\n-\n", "-\na\n", "-\na\n-x\n"
example : isPrefixB [0x2D] (stripBom [0x20, 0x2D, 0x0A, 0x61, 0x0A, 0x2D, 0x0A]) = false := by decide
example : splitOffFrontMatter [0x2D, 0x20, 0x0A, 0x61, 0x0A, 0x2D, 0x0A] [0x2D] = none := by decide
example : splitOffFrontMatter [0x2D, 0x0A, 0x61, 0x0A] [0x2D] = none := by decide
example : splitOffFrontMatter [0x2D, 0x0A, 0x61, 0x0A, 0x2D, 0x78, 0x0A] [0x2D] = none := by decide

-- renderer half: "-\na\n-\n" + paragraph "x"; HTML has no trace, XML has the element, CommonMark starts with it
example : renderHtml {} {} (docOf {} (.cons (fmNode [0x2D, 0x0A, 0x61, 0x0A, 0x2D, 0x0A] {})
      (.cons (.node .paragraph {} (.cons (.node (.text [0x78]) {} .nil) .nil)) .nil)))
    = [0x3C, 0x70, 0x3E, 0x78, 0x3C, 0x2F, 0x70, 0x3E, 0x0A] := by decide
example : Cm.renderCm {} (docOf {} (.cons (fmNode [0x2D, 0x0A, 0x61, 0x0A, 0x2D, 0x0A] {})
      (.cons (.node .paragraph {} (.cons (.node (.text [0x78]) {} .nil) .nil)) .nil)))
    = [0x2D, 0x0A, 0x61, 0x0A, 0x2D, 0x0A, 0x78, 0x0A] := by decide
example : renderXmlToks {} (docOf {} (.cons (fmNode [0x2D] {}) .nil))
    = [.opn 0 XS.e_document [xAttr XS.a_xmlns XS.v_xmlns], .empty 2 XS.e_frontmatter [], .close 0 XS.e_document] := by
  decide

end Comrak.C20
