/-
C20  Front matter is carried verbatim and never leaks into the document.

`splitOffFrontMatter` models `strings::split_off_front_matter` as it is since /repo commit d92265f
("fix: recognise front matter line by line") exactly; it is tied to the real function by the
correspondence harness, exhaustively over short strings.  `lines` is the LF / CRLF / CR line
splitting of C08 (`parseLines_eq_lines`: the feeder's `process_line` calls are `lines` up to the
NUL replacement).  Proved here, for every text and every non-empty delimiter, a complete
characterisation of the splitter in terms of lines:

* `split_recognised_iff`: something is taken exactly when the first line of the text (after an
  optional BOM) is the delimiter and some later line is the delimiter;
* `split_sound`: what is taken and what is left are the text, cut at a line boundary; the part
  taken starts with the delimiter and a line ending; its lines are the delimiter, lines that are
  not the delimiter, the delimiter, and one blank line exactly when one follows directly;
* `split_complete`: on a text whose lines are `d :: body ++ d :: tail` with `d ∉ body` the part
  taken has the lines `d :: body ++ [d]` (plus the blank line when `tail` starts with one) and
  the rest has the remaining lines of `tail`;
* the `split_none_*` corollaries, one per "merely resembles front matter" clause;
* `split_lines_invariant`, `front_matter_any_line_endings`: the line-ending convention does not
  matter (the C08 clause for the one raw-text reader in front of the feeder);
* `lines_shift`, `front_matter_line_count`: the block parser is handed the lines of the rest,
  numbered after the lines of the front matter (`count_line_endings`, /repo commit ef24343; see
  `bare_cr_line_shift_repaired`).

The four points where the code departed from the statement before d92265f are kept as `_repaired`
theorems (old function `splitOld` next to the new one); so is the line count before ef24343.
-/
import Comrak.Lemmas.FrontMatter
import Comrak.Lemmas.Feed
import Comrak.Lemmas.R2FrontMatter
import Comrak.Lemmas.R2CmPrefix
namespace Comrak.C20
open Comrak Bytes Comrak.FrontMatter Comrak.Feed

/-! ### The lines of this file are the lines of C08 -/

/-- `lines` is the C08 line splitting: the `process_line` calls of `parse_document` (`parseLines`,
    proved equal to `Feed.splitLines` in Props/C08.lean) are `lines`, up to the replacement of NUL
    by U+FFFD that the feeder performs on the way. -/
theorem parseLines_eq_lines (s : Bytes) : parseLines s = (lines s).map nulToFFFD := by
  have h1 : parseLines s = splitLines [] false s := by
    cases s with
    | nil => decide
    | cons c t =>
      have := feedLoop_spec (c :: t).length [] (c :: t) (Nat.le_refl _)
      simpa [parseLines, feed] using this
  have h2 := splitLines_eq_rawLines s [] false
  simp only [nulToFFFD] at h2
  rw [h1, h2]; rfl

/-- ... and any mix of line-ending conventions gives the same lines. -/
theorem lines_any_endings (x : Bytes) : lines (toLf false x) = lines x :=
  rawLines_toLf x [] false

/-! ### Soundness -/

/-- **Soundness.** If the splitter takes a front matter then: front matter and rest are the text
    (after an optional BOM), cut at a line boundary (the lines of the text are the lines of the
    one followed by the lines of the other); the front matter starts with the delimiter and a line
    ending (LF, CRLF or CR); its lines are: the delimiter, then lines none of which is the
    delimiter, then the delimiter, and after that either nothing - and then the rest does not
    start with a blank line - or exactly one blank line. -/
theorem split_sound (s d fm rest : Bytes) (hd : d ≠ [])
    (h : splitOffFrontMatter s d = some (fm, rest)) :
    stripBom s = fm ++ rest ∧
    lines (stripBom s) = lines fm ++ lines rest ∧
    (∃ e t, IsEol e ∧ fm = d ++ e ++ t) ∧
    ∃ body, d ∉ body ∧
      ((lines fm = d :: body ++ [d] ∧ (lines rest).head? ≠ some []) ∨
       lines fm = d :: body ++ [d, []]) := by
  obtain ⟨e, x, he, hj, hs⟩ := split_some_open s d _ h
  rw [split_unfold s d e x hs he hj] at h
  cases hr : closeLoop d ((e ++ x).length + 1) x with
  | none => rw [hr] at h; simp at h
  | some p =>
    obtain ⟨a, rest'⟩ := p
    rw [hr] at h
    simp only [Option.map_some, Option.some.injEq, Prod.mk.injEq] at h
    obtain ⟨rfl, rfl⟩ := h
    obtain ⟨hx, hnd, hlx, body, hb, hcase⟩ := closeLoop_sound d hd _ x a rest' hr
    have ha : a ≠ [] := by
      intro h0
      subst h0
      rcases hcase with ⟨h1, _⟩ | h1 <;> simp [lines, rawLines] at h1
    have hj' : Junction e a := junction_prefix e a rest' (hx ▸ hj) ha
    have hla : lines (d ++ e ++ a) = d :: lines a := lines_line d e a hnd he hj'
    refine ⟨by rw [hs, hx]; simp, ?_, ⟨e, a, he, rfl⟩, body, hb, ?_⟩
    · rw [hs, lines_line d e x hnd he hj, hla, hlx]; simp
    · rcases hcase with ⟨h1, h2⟩ | h1
      · exact Or.inl ⟨by rw [hla, h1]; simp, h2⟩
      · exact Or.inr (by rw [hla, h1]; simp)

/-! ### Completeness -/

/-- Recognition from the lines alone (no hypothesis on the delimiter). -/
theorem split_isSome_of_lines (s d : Bytes) (body tail : List Bytes)
    (hl : lines (stripBom s) = d :: body ++ d :: tail) (hb : d ∉ body) :
    (splitOffFrontMatter s d).isSome = true := by
  obtain ⟨c, t, hs, hc, ht⟩ := decomp (stripBom s)
  rcases ht with rfl | ⟨e, x, he, hj, rfl⟩
  · exfalso
    simp only [List.append_nil] at hs
    rw [hs, lines_noEol _ hc] at hl
    split at hl <;> simp at hl
  · have hs' : stripBom s = c ++ e ++ x := by simp [hs]
    rw [hs', lines_line c e x hc he hj] at hl
    simp only [List.cons_append, List.cons.injEq] at hl
    obtain ⟨rfl, hlx⟩ := hl
    rw [split_unfold s c e x hs' he hj, Option.isSome_map]
    exact closeLoop_complete c _ x body tail (by simp; omega) hlx hb

/-- **Completeness.** If the lines of the text (after an optional BOM) are the delimiter, lines
    `body` none of which is the delimiter, the delimiter again and then `tail` - whatever line
    endings the individual lines have, whether or not the last line has one, empty `body`
    included - then the splitter takes exactly the lines `d :: body ++ [d]`, plus the first line
    of `tail` when that is blank, and leaves the remaining lines. -/
theorem split_complete (s d : Bytes) (hd : d ≠ []) (body tail : List Bytes)
    (hl : lines (stripBom s) = d :: body ++ d :: tail) (hb : d ∉ body) :
    ∃ fm rest, splitOffFrontMatter s d = some (fm, rest) ∧ stripBom s = fm ++ rest ∧
      ((lines fm = d :: body ++ [d] ∧ lines rest = tail ∧ tail.head? ≠ some []) ∨
       (lines fm = d :: body ++ [d, []] ∧ [] :: lines rest = tail)) := by
  have hsome := split_isSome_of_lines s d body tail hl hb
  cases hsp : splitOffFrontMatter s d with
  | none => simp [hsp] at hsome
  | some p =>
    obtain ⟨fm, rest⟩ := p
    obtain ⟨h1, h2, _, body', hb', hcase⟩ := split_sound s d fm rest hd hsp
    refine ⟨fm, rest, rfl, h1, ?_⟩
    rw [hl] at h2
    rcases hcase with ⟨hf, hh⟩ | hf
    · rw [hf] at h2
      have h3 : body ++ d :: tail = body' ++ d :: lines rest := by simpa using h2
      obtain ⟨r1, r2⟩ := first_occ_unique d _ _ _ _ h3 hb hb'
      subst r1
      exact Or.inl ⟨hf, r2.symm, r2 ▸ hh⟩
    · rw [hf] at h2
      have h3 : body ++ d :: tail = body' ++ d :: ([] :: lines rest) := by simpa using h2
      obtain ⟨r1, r2⟩ := first_occ_unique d _ _ _ _ h3 hb hb'
      subst r1
      exact Or.inr ⟨hf, r2.symm⟩

/-- **Recognition, exactly.** Something is taken if and only if the first line is the delimiter
    and a later line is the delimiter. -/
theorem split_recognised_iff (s d : Bytes) (hd : d ≠ []) :
    (splitOffFrontMatter s d).isSome = true ↔
      ∃ body tail, lines (stripBom s) = d :: body ++ d :: tail := by
  constructor
  · intro h
    cases hsp : splitOffFrontMatter s d with
    | none => simp [hsp] at h
    | some p =>
      obtain ⟨fm, rest⟩ := p
      obtain ⟨_, h2, _, body, _, hcase⟩ := split_sound s d fm rest hd hsp
      rcases hcase with ⟨hf, _⟩ | hf
      · exact ⟨body, lines rest, by rw [h2, hf]; simp⟩
      · exact ⟨body, [] :: lines rest, by rw [h2, hf]; simp⟩
  · rintro ⟨body, tail, hl⟩
    obtain ⟨b1, t1, hL, hb⟩ := first_occ d (body ++ d :: tail) (by simp)
    exact split_isSome_of_lines s d b1 t1 (by rw [hl]; simp [hL]) hb

/-! ### Text that merely resembles front matter -/

/-- Not at the very start / opening delimiter not alone on its line: unless the first line of the
    text (after an optional BOM) is the delimiter, nothing is taken. -/
theorem split_none_first_line (s d : Bytes) (hd : d ≠ [])
    (h : (lines (stripBom s)).head? ≠ some d) : splitOffFrontMatter s d = none := by
  cases hsp : splitOffFrontMatter s d with
  | none => rfl
  | some p =>
    exfalso
    obtain ⟨body, tail, hl⟩ := (split_recognised_iff s d hd).mp (by simp [hsp])
    exact h (by simp [hl])

/-- Unterminated / closing delimiter not alone on its line: unless a later line is the delimiter,
    nothing is taken. -/
theorem split_none_no_closing_line (s d : Bytes) (hd : d ≠ [])
    (h : d ∉ (lines (stripBom s)).tail) : splitOffFrontMatter s d = none := by
  cases hsp : splitOffFrontMatter s d with
  | none => rfl
  | some p =>
    exfalso
    obtain ⟨body, tail, hl⟩ := (split_recognised_iff s d hd).mp (by simp [hsp])
    exact h (by simp [hl])

/-- Byte-level form of "not at the very start". -/
theorem split_none_not_at_start (s d : Bytes) (h : isPrefixB d (stripBom s) = false) :
    splitOffFrontMatter s d = none := by
  simp [splitOffFrontMatter, h]

/-- Byte-level form of "opening delimiter not alone on its line": the delimiter is followed by
    something other than a line ending (or by the end of the input). -/
theorem split_none_open_not_alone (s d t : Bytes) (hs : stripBom s = d ++ t)
    (h : lineEndingLen t = 0) : splitOffFrontMatter s d = none := by
  simp [splitOffFrontMatter, hs, isPrefixB_self_append, h]

/-! ### Line endings do not matter (the C08 clause for the splitter) -/

/-- Two texts with the same lines (whatever their line endings): if both are split, the parts
    taken have the same lines and the rests have the same lines. -/
theorem split_lines_invariant (s s' d fm rest fm' rest' : Bytes) (hd : d ≠ [])
    (hl : lines (stripBom s) = lines (stripBom s'))
    (h : splitOffFrontMatter s d = some (fm, rest)) (h' : splitOffFrontMatter s' d = some (fm', rest')) :
    lines fm = lines fm' ∧ lines rest = lines rest' := by
  obtain ⟨_, h2, _, b, hb, hc⟩ := split_sound s d fm rest hd h
  obtain ⟨_, h2', _, b', hb', hc'⟩ := split_sound s' d fm' rest' hd h'
  rw [hl, h2'] at h2
  rcases hc with ⟨hf, hh⟩ | hf <;> rcases hc' with ⟨hf', hh'⟩ | hf'
  · rw [hf, hf'] at h2
    have h3 : b' ++ d :: lines rest' = b ++ d :: lines rest := by simpa using h2
    obtain ⟨r1, r2⟩ := first_occ_unique d _ _ _ _ h3 hb' hb
    subst r1
    exact ⟨by rw [hf, hf'], r2.symm⟩
  · rw [hf, hf'] at h2
    have h3 : b' ++ d :: ([] :: lines rest') = b ++ d :: lines rest := by simpa using h2
    obtain ⟨_, r2⟩ := first_occ_unique d _ _ _ _ h3 hb' hb
    rw [← r2] at hh
    exact absurd rfl hh
  · rw [hf, hf'] at h2
    have h3 : b' ++ d :: lines rest' = b ++ d :: ([] :: lines rest) := by simpa using h2
    obtain ⟨_, r2⟩ := first_occ_unique d _ _ _ _ h3 hb' hb
    rw [r2] at hh'
    exact absurd rfl hh'
  · rw [hf, hf'] at h2
    have h3 : b' ++ d :: ([] :: lines rest') = b ++ d :: ([] :: lines rest) := by simpa using h2
    obtain ⟨r1, r2⟩ := first_occ_unique d _ _ _ _ h3 hb' hb
    subst r1
    exact ⟨by rw [hf, hf'], by simpa using r2.symm⟩

/-- Recognition depends on the lines only. -/
theorem split_recognition_of_lines (s s' d : Bytes) (hd : d ≠ [])
    (hl : lines (stripBom s) = lines (stripBom s')) :
    (splitOffFrontMatter s d).isSome = (splitOffFrontMatter s' d).isSome := by
  rw [Bool.eq_iff_iff, split_recognised_iff s d hd, split_recognised_iff s' d hd, hl]

/-- **Any mix of line endings.** Rewriting every CRLF, lone CR and LF of a text as LF changes
    neither whether front matter is recognised nor the lines of the front matter and of the rest
    (so all spellings of the line ends of a text are split alike; before d92265f the CR-only
    spelling was not recognised, see `front_matter_cr_repaired`). -/
theorem front_matter_any_line_endings (s d : Bytes) (hd : d ≠ []) :
    (splitOffFrontMatter (toLf false s) d).isSome = (splitOffFrontMatter s d).isSome ∧
    ∀ fm rest fm' rest', splitOffFrontMatter (toLf false s) d = some (fm', rest') →
      splitOffFrontMatter s d = some (fm, rest) → lines fm' = lines fm ∧ lines rest' = lines rest := by
  have hl : lines (stripBom (toLf false s)) = lines (stripBom s) := by
    rw [stripBom_toLf, lines_any_endings]
  exact ⟨split_recognition_of_lines _ _ d hd hl,
    fun fm rest fm' rest' h' h => split_lines_invariant _ _ d fm' rest' fm rest hd hl h' h⟩

/-! ### The rest of the document: same lines, line numbers shifted -/

theorem preludes_shift (k n : Nat) (ls : List Bytes)
    (hb : n = 0 → k ≠ 0 → ∀ l, ls.head? = some l → isPrefixB BOM (Feed.sentinel l) = false) :
    preludes (n + k) ls = (preludes n ls).map (fun p => (p.1, p.2.1, p.2.2 + k)) := by
  induction ls generalizing n with
  | nil => rfl
  | cons l ls ih =>
    have hoff : bomOffset (n + k) (Feed.sentinel l) = bomOffset n (Feed.sentinel l) := by
      by_cases hn : n = 0
      · subst hn
        by_cases hk : k = 0
        · subst hk; rfl
        · have := hb rfl hk l rfl
          simp [bomOffset, this]
      · have : n + k ≠ 0 := by omega
        simp [bomOffset, hn, this]
    have htail := ih (n + 1) (fun h => absurd h (by omega))
    have e : n + k + 1 = n + 1 + k := by omega
    simp only [preludes, prelude, List.map_cons, hoff, e, htail]

/-- With front matter taken, the block parser is handed exactly the lines of the rest, with their
    line numbers shifted by the number of line endings of the front matter (`line_number += lines`
    in `feed`; that this is the number of its lines: `front_matter_line_count`), a rest that itself
    starts with U+FEFF excepted: there the mark is text, see `bom_rest_counterexample`. -/
theorem lines_shift (s d fm rest : Bytes) (h : splitOffFrontMatter s d = some (fm, rest))
    (hb : ∀ l, (parseLines rest).head? = some l → isPrefixB BOM (Feed.sentinel l) = false) :
    parseDoc (some d) s
      = (some fm, (parseDoc none rest).2.map (fun p => (p.1, p.2.1, p.2.2 + lineEndings fm))) := by
  simp only [parseDoc, h]
  have := preludes_shift (lineEndings fm) 0 (parseLines rest) (fun _ _ => hb)
  simp only [Nat.zero_add] at this
  rw [this]

/-- Without a recognised front matter the option changes nothing. -/
theorem unrecognised_is_ordinary (s d : Bytes) (h : splitOffFrontMatter s d = none) :
    parseDoc (some d) s = parseDoc none s := by
  simp [parseDoc, h]

/-- The shift is the number of lines of the front matter: whenever anything follows the front
    matter, `count_line_endings` of it is the number of its lines (LF, CRLF and CR alike). -/
theorem front_matter_line_count (s d fm rest : Bytes) (h : splitOffFrontMatter s d = some (fm, rest))
    (hr : rest ≠ []) : lineEndings fm = (lines fm).length :=
  split_line_count s d fm rest h hr

/-- `-\ra\r-\rt` with delimiter `-` (three lines of front matter, each ended by a lone CR): `t` is
    the fourth line of the text and is numbered 4, as in the LF spelling.  Before /repo commit
    ef24343 ("fix: count CR and CRLF line endings of the front matter") `feed` advanced the line
    number by the number of LF bytes of the front matter (`countLF`, here 0) and `t` was numbered 1;
    repaired there. -/
theorem bare_cr_line_shift_repaired :
    parseDoc (some [0x2D]) [0x2D, 0x0D, 0x61, 0x0D, 0x2D, 0x0D, 0x74]
      = (some [0x2D, 0x0D, 0x61, 0x0D, 0x2D, 0x0D], [([0x74, 0x0A], 0, 4)]) ∧
    lines [0x2D, 0x0D, 0x61, 0x0D, 0x2D, 0x0D] = [[0x2D], [0x61], [0x2D]] ∧
    countLF [0x2D, 0x0D, 0x61, 0x0D, 0x2D, 0x0D] = 0 ∧
    parseDoc (some [0x2D]) [0x2D, 0x0A, 0x61, 0x0A, 0x2D, 0x0A, 0x74]
      = (some [0x2D, 0x0A, 0x61, 0x0A, 0x2D, 0x0A], [([0x74, 0x0A], 0, 4)]) := by decide

/-! ### Renderer half: what the three formatter models do with the `FrontMatter` node

`doc spd fm sp rest` is the tree the parser builds when it recognises front matter: a document
whose first child is the `FrontMatter` node (payload `fm`), followed by the blocks of the rest. -/

/-- A document node with the given children. -/
def docOf (spd : Sp) (cs : Forest) : Tree := .node .document spd cs
/-- The front matter node (a leaf). -/
def fmNode (fm : Bytes) (sp : Sp) : Tree := .node (.frontMatter fm) sp .nil

/-- **HTML, node level** (`render_frontmatter`): in every context and writer state, for every
    option vector, the node contributes no token and leaves the writer state untouched. -/
theorem html_front_matter_absent (o : HtmlOpts) (nt : NormTable) (cx : Ctx) (fm : Bytes) (sp : Sp) (st : St) :
    renderT o nt cx (fmNode fm sp) st = ([], st) :=
  renderT_frontMatter o nt cx fm sp st

/-- **HTML, document level.** The tokens of `Document [FrontMatter fm, rest…]` are exactly the
    tokens of `Document [rest…]`, for every option vector and every `rest` (no shape hypothesis:
    the following siblings see another `prev`/`index`, but `prev` matters only to the
    `<thead>`/`<tbody>` choice of a table row, for which a front matter predecessor counts like
    none, and `index` only to a cell, through its grandparent's alignments, which a child of
    the root does not have). -/
theorem html_front_matter_absent_doc (o : HtmlOpts) (nt : NormTable) (fm : Bytes) (spd sp : Sp) (rest : Forest) :
    renderToks o nt (docOf spd (.cons (fmNode fm sp) rest)) = renderToks o nt (docOf spd rest) := by
  unfold renderToks docOf fmNode W.seq
  simp only [renderT_doc_frontMatter]

/-- ... hence the same bytes. -/
theorem html_front_matter_absent_bytes (o : HtmlOpts) (nt : NormTable) (fm : Bytes) (spd sp : Sp) (rest : Forest) :
    renderHtml o nt (docOf spd (.cons (fmNode fm sp) rest)) = renderHtml o nt (docOf spd rest) := by
  unfold renderHtml; rw [html_front_matter_absent_doc]

/-- **XML, node level.** In XML the node is *not* absent: it is one self-closing element
    `<frontmatter />` (with the position attribute when asked for).  The payload is never
    written (`NodeValue::FrontMatter(_) => ()` in `format_node`). -/
theorem xml_front_matter_is_empty_element (o : XmlOpts) (ind : Nat) (cx : XCtx) (fm : Bytes) (sp : Sp) :
    renderXmlT o ind cx (fmNode fm sp) = [.empty ind XS.e_frontmatter (xmlSpAttr o sp)] :=
  renderXmlT_frontMatter o ind cx fm sp

/-- **XML, document level.** With a non-empty rest, the tokens of `Document [FrontMatter fm,
    rest…]` are the tokens of `Document [rest…]` with the one `<frontmatter />` line inserted
    right after the document start tag; everything else is identical (the shifted sibling index
    is only read by cells of a header row, which are not children of the root). -/
theorem xml_front_matter_one_element_doc (o : XmlOpts) (fm : Bytes) (spd sp : Sp) (r : Tree) (rs : Forest) :
    ∃ hd body,
      renderXmlToks o (docOf spd (.cons r rs)) = hd :: body ∧
      renderXmlToks o (docOf spd (.cons (fmNode fm sp) (.cons r rs)))
        = hd :: .empty 2 XS.e_frontmatter (xmlSpAttr o sp) :: body := by
  refine ⟨.opn 0 XS.e_document (xmlAttrs o {} .document spd),
    renderXmlF o 2 (some .document) none 0 (.cons r rs) ++ [.close 0 XS.e_document], ?_, ?_⟩
  · simp [renderXmlToks, docOf, renderXmlT, xmlLiteral, xmlName, Forest.isNil]
  · have hi := renderXmlF_index_irrel o 2 (some .document) none (by simp) (.cons r rs) 1 0
    have hf := renderXmlT_frontMatter o 2 { parent := some .document, grand := none, index := 0 } fm sp
    simp only [renderXmlToks, docOf, fmNode, renderXmlT, xmlLiteral, xmlName, Forest.isNil] at hf ⊢
    simp only [Bool.false_eq_true, if_false, Nat.zero_add, List.cons.injEq, true_and]
    rw [renderXmlF]
    simp only [renderXmlT, xmlLiteral, xmlName, Forest.isNil, if_true, Nat.zero_add] at hf hi ⊢
    rw [hi, hf]
    rfl

/-- The XML of the document with front matter is never the XML of the rest alone. -/
theorem xml_front_matter_not_absent (o : XmlOpts) (fm : Bytes) (spd sp : Sp) (r : Tree) (rs : Forest) :
    renderXmlToks o (docOf spd (.cons (fmNode fm sp) (.cons r rs))) ≠ renderXmlToks o (docOf spd (.cons r rs)) := by
  obtain ⟨hd, body, h1, h2⟩ := xml_front_matter_one_element_doc o fm spd sp r rs
  rw [h1, h2]
  intro h
  have := congrArg List.length h
  simp at this

/-- **CommonMark, the node alone** (`format_front_matter` on a fresh writer): for every option
    vector, whatever the width, the buffer holds exactly the payload. -/
theorem cm_front_matter_alone (o : Cm.CmOpts) (fm : Bytes) (spd sp : Sp) :
    Cm.renderCm o (docOf spd (.cons (fmNode fm sp) .nil)) = Cm.finalBytes fm.reverse := by
  rw [Cm.renderCm_eq_finalBytes]
  unfold docOf fmNode
  rw [Cm.renderT_doc_fm_nil, Cm.fmEnd_rv, Cm.output_frontMatter_fresh_rv]

/-- ... in particular a payload that ends with a line feed (every front matter block whose last
    line ends in LF or CRLF does) is reproduced exactly. -/
theorem cm_front_matter_alone_lf (o : Cm.CmOpts) (body : Bytes) (spd sp : Sp) :
    Cm.renderCm o (docOf spd (.cons (fmNode (body ++ [0x0A]) sp) .nil)) = body ++ [0x0A] := by
  rw [cm_front_matter_alone]
  simp [Cm.finalBytes]

/-- **CommonMark, verbatim at the top.** For every option vector (every `width`, not only 0),
    every payload and every following siblings: the CommonMark rendering of
    `Document [FrontMatter fm, rest…]` starts with `fm`, byte for byte.  (Nothing written later
    reaches back: pending newlines, prefixes and escapes only append, and the re-wrap at the last
    breakable space happens at a position recorded after the payload was written.) -/
theorem cm_front_matter_verbatim (o : Cm.CmOpts) (fm : Bytes) (spd sp : Sp) (rest : Forest) :
    fm <+: Cm.renderCm o (docOf spd (.cons (fmNode fm sp) rest)) :=
  Cm.renderCm_frontMatter_prefix o fm spd sp rest

/-! ### Repaired in /repo commit d92265f ("fix: recognise front matter line by line")

Each theorem shows the function as it was (`splitOld`: the former finding) next to the function as
it is. -/

/-- `---\rfoo\r---\rt`: CR-only line endings were not recognised (former C08 finding); repaired in
    /repo commit d92265f: CR is a line ending, the split is the same as for the LF spelling. -/
theorem front_matter_cr_repaired :
    splitOld [0x2D, 0x2D, 0x2D, 0x0D, 0x66, 0x6F, 0x6F, 0x0D, 0x2D, 0x2D, 0x2D, 0x0D, 0x74]
      [0x2D, 0x2D, 0x2D] = none ∧
    splitOffFrontMatter [0x2D, 0x2D, 0x2D, 0x0D, 0x66, 0x6F, 0x6F, 0x0D, 0x2D, 0x2D, 0x2D, 0x0D, 0x74]
      [0x2D, 0x2D, 0x2D]
      = some ([0x2D, 0x2D, 0x2D, 0x0D, 0x66, 0x6F, 0x6F, 0x0D, 0x2D, 0x2D, 0x2D, 0x0D], [0x74]) ∧
    splitOffFrontMatter [0x2D, 0x2D, 0x2D, 0x0A, 0x66, 0x6F, 0x6F, 0x0A, 0x2D, 0x2D, 0x2D, 0x0A, 0x74]
      [0x2D, 0x2D, 0x2D]
      = some ([0x2D, 0x2D, 0x2D, 0x0A, 0x66, 0x6F, 0x6F, 0x0A, 0x2D, 0x2D, 0x2D, 0x0A], [0x74]) := by
  decide

/-- `---\na\n---b\n---`: a body line that starts with the delimiter used to defeat the
    end-of-input alternative although the last line is the delimiter alone; repaired in /repo
    commit d92265f: the whole text is front matter. -/
theorem body_line_eof_repaired :
    splitOld [0x2D, 0x2D, 0x2D, 0x0A, 0x61, 0x0A, 0x2D, 0x2D, 0x2D, 0x62, 0x0A, 0x2D, 0x2D, 0x2D]
      [0x2D, 0x2D, 0x2D] = none ∧
    splitOffFrontMatter [0x2D, 0x2D, 0x2D, 0x0A, 0x61, 0x0A, 0x2D, 0x2D, 0x2D, 0x62, 0x0A, 0x2D, 0x2D, 0x2D]
      [0x2D, 0x2D, 0x2D]
      = some ([0x2D, 0x2D, 0x2D, 0x0A, 0x61, 0x0A, 0x2D, 0x2D, 0x2D, 0x62, 0x0A, 0x2D, 0x2D, 0x2D], []) := by
  decide

/-- `---\n---\nt`: an empty body was not recognised; repaired in /repo commit d92265f. -/
theorem empty_body_repaired :
    splitOld [0x2D, 0x2D, 0x2D, 0x0A, 0x2D, 0x2D, 0x2D, 0x0A, 0x74] [0x2D, 0x2D, 0x2D] = none ∧
    splitOffFrontMatter [0x2D, 0x2D, 0x2D, 0x0A, 0x2D, 0x2D, 0x2D, 0x0A, 0x74] [0x2D, 0x2D, 0x2D]
      = some ([0x2D, 0x2D, 0x2D, 0x0A, 0x2D, 0x2D, 0x2D, 0x0A], [0x74]) := by
  decide

/-- `---\na\n---\nb\n---\r\nc`: with mixed line endings a later CRLF-terminated delimiter line
    used to be preferred over the first (LF-terminated) one, so `b` disappeared into the front
    matter; repaired in /repo commit d92265f: the first closing line wins. -/
theorem mixed_endings_repaired :
    splitOld
      [0x2D, 0x2D, 0x2D, 0x0A, 0x61, 0x0A, 0x2D, 0x2D, 0x2D, 0x0A, 0x62, 0x0A, 0x2D, 0x2D, 0x2D, 0x0D, 0x0A, 0x63]
      [0x2D, 0x2D, 0x2D]
    = some ([0x2D, 0x2D, 0x2D, 0x0A, 0x61, 0x0A, 0x2D, 0x2D, 0x2D, 0x0A, 0x62, 0x0A, 0x2D, 0x2D, 0x2D, 0x0D, 0x0A],
            [0x63]) ∧
    splitOffFrontMatter
      [0x2D, 0x2D, 0x2D, 0x0A, 0x61, 0x0A, 0x2D, 0x2D, 0x2D, 0x0A, 0x62, 0x0A, 0x2D, 0x2D, 0x2D, 0x0D, 0x0A, 0x63]
      [0x2D, 0x2D, 0x2D]
    = some ([0x2D, 0x2D, 0x2D, 0x0A, 0x61, 0x0A, 0x2D, 0x2D, 0x2D, 0x0A],
            [0x62, 0x0A, 0x2D, 0x2D, 0x2D, 0x0D, 0x0A, 0x63]) := by
  decide

/-! ### Excluded point -/

/-- A rest that starts with U+FEFF: inside the document the mark is text (offset 0 on line 3),
    on its own it is skipped (offset 3). Not a defect: a byte-order mark exists only at the very
    start of a text; the search oracle excludes such rests. `-\na\n-\n<BOM>t` with delimiter `-`. -/
theorem bom_rest_counterexample :
    parseDoc (some [0x2D]) [0x2D, 0x0A, 0x61, 0x0A, 0x2D, 0x0A, 0xEF, 0xBB, 0xBF, 0x74]
      = (some [0x2D, 0x0A, 0x61, 0x0A, 0x2D, 0x0A], [([0xEF, 0xBB, 0xBF, 0x74, 0x0A], 0, 4)]) ∧
    parseDoc none [0xEF, 0xBB, 0xBF, 0x74] = (none, [([0xEF, 0xBB, 0xBF, 0x74, 0x0A], 3, 1)]) := by
  decide

/-! Non-vacuity -/
-- "<BOM>ab\r\n\r\nab\r\n\r\nx" with delimiter "ab": BOM stripped, blank body line, blank line absorbed
example : splitOffFrontMatter
    [0xEF, 0xBB, 0xBF, 0x61, 0x62, 0x0D, 0x0A, 0x0D, 0x0A, 0x61, 0x62, 0x0D, 0x0A, 0x0D, 0x0A, 0x78] [0x61, 0x62]
    = some ([0x61, 0x62, 0x0D, 0x0A, 0x0D, 0x0A, 0x61, 0x62, 0x0D, 0x0A, 0x0D, 0x0A], [0x78]) := by decide
-- closing delimiter at the end of the input
example : splitOffFrontMatter [0x2D, 0x0A, 0x61, 0x0A, 0x2D] [0x2D] = some ([0x2D, 0x0A, 0x61, 0x0A, 0x2D], []) := by
  decide
-- only one blank line goes with the front matter: "-\na\n-\n\n\nx"
example : splitOffFrontMatter [0x2D, 0x0A, 0x61, 0x0A, 0x2D, 0x0A, 0x0A, 0x0A, 0x78] [0x2D]
    = some ([0x2D, 0x0A, 0x61, 0x0A, 0x2D, 0x0A, 0x0A], [0x0A, 0x78]) := by decide
-- the hypotheses of `split_complete` are satisfiable, every line with another ending, a body line
-- that starts with the delimiter: "-\r\n-a\r-\n\rx" has the lines ["-", "-a", "-", "", "x"]
example : lines [0x2D, 0x0D, 0x0A, 0x2D, 0x61, 0x0D, 0x2D, 0x0A, 0x0D, 0x78]
    = [0x2D] :: [[0x2D, 0x61]] ++ [0x2D] :: [[], [0x78]] := by decide
example : splitOffFrontMatter [0x2D, 0x0D, 0x0A, 0x2D, 0x61, 0x0D, 0x2D, 0x0A, 0x0D, 0x78] [0x2D]
    = some ([0x2D, 0x0D, 0x0A, 0x2D, 0x61, 0x0D, 0x2D, 0x0A, 0x0D], [0x78]) := by decide
-- hypotheses of the `split_none_*` lemmas are satisfiable: " -\na\n-\n", "- \na\n-\n", "-\na\n", "-\na\n-x\n"
example : (lines (stripBom [0x20, 0x2D, 0x0A, 0x61, 0x0A, 0x2D, 0x0A])).head? ≠ some [0x2D] := by decide
example : (lines (stripBom [0x2D, 0x20, 0x0A, 0x61, 0x0A, 0x2D, 0x0A])).head? ≠ some [0x2D] := by decide
example : [0x2D] ∉ (lines (stripBom [0x2D, 0x0A, 0x61, 0x0A])).tail := by decide
example : [0x2D] ∉ (lines (stripBom [0x2D, 0x0A, 0x61, 0x0A, 0x2D, 0x78, 0x0A])).tail := by decide
example : isPrefixB [0x2D] (stripBom [0x20, 0x2D, 0x0A, 0x61, 0x0A, 0x2D, 0x0A]) = false := by decide
example : splitOffFrontMatter [0x2D, 0x20, 0x0A, 0x61, 0x0A, 0x2D, 0x0A] [0x2D] = none := by decide
example : splitOffFrontMatter [0x2D, 0x0A, 0x61, 0x0A] [0x2D] = none := by decide
example : splitOffFrontMatter [0x2D, 0x0A, 0x61, 0x0A, 0x2D, 0x78, 0x0A] [0x2D] = none := by decide
-- `front_matter_line_count`: "-\r\na\r-\n" + "x" has three line endings (CRLF, CR, LF), three lines
example : splitOffFrontMatter [0x2D, 0x0D, 0x0A, 0x61, 0x0D, 0x2D, 0x0A, 0x78] [0x2D]
      = some ([0x2D, 0x0D, 0x0A, 0x61, 0x0D, 0x2D, 0x0A], [0x78]) ∧
    lineEndings [0x2D, 0x0D, 0x0A, 0x61, 0x0D, 0x2D, 0x0A] = 3 ∧
    (lines [0x2D, 0x0D, 0x0A, 0x61, 0x0D, 0x2D, 0x0A]).length = 3 := by decide

-- renderer half: "-\na\n-\n" + paragraph "x"; HTML has no trace, XML has the element, CommonMark starts with it
example : renderHtml {} {} (docOf {} (.cons (fmNode [0x2D, 0x0A, 0x61, 0x0A, 0x2D, 0x0A] {})
      (.cons (.node .paragraph {} (.cons (.node (.text [0x78]) {} .nil) .nil)) .nil)))
    = [0x3C, 0x70, 0x3E, 0x78, 0x3C, 0x2F, 0x70, 0x3E, 0x0A] := by decide
example : Cm.renderCm {} (docOf {} (.cons (fmNode [0x2D, 0x0A, 0x61, 0x0A, 0x2D, 0x0A] {})
      (.cons (.node .paragraph {} (.cons (.node (.text [0x78]) {} .nil) .nil)) .nil)))
    = [0x2D, 0x0A, 0x61, 0x0A, 0x2D, 0x0A, 0x78, 0x0A] := by decide
example : renderXmlToks {} (docOf {} (.cons (fmNode [0x2D] {}) .nil))
    = [.opn 0 XS.e_document [xAttr XS.a_xmlns XS.v_xmlns], .empty 2 XS.e_frontmatter [], .close 0 XS.e_document] := by
  decide

end Comrak.C20
