/-
C01  Total on every input: no panic, abort, overflow or hang.

A whole-program theorem would need a model of the whole parser. What is proved here is each
*mechanism* the property's anchors name, with every Rust panic site explicit in the model
(`none`/`overflow` = panic) and every loop structurally recursive or fuelled. The models are tied to
the real functions by the correspondence stage (hooks `comrak::verif::*`, model `none` <-> real
panic); everything else is reached by the search stage (isolated workers, both build profiles).
Totality theorems proved for other properties are cited in the evidence: C19 (`escape`,
`escape_href` are total functions on bytes), C14 (`tagfilter_total`), C10 (`renderHtml` is a total
structural recursion).
-/
import Comrak.Lemmas.Total
import Comrak.Props.C04
namespace Comrak.C01
open Comrak Bytes Comrak.Tot

/-! ## `cm::shortest_unused_sequence` -/

/-- The repaired code returns within 32 iterations with a result in 0..=32, for every literal
    (the function is a structural recursion: no fuel, no failure value). -/
theorem shortestUnused_le_32 (l : Bytes) (f : UInt8) : shortestUnused l f ≤ 32 := by
  have := suLoop_le 32 (suScan f l 0 1) 0
  simpa [shortestUnused] using this

/-- ... and at least 1 (bit 0 is always set), so the code span always gets a delimiter. -/
theorem shortestUnused_pos (l : Bytes) (f : UInt8) : 1 ≤ shortestUnused l f := by
  have h := (suLoop_spec 32 (suScan f l 0 1) 0).2
  have hb : (suScan f l 0 1).testBit 0 = true := by
    rw [testBit_suScan]; simp
  by_cases h0 : shortestUnused l f = 0
  · unfold shortestUnused at h0
    have := h (by omega)
    rw [h0] at this
    simp [hb] at this
  · omega

/-- Totality as a statement about the loop: the cap makes the `while` loop exit after at most 32
    iterations whatever the bit set is (contrast `shortestUnused_old_diverges`). -/
theorem shortestUnused_total (used i : Nat) : i ≤ suLoop (32 - i) used i ∧ suLoop (32 - i) used i ≤ max i 32 := by
  have h1 := suLoop_ge (32 - i) used i
  have h2 := suLoop_le (32 - i) used i
  omega

/-- **Result < 32 is really unused**: no maximal run of `f` of that length occurs in the literal,
    and every shorter length 1..result-1 does occur (it is the shortest). -/
theorem shortestUnused_is_unused_partial (l : Bytes) (f : UInt8) (h : shortestUnused l f < 32) :
    shortestUnused l f ∉ runs f l ∧ ∀ j, 0 < j → j < shortestUnused l f → j ∈ runs f l := by
  have hs := suLoop_spec 32 (suScan f l 0 1) 0
  have hp := shortestUnused_pos l f
  unfold shortestUnused at h hp ⊢
  constructor
  · have h2 := hs.2 (by omega)
    simp only [Nat.sub_zero] at h2
    rw [testBit_suScan] at h2
    intro hm
    have : (1 : Nat).testBit (suLoop 32 (suScan f l 0 1) 0) = false := by
      cases hk : suLoop 32 (suScan f l 0 1) 0 with
      | zero => omega
      | succ k => simp [Nat.testBit_succ]
    simp [runs] at hm
    simp [this, hm] at h2
    omega
  · intro j hj0 hj
    have h1 := hs.1 j (by omega)
    rw [testBit_suScan] at h1
    have : (1 : Nat).testBit j = false := by
      cases j with
      | zero => omega
      | succ k => simp [Nat.testBit_succ]
    simp [this] at h1
    exact h1.1

/-- The excluded case, kept visible: when every length 1..31 occurs the answer is 32 although a run of
    32 may occur too (cmark behaves the same; 32 consecutive backticks inside a code span whose
    content also has runs of every length 1..31 need at least 527 bytes of backticks). -/
theorem shortestUnused_cap_counterexample :
    ∃ l : Bytes, shortestUnused l 0x60 = 2 ∧ 2 ∉ runs 0x60 l ∧
      shortestUnused [0x60, 0x61, 0x60, 0x60] 0x60 = 3 := by
  exact ⟨[0x60, 0x61], by decide, by decide, by decide⟩

/-! ### The pinned code (repaired by commit 399b672), kept as a witness -/

/-- With all 32 bits set (`used == -1` as an `i32`) the loop condition `used & 1 != 0` stays true
    under the arithmetic shift: for every fuel the loop has not exited. -/
theorem shortestUnused_old_diverges (fuel i : Nat) : suLoopOld fuel (BitVec.allOnes 32) i = none := by
  induction fuel generalizing i with
  | zero => rfl
  | succ k ih =>
    have h1 : (BitVec.allOnes 32 &&& 1#32 ≠ 0#32) := by decide
    have h2 : (BitVec.allOnes 32).sshiftRight 1 = BitVec.allOnes 32 := by decide
    simp only [suLoopOld, h1, if_true, h2]
    exact ih (i + 1)

/-- Runs of lengths 1..n separated by one other byte. -/
def allRuns (f sep : UInt8) : Nat → Bytes
  | 0 => []
  | n + 1 => allRuns f sep n ++ List.replicate (n + 1) f ++ [sep]

/-- The input class that produced that state on the pinned tree: a literal containing backtick runs
    of every length 1..31 sets all 32 bits (release build semantics). -/
theorem shortestUnused_old_all_bits :
    suScanOld false 0x60 (allRuns 0x60 0x20 31) 0 1#32 = some (BitVec.allOnes 32) := by decide +kernel

/-- A run of 32 trips `1 << 32` in a build with overflow checks. -/
theorem shortestUnused_old_shift_overflow :
    suScanOld true 0x60 (List.replicate 32 0x60) 0 1#32 = none := by decide +kernel

/-- The repaired code on the same two inputs. -/
theorem shortestUnused_fixed_on_witnesses :
    shortestUnused (allRuns 0x60 0x20 31) 0x60 = 32 ∧ shortestUnused (List.replicate 32 0x60) 0x60 = 1 := by
  constructor <;> decide +kernel

/-! ## `Spx::consume` -/

/-- `Spx::consume` never panics as long as the queue holds the requested bytes, for EVERY queue -
    verbatim or not (the pinned tree asserted `ec - sc + 1 = x` in the `Less` arm and panicked on an
    unresolved footnote reference whose label held an e-mail address and an escape, entity or line
    break; repaired in /repo) - and exactly `rem` bytes are gone afterwards. -/
theorem spx_consume_total (q : List Seg) (rem : Nat) (hne : q ≠ []) (hsum : rem ≤ spxTotal q) :
    ∃ e q', spxConsume q rem = some (e, q') ∧ spxTotal q' + rem = spxTotal q := by
  induction q generalizing rem with
  | nil => exact absurd rfl hne
  | cons s q ih =>
    rw [spxTotal_cons] at hsum
    simp only [spxConsume]
    split
    · rename_i hlt
      have hne' : q ≠ [] := by
        intro h; subst h; simp [spxTotal] at hsum; omega
      obtain ⟨e, q', h1, h3⟩ := ih (rem - s.x) hne' (by omega)
      exact ⟨e, q', h1, by rw [spxTotal_cons]; omega⟩
    · split
      · rename_i h1 h2
        exact ⟨s.ec, q, rfl, by rw [spxTotal_cons]; omega⟩
      · rename_i h1 h2
        exact ⟨_, _, rfl, by simp only [spxTotal_cons]; omega⟩

/-- On verbatim segments (one column per byte) the split is exact: the returned column is
    `sc + rem - 1`, i.e. the `min` never bites, and the remaining queue is verbatim again. -/
theorem spx_consume_verbatim (q : List Seg) (rem : Nat) (hv : ∀ s ∈ q, s.verbatim) (e : Nat) (q' : List Seg)
    (h : spxConsume q rem = some (e, q')) : ∀ s ∈ q', s.verbatim := by
  induction q generalizing rem with
  | nil => simp [spxConsume] at h
  | cons s q ih =>
    have hs : s.verbatim := hv s (by simp)
    have hq : ∀ t ∈ q, t.verbatim := fun t ht => hv t (by simp [ht])
    simp only [spxConsume] at h
    split at h
    · exact ih _ hq h
    · split at h
      · simp only [Option.some.injEq, Prod.mk.injEq] at h
        obtain ⟨_, rfl⟩ := h
        exact hq
      · rename_i h1 h2
        simp only [Option.some.injEq, Prod.mk.injEq] at h
        obtain ⟨_, rfl⟩ := h
        intro t ht
        rcases List.mem_cons.mp ht with rfl | ht
        · unfold Seg.verbatim at hs ⊢; simp only; omega
        · exact hq t ht

/-- Chains of calls (what `process_email_autolinks` does: `consume(i)`, `consume(skip)`, recursion on the
    rest) stay defined as long as the requested bytes are available. -/
theorem spx_consume_all_total (q : List Seg) (rems : List Nat)
    (hsum : rems.sum ≤ spxTotal q) (hpos : ∀ r ∈ rems, 0 < r) :
    (spxConsumeAll q rems).isSome = true := by
  induction rems generalizing q with
  | nil => simp [spxConsumeAll]
  | cons r rs ih =>
    have hr : 0 < r := hpos r (by simp)
    simp only [List.sum_cons] at hsum
    have hne : q ≠ [] := by intro h; subst h; simp [spxTotal] at hsum; omega
    obtain ⟨e, q', h1, h3⟩ := spx_consume_total q r hne (by omega)
    have := ih q' (by omega) (fun x hx => hpos x (by simp [hx]))
    simp only [spxConsumeAll, h1]
    cases hc : spxConsumeAll q' rs with
    | none => simp [hc] at this
    | some p => simp

/-- The former failing input: `[^\]b@c.d]` is the text `[^]b@c.d]` (10 bytes) at columns 1..11;
    `consume(3)` hit the `assert!` on the pinned tree and now answers column 3. -/
theorem spx_consume_former_counterexample :
    spxConsume [⟨1, 1, 1, 11, 10⟩] 3 = some (3, [⟨1, 4, 1, 11, 7⟩]) := by decide

/-- `unreachable!()`: asking an empty queue for anything. -/
theorem spx_consume_empty_counterexample : spxConsume [] 0 = none := by decide

/-! ## `entity::unescape` arithmetic -/

/-- `codepoint * base + digit` stays below 2^32 because of the `min(.., 0x110000)` after every step:
    no `u32` overflow for any number of digits (bases 10 and 16). -/
theorem entity_codepoint_no_overflow (base : Nat) (ds : List Nat) (cp : Nat) (hb : base ≤ 16)
    (hd : ∀ d ∈ ds, d < base) (hc : cp ≤ 0x110000) :
    ∃ r, cpFold base ds cp = some r ∧ r ≤ 0x110000 := by
  induction ds generalizing cp with
  | nil => exact ⟨cp, rfl, hc⟩
  | cons d ds ih =>
    obtain ⟨r, h1, h2⟩ := cpStep_bound base cp d hb (hd d (by simp)) hc
    simp only [cpFold, h1]
    exact ih r (fun x hx => hd x (by simp [hx])) h2

/-- `(c | 32) % 39 - 9` never underflows on a hexadecimal digit and yields its value. -/
theorem hexval_no_underflow : ∀ c : UInt8, isXDigit c = true → ∃ v, hexval c = some v ∧ v < 16 := by
  have h : ∀ n : Fin 256, isXDigit (UInt8.ofNat n.val) = true →
      (hexval (UInt8.ofNat n.val)).isSome = true ∧ (hexval (UInt8.ofNat n.val)).getD 99 < 16 := by decide +kernel
  intro c hc
  have hn := h ⟨c.toNat, UInt8.toNat_lt c⟩
  simp only [UInt8.ofNat_toNat] at hn
  have := hn hc
  cases hv : hexval c with
  | none => simp [hv] at this
  | some v => simp [hv] at this; exact ⟨v, rfl, this⟩

/-- The numeric-reference branch never reports an arithmetic failure. -/
theorem numericEntity_no_overflow (t : Bytes) : numericEntity t ≠ .overflow := by
  unfold numericEntity
  split
  · simp
  · simp only []
    split
    · have := entity_codepoint_no_overflow 10 (((t.drop 1).takeWhile isAsciiDigit).map decval) 0 (by omega)
        (by
          intro d hd
          simp only [List.mem_map] at hd
          obtain ⟨c, hc, rfl⟩ := hd
          have := mem_takeWhile_p _ _ _ hc
          simp [isAsciiDigit] at this
          unfold decval
          have h1 : c.toNat ≤ 0x39 := by
            have := this.2; exact UInt8.le_iff_toNat_le.mp this
          have h2 : 0x30 ≤ c.toNat := by
            have := this.1; exact UInt8.le_iff_toNat_le.mp this
          omega) (by omega)
      obtain ⟨r, h1, _⟩ := this
      simp only [h1]
      split <;> simp
    · split
      · have := entity_codepoint_no_overflow 16 (((t.drop 2).takeWhile isXDigit).map fun c => (hexval c).getD 0) 0 (by omega)
          (by
            intro d hd
            simp only [List.mem_map] at hd
            obtain ⟨c, hc, rfl⟩ := hd
            have := mem_takeWhile_p _ _ _ hc
            obtain ⟨v, hv, hlt⟩ := hexval_no_underflow c this
            simp [hv, hlt]) (by omega)
        obtain ⟨r, h1, _⟩ := this
        simp only [h1]
        split <;> simp
      · simp

/-! ## `strings::normalize_code` (`format_code` reads `literal[0]`) -/

/-- A code span's literal is never empty when the source between the delimiters is not. -/
theorem normalizeCode_nonempty (v : Bytes) (h : v ≠ []) : normalizeCode v ≠ [] := by
  unfold normalizeCode
  simp only []
  split
  · rename_i hc
    simp only [Bool.and_eq_true, List.any_eq_true] at hc
    obtain ⟨⟨⟨c, hcm, hcn⟩, hh⟩, hl⟩ := hc
    have hmem := ncBody_mem v c hcm (by simpa using hcn)
    have hc20 : c ≠ 0x20 := by
      intro h; subst h; simp [isCodeSpace] at hcn
    generalize ncBody v = r at *
    rcases r with _ | ⟨a, _ | ⟨b, _ | ⟨d, t⟩⟩⟩
    · simp at hmem
    · simp at hh hl hmem; subst hh; exact absurd hmem hc20
    · simp at hh hl hmem
      subst hh
      rcases hmem with h | h
      · exact absurd h hc20
      · exact absurd (h.trans hl) hc20
    · simp [List.dropLast]
  · exact ncBody_ne_nil v h

/-! ## `strings::chop_trailing_hashtags`, `strings::remove_trailing_blank_lines` under their callers' guards -/

theorem rtrim_ne_nil (l : Bytes) (c : UInt8) (hc : c ∈ l) (hn : isSpace c = false) : rtrim l ≠ [] := by
  unfold rtrim
  intro h
  have h' : l.reverse.dropWhile isSpace = [] := by simpa using h
  have := dropWhile_nil_all _ _ h' c (by simpa using hc)
  simp [hn] at this

/-- `add_line` calls it only on a non-blank line: some byte is not white space, so `line.len() - 1`
    and `line[n]` are in range. -/
theorem chop_hashtags_total (l : Bytes) (c : UInt8) (hc : c ∈ l) (hn : isSpace c = false) :
    (chopHashtags l).isSome = true := by
  unfold chopHashtags
  have := rtrim_ne_nil l c hc hn
  simp only []
  split
  · rename_i h; simp at h; exact absurd h this
  · split
    · rfl
    · split <;> rfl

/-- Called on front matter and on indented code block content, both non-empty. -/
theorem remove_trailing_blank_lines_total (l : Bytes) (h : l ≠ []) : (removeTrailingBlankLines l).isSome = true := by
  unfold removeTrailingBlankLines
  simp only []
  split
  · rename_i he; simp at he; exact absurd he h
  · split <;> rfl

/-- Without the guards both index below zero. -/
theorem chop_hashtags_unguarded_counterexample :
    chopHashtags [0x20, 0x20] = none ∧ removeTrailingBlankLines [] = none := by decide

/-! ## CommonMark writer prefix bookkeeping (witness of a defect found by the search stage) -/

/-- When the next number has as many digits as this one the prefix returns to its old length. -/
theorem cm_prefix_restored_partial (n : Nat) (h : numDigits (n + 1) = numDigits n) : cmQuoteItemPrefix n = some 0 := by
  unfold cmQuoteItemPrefix
  simp only [h]
  have : 2 + (numDigits n + 2) > numDigits n + 2 := by omega
  simp only [this, if_true]
  have e : 2 + (numDigits n + 2) - (numDigits n + 2) = 2 := by omega
  simp [e]

/-- `>9)`: leaving item 9 removes the width of "10) " and eats one byte of the quote's "> "; leaving the
    quote then computes `1 - 2`. Panics in debug builds (known finding C01-cm-prefix-underflow); in
    release the wrapped length makes `truncate` a no-op and a stale `>` stays in the prefix. -/
theorem cm_prefix_underflow_counterexample : cmQuoteItemPrefix 9 = none ∧ cmQuoteItemPrefix 99 = none ∧ cmQuoteItemPrefix 8 = some 0 := by
  decide

/-! ## The formatters' `unwrap()` / `panic!` / index sites on well-shaped trees (from C04)

`C04.noPanicT`, `xmlNoPanicT`, `cmNoPanicT` enumerate the sites of `html.rs`, `xml.rs` and `cm.rs`
whose safety depends on where a node sits (parent/grandparent kinds, cell index against the
table's alignments, a non-empty code literal).  On every tree that satisfies the C04 shape
predicate and is rooted at a document none of them can fire; that parsed trees satisfy `Shape`
is C04's search stage. -/

/-- `html.rs`: `render_paragraph`'s `parent().unwrap()`, `render_table`'s `last_child().unwrap()`,
    `render_table_cell`'s two `unwrap()`s, `panic!` and `alignments[i]`. -/
theorem html_no_panic_of_shape (sp : Sp) (cs : Forest) (h : Shape (.node .document sp cs) = true) :
    C04.noPanicT {} (.node .document sp cs) = true :=
  C04.shape_imp_noPanic_doc sp cs h

/-- `xml.rs`: the table-cell arm's `ancestors.next().unwrap()` (twice) and `alignments[ix]`. -/
theorem xml_no_panic_of_shape (sp : Sp) (cs : Forest) (h : Shape (.node .document sp cs) = true) :
    xmlNoPanicT {} (.node .document sp cs) = true :=
  C04.xml_no_panic _ h rfl

/-- `cm.rs`: `format_item`'s `parent().unwrap()`/`unreachable!()`, `format_code`'s `literal[0]`
    (needs the non-empty literal the inline parser guarantees, `normalizeCode_nonempty` above),
    `format_table_cell`'s `unwrap()`s and `panic!()`s. -/
theorem cm_no_panic_of_shape (sp : Sp) (cs : Forest) (h : Shape (.node .document sp cs) = true)
    (hc : Tree.allV codeLitNonEmpty (.node .document sp cs) = true) :
    cmNoPanicT {} (.node .document sp cs) = true :=
  C04.cm_no_panic _ h rfl hc

/-! Non-vacuity -/
example : shortestUnused [0x61, 0x60, 0x62, 0x60, 0x60, 0x60] 0x60 = 2 := by decide
example : runs 0x60 [0x61, 0x60, 0x62, 0x60, 0x60, 0x60] = [1, 3] := by decide
example : spxConsumeAll [⟨1, 1, 1, 4, 4⟩, ⟨1, 5, 1, 5, 3⟩, ⟨1, 6, 1, 9, 4⟩] [2, 2, 3, 1] =
    some ([2, 4, 5, 6], [⟨1, 7, 1, 9, 3⟩]) := by decide
example : numericEntity [0x23, 0x78, 0x32, 0x32, 0x3B] = .hit 0x22 5 := by decide
example : numericEntity [0x23, 0x39, 0x39, 0x39, 0x39, 0x39, 0x39, 0x39, 0x3B] = .hit 0xFFFD 9 := by decide
example : normalizeCode [0x20, 0x61, 0x0D, 0x0A, 0x62, 0x20] = [0x61, 0x20, 0x62] := by decide
example : chopHashtags [0x61, 0x20, 0x23, 0x23, 0x20] = some [0x61] := by decide
example : removeTrailingBlankLines [0x61, 0x0A, 0x20, 0x0A, 0x0A] = some [0x61] := by decide
example : numDigits 123 + 1 = numDigits 124 + 1 ∧ cmQuoteItemPrefix 123 = some 0 := by decide

example : C04.noPanicT {} Comrak.C10.sampleTree = true := C04.shape_imp_noPanic _ (by decide) (by decide)

end Comrak.C01
