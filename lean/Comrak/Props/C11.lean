/-
C11  Source positions lie inside the source and nest consistently.
Theorems about the oracles the search stage executes (so that a verdict of the oracle means what it
says) and about the models of the position mechanisms of the block parser.
-/
import Comrak.Lemmas.Sourcepos
namespace Comrak.C11
open Comrak Bytes

/-! ## The oracles are trustworthy -/

/-- The lines (with their terminators) partition the source: nothing is lost or invented. -/
theorem lineTable_covers (s : Bytes) : joinLines (splitLines s) = s := by
  induction s with
  | nil => rfl
  | cons b r ih =>
    simp only [splitLines]
    split
    · subst_vars; simp [joinLines, ih]
    · split
      · split
        · rename_i h1 h2 c r' l t ls heq
          split
          · subst_vars
            rw [heq] at ih
            have hl : l = [] := by
              simp only [splitLines] at heq
              simp only [if_true, List.cons.injEq, Prod.mk.injEq] at heq
              exact heq.1.1.symm
            subst hl
            simp only [joinLines, List.nil_append, List.cons_append] at ih ⊢
            rw [ih]
          · subst_vars; simp [joinLines, ih]
        · subst_vars; simp [joinLines, ih]
      · split
        · rename_i heq
          rw [heq] at ih
          simp only [joinLines] at ih
          simp [joinLines, ← ih]
        · rename_i heq
          rw [heq] at ih
          simp only [joinLines, List.append_assoc] at ih ⊢
          simp [← ih]

/-- Nesting is a pre-order: a grandchild inside a child inside a parent is inside the parent. -/
theorem spNested_trans (a b c : Sp) (h1 : spNested a b = true) (h2 : spNested b c = true) :
    spNested a c = true := by
  simp only [spNested, Bool.and_eq_true] at *
  exact ⟨posLe_trans h1.1 h2.1, posLe_trans h2.2 h1.2⟩

theorem spNested_refl (a : Sp) : spNested a a = true := by
  simp [spNested, posLe_refl]

/-- Sibling order composes: if `a` ends before `b` starts, `b` does not start after it ends, and `b`
    ends before `c` starts, then `a` ends before `c` starts. -/
theorem spOrdered_trans (a b c : Sp) (h1 : spOrdered a b = true)
    (hb : posLe b.sl b.sc b.el b.ec = true) (h2 : spOrdered b c = true) : spOrdered a c = true := by
  simp only [spOrdered] at *
  exact posLt_of_lt_le h1 (posLe_trans hb (by
    simp only [posLe, posLt, Bool.or_eq_true, Bool.and_eq_true, decide_eq_true_eq] at *; omega))

/-- Children of ordered siblings are ordered too (what makes the per-level check sufficient). -/
theorem spOrdered_of_nested (p q x y : Sp) (h : spOrdered p q = true) (hx : spNested p x = true)
    (hy : spNested q y = true) : spOrdered x y = true := by
  simp only [spOrdered, spNested, Bool.and_eq_true] at *
  exact posLt_of_lt_le (posLt_of_le_lt hx.2 h) hy.1

/-- A position accepted by the range oracle has its lines inside the table and a positive start column. -/
theorem spInRange_sound (lt : List LineEnt) (sp : Sp) (h : spInRange lt sp = true) :
    1 ≤ sp.sl ∧ sp.sl ≤ sp.el ∧ sp.el ≤ lt.length ∧ 1 ≤ sp.sc ∧ spStartLeEnd sp = true := by
  unfold spInRange spRangeFail at h
  split at h
  · simp at h
  · split at h
    · simp at h
    · split at h
      · simp at h
      · split at h
        · simp at h
        · rename_i h1 h2 h3 h4
          simp only [Bool.not_eq_eq_eq_not, Bool.not_true] at h1 h2 h3 h4
          simp only [Bool.not_eq_false] at h1 h2 h4
          simp only [spLinesOk, Bool.and_eq_true, decide_eq_true_eq] at h1
          have hs : 1 ≤ sp.sc := by
            unfold spStartColOk at h2
            split at h2
            · simp only [Bool.and_eq_true, decide_eq_true_eq] at h2; exact h2.1
            · simp at h2
          exact ⟨h1.1.1, h1.1.2, h1.2, hs, h4⟩

/-! ## Mechanism: `Spx::consume` -/

/-- Bytes are conserved: what is consumed plus what stays queued is what was queued. -/
theorem spx_consume_conserves (q : SpxQ) (rem c : Nat) (q' : SpxQ)
    (h : spxConsume q rem = some (c, q')) : spxBytes q' + rem = spxBytes q := by
  induction q generalizing rem with
  | nil => simp [spxConsume] at h
  | cons e q ih =>
    obtain ⟨sp, x⟩ := e
    simp only [spxConsume] at h
    split at h
    · have := ih _ h
      simp only [spxBytes_cons]; omega
    · split at h
      · simp only [Option.some.injEq, Prod.mk.injEq] at h
        obtain ⟨_, rfl⟩ := h
        simp only [spxBytes_cons]; omega
      · simp only [Option.some.injEq, Prod.mk.injEq] at h
        obtain ⟨_, rfl⟩ := h
        simp only [spxBytes_cons]; omega

/-- On a queue of exact spans (every element covers exactly its byte count on one line) `consume`
    never panics while bytes remain, the column it returns lies inside the span of the element it
    stops in, and the queue stays exact. -/
theorem spx_consume_in_span (q : SpxQ) (rem : Nat) (hq : spxExact q) (hr : rem ≤ spxBytes q)
    (hpos : 1 ≤ rem) :
    ∃ c q', spxConsume q rem = some (c, q') ∧ spxExact q' ∧
      ∃ e ∈ q, e.1.sc ≤ c ∧ c ≤ e.1.ec := by
  induction q generalizing rem with
  | nil => simp [spxBytes] at hr; omega
  | cons e q ih =>
    obtain ⟨sp, x⟩ := e
    have he : sp.ec + 1 = sp.sc + x ∧ 1 ≤ x := hq (sp, x) (by simp)
    have hq' : spxExact q := fun e he => hq e (by simp [he])
    simp only [spxBytes_cons] at hr
    simp only [spxConsume]
    by_cases h1 : rem > x
    · simp only [h1, if_true]
      obtain ⟨c, q', h, hx, e, hm, hc⟩ := ih (rem - x) hq' (by omega) (by omega)
      exact ⟨c, q', h, hx, e, by simp [hm], hc⟩
    · simp only [h1, if_false]
      by_cases h2 : rem = x
      · simp only [h2, if_true]
        refine ⟨sp.ec, q, rfl, hq', (sp, x), by simp, ?_, Nat.le_refl _⟩
        show sp.sc ≤ sp.ec
        omega
      · simp only [h2, if_false]
        have h3 : min (sp.sc + rem) (sp.ec + 1) = sp.sc + rem := by omega
        simp only [h3]
        refine ⟨sp.sc + rem - 1, _, rfl, ?_, (sp, x), by simp, ?_, ?_⟩
        · intro e' hm
          simp only [List.mem_cons] at hm
          rcases hm with rfl | hm
          · show sp.ec + 1 = (sp.sc + rem) + (x - rem) ∧ 1 ≤ x - rem
            omega
          · exact hq' e' hm
        · show sp.sc ≤ sp.sc + rem - 1
          omega
        · show sp.sc + rem - 1 ≤ sp.ec
          omega

/-- Every queued element is a well-formed (possibly empty) range. -/
def spxWf (q : SpxQ) : Prop := ∀ e ∈ q, e.1.sc ≤ e.1.ec + 1

/-- For EVERY well-formed queue - exact or not - `consume` does not panic while bytes remain, the
    column it returns lies within the range of the element it stops in (`sc - 1 ≤ c ≤ ec`, the
    lower bound being the "nothing consumed" answer), and the queue stays well-formed. On the pinned
    tree the inexact case was an `assert!` (repaired in /repo). -/
theorem spx_consume_in_range (q : SpxQ) (rem : Nat) (hq : spxWf q) (hr : rem ≤ spxBytes q) (hne : q ≠ []) :
    ∃ c q', spxConsume q rem = some (c, q') ∧ spxWf q' ∧
      ∃ e ∈ q, e.1.sc ≤ c + 1 ∧ c ≤ e.1.ec := by
  induction q generalizing rem with
  | nil => exact absurd rfl hne
  | cons e q ih =>
    obtain ⟨sp, x⟩ := e
    have he : sp.sc ≤ sp.ec + 1 := hq (sp, x) (by simp)
    have hq' : spxWf q := fun e he => hq e (by simp [he])
    simp only [spxBytes_cons] at hr
    simp only [spxConsume]
    by_cases h1 : rem > x
    · simp only [h1, if_true]
      have hne' : q ≠ [] := by
        intro h; subst h; simp [spxBytes] at hr; omega
      obtain ⟨c, q', h, hx, e, hm, hc⟩ := ih (rem - x) hq' (by omega) hne'
      exact ⟨c, q', h, hx, e, by simp [hm], hc⟩
    · simp only [h1, if_false]
      by_cases h2 : rem = x
      · simp only [h2, if_true]
        exact ⟨sp.ec, q, rfl, hq', (sp, x), by simp, he, Nat.le_refl _⟩
      · simp only [h2, if_false]
        refine ⟨_, _, rfl, ?_, (sp, x), by simp, ?_, ?_⟩
        · intro e' hm
          simp only [List.mem_cons] at hm
          rcases hm with rfl | hm
          · show min (sp.sc + rem) (sp.ec + 1) ≤ sp.ec + 1
            omega
          · exact hq' e' hm
        · show sp.sc ≤ min (sp.sc + rem) (sp.ec + 1) - 1 + 1
          omega
        · show min (sp.sc + rem) (sp.ec + 1) - 1 ≤ sp.ec
          omega

/-! ## Mechanism: the end position chosen by `finalize_borrowed` -/

/-- **Under its hypothesis** the three-way rule never puts the end before the start: at end of input
    and on the block's own terminator line the end is on the current line (at or after the line the
    block started on); when a later line fails to continue the block, the block started on an
    earlier line. -/
theorem blockEnd_after_start (ctx : CloseCtx) (startLine lineNumber curEnd lastLen : Nat)
    (hs : startLine ≤ lineNumber)
    (hyp : ctx = .laterLine → startLine < lineNumber) :
    startLine ≤ (blockEnd ctx lineNumber curEnd lastLen).1 := by
  cases ctx <;> simp only [blockEnd]
  · exact hs
  · exact hs
  · have := hyp rfl; omega

/-- Without the hypothesis the rule fails: a block that is finalized while its own opening line is
    still being processed (an HTML block of types 1-5 whose end condition is met on that line) and
    that is not one of the "own line" kinds gets `end = (line - 1, previous line's length)`.
    `<!-- x -->` as the whole input: line 1, nothing before it -> end `0:0`. -/
theorem blockEnd_counterexample :
    ∃ startLine lineNumber curEnd lastLen, startLine ≤ lineNumber ∧
      ¬ startLine ≤ (blockEnd .laterLine lineNumber curEnd lastLen).1 :=
  ⟨1, 1, 10, 0, by decide, by decide⟩

/-- The end column a thematic break is given when it is opened is the last byte of its line, in
    every container (repaired in /repo; `finalize_borrowed` no longer replaces it). -/
theorem thematicEnd_exact (lineLen : Nat) : thematicEndCode lineLen = thematicEndSpec lineLen := rfl

/-- The pinned computation was exact only at container offset 0. -/
theorem thematicEnd_old_exact_iff (lineLen offset : Nat) (h : offset + 1 ≤ lineLen) :
    thematicEndOld lineLen offset = thematicEndSpec lineLen ↔ offset = 0 := by
  simp only [thematicEndOld, thematicEndSpec]; omega

/-- `1. ---` (7 bytes with the LF, offset 3): the pinned tree answered column 3, the line ends at 6. -/
theorem thematicEnd_old_counterexample : thematicEndOld 7 3 = 3 ∧ thematicEndSpec 7 = 6 := by decide

/-! Non-vacuity -/
example : spNested { sl := 1, sc := 1, el := 4, ec := 0 } { sl := 3, sc := 5, el := 3, ec := 5 } = true := by decide
example : lineTable [0x61, 0x0D, 0x0A, 0x62, 0x0D, 0x63, 0x0A, 0x0A, 0x64] = [(0, 1), (3, 1), (5, 1), (7, 0), (8, 1)] := by
  decide
example : spInRange (lineEnts [0x61, 0x0A, 0x0A]) { sl := 1, sc := 1, el := 2, ec := 0 } = true := by decide
example : spInRange (lineEnts [0x61, 0x0A]) { sl := 1, sc := 1, el := 0, ec := 0 } = false := by decide
example : spxExact [({ sl := 1, sc := 1, el := 1, ec := 3 }, 3), ({ sl := 1, sc := 4, el := 1, ec := 4 }, 1)] := by
  intro e he; simp at he; rcases he with rfl | rfl <;> decide
example : spxConsume [({ sl := 1, sc := 1, el := 1, ec := 3 }, 3), ({ sl := 1, sc := 4, el := 1, ec := 4 }, 1)] 2
    = some (2, [({ sl := 1, sc := 3, el := 1, ec := 3 }, 1), ({ sl := 1, sc := 4, el := 1, ec := 4 }, 1)]) := by decide

end Comrak.C11
