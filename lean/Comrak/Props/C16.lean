/-
C16  The command-line tool renders exactly what the library renders.

`cliToOptions` models the builder calls of src/main.rs; `documented` is written from the help text only.
The correspondence harness (harness/src/c16.rs) ties `parseArgs`/`cliWithConfig`/`cliToOptions`/`chosen*`
to the real binary built from the working tree on every run.
-/
import Comrak.Lemmas.Cli
namespace Comrak.C16
open Comrak Bytes Comrak.Cli

/-- **The wiring is the documentation**, for every value of the `Cli` record (2^17 flag settings x every
    extension list x every value of the valued options). -/
theorem cli_matches_documentation : ∀ c : Cli, cliToOptions c = documented c := by
  intro c
  unfold documented expandGfm
  by_cases hg : c.gfm = true
  · simp [hg, cliToOptions, documentedFlags, foldl_enableExt, gfmExtensions, enableExt]
  · simp [hg, cliToOptions, documentedFlags, foldl_enableExt]

/-- `--gfm` turns on exactly strikethrough, tagfilter, table, autolink, tasklist, github_pre_lang and
    gfm_quirks ... -/
theorem gfm_bundle (c : Cli) (h : c.gfm = true) :
    let o := cliToOptions c
    o.extension.strikethrough = true ∧ o.extension.tagfilter = true ∧ o.extension.table = true ∧
    o.extension.autolink = true ∧ o.extension.tasklist = true ∧
    o.render.githubPreLang = true ∧ o.render.gfmQuirks = true := by
  simp [cliToOptions, h]

/-- ... and nothing else: with `--gfm` the options are those of the same command line with the bundle
    spelled out instead. -/
theorem gfm_is_shorthand (c : Cli) (h : c.gfm = true) :
    cliToOptions c =
      cliToOptions { c with gfm := false, extensions := c.extensions ++ gfmExtensions,
                            githubPreLang := true, gfmQuirks := true } := by
  simp [cliToOptions, h, gfmExtensions]

/-- Without `--gfm` the options are those of the individual flags. -/
theorem flags_one_to_one (c : Cli) (h : c.gfm = false) : cliToOptions c = documentedFlags c := by
  rw [cli_matches_documentation]; simp [documented, expandGfm, h]

/-- An extension is on exactly when it was named (`-e`) or belongs to the `--gfm` bundle and `--gfm` was
    given - for each of the 18 extension names. -/
theorem extension_on_iff (c : Cli) (e : Ext) :
    getExt (cliToOptions c).extension e =
      (c.extensions.contains e || (c.gfm && gfmExtensions.contains e)) := by
  cases e <;> simp [getExt, cliToOptions, gfmExtensions]

/-- The three library options without a flag stay at the library default, whatever the command line. -/
theorem unflagged_options_default (c : Cli) :
    (cliToOptions c).render.preferFenced = false ∧ (cliToOptions c).render.figureWithCaption = false ∧
    (cliToOptions c).render.olWidth = 0 := by
  simp [cliToOptions]

/-- No flags at all = `Options::default()`. -/
theorem defaults (p : Bytes) : cliToOptions (Cli.default p) = {} := by
  simp [cliToOptions, Cli.default]

/-- The config-file words come *after* the real arguments, and no argument is lost, whatever its
    encoding (arguments are byte strings here: `OsString`s). Full strength since /repo commit f3c2040. -/
theorem mergeConfig_eq_append (env cfg : List Bytes) :
    mergeConfig env cfg = env ++ cfg ∧ (mergeConfig env cfg).length = env.length + cfg.length := by
  simp [mergeConfig]

/-- An empty config file changes nothing. -/
theorem mergeConfig_nil (env : List Bytes) : mergeConfig env [] = env := by
  simp [mergeConfig]

/-- The pinned splice (by index, skipping non-Unicode arguments) agreed with this on Unicode arguments. -/
theorem mergeConfigOld_eq_append_partial (env cfg : List Bytes) :
    mergeConfigOld (env.map some) cfg = some (mergeConfig env cfg) := by
  have := mergeLoop_all_some env [] cfg
  simpa [mergeConfigOld, mergeConfig] using this

/-- The pinned splice was only right when every argument is valid Unicode: a non-Unicode file argument
    was silently dropped when a config file was read (`comrak --smart <non-unicode>` + empty config
    file: standard input was rendered instead of the file) ... -/
theorem mergeConfigOld_non_unicode_counterexample :
    mergeConfigOld [some [0x63], some [0x2D, 0x2D, 0x73], none] [] = some [[0x63], [0x2D, 0x2D, 0x73]] := by
  decide

/-- ... and when another argument followed it, `Vec::insert` was called past the end: the process
    panicked (`comrak <non-unicode> a` + empty config file). Repaired in /repo commit f3c2040. -/
theorem mergeConfigOld_panic_counterexample :
    mergeConfigOld [some [0x63], none, some [0x61]] [] = none := by decide

/-- Formatter and highlighter: `--inplace` forces CommonMark; syntect is used exactly for HTML output
    (not in place) with a theme other than `""` / `none`. -/
theorem formatter_choice (c : Cli) :
    chosenFormat c = (if c.inplace then Format.commonmark else c.format) ∧
    ((chosenHighlighter c).isSome ↔
       (chosenFormat c = .html ∧ c.syntaxHighlighting ≠ [] ∧ c.syntaxHighlighting ≠ N.none)) ∧
    (∀ t, chosenHighlighter c = some t → t = c.syntaxHighlighting) := by
  refine ⟨rfl, ?_, ?_⟩
  · unfold chosenHighlighter chosenFormat
    by_cases h1 : c.syntaxHighlighting = [] <;> by_cases h2 : c.syntaxHighlighting = N.none <;>
      by_cases h3 : c.inplace = true <;> cases hf : c.format <;> simp [h1, h2, h3]
  · intro t
    unfold chosenHighlighter
    by_cases h1 : c.syntaxHighlighting = [] <;> by_cases h2 : c.syntaxHighlighting = N.none <;>
      by_cases h3 : c.inplace = true <;> cases hf : c.format <;> simp [h1, h2, h3] <;>
      exact fun h => h.symm

/-- Sink: `--output` wins; `--inplace` (accepted only with exactly one file) rewrites that file;
    otherwise stdout. -/
theorem sink_choice (c : Cli) :
    (∀ p, c.output = some p → chosenSink c = .file p) ∧
    (c.output = none → c.inplace = false → chosenSink c = .stdout) ∧
    (∀ f, c.output = none → c.inplace = true → c.files = some [f] → chosenSink c = .file f) ∧
    (c.inplace = true → (checkInplace c = none ↔ ∃ f, c.files = some [f])) := by
  refine ⟨?_, ?_, ?_, ?_⟩
  · intro p h; simp [chosenSink, h]
  · intro h1 h2; simp [chosenSink, h1, h2]
  · intro f h1 h2 h3; simp [chosenSink, h1, h2, h3]
  · intro h
    unfold checkInplace
    simp only [h, if_true]
    cases hf : c.files with
    | none => simp
    | some l =>
      cases l with
      | nil => simp
      | cons a t => cases t <;> simp

/-- All inputs readable: the buffer handed to the parser is the concatenation of the files in
    command-line order (stdin when there is no file argument). -/
theorem inputs_concatenated (w : World) (content : Bytes → Bytes) (fs : List Bytes)
    (h : ∀ f ∈ fs, w.file f = some (content f)) :
    readInputs w (some fs) = .ok (fs.map content).flatten ∧ readInputs w none = .ok w.stdin := by
  constructor
  · simpa [readInputs] using readFiles_ok w fs [] content h
  · rfl

/-- The first file that cannot be opened aborts the run with exit 3, whatever follows it. -/
theorem unreadable_file_exit3 (L : Lib) (w : World) (c : Cli) (pre post : List Bytes) (f : Bytes)
    (hin : checkInplace c = none) (hfiles : c.files = some (pre ++ f :: post))
    (hpre : ∀ g ∈ pre, (w.file g).isSome) (hf : w.file f = none) :
    execute L w c = .fail 3 := by
  simp [execute, hin, hfiles, readInputs, readFiles_unreadable w pre f post [] hpre hf]

/-- **The property at model level.** A run whose inputs are readable and valid UTF-8 exits 0 silently
    and delivers, to the chosen sink only, exactly what the library renders for the concatenated input
    under the *documented* options. -/
theorem cli_renders_library (L : Lib) (w : World) (c : Cli) (s : Bytes)
    (hin : checkInplace c = none) (hread : readInputs w c.files = .ok s) (hutf : L.validUtf8 s = true) :
    let out := L.render (documented c) (chosenFormat c) (chosenHighlighter c) s
    execute L w c =
      match chosenSink c with
      | .stdout => { exit := 0, stdout := out, written := none, message := false }
      | .file p => { exit := 0, stdout := [], written := some (p, out), message := false } := by
  cases hs : chosenSink c <;> simp [execute, hin, hread, hutf, hs, cli_matches_documentation]

/-- Invalid UTF-8 input: exit 1. -/
theorem invalid_utf8_exit1 (L : Lib) (w : World) (c : Cli) (s : Bytes)
    (hin : checkInplace c = none) (hread : readInputs w c.files = .ok s) (hutf : L.validUtf8 s = false) :
    execute L w c = .fail 1 := by
  simp [execute, hin, hread, hutf]

/-- Every failing run (whatever the reason) has a message, an empty stdout and writes no file:
    never partial output. -/
theorem failure_leaves_no_output (L : Lib) (w : World) (c : Cli) (h : (execute L w c).exit ≠ 0) :
    (execute L w c).stdout = [] ∧ (execute L w c).written = none ∧ (execute L w c).message = true := by
  unfold execute at h ⊢
  cases h1 : checkInplace c with
  | some code => simp [Result.fail]
  | none =>
    cases h2 : readInputs w c.files with
    | error e => simp [Result.fail]
    | ok s =>
      by_cases h3 : L.validUtf8 s = true
      · simp only [h1, h2, h3, if_true] at h
        cases h4 : chosenSink c <;> simp [h4] at h
      · simp [h3, Result.fail]

/-- The only exit codes of a completed run are 0, 1 (invalid UTF-8), 3 (unreadable file), 4 (`--inplace`
    without exactly one file); with argument errors (2) these are all exits of `mainModel`. -/
theorem exit_codes (L : Lib) (w : World) (c : Cli) : (execute L w c).exit ∈ [0, 1, 3, 4] := by
  unfold execute
  cases h1 : checkInplace c with
  | some code =>
    have : code = 4 := by
      unfold checkInplace at h1
      split at h1
      · split at h1 <;> simp_all
      · simp at h1
    simp [Result.fail, this]
  | none =>
    cases h2 : readInputs w c.files with
    | error e => simp [Result.fail]
    | ok s =>
      by_cases h3 : L.validUtf8 s = true
      · cases h4 : chosenSink c <;> simp [h3]
      · simp [h3, Result.fail]

/-- `--config-file none` (or a config file that cannot be read): the command line alone decides. -/
theorem config_none (p : Bytes) (cfgFs : ConfigFs) (argv : List Bytes) (c : Cli)
    (h : parseArgs p argv = .ok c) (hn : c.configFile = N.none ∨ cfgFs c.configFile = none) :
    cliWithConfig p cfgFs argv = .ok c := by
  unfold cliWithConfig
  rcases hn with hn | hn
  · simp [h, hn]
  · by_cases h1 : c.configFile = N.none <;> simp [h, hn, h1]

/-- A readable config file: its words are parsed as if typed after the real arguments. -/
theorem config_appended (p : Bytes) (cfgFs : ConfigFs) (argv words : List Bytes) (c : Cli)
    (h : parseArgs p argv = .ok c) (hn : c.configFile ≠ N.none) (hw : cfgFs c.configFile = some (some words)) :
    cliWithConfig p cfgFs argv = parseArgs p (argv ++ words) := by
  simp [cliWithConfig, h, hn, hw, mergeConfig]

/-! ## Non-vacuity: concrete command lines through the parser model -/

/-- `comrak --gfm -e footnotes,alerts --width 72 -t xml a.md` -/
example :
    parseArgs N.none
      [[0x63], [0x2D, 0x2D] ++ N.gfm, [0x2D, 0x65], N.footnotes ++ [0x2C] ++ N.alerts,
       [0x2D, 0x2D] ++ N.width, [0x37, 0x32], [0x2D, 0x74], N.xml, [0x61, 0x2E, 0x6D, 0x64]] =
    .ok { configFile := N.none, gfm := true, extensions := [.footnotes, .alerts], width := 72,
          format := .xml, files := some [[0x61, 0x2E, 0x6D, 0x64]] } := by decide

/-- ... and the options it yields: the bundle plus the two named extensions, nothing else. -/
example :
    (cliToOptions { configFile := N.none, gfm := true, extensions := [.footnotes, .alerts], width := 72 }) =
    { extension := { strikethrough := true, tagfilter := true, table := true, autolink := true,
                     tasklist := true, footnotes := true, alerts := true },
      render := { githubPreLang := true, gfmQuirks := true, width := 72 } } := by decide

/-- `--smart --smart` is rejected (exit 2), as is `--inplace -o x f`. -/
example : parseArgs N.none [[0x63], [0x2D, 0x2D] ++ N.smart, [0x2D, 0x2D] ++ N.smart] = .error .usage := by
  decide
example : parseArgs N.none [[0x63], [0x2D, 0x69], [0x2D, 0x6F], [0x78], [0x66]] = .error .usage := by decide

/-- A flag on the command line and again in the config file: rejected (outside the property's
    quantifier, which ranges over *subsets* split between the two). -/
example :
    cliWithConfig N.none (fun _ => some (some [[0x2D, 0x2D] ++ N.smart]))
      [[0x63], [0x2D, 0x63], [0x66], [0x2D, 0x2D] ++ N.smart] = .error .usage := by decide

/-- `--inplace` of one file: CommonMark, no highlighter, written to that file. -/
example :
    let c : Cli := { configFile := N.none, inplace := true, files := some [[0x66]] }
    checkInplace c = none ∧ chosenFormat c = .commonmark ∧ chosenHighlighter c = none ∧
    chosenSink c = .file [0x66] := by decide

/-- Default run: HTML with the default theme to stdout; `--syntax-highlighting none` switches it off. -/
example :
    chosenHighlighter (Cli.default N.none) = some N.base16_ocean_dark ∧
    chosenHighlighter { Cli.default N.none with syntaxHighlighting := N.none } = none ∧
    chosenHighlighter { Cli.default N.none with format := .xml } = none := by decide

/-- Two files are concatenated in order. -/
example :
    readInputs { file := fun p => if p = [1] then some [0x61] else if p = [2] then some [0x62] else none,
                 stdin := [] } (some [[1], [2], [1]]) = .ok [0x61, 0x62, 0x61] := by decide

/-- A run over a toy library (render = tag byte ++ input): success and the three failures. -/
example :
    let L : Lib := { validUtf8 := fun s => !s.contains 0xFF, render := fun _ _ _ s => 0x3E :: s }
    let w : World := { file := fun p => if p = [1] then some [0x61] else if p = [2] then some [0xFF] else none,
                       stdin := [0x7A] }
    execute L w { configFile := N.none } = { exit := 0, stdout := [0x3E, 0x7A], written := none, message := false } ∧
    execute L w { configFile := N.none, files := some [[1]], output := some [9] } =
      { exit := 0, stdout := [], written := some ([9], [0x3E, 0x61]), message := false } ∧
    execute L w { configFile := N.none, files := some [[1], [2]] } = .fail 1 ∧
    execute L w { configFile := N.none, files := some [[1], [3]] } = .fail 3 ∧
    execute L w { configFile := N.none, inplace := true } = .fail 4 := by decide

end Comrak.C16
