/-
C13  Extensions are inert on documents that do not use their syntax.

Property theorems only.  The tables are the REAL ones (regenerated from `Subject::new` before every
proof stage, `Comrak/Generated/SpecialChars.lean`); `trigger` is written from the documentation
(`Comrak/Features.lean`); the dispatch and the consultation sites are hand-written models of
src/parser/inlines.rs and src/parser/mod.rs (`Comrak/Inline/Dispatch.lean`, `Comrak/Inline/Sites.lean`).
-/
import Comrak.Lemmas.Dispatch
import Comrak.Lemmas.Sites
import Comrak.Props.C19
import Comrak.Html
namespace Comrak.C13
open Comrak Bytes

/-! ### The regenerated tables -/

/-- Switching feature `F` on changes `special_chars` at most at `F`'s trigger bytes
    (re-proved over the regenerated tables on every run). -/
theorem tables_differ_only_at_triggers (o : Opts) (F : Feature) (c : UInt8) (h : trigger F c = false) :
    special (o.enable F) c = special o c := by
  have hk := tablesOk_opts o F
  simp only [tablesOk, Bool.and_eq_true] at hk
  rw [trigger_eq_testBit] at h
  simp only [special, specialMask, Opts.tab_enable]
  exact agreeOutside_testBit _ _ _ _ hk.1.1 c.toNat_lt h

theorem skip_differs_only_at_triggers (o : Opts) (F : Feature) (c : UInt8) (h : trigger F c = false) :
    skip (o.enable F) c = skip o c := by
  have hk := tablesOk_opts o F
  simp only [tablesOk, Bool.and_eq_true] at hk
  rw [trigger_eq_testBit] at h
  simp only [skip, skipMask, Opts.tab_enable]
  exact agreeOutside_testBit _ _ _ _ hk.1.2 c.toNat_lt h

theorem smart_differs_only_at_triggers (o : Opts) (F : Feature) (c : UInt8) (h : trigger F c = false) :
    smartT (o.enable F) c = smartT o c := by
  have hk := tablesOk_opts o F
  simp only [tablesOk, Bool.and_eq_true] at hk
  rw [trigger_eq_testBit] at h
  simp only [smartT, smartMask, Opts.tab_enable]
  exact agreeOutside_testBit _ _ _ _ hk.2 c.toNat_lt h

/-- `smart_chars` never holds a byte outside smart's documented trigger set. -/
theorem smart_table_within_triggers (o : Opts) (c : UInt8) (h : smartT o c = true) :
    trigger .smart c = true := by
  have hk : smartOk o.tab = true := by
    cases hh : o.tab with
    | mk a b c d e f g => exact smartOk_all a b c d e f g
  simp only [smartOk, Bool.and_eq_true, beq_iff_eq, decide_eq_true_eq] at hk
  rw [trigger_eq_testBit]
  have h1 := congrArg (fun x => x.testBit c.toNat) hk.1
  simp only [Nat.testBit_and, Nat.testBit_xor, Nat.testBit_two_pow_sub_one, Nat.zero_testBit,
    c.toNat_lt, decide_true] at h1
  simp only [smartT, smartMask] at h
  rw [h] at h1
  simpa using h1

/-- The tables depend on no option other than the seven bits they are indexed by. -/
theorem tables_fed_by_seven_options : othersOk = true := othersOk_holds

/-! ### The dispatch of `parse_inline` -/

theorem stops_inert (o : Opts) (F : Feature) (wb : Bool) (c : UInt8) (h : trigger F c = false) :
    stops (o.enable F) wb c = stops o wb c := by
  simp only [stops, tables_differ_only_at_triggers o F c h, smart_differs_only_at_triggers o F c h]
  by_cases hF : F = .smart
  · subst hF
    have : smartT o c = false := by
      cases hs : smartT o c with
      | false => rfl
      | true => rw [smart_table_within_triggers o c hs] at h; exact absurd h (by decide)
    simp [this]
  · have : (o.enable F).smart = o.smart := by cases F <;> first | rfl | exact absurd rfl hF
    rw [this]

/-- A byte that is not a trigger of `F` selects the same branch of `parse_inline`, with the same
    option bits handed to that branch, whether or not `F` is on. -/
theorem arm_inert (o : Opts) (F : Feature) (wb : Bool) (c : UInt8) (h : trigger F c = false) :
    arm (o.enable F) wb c = arm o wb c := by
  cases F <;>
    simp only [trigger, triggerBytes, List.contains_cons, List.contains_nil, Bool.or_false,
      Bool.or_eq_false_iff, beq_eq_false_iff_ne, ne_eq] at h <;>
    simp [arm, Opts.enable, Opts.wikilinks, h]

/-- `find_special_char` returns the same position with `F` on or off when the scanned input has no
    trigger byte of `F`. -/
theorem findSpecialChar_inert (o : Opts) (F : Feature) (wb : Bool) (s : Bytes) (p : Nat)
    (h : triggerFree F s = true) :
    findSpecialChar (o.enable F) wb s p = findSpecialChar o wb s p := by
  have key : ∀ (l : Bytes) (n : Nat), triggerFree F l = true →
      findFrom (o.enable F) wb l n = findFrom o wb l n := by
    intro l
    induction l with
    | nil => intros; rfl
    | cons c r ih =>
      intro n hl
      simp only [triggerFree, List.all_cons, Bool.and_eq_true, Bool.not_eq_eq_eq_not, Bool.not_true] at hl
      simp only [findFrom, stops_inert o F wb c hl.1]
      rw [ih (n + 1) (by simpa [triggerFree] using hl.2)]
  simp only [findSpecialChar]
  split
  · apply key
    simp only [triggerFree, List.all_eq_true] at h ⊢
    intro x hx
    exact h x (List.mem_of_mem_drop hx)
  · rfl

/-- Where the scan stops is the only thing the tables decide about a text run; how the run is cut into
    `Text` nodes is invisible in the output: two adjacent text runs are written exactly as their
    concatenation (`Text` is written through `escape`, and `escape` is a homomorphism: C19). -/
theorem text_run_split_invisible (a b : Bytes) :
    spell [Tok.txt a, Tok.txt b] = spell [Tok.txt (a ++ b)] := by
  simp [spell, Tok.spell, Comrak.C19.escape_append]

/-- The same for any cutting of a run into pieces. -/
theorem text_runs_concat_invisible (runs : List Bytes) :
    spell (runs.map Tok.txt) = spell [Tok.txt runs.flatten] := by
  induction runs with
  | nil => simp [spell, Tok.spell, escape]
  | cons a r ih =>
    have h1 : spell (List.map Tok.txt (a :: r)) = escape a ++ spell (List.map Tok.txt r) := by
      simp [spell, Tok.spell]
    rw [h1, ih]
    simp [spell, Tok.spell, Comrak.C19.escape_append]

/-! ### Consultation sites (`Comrak/Inline/Sites.lean`); catalogue tied to the source by the audit -/

/-! ### Inline consultation sites -/

theorem site_inert_emphasis_eligible (o : Opts) (F : Feature) (c : UInt8) (h : trigger F c = false) :
    siteEmphasisEligible (o.enable F) c = siteEmphasisEligible o c := by
  site_tac F h [siteEmphasisEligible]

theorem site_inert_insert_emph_reject (o : Opts) (F : Feature) (c : UInt8) (a b : Nat)
    (h : trigger F c = false) :
    siteInsertEmphReject (o.enable F) c a b = siteInsertEmphReject o c a b := by
  site_tac F h [siteInsertEmphReject]

theorem site_inert_emph_kind (o : Opts) (F : Feature) (c : UInt8) (n : Nat) (h : trigger F c = false) :
    siteEmphKind (o.enable F) c n = siteEmphKind o c n := by
  site_tac F h [siteEmphKind]

theorem site_inert_handle_delim (o : Opts) (F : Feature) (c : UInt8) (co cc : Bool) (h : trigger F c = false) :
    siteHandleDelim (o.enable F) c co cc = siteHandleDelim o c co cc := by
  site_tac F h [siteHandleDelim]

theorem site_inert_hyphen_period (o : Opts) (F : Feature) (c : UInt8) (n : Bool) (h : trigger F c = false) :
    siteHyphenPeriod (o.enable F) c n = siteHyphenPeriod o c n := by
  site_tac F h [siteHyphenPeriod]

theorem site_inert_dollars (o : Opts) (F : Feature) (c : UInt8) (n : Nat) (b : Bool) (h : trigger F c = false) :
    siteDollars (o.enable F) c n b = siteDollars o c n b := by
  site_tac F h [siteDollars]

theorem site_inert_autolink_with (o : Opts) (F : Feature) (c : UInt8) (wb : Bool) (h : trigger F c = false) :
    siteAutolinkWith (o.enable F) c wb = siteAutolinkWith o c wb := by
  site_tac F h [siteAutolinkWith]

/-- The footnote attempt of `handle_close_bracket` depends on `footnotes` only when the text after the
    opening bracket starts with a trigger of it (`^`). -/
theorem site_inert_close_bracket_footnote (o : Opts) (F : Feature) (a : Option UInt8)
    (h : ∀ c, a = some c → trigger F c = false) :
    siteCloseBracketFootnote (o.enable F) a = siteCloseBracketFootnote o a := by
  cases a with
  | none => cases F <;> simp [siteCloseBracketFootnote, Opts.enable]
  | some c =>
    have hc := h c rfl
    site_tac F hc [siteCloseBracketFootnote]

/-! ### Block consultation sites -/

theorem site_inert_block_quote_start (o : Opts) (F : Feature) (ind : Bool) (c0 c1 : UInt8)
    (h : trigger F c0 = false) :
    siteBlockQuoteStart (o.enable F) ind c0 c1 = siteBlockQuoteStart o ind c0 c1 := by
  site_tac F h [siteBlockQuoteStart]

theorem site_inert_alert (o : Opts) (F : Feature) (ind : Bool) (c0 : UInt8) (s : Bool) (f : Nat)
    (h : trigger F c0 = false) :
    siteAlert (o.enable F) ind c0 s f = siteAlert o ind c0 s f := by
  site_tac F h [siteAlert]

theorem site_inert_multiline_block_quote (o : Opts) (F : Feature) (ind : Bool) (rest : Bytes)
    (h : ∀ c, rest.head? = some c → trigger F c = false) :
    siteMultilineBlockQuote (o.enable F) ind rest = siteMultilineBlockQuote o ind rest := by
  cases hs : scanMultilineFence rest with
  | none => simp [siteMultilineBlockQuote, hs]
  | some n =>
    have hc := h _ (scanMultilineFence_needs_gt rest n hs)
    site_tac F hc [siteMultilineBlockQuote]

/-- The footnote definition opener: `scanners::footnote_definition` needs `[^`, so on a line without
    `^` the outcome does not depend on `footnotes`. -/
theorem site_inert_footnote_definition (o : Opts) (F : Feature) (ind dOk : Bool) (rest : Bytes)
    (h : triggerFree F rest = true) :
    siteFootnoteDefinition (o.enable F) ind dOk rest = siteFootnoteDefinition o ind dOk rest := by
  cases hs : scanFootnoteDefinition rest with
  | none => simp [siteFootnoteDefinition, hs]
  | some n =>
    have hm := scanFootnoteDefinition_needs_caret rest n hs
    simp only [triggerFree, List.all_eq_true] at h
    have hc : trigger F 0x5E = false := by simpa using h _ hm
    cases F <;> first | rfl | exact absurd hc (by decide)

/-- Full-strength statement for the description list opener: false (next theorem). -/
def site_inert_description_list_full : Prop :=
  ∀ (o : Opts) (F : Feature) (ind : Bool) (rest : Bytes) (dOk : Bool), triggerFree F rest = true →
    siteDescriptionList (o.enable F) ind rest dOk = siteDescriptionList o ind rest dOk

/-- `description_item_start` also accepts `~` as the details marker, which the option does not document:
    the line `~ b` has no `:` and still opens a description item. -/
theorem site_inert_description_list_counterexample : ¬ site_inert_description_list_full := by
  intro h
  have := h {} .descriptionLists false [0x7E, 0x20, 0x62] true (by decide)
  revert this
  decide

/-- What does hold: off the undocumented `~` marker the opener is inert. -/
theorem site_inert_description_list_partial (o : Opts) (F : Feature) (ind : Bool) (rest : Bytes) (dOk : Bool)
    (h : triggerFree F rest = true) (hn : rest.head? ≠ some 0x7E) :
    siteDescriptionList (o.enable F) ind rest dOk = siteDescriptionList o ind rest dOk := by
  cases hs : scanDescriptionItemStart rest with
  | none => simp [siteDescriptionList, hs]
  | some n =>
    have hc : trigger F 0x3A = false := by
      cases rest with
      | nil => simp [scanDescriptionItemStart] at hs
      | cons c r =>
        simp only [triggerFree, List.all_cons, Bool.and_eq_true, Bool.not_eq_eq_eq_not, Bool.not_true] at h
        have h7 : c ≠ 0x7E := by simpa using hn
        by_cases h3 : c = 0x3A
        · subst h3; exact h.1
        · simp [scanDescriptionItemStart, h3, h7] at hs
    cases F <;> first | rfl | exact absurd hc (by decide)

/-- The table alternative of `open_new_blocks`, under two facts it does not establish itself:
    `table_start` only matches a line containing `-` (scanner fact), and no table is open (no table was
    ever created on trigger-free input). -/
theorem site_inert_table_open (o : Opts) (F : Feature) (v : TableView) (line : Bytes)
    (h : triggerFree F line = true) (hs : v.startMatches = true → (0x2D : UInt8) ∈ line)
    (hk : v.kind ≠ .table) :
    siteTableOpen (o.enable F) v = siteTableOpen o v := by
  by_cases hF : F = .table
  · subst hF
    have hsm : v.startMatches = false := by
      cases hv : v.startMatches with
      | false => rfl
      | true =>
        have hm := hs hv
        simp only [triggerFree, List.all_eq_true] at h
        have := h _ hm
        revert this; decide
    cases hkind : v.kind <;> simp_all [siteTableOpen, Opts.enable]
  · cases F <;> first | rfl | exact absurd rfl hF

/-- Full-strength statement for the lazy-continuation clause: false (next theorem). -/
def site_inert_lazy_full : Prop :=
  ∀ (o : Opts) (F : Feature) (v : LazyView) (line : Bytes), triggerFree F line = true →
    siteLazyContinuation (o.enable F) v = siteLazyContinuation o v

/-- `greentext` is consulted in `add_text_to_container` without looking at any byte of the line: with
    the document (or a block quote) as last matched container, lazy continuation is switched off on a
    line that has no `>` (here the line is `y`, as in `[^a]: x` / `y` under footnotes). -/
theorem site_inert_lazy_greentext_counterexample : ¬ site_inert_lazy_full := by
  intro h
  have := h {} .greentext
    { currentIsLastMatched := false, containerIsLastMatched := true, blank := false,
      container := .document, currentIsParagraph := true } [0x79] (by decide)
  revert this
  decide

/-- What does hold: every other feature is inert at this clause, and greentext is inert when the last
    matched container is neither the document nor a block quote. -/
theorem site_inert_lazy_partial (o : Opts) (F : Feature) (v : LazyView)
    (h : F ≠ .greentext ∨ (v.container ≠ .document ∧ v.container ≠ .blockQuote)) :
    siteLazyContinuation (o.enable F) v = siteLazyContinuation o v := by
  cases h with
  | inl hF => cases F <;> first | rfl | exact absurd rfl hF
  | inr hc =>
    have h1 : (v.container == ContainerKind.document) = false := by simpa using hc.1
    have h2 : (v.container == ContainerKind.blockQuote) = false := by simpa using hc.2
    cases F <;> first | rfl | simp [siteLazyContinuation, Opts.enable, h1, h2]

/-- `process_footnotes` changes nothing when no definition and no reference node exists. -/
theorem site_inert_process_footnotes (o : Opts) (F : Feature) :
    siteProcessFootnotes (o.enable F) 0 0 = siteProcessFootnotes o 0 0 := by
  simp [siteProcessFootnotes]

/-- The task list pass looks at node text; it depends on `tasklist` / `relaxed_tasklist_matching` only
    when that text contains `[`.  (Node text is the text after entity decoding: see the known finding.) -/
theorem site_inert_tasklist (o : Opts) (F : Feature) (text : Bytes) (h : triggerFree F text = true) :
    siteTasklist (o.enable F) text = siteTasklist o text := by
  cases hs : scanTasklist text with
  | none => simp [siteTasklist, hs]
  | some s =>
    have hm := scanTasklist_needs_bracket text s hs
    simp only [triggerFree, List.all_eq_true] at h
    have hc : trigger F 0x5B = false := by simpa using h _ hm
    cases F <;> first | rfl | exact absurd hc (by decide)

theorem site_inert_email_autolink (o : Opts) (F : Feature) (text : Bytes) (h : triggerFree F text = true) :
    siteEmailAutolink (o.enable F) text = siteEmailAutolink o text := by
  cases hm : text.contains 0x40 with
  | false =>
    have : (0x40 : UInt8) ∉ text := by simpa using hm
    simp [siteEmailAutolink, this]
  | true =>
    simp only [triggerFree, List.all_eq_true] at h
    have hc : trigger F 0x40 = false := by simpa using h _ (by simpa using hm)
    cases F <;> first | rfl | exact absurd hc (by decide)

/-- A document that does not start with the delimiter (in particular one without `-`) is untouched. -/
theorem site_inert_front_matter (o : Opts) (F : Feature) :
    siteFrontMatter (o.enable F) false = siteFrontMatter o false := by
  simp [siteFrontMatter]

/-! ### Non-vacuity -/

example : trigger .strikethrough 0x3D = false ∧ triggerFree .table [0x61, 0x7E, 0x62] = true := by decide
example : special ({} : Opts) 0x7E = false ∧ special (({} : Opts).enable .strikethrough) 0x7E = true := by
  decide +kernel
example : arm {} false 0x7E = .text ∧ arm (({} : Opts).enable .subscript) false 0x7E = .tilde := by decide
example : siteBlockQuoteStart {} false 0x3E 0x61 = true
    ∧ siteBlockQuoteStart (({} : Opts).enable .greentext) false 0x3E 0x61 = false := by decide
example : siteFootnoteDefinition (({} : Opts).enable .footnotes) false true [0x5B, 0x5E, 0x61, 0x5D, 0x3A, 0x20, 0x78] = some 6 := by
  decide
example : siteTasklist (({} : Opts).enable .tasklist) [0x5B, 0x78, 0x5D, 0x20, 0x61] = some 0x78 := by decide
example : findSpecialChar {} false [0x61, 0x7E, 0x2A] 0 = 2
    ∧ findSpecialChar (({} : Opts).enable .strikethrough) false [0x61, 0x7E, 0x2A] 0 = 1 := by decide +kernel

end Comrak.C13
