/-
C17 - CommonMark formatting is idempotent.
What the model of src/cm.rs (Comrak/Cm.lean, tied to the real writer byte for byte by the
correspondence harness) lets us prove about the writer's *canonical spellings*, i.e. the part of
idempotence that does not need the parser: the pending-newline bookkeeping is idempotent and
monotone, a flush leaves nothing pending, the output ends in exactly the newline convention the
writer re-reads, fences and thematic breaks have one spelling. The fixed-point statement itself
(`cm (parse (cm t)) = cm t`) is false on the pinned tree; the end-of-list comment witness is
kept below and the classes found by the search are listed as findings.
-/
import Comrak.Cm
import Comrak.Lemmas.Cm
namespace Comrak.C17
open Comrak Bytes Comrak.Cm

/-- `cr` and `blankline` are idempotent, `blankline` absorbs `cr`, and neither ever lowers the
    number of pending newlines (`need_cr` is monotone between flushes). -/
theorem cr_blankline_idempotent (st : St) :
    st.cr.cr = st.cr ∧ st.blankline.blankline = st.blankline ∧ st.blankline.cr = st.blankline ∧
    st.cr.blankline = st.blankline ∧ st.needCr ≤ st.cr.needCr ∧ st.needCr ≤ st.blankline.needCr := by
  refine ⟨?_, ?_, ?_, ?_, cr_needCr_mono st, blankline_needCr_mono st⟩ <;>
    simp only [St.cr, St.blankline] <;> congr 1 <;> omega

/-- After the flush at the head of `output` nothing is pending, and flushing again changes nothing. -/
theorem crFlush_clears (st : St) : (crFlush st).needCr = 0 ∧ crFlush (crFlush st) = crFlush st := by
  have h0 : (crFlush st).needCr = 0 := by
    simp only [crFlush]; split <;> split <;> rfl
  refine ⟨h0, ?_⟩
  generalize crFlush st = s at h0
  cases s
  simp only at h0
  subst h0
  simp [crFlush]

/-- A tight list item never gets more than one pending newline written (no blank line). -/
theorem tight_item_single_newline (st : St) (h : st.inTight = true) :
    (crFlush st).rv = st.rv ∨ (crFlush st).rv = crLoop st.rv st.prefix_ 1 0 st.rv := by
  simp only [crFlush, h, Bool.true_and]
  by_cases h1 : st.needCr > 1
  · right; simp [h1]
  · by_cases h0 : st.needCr = 0
    · left; simp [h0]
    · right
      have : st.needCr = 1 := by omega
      simp [this]

/-- The document the writer returns is empty or ends with a line feed. -/
theorem renderCm_final_newline (o : CmOpts) (t : Tree) :
    renderCm o t = [] ∨ (renderCm o t).getLast? = some 0x0A := by
  simp only [renderCm]
  split
  · left; rfl
  · right
    rename_i b r heq
    split
    · rename_i hb
      simp only [beq_iff_eq] at hb
      simp [heq, hb]
    · simp

/-- One spelling per construct: thematic breaks are always `-----`, fences are at least three
    characters of one kind, the bullet is the configured one. (These are the spellings a second
    pass must reproduce.) -/
theorem canonical_spellings (o : CmOpts) (info lit : Bytes) :
    3 ≤ fenceLen info lit ∧ (fenceChar info = 0x60 ∨ fenceChar info = 0x7E) ∧
    (∀ n d, (olMarker o n d).length ≥ o.olWidth) := by
  refine ⟨by simp only [fenceLen]; omega, ?_, ?_⟩
  · simp only [fenceChar]; split <;> simp
  · intro n d
    simp only [olMarker, spaces, List.length_append, List.length_replicate]
    omega

/-- A list whose last item is empty, followed by another list: the writer puts the end-of-list
    comment directly under the empty item; re-parsed, the comment is an HTML block of its own and
    the second pass writes a blank line before it - the first pass is not a fixed point. -/
def emptyItemThenList : Tree :=
  let l : NList := { tight := true }
  .node .document {} (.cons (.node (.list l) {} (.cons (.node (.item l) {} .nil) .nil))
    (.cons (.node (.list l) {} (.cons (.node (.item l) {} .nil) .nil)) .nil))
def emptyItemCommentList : Tree :=
  let l : NList := { tight := true }
  .node .document {} (.cons (.node (.list l) {} (.cons (.node (.item l) {} .nil) .nil))
    (.cons (.node (.htmlBlock 2 [0x3C, 0x21, 0x2D, 0x2D, 0x20, 0x65, 0x6E, 0x64, 0x20, 0x6C, 0x69, 0x73, 0x74, 0x20, 0x2D, 0x2D, 0x3E, 0x0A]) {} .nil)
    (.cons (.node (.list l) {} (.cons (.node (.item l) {} .nil) .nil)) .nil)))

theorem cm_end_list_after_empty_item_counterexample :
    renderCm {} emptyItemThenList ≠ renderCm {} emptyItemCommentList := by
  decide +kernel

example : (({} : St).blankline).needCr = 2 := by decide

end Comrak.C17
