/-
C17 - CommonMark formatting is idempotent.
What the model of src/cm.rs (Comrak/Cm.lean, tied to the real writer byte for byte by the
correspondence harness) lets us prove about the writer's *canonical spellings*, i.e. the part of
idempotence that does not need the parser: the pending-newline bookkeeping is idempotent and
monotone, a flush leaves nothing pending, the output ends in exactly the newline convention the
writer re-reads, fences and thematic breaks have one spelling. The fixed-point statement itself
(`cm (parse (cm t)) = cm t`) is false on the pinned tree; the end-of-list comment witness is
kept below and the classes found by the search are listed as findings.
-/
import Comrak.Cm
import Comrak.Lemmas.Cm
import Comrak.Lemmas.CmCanonC
namespace Comrak.C17
open Comrak Bytes Comrak.Cm

/-- `cr` and `blankline` are idempotent, `blankline` absorbs `cr`, and neither ever lowers the
    number of pending newlines (`need_cr` is monotone between flushes). -/
theorem cr_blankline_idempotent (st : St) :
    st.cr.cr = st.cr ∧ st.blankline.blankline = st.blankline ∧ st.blankline.cr = st.blankline ∧
    st.cr.blankline = st.blankline ∧ st.needCr ≤ st.cr.needCr ∧ st.needCr ≤ st.blankline.needCr := by
  refine ⟨?_, ?_, ?_, ?_, cr_needCr_mono st, blankline_needCr_mono st⟩ <;>
    simp only [St.cr, St.blankline] <;> congr 1 <;> omega

/-- After the flush at the head of `output` nothing is pending, and flushing again changes nothing. -/
theorem crFlush_clears (st : St) : (crFlush st).needCr = 0 ∧ crFlush (crFlush st) = crFlush st := by
  have h0 : (crFlush st).needCr = 0 := by
    simp only [crFlush]; split <;> split <;> rfl
  refine ⟨h0, ?_⟩
  generalize crFlush st = s at h0
  cases s
  simp only at h0
  subst h0
  simp [crFlush]

/-- A tight list item never gets more than one pending newline written (no blank line). -/
theorem tight_item_single_newline (st : St) (h : st.inTight = true) :
    (crFlush st).rv = st.rv ∨ (crFlush st).rv = crLoop st.rv st.prefix_ 1 0 st.rv := by
  simp only [crFlush, h, Bool.true_and]
  by_cases h1 : st.needCr > 1
  · right; simp [h1]
  · by_cases h0 : st.needCr = 0
    · left; simp [h0]
    · right
      have : st.needCr = 1 := by omega
      simp [this]

/-- The document the writer returns is empty or ends with a line feed. -/
theorem renderCm_final_newline (o : CmOpts) (t : Tree) :
    renderCm o t = [] ∨ (renderCm o t).getLast? = some 0x0A := by
  simp only [renderCm]
  split
  · left; rfl
  · right
    rename_i b r heq
    split
    · rename_i hb
      simp only [beq_iff_eq] at hb
      simp [heq, hb]
    · simp

/-- One spelling per construct: thematic breaks are always `-----`, fences are at least three
    characters of one kind, the bullet is the configured one. (These are the spellings a second
    pass must reproduce.) -/
theorem canonical_spellings (o : CmOpts) (info lit : Bytes) :
    3 ≤ fenceLen info lit ∧ (fenceChar info = 0x60 ∨ fenceChar info = 0x7E) ∧
    (∀ n d, (olMarker o n d).length ≥ o.olWidth) := by
  refine ⟨by simp only [fenceLen]; omega, ?_, ?_⟩
  · simp only [fenceChar]; split <;> simp
  · intro n d
    simp only [olMarker, spaces, List.length_append, List.length_replicate]
    omega

/-- A list whose last item is empty, followed by another list: the writer puts the end-of-list
    comment directly under the empty item; re-parsed, the comment is an HTML block of its own and
    the second pass writes a blank line before it - the first pass is not a fixed point. -/
def emptyItemThenList : Tree :=
  let l : NList := { tight := true }
  .node .document {} (.cons (.node (.list l) {} (.cons (.node (.item l) {} .nil) .nil))
    (.cons (.node (.list l) {} (.cons (.node (.item l) {} .nil) .nil)) .nil))
def emptyItemCommentList : Tree :=
  let l : NList := { tight := true }
  .node .document {} (.cons (.node (.list l) {} (.cons (.node (.item l) {} .nil) .nil))
    (.cons (.node (.htmlBlock 2 [0x3C, 0x21, 0x2D, 0x2D, 0x20, 0x65, 0x6E, 0x64, 0x20, 0x6C, 0x69, 0x73, 0x74, 0x20, 0x2D, 0x2D, 0x3E, 0x0A]) {} .nil)
    (.cons (.node (.list l) {} (.cons (.node (.item l) {} .nil) .nil)) .nil)))

theorem cm_end_list_after_empty_item_counterexample :
    renderCm {} emptyItemThenList ≠ renderCm {} emptyItemCommentList := by
  decide +kernel

example : (({} : St).blankline).needCr = 2 := by decide

/-! ## The canonical class: on a canonical document the writer reproduces the document's own text -/

section Canon
open Comrak.Canon Comrak.CmCanon

/-- **The writer's fixed point on the canonical class (partial).** For a canonical document `d`
    (`Doc.ok`) in the sub-class `Doc.cmOk`, the CommonMark writer model with default options,
    run on the tree the document spells (`d.toTree`, the tree the K harness compares with comrak's
    parse of `d.write`), writes exactly `d.write`, byte for byte.

    `Doc.cmOk` (decidable; `Comrak/Lemmas/CmCanonB.lean`, `CmCanonC.lean`) fixes the spelling to
    the writer's choices and restricts the class:
    * blocks: paragraphs, ATX headings (level >= 1), the thematic break `-----` (not as the first
      block of a list item or block quote, where the writer first ends the marker's line), block
      quotes holding exactly one block that is not a thematic break (and a list only where no
      tight list item encloses the quote), bullet lists with marker `-` and ordered lists (any
      start number, `.` or `)`; the writer's decimal marker is proved equal to the document's),
      tight or loose, nested to any depth, with or without task markers (`[ ]`, `[x]`), whose
      items are non-empty and contain no blank line (all lines of an item non-empty: a loose list
      has one-block items, lists nested in items are tight) - the writer puts the container prefix
      (with its trailing spaces) on blank lines inside containers, `Doc.write` does not; no list
      directly followed by a list (the writer separates them by `<!-- end list -->`);
    * inlines: text made of bytes the writer never escapes (ASCII letters, digits, space,
      `, ; ? / { } @ %`, bytes >= 0x80 and the table's Unicode atoms) and of backslash escapes of
      exactly the marks the writer escapes everywhere (`* _ [ ] # < > \ ` !`), emphasis `*..*` and
      strong `**..**` (star delimiters; no strong directly inside strong, whose delimiters the
      writer drops; no emphasis as the only child of an emphasis, which the writer spells `_`),
      strikethrough `~~..~~`, code spans whose tick count is the writer's
      `shortestUnusedSequence` and that need no padding, inline links and images
      `[text](dest)`, `[text](dest "title")`, `![alt](dest)` with a non-empty destination without
      angle brackets and a title, both made of bytes the writer does not escape there, the link
      not being one the writer abbreviates to an autolink, angle autolinks `<scheme:rest>`
      (not `mailto:`, whose scheme the writer drops), backslash hard breaks and soft breaks (not
      in headings);
    * no reference definitions, no footnotes.
    Excluded constructs: setext headings, fenced and indented code, HTML blocks, tables,
    reference-style links, `mailto:` autolinks, entities and numeric references, backslash escapes of other
    punctuation (the writer drops or keeps them depending on context), raw HTML, footnote
    references, text containing a byte the writer escapes only in some contexts
    (`& - + = . ) ~ | : " ' ( $ ^`), block quotes with several blocks, loose lists with
    multi-block items, a list inside a quote inside a tight list item.
    The hypothesis `d.ok` is not used by the proof; it records that the statement is about the
    canonical class, on which the two correspondences (K: comrak parses `d.write` to `d.toTree`,
    S: `renderCm` = `format_commonmark`) are checked. -/
theorem cm_fixed_point_canon_partial (d : Doc) (_h : d.ok = true) (hc : d.cmOk = true) :
    renderCm {} d.toTree = d.write :=
  cm_fixed d hc

/-- **Idempotence on the class, modulo the parser correspondence.** For any function `parse` that
    maps the text of `d` to the tree `d` spells (what K checks for comrak's `parse_document`), the
    writer's output on `d`'s tree is a fixed point of `write . parse`: formatting the re-parsed
    output gives the same bytes. -/
theorem cm_idempotent_canon_partial (parse : Bytes → Tree) (d : Doc) (h : d.ok = true) (hc : d.cmOk = true)
    (hK : parse d.write = d.toTree) :
    renderCm {} (parse (renderCm {} d.toTree)) = renderCm {} d.toTree := by
  rw [cm_fixed_point_canon_partial d h hc, hK, cm_fixed_point_canon_partial d h hc]

/-- Non-vacuity: a heading, a tight bullet list with a nested ordered list, a task item, emphasis,
    strong, strikethrough, a link with a title, an escaped `*`, a soft break, a block quote with a
    code span, a quoted list, a thematic break and a loose ordered list running from 9 to 10. -/
def canonCmExample : Doc :=
  let txt (s : List UInt8) : Inl := .text (s.map Atom.ch)
  { blocks := Blks.ofList [
      .heading 2 (Inls.ofList [txt [0x54, 0x69]]),
      .list { tight := true } (Items.ofList [
        Blks.ofList [.para (Inls.ofList [txt [0x6F, 0x6E, 0x65, 0x20], .emph false (Inls.ofList [txt [0x65, 0x6D]])]),
                     .list { ordered := true, start := 1, paren := true, tight := true } (Items.ofList [Blks.ofList [.para (Inls.ofList [txt [0x69, 0x6E, 0x20],
                        .strong false (Inls.ofList [txt [0x73, 0x74]])])]])],
        Blks.ofList [.para (Inls.ofList [.text [.ch 0x74, .esc 0x2A, .ch 0x6F], .soft, txt [0x6D]])]]),
      .quote (Blks.ofList [.para (Inls.ofList [txt [0x71, 0x20], .code 1 [0x78], txt [0x20],
        .link [0x75, 0x2F, 0x76] [0x74, 0x20, 0x74] false .inline (Inls.ofList [txt [0x6C, 0x20], .strike (Inls.ofList [txt [0x73]])])])]),
      .quote (Blks.ofList [.list { tight := true } (Items.ofListT [(.checked 0x78, Blks.ofList [.para (Inls.ofList [txt [0x64]])]),
        (.unchecked, Blks.ofList [.para (Inls.ofList [txt [0x65]])])])]),
      .hr 0x2D 5,
      .list { ordered := true, start := 9, tight := false } (Items.ofList [Blks.ofList [.para (Inls.ofList [txt [0x61]])],
                                               Blks.ofList [.para (Inls.ofList [txt [0x62]])]]) ] }

example : canonCmExample.ok = true ∧ canonCmExample.cmOk = true := by decide +kernel

example : renderCm {} canonCmExample.toTree = canonCmExample.write :=
  cm_fixed_point_canon_partial _ (by decide +kernel) (by decide +kernel)

end Canon

end Comrak.C17
