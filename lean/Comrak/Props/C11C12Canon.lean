import Comrak.Lemmas.CanonPosN
/-! C11 / C12 on the canonical class of C03: corollaries of `Comrak.Canon.positions_ok` (Lemmas/CanonPosA..N). -/
namespace Comrak.C11
open Comrak Comrak.Canon
/-- **C11 on the canonical class.**  For every canonical document the positions the model claims
    (`d.toTreeP`, compared node by node with the real parser's positions by C03's correspondence on
    every run) lie inside the written source, lie within their nearest reliable ancestor and follow
    their previous sibling: no bound on nesting depth, number of lines or line length. -/
theorem canon_positions_in_range_nested_ordered (d : Doc) (h : d.ok = true) :
    (claimCheckT (lineEnts d.write) none d.toTreeP).isNone = true := by
  have := positions_ok d h
  unfold Doc.posOk at this
  exact (Bool.and_eq_true _ _ ▸ this).1
end Comrak.C11
namespace Comrak.C12
open Comrak Comrak.Canon
/-- **C12 on the canonical class.**  For every canonical document the slice of the written source
    that each claimed position denotes has the bytes its node kind requires (text literal,
    delimiters, `#`, underline, fence, `>`, line end of a block quote, ...: `sliceCheckT`). -/
theorem canon_positions_denote_their_text (d : Doc) (h : d.ok = true) :
    (sliceCheckT (lineEnts d.write) d.write d.toTreeP).isNone = true := by
  have := positions_ok d h
  unfold Doc.posOk at this
  exact (Bool.and_eq_true _ _ ▸ this).2
end Comrak.C12
