/-
C02  Safe-by-default HTML: only comrak's own markup, no dangerous URLs.
Token-level statements about the complete model of html.rs (Comrak/Html.lean) for every
option vector with `unsafe_ = false`, every tree whose nodes are `nodeSafe` (no `Raw` node -
the parser never builds one -, `EscapedTag` payload harmless, heading level 1-6: checked on
every parsed tree in the correspondence stage), any normalisation table with attribute-safe
values and an attribute-safe `header_ids` prefix (the prefix is application configuration and
is written raw by the code).
-/
import Comrak.Lemmas.HtmlSafeTree
import Comrak.Lemmas.UrlSafe
import Comrak.Props.C19
import Comrak.Lemmas.HtmlLexSafe
namespace Comrak.C02
open Comrak Bytes

/-- **Every token written in safe mode is comrak's own markup** (`allowedTok`: element and
    attribute names from the fixed vocabulary, attribute values made of escaped text / escaped
    URLs / harmless literals, document text only as escaped text, no raw pass-through, only the
    placeholder comment) - for all trees of any depth and width. -/
theorem html_safe (o : HtmlOpts) (hu : o.unsafe_ = false)
    (hp : ∀ p, o.headerIds = some p → litSafe p = true)
    (nt : NormTable) (hn : NormSafe nt) (t : Tree) (ht : treeSafe t = true) :
    (renderToks o nt t).all allowedTok = true := by
  unfold renderToks
  simp only [W.seq_fst, List.all_append, Bool.and_eq_true]
  refine ⟨renderT_allowed o hu hp nt hn t {} {} ht, ?_⟩
  unfold finish
  split <;> simp [allowedTok, nl]

/-- Raw HTML from the input appears only as the omission placeholder ... -/
theorem raw_html_only_placeholder (o : HtmlOpts) (hu : o.unsafe_ = false) (he : o.escape = false) (l : Bytes) :
    htmlBlockToks o l = [.cmt] ∧ htmlInlineToks o l = [.cmt] := by
  simp [htmlBlockToks, htmlInlineToks, hu, he]

/-- ... or as escaped text when the escape option is on (whatever `unsafe_` says). -/
theorem raw_html_escaped_when_escape (o : HtmlOpts) (he : o.escape = true) (l : Bytes) :
    htmlBlockToks o l = [.txt l] ∧ htmlInlineToks o l = [.txt l] := by
  simp [htmlBlockToks, htmlInlineToks, he]

/-- Document text is spelled through the text escaper, hence carries no active character (C19). -/
theorem text_is_escaped (v : Bytes) : Tok.spell (.txt v) = escape v ∧ noActive (Tok.spell (.txt v)) = true :=
  ⟨rfl, Comrak.C19.escape_no_active v⟩

/-- `escape_href` neither hides nor creates a dangerous scheme. -/
theorem dangerous_invariant_under_escapeHref (u : Bytes) : dangerousUrl (escapeHref u) = dangerousUrl u :=
  dangerousUrl_escapeHref u

/-- **No dangerous destination is ever written**: the bytes placed in `href=`/`src=` for a link,
    image or wikilink destination are not matched by the `dangerous_url` rule
    (`javascript:`, `vbscript:`, `file:`, non-image `data:`; any letter case). -/
theorem no_dangerous_destination (o : HtmlOpts) (hu : o.unsafe_ = false) (url : Bytes) :
    dangerousUrl (spellVal (urlVal o url)) = false := by
  unfold urlVal
  by_cases hd : dangerousUrl url = true
  · simp [hu, hd, spellVal]; decide
  · have hd' : dangerousUrl url = false := by simpa using hd
    simp [hu, hd', spellVal, APart.spell, dangerousUrl_escapeHref]

/-- The value of an allowed attribute, as spelled, contains no `"`, `<` or `>`:
    it cannot close the attribute or the tag. -/
theorem allowed_value_cannot_break_out (ps : List APart) (h : ps.all partOk = true) (c : UInt8)
    (hc : c = 0x22 ∨ c = 0x3C ∨ c = 0x3E) : c ∉ spellVal ps := by
  induction ps with
  | nil => simp [spellVal]
  | cons p r ih =>
    simp only [List.all_cons, Bool.and_eq_true] at h
    simp only [spellVal, List.flatMap_cons, List.mem_append, not_or]
    refine ⟨?_, ih h.2⟩
    cases p with
    | esc v => exact Comrak.C19.escape_no_raw v c (by rcases hc with h | h | h <;> simp [h])
    | href v =>
      intro hm
      have ha := Comrak.C19.escapeHref_alphabet v
      have key : ∀ x : Bytes, hrefAlphabet x = true → c ∉ x := by
        intro x
        induction x with
        | nil => simp
        | cons b t iht =>
          intro hx hmem
          simp only [hrefAlphabet, Bool.and_eq_true] at hx
          rcases List.mem_cons.mp hmem with rfl | hm2
          · have h1 := hx.1
            rcases hc with rfl | rfl | rfl <;> simp [hrefSafe, isAsciiAlnum, isAsciiAlpha, isAsciiDigit] at h1
          · exact iht hx.2 hm2
      exact key _ ha hm
    | lit v =>
      simp only [partOk, litSafe, List.all_eq_true] at h
      intro hm
      have := h.1 c hm
      rcases hc with rfl | rfl | rfl <;> simp at this

/-! ### From tokens to bytes -/

/-- A browser that entity-decodes the written destination sees a dangerous scheme exactly when the
    document's URL had one (`escape_href` followed by entity decoding neither hides nor creates one). -/
theorem dangerous_invariant_under_escapeHref_decoded (u : Bytes) :
    dangerousUrl (entDecode (escapeHref u)) = dangerousUrl u :=
  dangerousUrl_entDecode_escapeHref u

/-- The spelled value of an allowed attribute is in the safe value language of the byte oracle:
    no raw `"`, `<`, `>`, every `&` begins one of the five entities comrak writes. -/
theorem allowed_value_is_valueSafe (ps : List APart) (h : ps.all partOk = true) : valueSafe (spellVal ps) = true :=
  valueSafe_spellVal ps h

/-- In safe mode no `href`/`src` value written by the renderer decodes to a dangerous URL
    (links, images, wikilinks, footnote links, heading anchors) - all trees. -/
theorem html_destinations_safe (o : HtmlOpts) (hu : o.unsafe_ = false) (nt : NormTable) (t : Tree) :
    (renderToks o nt t).all destOk = true :=
  renderToks_dest o hu nt t

/-- The byte oracle accepts the spelling of any allowed, destination-safe token list. -/
theorem safe_tokens_safe_bytes (ts : List Tok) (ha : ts.all allowedTok = true) (hd : ts.all destOk = true) :
    safeBytes (spell ts) = .ok () :=
  safeBytes_spell ts ha hd

/-- **C02 on bytes.** Under the hypotheses of `html_safe`, the *bytes* of the rendered document are
    accepted by the run-time oracle `safeBytes`: they lex as complete tags, comments and text; every
    tag and attribute name is in the fixed vocabulary; every attribute value and every text run has
    no raw `"`, `<`, `>` and no `&` outside the five entities; the only comment is the omission
    placeholder; no `href`/`src` value entity-decodes to a dangerous URL. -/
theorem html_safe_bytes (o : HtmlOpts) (hu : o.unsafe_ = false)
    (hp : ∀ p, o.headerIds = some p → litSafe p = true)
    (nt : NormTable) (hn : NormSafe nt) (t : Tree) (ht : treeSafe t = true) :
    safeBytes (renderHtml o nt t) = .ok () :=
  safeBytes_spell _ (html_safe o hu hp nt hn t ht) (renderToks_dest o hu nt t)

/-! Non-vacuity -/
example : treeSafe (.node .document {} (.cons (.node (.heading 2 false) {} (.cons (.node (.text [0x3C]) {} .nil) .nil)) .nil)) = true := by
  decide
example : NormSafe {} := normSafe_empty
example : dangerousUrl [0x4A, 0x61, 0x76, 0x61, 0x53, 0x63, 0x72, 0x69, 0x70, 0x74, 0x3A, 0x78] = true := by decide

example : (match safeBytes (renderHtml {} {} (.node .document {} (.cons (.node (.link [0x68, 0x3A, 0x26, 0x22] [0x3C]) {}
    (.cons (.node (.text [0x3C, 0x26]) {} .nil) .nil)) .nil))) with | .ok _ => true | .error _ => false) = true := by decide

end Comrak.C02
