/-
C18  The sourcepos option only adds attributes (HTML part; token level).
`eraseSp` removes the `data-sourcepos` attribute from comrak's own start tags.
Per-node theorems for all 41 node kinds, every option vector, context and writer state, and
their lift to whole trees of any depth and width (`html_sourcepos_only_adds`): the writer
states of the two runs coincide after every step because `last_was_lf` is determined by the
last byte written, which erasing an attribute never changes.
-/
import Comrak.Lemmas.HtmlSp
import Comrak.Lemmas.HtmlSpTree
import Comrak.Lemmas.R2XmlSp
import Comrak.Cm
namespace Comrak.C18
open Comrak Bytes

/-- Entering any node: erasing `data-sourcepos` from the tokens written with the option on
    gives exactly the tokens written with the option off. -/
theorem enter_sourcepos_only_adds (o : HtmlOpts) (nt : NormTable) (cx : Ctx) (v : NodeValue) (sp : Sp)
    (cs : Forest) (st : St) :
    eraseSp (enter (withSp o true) nt cx v sp cs st).1 = (enter (withSp o false) nt cx v sp cs st).1 :=
  enter_eraseSp o nt cx v sp cs st

/-- Leaving any node: the option has no effect at all. -/
theorem exit_independent_of_sourcepos (o : HtmlOpts) (b : Bool) (cx : Ctx) (v : NodeValue) (cs : Forest) :
    exit (withSp o b) cx v cs = exit o cx v cs :=
  exit_withSp o b cx v cs

theorem exit_sourcepos_only_adds (o : HtmlOpts) (cx : Ctx) (v : NodeValue) (cs : Forest) (st : St) :
    eraseSp (exit (withSp o true) cx v cs st).1 = (exit (withSp o false) cx v cs st).1 :=
  exit_eraseSp o cx v cs st

/-- With the option off no token carries the attribute (erasing is the identity). -/
theorem off_has_no_sourcepos (o : HtmlOpts) (nt : NormTable) (cx : Ctx) (v : NodeValue) (sp : Sp)
    (cs : Forest) (st : St) :
    eraseSp (eraseSp (enter (withSp o true) nt cx v sp cs st).1) = eraseSp (enter (withSp o true) nt cx v sp cs st).1 := by
  simp only [eraseSp, List.map_map]
  congr 1
  funext t
  cases t <;> simp [eraseSpTok, List.filter_filter]

/-- **C18 (HTML), whole trees.** For every option vector, normalisation table and tree of any
    depth and width: deleting the `data-sourcepos` attributes from the rendering with the option
    on gives exactly the rendering with the option off. -/
theorem html_sourcepos_only_adds (o : HtmlOpts) (nt : NormTable) (t : Tree) :
    eraseSp (renderToks (withSp o true) nt t) = renderToks (withSp o false) nt t := by
  unfold renderToks
  simp only [W.seq_fst, eraseSp_append]
  obtain ⟨h1, h2⟩ := renderT_withSp o nt t {} {}
  rw [h1, h2]
  congr 1
  unfold finish
  split <;> simp [eraseSp, eraseSpTok, nl]

/-- The writer ends in the same state with and without position output. -/
theorem state_independent_of_sourcepos (o : HtmlOpts) (nt : NormTable) (t : Tree) (cx : Ctx) (st : St) :
    (renderT (withSp o true) nt cx t st).2 = (renderT (withSp o false) nt cx t st).2 :=
  (renderT_withSp o nt t cx st).2

/-! ## XML half (model: Comrak/Xml.lean) -/

/-- One start tag: erasing `sourcepos` from the attribute list written with the option on gives
    the list written with it off; no other attribute is dropped, reordered or renamed. -/
theorem xml_attrs_sourcepos_only_adds (o : XmlOpts) (cx : XCtx) (v : NodeValue) (sp : Sp) :
    (xmlAttrs (withXmlSp o true) cx v sp).filter (fun a => !isXmlSpAttr a)
      = xmlAttrs (withXmlSp o false) cx v sp :=
  xmlAttrs_eraseSp o true cx v sp

/-- **C18 (XML), whole trees, token level.** For every tree of any depth and width, every
    indentation and context: deleting the `sourcepos` attributes from the tokens written with the
    option on gives exactly the tokens written with the option off.  (The formatter's only state,
    `indent`, does not depend on the option.) -/
theorem xml_sourcepos_only_adds (o : XmlOpts) (t : Tree) :
    eraseXmlSp (renderXmlToks (withXmlSp o true) t) = renderXmlToks (withXmlSp o false) t :=
  renderXmlT_withSp o true t 0 {}

/-- **C18 (XML), bytes.** Spelling the erased token stream (prolog included) gives byte for byte
    the output of `format_xml` with the option off. -/
theorem xml_sourcepos_only_adds_bytes (o : XmlOpts) (t : Tree) :
    spellXml (eraseXmlSp (renderXmlToks (withXmlSp o true) t)) = renderXml (withXmlSp o false) t := by
  rw [xml_sourcepos_only_adds]; rfl

/-- What the option adds to one start tag, in bytes: ` sourcepos="l:c-l:c"` right after the
    element name (nothing when the start line is 0), before all other attributes. -/
theorem xml_sourcepos_bytes_inserted (o : XmlOpts) (cx : XCtx) (v : NodeValue) (sp : Sp) :
    spellXAttrs (xmlAttrs (withXmlSp o true) cx v sp)
      = (if sp.sl != 0 then xmlSpAttrBytes sp else []) ++ spellXAttrs (xmlAttrs (withXmlSp o false) cx v sp) :=
  spell_xmlAttrs_on o cx v sp

/-- With the option off no token carries the attribute: erasing is the identity there. -/
theorem xml_off_has_no_sourcepos (o : XmlOpts) (t : Tree) :
    eraseXmlSp (renderXmlToks (withXmlSp o false) t) = renderXmlToks (withXmlSp o false) t :=
  renderXmlT_withSp o false t 0 {}

/-! ## CommonMark half (model: Comrak/Cm.lean)

`Cm.CmOpts`, the record of every option `cm.rs` reads (`width`, `ol_width`, `list_style`,
`prefer_fenced`, `hardbreaks`, wikilinks), has no `sourcepos` field, and `Cm.renderT`/`Cm.enter`/
`Cm.exit` discard the `Sp` component of every node (`| .node v _ cs`).  "CommonMark output does
not depend on the option" is therefore structural in the model; it is stated below in the only
form available: two option records that agree on the fields `cm.rs` reads render alike whatever
else they hold, and the rendering is the same for every assignment of positions to the nodes. -/

/-- All render options the three formatters read, side by side: the CommonMark formatter is a
    function of the `cm` component only. -/
structure AllRenderOpts where
  sourcepos : Bool := false
  cm : Cm.CmOpts := {}

/-- `format_commonmark` as a function of the full option record. -/
def renderCmAll (o : AllRenderOpts) (t : Tree) : Bytes := Cm.renderCm o.cm t

/-- **C18 (CommonMark).** Flipping `sourcepos` in the full option record does not change the
    CommonMark output. -/
theorem cm_ignores_sourcepos (o : AllRenderOpts) (b : Bool) (t : Tree) :
    renderCmAll { o with sourcepos := b } t = renderCmAll o t := rfl

mutual
/-- Replace every source position of a tree by `f` of it. -/
def mapSpT (f : Sp → Sp) : Tree → Tree
  | .node v sp cs => .node v (f sp) (mapSpF f cs)
def mapSpF (f : Sp → Sp) : Forest → Forest
  | .nil => .nil
  | .cons t ts => .cons (mapSpT f t) (mapSpF f ts)
end

theorem mapSpT_value (f : Sp → Sp) : ∀ t : Tree, (mapSpT f t).value = t.value
  | .node _ _ _ => rfl

theorem cm_isAutolink_mapSp (f : Sp → Sp) (url title : Bytes) (cs : Forest) :
    Cm.isAutolink url title (mapSpF f cs) = Cm.isAutolink url title cs := by
  cases cs with
  | nil => rfl
  | cons t ts => cases t with | node v sp k => cases v <;> rfl

theorem cm_enter_mapSp (f : Sp → Sp) (o : Cm.CmOpts) (cx : Cm.Ctx) (v : NodeValue) (cs : Forest) (st : Cm.St) :
    Cm.enter o cx v (mapSpF f cs) st = Cm.enter o cx v cs st := by
  cases v
  case link url title => simp only [Cm.enter, cm_isAutolink_mapSp]
  all_goals rfl

mutual
/-- The CommonMark formatter never looks at a source position: rewriting all of them leaves the
    writer state after any subtree unchanged. -/
theorem cm_renderT_mapSp (f : Sp → Sp) (o : Cm.CmOpts) :
    ∀ (t : Tree) (cx : Cm.Ctx) (st : Cm.St), Cm.renderT o cx (mapSpT f t) st = Cm.renderT o cx t st
  | .node v sp cs, cx, st => by
    simp only [mapSpT, Cm.renderT, cm_enter_mapSp]
    rw [cm_renderF_mapSp f o cs]
theorem cm_renderF_mapSp (f : Sp → Sp) (o : Cm.CmOpts) :
    ∀ (g : Forest) (parent grand : Option NodeValue) (hp : Bool) (st : Cm.St),
      Cm.renderF o parent grand hp (mapSpF f g) st = Cm.renderF o parent grand hp g st
  | .nil, _, _, _, _ => rfl
  | .cons t ts, parent, grand, hp, st => by
    cases ts with
    | nil =>
      simp only [mapSpF, Cm.renderF]
      rw [cm_renderT_mapSp f o t]
    | cons n r =>
      have ih := cm_renderF_mapSp f o (.cons n r) parent grand true
      simp only [mapSpF] at ih
      simp only [mapSpF, Cm.renderF, mapSpT_value] at ih ⊢
      rw [cm_renderT_mapSp f o t, ih]
end

/-- **C18 (CommonMark), positions.** The CommonMark output is the same for every assignment of
    source positions to the nodes of the tree (the formatter has no way to print them). -/
theorem cm_ignores_positions (f : Sp → Sp) (o : Cm.CmOpts) (t : Tree) :
    Cm.renderCm o (mapSpT f t) = Cm.renderCm o t := by
  simp only [Cm.renderCm, cm_renderT_mapSp]

/-! Non-vacuity -/
example : eraseSp (enter (withSp {} true) {} {} .blockQuote { sl := 1, sc := 1, el := 2, ec := 3 } .nil {}).1
    = [.op S.t_blockquote [], nl] := by decide
example : (enter (withSp {} true) {} {} .blockQuote { sl := 1, sc := 1, el := 2, ec := 3 } .nil {}).1
    ≠ [.op S.t_blockquote [], nl] := by decide

-- XML: a paragraph with a text child; the option adds ` sourcepos="1:1-1:3"` to both start tags
example : renderXmlToks (withXmlSp {} true)
      (.node .paragraph ⟨1, 1, 1, 3⟩ (.cons (.node (.text [0x61]) ⟨1, 1, 1, 3⟩ .nil) .nil))
    ≠ renderXmlToks (withXmlSp {} false)
      (.node .paragraph ⟨1, 1, 1, 3⟩ (.cons (.node (.text [0x61]) ⟨1, 1, 1, 3⟩ .nil) .nil)) := by decide
example : xmlSpAttrBytes ⟨1, 1, 1, 3⟩ =
    [0x20, 0x73, 0x6F, 0x75, 0x72, 0x63, 0x65, 0x70, 0x6F, 0x73, 0x3D, 0x22, 0x31, 0x3A, 0x31, 0x2D, 0x31, 0x3A, 0x33, 0x22] := by
  decide

end Comrak.C18
