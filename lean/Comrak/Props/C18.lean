/-
C18  The sourcepos option only adds attributes (HTML part; token level).
`eraseSp` removes the `data-sourcepos` attribute from comrak's own start tags.
Per-node theorems for all 41 node kinds, every option vector, context and writer state, and
their lift to whole trees of any depth and width (`html_sourcepos_only_adds`): the writer
states of the two runs coincide after every step because `last_was_lf` is determined by the
last byte written, which erasing an attribute never changes.
-/
import Comrak.Lemmas.HtmlSp
import Comrak.Lemmas.HtmlSpTree
namespace Comrak.C18
open Comrak Bytes

/-- Entering any node: erasing `data-sourcepos` from the tokens written with the option on
    gives exactly the tokens written with the option off. -/
theorem enter_sourcepos_only_adds (o : HtmlOpts) (nt : NormTable) (cx : Ctx) (v : NodeValue) (sp : Sp)
    (cs : Forest) (st : St) :
    eraseSp (enter (withSp o true) nt cx v sp cs st).1 = (enter (withSp o false) nt cx v sp cs st).1 :=
  enter_eraseSp o nt cx v sp cs st

/-- Leaving any node: the option has no effect at all. -/
theorem exit_independent_of_sourcepos (o : HtmlOpts) (b : Bool) (cx : Ctx) (v : NodeValue) (cs : Forest) :
    exit (withSp o b) cx v cs = exit o cx v cs :=
  exit_withSp o b cx v cs

theorem exit_sourcepos_only_adds (o : HtmlOpts) (cx : Ctx) (v : NodeValue) (cs : Forest) (st : St) :
    eraseSp (exit (withSp o true) cx v cs st).1 = (exit (withSp o false) cx v cs st).1 :=
  exit_eraseSp o cx v cs st

/-- With the option off no token carries the attribute (erasing is the identity). -/
theorem off_has_no_sourcepos (o : HtmlOpts) (nt : NormTable) (cx : Ctx) (v : NodeValue) (sp : Sp)
    (cs : Forest) (st : St) :
    eraseSp (eraseSp (enter (withSp o true) nt cx v sp cs st).1) = eraseSp (enter (withSp o true) nt cx v sp cs st).1 := by
  simp only [eraseSp, List.map_map]
  congr 1
  funext t
  cases t <;> simp [eraseSpTok, List.filter_filter]

/-- **C18 (HTML), whole trees.** For every option vector, normalisation table and tree of any
    depth and width: deleting the `data-sourcepos` attributes from the rendering with the option
    on gives exactly the rendering with the option off. -/
theorem html_sourcepos_only_adds (o : HtmlOpts) (nt : NormTable) (t : Tree) :
    eraseSp (renderToks (withSp o true) nt t) = renderToks (withSp o false) nt t := by
  unfold renderToks
  simp only [W.seq_fst, eraseSp_append]
  obtain ⟨h1, h2⟩ := renderT_withSp o nt t {} {}
  rw [h1, h2]
  congr 1
  unfold finish
  split <;> simp [eraseSp, eraseSpTok, nl]

/-- The writer ends in the same state with and without position output. -/
theorem state_independent_of_sourcepos (o : HtmlOpts) (nt : NormTable) (t : Tree) (cx : Ctx) (st : St) :
    (renderT (withSp o true) nt cx t st).2 = (renderT (withSp o false) nt cx t st).2 :=
  (renderT_withSp o nt t cx st).2

/-! Non-vacuity -/
example : eraseSp (enter (withSp {} true) {} {} .blockQuote { sl := 1, sc := 1, el := 2, ec := 3 } .nil {}).1
    = [.op S.t_blockquote [], nl] := by decide
example : (enter (withSp {} true) {} {} .blockQuote { sl := 1, sc := 1, el := 2, ec := 3 } .nil {}).1
    ≠ [.op S.t_blockquote [], nl] := by decide

end Comrak.C18
