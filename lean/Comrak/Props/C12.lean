/-
C12  Source positions point at the text they claim.
`slice` is the oracle's reading of a position; the content map and `make_inline` are the mechanisms
that make a verbatim text run's slice equal its literal.
-/
import Comrak.Lemmas.Sourcepos
namespace Comrak.C12
open Comrak Bytes

/-- A slice has exactly the length its two offsets say. -/
theorem slice_length (lt : List LineEnt) (src : Bytes) (sp : Sp) (b : Bytes)
    (h : sliceLT lt src sp = some b) :
    ∃ a e, spOffsets lt sp = some (a, e) ∧ a ≤ e ∧ e ≤ src.length ∧ b.length = e - a := by
  unfold sliceLT at h
  split at h
  · rename_i a e heq
    split at h
    · rename_i hc
      simp only [Bool.and_eq_true, decide_eq_true_eq] at hc
      simp only [Option.some.injEq] at h
      subst h
      refine ⟨a, e, heq, hc.1, hc.2, ?_⟩
      simp only [List.length_take, List.length_drop]
      omega
    · simp at h
  · simp at h

/-- A slice is a contiguous part of the source: `source = before ++ slice ++ after`. -/
theorem slice_is_infix (lt : List LineEnt) (src : Bytes) (sp : Sp) (b : Bytes)
    (h : sliceLT lt src sp = some b) : ∃ pre post, src = pre ++ b ++ post := by
  unfold sliceLT at h
  split at h
  · rename_i a e heq
    split at h
    · simp only [Option.some.injEq] at h
      subst h
      refine ⟨src.take a, (src.drop a).drop (e - a), ?_⟩
      rw [List.append_assoc, List.take_append_drop, List.take_append_drop]
    · simp at h
  · simp at h

/-- **Content map, exact.** With no partially consumed tab, byte `p` of a leaf block's content is byte
    `offset k + r` of source line `k`, where `(k, r) = contentMap p`: the content is the
    concatenation of the lines from their recorded `line_offsets` on, nothing else. -/
theorem contentMap_exact (ls : List LineIn) (p k r : Nat) (h : contentMap ls p = some (k, r)) :
    ∃ l, ls[k]? = some l ∧ (contentOf ls)[p]? = l.bytes[l.offset + r]? ∧ l.offset + r < l.bytes.length := by
  induction ls generalizing p k r with
  | nil => simp [contentMap] at h
  | cons l ls ih =>
    simp only [contentMap] at h
    split at h
    · rename_i hp
      simp only [Option.some.injEq, Prod.mk.injEq] at h
      obtain ⟨rfl, rfl⟩ := h
      refine ⟨l, by simp, ?_, ?_⟩
      · simp only [contentOf]
        rw [List.getElem?_append_left hp, List.getElem?_drop]
      · simp only [List.length_drop] at hp; omega
    · rename_i hp
      split at h
      · rename_i k' r' heq
        simp only [Option.some.injEq, Prod.mk.injEq] at h
        obtain ⟨rfl, rfl⟩ := h
        obtain ⟨l', h1, h2, h3⟩ := ih _ _ _ heq
        refine ⟨l', by simpa using h1, ?_, h3⟩
        simp only [contentOf]
        rw [List.getElem?_append_right (by omega)]
        exact h2
      · simp at h

/-- Every content index below the content's length is mapped (the map is total on the content). -/
theorem contentMap_total (ls : List LineIn) (p : Nat) (h : p < (contentOf ls).length) :
    ∃ k r, contentMap ls p = some (k, r) := by
  induction ls generalizing p with
  | nil => simp [contentOf] at h
  | cons l ls ih =>
    simp only [contentMap]
    split
    · exact ⟨0, p, rfl⟩
    · rename_i hp
      simp only [contentOf, List.length_append] at h
      obtain ⟨k, r, hk⟩ := ih (p - (l.bytes.drop l.offset).length) (by omega)
      exact ⟨k + 1, r, by rw [hk]⟩

/-- **`make_inline` stays in its line.** If the cursor is in the state `handle_newline` leaves it in
    (`column_offset = -lineStart` where the current line's kept part starts at content index
    `lineStart`, `line_offset` = bytes stripped from that line), a run `[s, e]` inside the kept part of
    the line (`lineStart ≤ s ≤ e < lineStart + keptLen`) gets 1-based byte columns of the source line:
    `line_offset + (s - lineStart) + 1 .. line_offset + (e - lineStart) + 1`, both within
    `1 .. line_offset + keptLen`. -/
theorem makeInline_in_line (line lineStart lineOffset keptLen s e : Nat)
    (h1 : lineStart ≤ s) (h2 : s ≤ e) (h3 : e < lineStart + keptLen) :
    makeInline { line := line, columnOffset := -(lineStart : Int), lineOffset := lineOffset } s e
      = some { sl := line, sc := lineOffset + (s - lineStart) + 1, el := line, ec := lineOffset + (e - lineStart) + 1 }
    ∧ 1 ≤ lineOffset + (s - lineStart) + 1 ∧ lineOffset + (e - lineStart) + 1 ≤ lineOffset + keptLen := by
  refine ⟨?_, by omega, by omega⟩
  unfold makeInline
  simp only
  have hs : (0 : Int) ≤ (s : Int) + 1 + -(lineStart : Int) + (lineOffset : Int) := by omega
  have he : (0 : Int) ≤ (e : Int) + 1 + -(lineStart : Int) + (lineOffset : Int) := by omega
  rw [if_pos ⟨hs, he⟩]
  congr 1
  simp only [Sp.mk.injEq, true_and]
  constructor <;> omega

/-- The column of content byte `p` as `make_inline` computes it is the 1-based index, in its source
    line, of the byte `contentMap` says it is (content map and column arithmetic agree). -/
theorem makeInline_matches_contentMap (l : LineIn) (line lineStart r : Nat) :
    makeInline { line := line, columnOffset := -(lineStart : Int), lineOffset := l.offset } (lineStart + r) (lineStart + r)
      = some { sl := line, sc := l.offset + r + 1, el := line, ec := l.offset + r + 1 } := by
  have := (makeInline_in_line line lineStart l.offset (r + 1) (lineStart + r) (lineStart + r) (by omega) (by omega) (by omega)).1
  simpa using this

/-- Counting columns from 0 instead of 1 (the mutation "drop the `+ 1`") is visible to the oracle:
    the first byte of a line would get column 0, which `spInRange` rejects. -/
theorem column_zero_rejected (lt : List LineEnt) (sp : Sp) (h : sp.sc = 0) : spInRange lt sp = false := by
  unfold spInRange spRangeFail
  split
  · rfl
  · split
    · rfl
    · rename_i h2
      exfalso
      apply h2
      unfold spStartColOk
      split <;> simp [h]

/-! Non-vacuity -/
example : slice [0x61, 0x20, 0x2A, 0x62, 0x2A, 0x0A] { sl := 1, sc := 3, el := 1, ec := 5 } = some [0x2A, 0x62, 0x2A] := by decide
example : sliceMatches [0x61, 0x20, 0x2A, 0x62, 0x2A, 0x0A] (.node .emph { sl := 1, sc := 3, el := 1, ec := 5 } .nil) = true := by decide
example : sliceMatches [0x61, 0x20, 0x2A, 0x62, 0x2A, 0x0A] (.node .emph { sl := 1, sc := 2, el := 1, ec := 4 } .nil) = false := by decide
example : contentMap [⟨[0x3E, 0x20, 0x61, 0x0A], 2⟩, ⟨[0x3E, 0x62, 0x0A], 1⟩] 2 = some (1, 0) := by decide
example : contentOf [⟨[0x3E, 0x20, 0x61, 0x0A], 2⟩, ⟨[0x3E, 0x62, 0x0A], 1⟩] = [0x61, 0x0A, 0x62, 0x0A] := by decide

end Comrak.C12
