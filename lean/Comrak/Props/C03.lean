/-
C03  Canonical documents parse to exactly the structure they spell (stage 1 of the class).

`Doc` (Comrak/Canon/Doc.lean) is an inductive type of Markdown documents: paragraphs, ATX and
setext headings, thematic breaks, fenced and indented code blocks, block quotes, tight and loose
bullet / ordered lists (any nesting), with text (plain characters, backslash escapes, named and
numeric character references, multi-byte characters), code spans, emphasis, strong emphasis,
GFM strikethrough, inline links with titles, images, autolinks, hard and soft breaks.  `Doc.write` is the canonical writer,
`Doc.toTree` the comrak AST the document spells, `Doc.refHtml` the reference renderer written
from the specification, `Doc.ok` the decidable side condition that makes the spelling
unambiguous (Comrak/Canon/Ok.lean lists its clauses).

What is proved here, for all documents of any depth and size: the complete model of comrak's
HTML formatter (Comrak/Html.lean, default options) applied to `toTree d` writes exactly
`refHtml d`; `toTree d` satisfies the shape predicate of C04.  The remaining link,
`parse_document (write d) = toTree d`, is the correspondence the harness checks on every run
together with `markdown_to_html (write d) = refHtml d` on the real code.

The theorems carry the suffix `_canon`: the class is unbounded but it is not the whole language
(HTML blocks, reference links, tables, task items, footnotes, empty list items, lazy
continuation lines and every non-canonical spelling are not in it).
-/
import Comrak.Lemmas.CanonBlk
import Comrak.Lemmas.CanonShape
import Comrak.Canon.Ok
namespace Comrak.C03
open Comrak Bytes Comrak.Canon

/-- Inline content, from any writer state: the formatter model spells the reference rendering and
    changes nothing in its state but `last_was_lf`. -/
theorem inlines_canon (is : Inls) (h : is.safe = true) (p g prev : Option NodeValue) (idx : Nat) (lf : Bool) :
    R (renderF {} {} p g prev idx is.toForest) lf is.html :=
  inls_goal is h p g prev idx lf

/-- One block in any admissible position (child of the document, of a block quote or of a list
    item), tight or loose, at the beginning of an output line or not. -/
theorem block_canon (b : Blk) (h : b.safe = true) (cx : Ctx) (lf : Bool) (hp : okParent cx.parent = true) :
    R (renderT {} {} cx b.toTree) lf (b.html (paraTight cx) lf) :=
  blk_goal b h cx lf hp

/-- The statement under the part of `Doc.ok` it needs (`Doc.safe`: no URL that comrak's safe mode
    blanks, no `'` in URLs, info string not `math`). -/
theorem refHtml_eq_renderHtml_of_safe (d : Doc) (h : d.safe = true) :
    renderHtml {} {} d.toTree = d.refHtml :=
  doc_goal d h

/-- **C03 (canonical class, stage 1).** For every canonical document, of any nesting depth,
    tightness, start number, fence length: the model of comrak's HTML formatter applied to the
    tree the document spells equals the independent reference renderer. -/
theorem refHtml_eq_renderHtml_canon (d : Doc) (h : d.ok = true) :
    renderHtml {} {} d.toTree = d.refHtml := by
  simp only [Doc.ok, Bool.and_eq_true] at h
  exact doc_goal d h.2

/-- The tree a canonical document spells satisfies the full shape predicate of C04. -/
theorem shape_canon (d : Doc) (h : d.ok = true) : Shape d.toTree = true := by
  simp only [Doc.ok, Bool.and_eq_true] at h
  exact doc_shape d h.1

/-- The hypothesis on the info string is necessary: comrak renders a code block whose info string
    is exactly `math` with an extra `data-math-style` attribute even with every extension off
    (the specification leaves the treatment of info strings open, so this is not a finding). -/
theorem math_info_counterexample :
    ∃ d : Doc, d.wf = true ∧ renderHtml {} {} d.toTree ≠ d.refHtml :=
  ⟨⟨.cons (.fence 0x60 3 mathInfo [[0x78]]) .nil, []⟩, by decide, by decide⟩

/-! Non-vacuity: a document with an ATX heading, a two-line setext heading with strikethrough, an
indented code block, a loose ordered list starting at 7 whose first item
holds a paragraph with emphasis, a link with title, an escape, an entity and a hard break, a
nested tight bullet list and a block quote with a fenced code block; and a thematic break. -/
def sampleDoc : Doc :=
  ⟨Blks.ofList
    [ .heading 2 (Inls.ofList [.text [.ch 0x54, .esc 0x2A], .code 2 [0x61, 0x60, 0x62]]),
      .setext 2 4 (Inls.ofList [.text [.ch 0x41], .soft, .strike (Inls.ofList [.text [.ch 0x64]])]),
      .icode [[0x78], [], [0x20, 0x79]],
      .list { ordered := true, start := 7, paren := true, tight := false }
        (Items.ofList
          [ Blks.ofList
              [ .para (Inls.ofList
                  [ .text [.ch 0x61, .ch 0x20],
                    .emph false (Inls.ofList [.text [.ch 0x62]]),
                    .text [.ch 0x20, .ent 0, .esc 0x5B],
                    .hard true,
                    .link [0x2F, 0x75, 0x3F, 0x61, 0x26, 0x62] [0x74, 0x3C] false (.ref [0x52, 0x31] [0x72, 0x31] false)
                      (Inls.ofList [.strong true (Inls.ofList [.text [.ch 0x78]]), .text [.esc 0x21]]),
                    .soft,
                    .image [0x69, 0x2E, 0x70, 0x6E, 0x67] [] true (Inls.ofList [.text [.ch 0x7A]]),
                    .autolink 1 [0x2F, 0x2F, 0x65] ]),
                .list { bullet := 0x2B, tight := true }
                  (Items.ofList [Blks.ofList [.para (Inls.ofList [.text [.uni 0]])],
                                 Blks.ofList [.para (Inls.ofList [.text [.ch 0x63]]), .quote (Blks.ofList [.hr 0x2A 3])]]) ],
            Blks.ofList
              [ .quote (Blks.ofList [.fence 0x7E 4 [0x72, 0x73] [[0x3C, 0x61, 0x3E], [], [0x20, 0x62]]]) ] ]),
      .hr 0x2D 5 ],
   [{ label := [0x52, 0x31], url := [0x78], title := [], angle := false, before := false }]⟩

example : sampleDoc.ok = true := by decide +kernel

example : sampleDoc.write.length = 213 := by decide +kernel
example : Shape sampleDoc.toTree = true := by decide +kernel

end Comrak.C03
