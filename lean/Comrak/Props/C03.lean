/-
C03  Canonical documents parse to exactly the structure they spell.

`Doc` (Comrak/Canon/Doc.lean) is an inductive type of Markdown documents: paragraphs, ATX and
setext headings, thematic breaks, fenced and indented code blocks, block quotes, tight and loose
bullet / ordered lists (any nesting) with GFM task items, GFM tables with column alignments, HTML
blocks (start condition 6), footnote definitions; with text (plain characters, backslash escapes,
named and numeric character references, multi-byte characters), code spans, emphasis, strong
emphasis, GFM strikethrough, inline and reference links with titles (definitions before or after
use, label case variants, shadowed duplicates), images, autolinks, hard and soft breaks, footnote
references.  `Doc.write` is the canonical writer, `Doc.toTree` the comrak AST the document spells
(for footnotes: the tree after comrak's footnote pass - definitions moved to the end in the order
of first reference, `ix` / `ref_num` / `total_references` filled in; for tables: the `NodeTable`
counters as comrak fills them), `Doc.refHtml` the reference renderer written from the
specifications, `Doc.ok` the decidable side condition that makes the spelling unambiguous
(Comrak/Canon/Ok.lean lists its clauses).

What is proved here, for all documents of any depth and size: the complete model of comrak's
HTML formatter (Comrak/Html.lean, default options, i.e. safe mode: an HTML block is rendered as
the omission comment) applied to `toTree d` writes exactly `refHtml d`, including the footnote
section with its back-links, where the formatter's `footnote_ix` / `written_footnote_ix` state is
followed through; `toTree d` satisfies the shape predicate of C04.  The remaining link,
`parse_document (write d) = toTree d`, is the correspondence the harness checks on every run
together with `markdown_to_html (write d) = refHtml d` on the real code.

`Doc.toTreeP` adds source positions (see `toTreeP_erase_canon`); that they satisfy the range /
nesting / order / slice oracles of C11 and C12 (`Doc.posOk`) is checked per generated document,
not proved for all.

The theorems carry the suffix `_canon`: the class is unbounded but it is not the whole language
(multi-paragraph footnotes, HTML blocks of the other start conditions, empty list items, lazy
continuation lines and every non-canonical spelling are not in it).
-/
import Comrak.Lemmas.CanonFn
import Comrak.Lemmas.CanonShape
import Comrak.Lemmas.CanonPos
import Comrak.Lemmas.CanonPosN
import Comrak.Canon.Ok
namespace Comrak.C03
open Comrak Bytes Comrak.Canon

/-- Inline content, from any writer state: the formatter model spells the reference rendering and
    changes nothing in its state but `last_was_lf`. -/
theorem inlines_canon (is : Inls) (h : is.safe = true) (p g prev : Option NodeValue) (idx : Nat) (lf : Bool) :
    R (renderF {} {} p g prev idx is.toForest) lf is.html :=
  inls_goal is h p g prev idx lf

/-- One block in any admissible position (child of the document, of a block quote or of a list
    item), tight or loose, at the beginning of an output line or not. -/
theorem block_canon (b : Blk) (h : b.safe = true) (cx : Ctx) (lf : Bool) (hp : okParent cx.parent = true) :
    R (renderT {} {} cx b.toTree) lf (b.html (paraTight cx) lf) :=
  blk_goal b h cx lf hp

/-- The statement under the part of `Doc.ok` it needs (`Doc.safe`: no URL that comrak's safe mode
    blanks, no `'` in URLs, info string not `math`, footnote names of letters and digits). -/
theorem refHtml_eq_renderHtml_of_safe (d : Doc) (h : d.safe = true) :
    renderHtml {} {} d.toTree = d.refHtml :=
  doc_goal d h

/-- A table in any position: `<table>`, `<thead>`, `<tbody>` only when there are body rows,
    `align` attributes per column. -/
theorem table_canon (al : List Align) (h : List Inls) (rows : List (List Inls))
    (hh : h.all Inls.safe = true) (hr : rows.all (fun r => r.all Inls.safe) = true) (cx : Ctx) (lf : Bool) :
    R (renderT {} {} cx (Blk.table al h rows).toTree) lf (crB lf ++ refTable al h rows) :=
  table_goal al h rows hh hr cx lf

/-- The items of a list, with and without task markers (`<li><input type="checkbox" .. /> `). -/
theorem items_canon (items : Items) (h : items.safe = true) (m : Marker) (k : Nat) (L : NList)
    (g prev : Option NodeValue) (idx : Nat) :
    R (renderF {} {} (some (.list L)) g prev idx (items.toForest m k)) true (items.html L.tight) :=
  items_goal items h m k L g prev idx

/-- The footnote section: started from a state in which `k` notes have been written, the
    formatter model writes the remaining definitions with their back-links and ends with
    `footnote_ix = written_footnote_ix = k + number of notes`. -/
theorem footnotes_canon (notes : List Note) (h : notes.all Note.safe = true) (g prev : Option NodeValue)
    (idx k : Nat) (an : List Bytes) :
    RT (renderF {} {} (some .document) g prev idx (notesForest notes)) ⟨true, k, k, an⟩
      ⟨true, k + notes.length, k + notes.length, an⟩ (notesFrom k notes) :=
  notes_goal notes h g prev idx k an

/-- **C03 (canonical class).** For every canonical document, of any nesting depth,
    tightness, start number, fence length, table size, number of footnotes: the model of comrak's HTML formatter applied to the
    tree the document spells equals the independent reference renderer. -/
theorem refHtml_eq_renderHtml_canon (d : Doc) (h : d.ok = true) :
    renderHtml {} {} d.toTree = d.refHtml := by
  simp only [Doc.ok, Bool.and_eq_true] at h
  exact doc_goal d h.2

/-- The tree a canonical document spells satisfies the full shape predicate of C04. -/
theorem shape_canon (d : Doc) (h : d.ok = true) : Shape d.toTree = true := by
  simp only [Doc.ok, Bool.and_eq_true] at h
  exact doc_shape d h.1

/-- Source positions (serves C11/C12): `Doc.toTreeP d` (Comrak/Canon/Pos.lean) carries, for every node
    of a kind comrak documents as reliable, the line/column span the node's own text occupies in
    `write d`; the harness compares these with the positions of the real parser on every run.  It
    is the tree of the theorems above with positions filled in, nothing else. -/
theorem toTreeP_erase_canon (d : Doc) : eraseT d.toTreeP = d.toTree := doc_erase d

/-- The hypothesis on the info string is necessary: comrak renders a code block whose info string
    is exactly `math` with an extra `data-math-style` attribute even with every extension off
    (the specification leaves the treatment of info strings open, so this is not a finding). -/
theorem math_info_counterexample :
    ∃ d : Doc, d.wf = true ∧ renderHtml {} {} d.toTree ≠ d.refHtml :=
  ⟨{ blocks := .cons (.fence 0x60 3 mathInfo [[0x78]]) .nil }, by decide, by decide⟩

/-! Non-vacuity: a document with an ATX heading, a two-line setext heading with strikethrough, an
indented code block, a loose ordered list starting at 7 whose first item
holds a paragraph with emphasis, a link with title, an escape, an entity, a hard break and two
footnote references, a nested tight bullet list and a block quote with a fenced code block; a
tight task list; a table with alignments, an empty cell and a second reference to the first note;
an HTML block; a thematic break; three footnote definitions written in another order than they are
numbered, one of them unused. -/
def sampleBlocks : Blks :=
  Blks.ofList
    [ .heading 2 (Inls.ofList [.text [.ch 0x54, .esc 0x2A], .code 2 [0x61, 0x60, 0x62]]),
      .setext 2 4 (Inls.ofList [.text [.ch 0x41], .soft, .strike (Inls.ofList [.text [.ch 0x64]])]),
      .icode [[0x78], [], [0x20, 0x79]],
      .list { ordered := true, start := 7, paren := true, tight := false }
        (Items.ofList
          [ Blks.ofList
              [ .para (Inls.ofList
                  [ .text [.ch 0x61, .ch 0x20],
                    .emph false (Inls.ofList [.text [.ch 0x62]]),
                    .fnref [0x6E] 1 1,
                    .text [.ch 0x20, .ent 0, .esc 0x5B],
                    .hard true,
                    .link [0x2F, 0x75, 0x3F, 0x61, 0x26, 0x62] [0x74, 0x3C] false (.ref [0x52, 0x31] [0x72, 0x31] false)
                      (Inls.ofList [.strong true (Inls.ofList [.text [.ch 0x78]]), .text [.esc 0x21]]),
                    .soft,
                    .image [0x69, 0x2E, 0x70, 0x6E, 0x67] [] true (Inls.ofList [.text [.ch 0x7A]]),
                    .autolink 1 [0x2F, 0x2F, 0x65],
                    .fnref [0x42, 0x32] 1 2 ]),
                .list { bullet := 0x2B, tight := true }
                  (Items.ofList [Blks.ofList [.para (Inls.ofList [.text [.uni 0]])],
                                 Blks.ofList [.para (Inls.ofList [.text [.ch 0x63]]), .quote (Blks.ofList [.hr 0x2A 3])]]) ],
            Blks.ofList
              [ .quote (Blks.ofList [.fence 0x7E 4 [0x72, 0x73] [[0x3C, 0x61, 0x3E], [], [0x20, 0x62]]]) ] ]),
      .list { bullet := 0x2D, tight := true }
        (Items.ofListT
          [ (.unchecked, Blks.ofList [.para (Inls.ofList [.text [.ch 0x74]])]),
            (.checked 0x78, Blks.ofList [.para (Inls.ofList [.code 1 [0x64]])]),
            (.no, Blks.ofList [.para (Inls.ofList [.text [.ch 0x6E]])]) ]),
      .table [.left, .center, .none]
        [Inls.ofList [.text [.ch 0x61]], Inls.ofList [.emph true (Inls.ofList [.text [.ch 0x62]])], .nil]
        [ [Inls.ofList [.text [.ch 0x31, .esc 0x7C]], .nil, Inls.ofList [.code 1 [0x63], .fnref [0x6E] 2 1]] ],
      .htmlb [[0x3C, 0x64, 0x69, 0x76, 0x20, 0x69, 0x64, 0x3D, 0x78, 0x3E], [0x68, 0x69, 0x20, 0x2A, 0x61, 0x2A]],
      .hr 0x2D 5 ]

def sampleDoc : Doc :=
  { blocks := sampleBlocks,
    shadow := [{ label := [0x52, 0x31], url := [0x78], title := [], angle := false, before := false }],
    notes := [ { name := [0x6E], total := 2, body := Inls.ofList [.text [.ch 0x4E, .ch 0x20], .strong false (Inls.ofList [.text [.ch 0x6F]])] },
               { name := [0x42, 0x32], total := 1, body := Inls.ofList [.text [.ch 0x74, .ch 0x77, .ch 0x6F]] } ],
    noteOrder := [1, 0],
    unused := [ { name := [0x7A, 0x7A], total := 0, body := Inls.ofList [.text [.ch 0x75]] } ] }

example : sampleDoc.ok = true := by decide +kernel

example : sampleDoc.write.length = 358 := by decide +kernel
example : Shape sampleDoc.toTree = true := by decide +kernel
/-- The claimed positions of the sample lie inside `write d`, nest, are ordered and denote the text
    their kinds claim (the C11 / C12 oracles of Comrak/Sourcepos.lean; the statement for every
    canonical document, `Doc.ok d → Doc.posOk d`, is `positions_canon` below; the driver also
    evaluates it for each generated document). -/
example : sampleDoc.posOk = true := by decide +kernel

/-- The two recorded findings are visible on the model: comrak's trees for these documents are not
    the trees the documents spell, and `Doc.ok` excludes them (tight list holding a table without
    body rows before its end; an item whose text merely reads like a task marker). -/
example : Doc.ok { blocks := Blks.ofList [.list { tight := true } (Items.ofList
    [Blks.ofList [.table [.none] [Inls.ofList [.text [.ch 0x61]]] []], Blks.ofList [.para (Inls.ofList [.text [.ch 0x62]])]])] } = false := by
  decide +kernel
example : Doc.ok { blocks := Blks.ofList [.list { tight := true } (Items.ofList
    [Blks.ofList [.para (Inls.ofList [.text [.esc 0x5B, .ch 0x78, .esc 0x5D, .ch 0x20, .ch 0x61]])]])] } = false := by
  decide +kernel

/-! ### Positions: the C11 / C12 oracles on the canonical class -/

/-- **Positions of canonical documents (C11 / C12 on the canonical class).**  For every canonical
    document - any nesting of block quotes and lists, tables, task items, HTML blocks, footnotes,
    multi-line emphasis and links - the positioned tree `d.toTreeP` passes all oracles of
    Comrak/Sourcepos.lean on the written source `write d`: every claimed position lies in the
    source (`spRangeFail`), lies within its nearest reliable ancestor (`spNested`), follows its
    previous sibling (`spOrdered`), and denotes a slice with the bytes its kind requires
    (`sliceFail`: text literals, delimiters of code spans / emphasis / strong / strikethrough /
    links / images / autolinks, `#` of ATX headings, underline and line end of setext headings,
    fence, thematic break, `>` of block quotes, no bare pipe in table cells; `sliceEndFail`: a
    block quote ends where a line ends).  Stated under two explicit decidable hypotheses, both of
    which are consequences of `Doc.ok d` (`positions_canon` below): `cleanG d.glines` - no line `write d` joins contains a line-end byte - and
    `d.ph` (Comrak/Lemmas/CanonPosE.lean, CanonPosJ.lean) - local facts: no empty line inside a
    paragraph, lengths at least 1 / 3, heading and cell content on one line, escaped pipes in
    cells, the writer's order of the footnote definitions names valid definitions. -/
theorem positions_canon_partial (d : Doc) (h1 : cleanG d.glines = true) (h2 : d.ph = true) : d.posOk = true :=
  positions_doc d h1 h2

/-- The lines `Doc.write` joins (`write d = joinLines d.glines`) contain no line end and no carriage
    return: the line table of the source is the list of these lines. -/
theorem write_lines_clean_canon (d : Doc) (h : d.ok = true) : d.write = Canon.joinLines d.glines ∧ cleanG d.glines = true :=
  ⟨rfl, (hyps_of_ok d h).1⟩

/-- **C11 / C12 on the canonical class.**  For every canonical document (`Doc.ok d`, nothing else
    assumed) the positioned tree `d.toTreeP` - the positions the harness compares with the real
    parser's on every run - satisfies the range, nesting, order and slice clauses of
    Comrak/Sourcepos.lean on `write d`.  (Derived from `positions_canon_partial`: `Doc.ok` gives
    both hypotheses - `inls_facts`, `blk_facts`, `cellPh_of_wf`, `order_valid`, `hyps_of_ok` in
    Comrak/Lemmas/CanonPosK..N.lean.) -/
theorem positions_canon (d : Doc) (h : d.ok = true) : d.posOk = true := positions_ok d h

/-- The hypotheses are satisfiable together with `Doc.ok` (the sample has every construct). -/
example : cleanG sampleDoc.glines = true ∧ sampleDoc.ph = true := by decide +kernel

end Comrak.C03
