/-
C15  Footnote links and heading anchors are referentially intact.

Anchors: `anchorLoop`/`anchorize` of Comrak/Html.lean (src/html/anchorizer.rs) - full strength, for
every normalisation table, every set of issued anchors and every list of heading texts.
Footnotes: `processFootnotes` of Comrak/Footnotes.lean (the parser's pass, tied to the real pass node
for node by the harness) - numbering in first-reference order is proved for every tree and label
normaliser; the clauses the real pass violates are refuted by `decide` witnesses on the model
(each reproduced on the real code by the harness and listed in known_findings.json).
-/
import Comrak.Lemmas.Anchor
import Comrak.Lemmas.AnchorMemo
import Comrak.Lemmas.Footnotes
import Comrak.Lemmas.FootnotesGen
namespace Comrak.C15
open Comrak Bytes

/-! ## Heading anchors -/

/-- The uniqueness loop always finds a candidate within `issued.length + 1` tries (pigeonhole over the
    pairwise different candidates `id, id-1, id-2, ...`). -/
theorem anchorLoop_some (issued : List Bytes) (id : Bytes) :
    ∃ a, anchorLoop issued id (issued.length + 1) 0 = some a := by
  cases h : anchorLoop issued id (issued.length + 1) 0 with
  | none => exact absurd h (anchorLoop_ne_none issued id 0)
  | some a => exact ⟨a, rfl⟩

/-- The decimal suffixes are injective, so the candidates are pairwise different. -/
theorem candidates_injective (id : Bytes) (j k : Nat) (h : anchorCand id j = anchorCand id k) : j = k :=
  anchorCand_injective id h

/-- What the loop returns: the first candidate that was not issued before. -/
theorem anchorLoop_first_unused (issued : List Bytes) (id a : Bytes)
    (h : anchorLoop issued id (issued.length + 1) 0 = some a) :
    a ∉ issued ∧ ∃ k, a = anchorCand id k ∧ ∀ j, j < k → anchorCand id j ∈ issued := by
  obtain ⟨h1, k, _, h2, h3⟩ := anchorLoop_some_spec issued id _ 0 a h
  refine ⟨h1, k, by simpa using h2, ?_⟩
  intro j hj
  simpa using h3 j hj

/-- The returned anchor was not issued before, and it is recorded as issued. -/
theorem anchorize_fresh (nt : NormTable) (issued : List Bytes) (header : Bytes) :
    (anchorize nt issued header).1 ∉ issued ∧
    (anchorize nt issued header).2 = (anchorize nt issued header).1 :: issued := by
  unfold anchorize
  obtain ⟨a, ha⟩ := anchorLoop_some issued (nt.norm header)
  simp only [ha]
  exact ⟨(anchorLoop_first_unused issued _ a ha).1, trivial⟩

/-- The anchor is the normalised text itself unless that was issued already, and then the smallest free `-N`. -/
theorem anchorize_smallest_suffix (nt : NormTable) (issued : List Bytes) (header : Bytes) :
    ∃ k, (anchorize nt issued header).1 = anchorCand (nt.norm header) k ∧
         ∀ j, j < k → anchorCand (nt.norm header) j ∈ issued := by
  unfold anchorize
  obtain ⟨a, ha⟩ := anchorLoop_some issued (nt.norm header)
  simp only [ha]
  exact (anchorLoop_first_unused issued _ a ha).2

/-- **Heading anchors are pairwise distinct**: for every normalisation table and every list of heading
    texts (duplicates, texts that collide after normalisation or with generated `-N` suffixes). -/
theorem anchors_pairwise_distinct : ∀ (nt : NormTable) (hs : List Bytes), (anchorizeAll nt hs).Nodup :=
  fun nt hs => (anchorizeFrom_spec nt hs [] (anchorize_fresh nt)).2

example : anchorizeAll {} [[0x61], [0x41], [0x61, 0x2D, 0x31], [0x61, 0x20, 0x31], [0x61]] =
    [[0x61], [0x61, 0x2D, 0x31], [0x61, 0x2D, 0x31, 0x2D, 0x31], [0x61, 0x2D, 0x31, 0x2D, 0x32], [0x61, 0x2D, 0x32]] := by decide

/-! ## Footnotes -/

/-- **Footnotes are numbered 1, 2, 3, ... in order of first reference** (document order of the tree the pass
    walks, references inside definitions included): for every label normaliser, definition table, state and forest. -/
theorem ix_is_1_to_n_in_first_ref_order (N : LabelNorm) (D : DefTab) (f : Forest) (h : leafRefsF f = true) :
    firstRefOrder 0 (ixsOf (allRefsF (numberF N D f {}).1)) = true := by
  have := numberF_order N D f {} [] h
  simpa [firstRefOrder] using this

/-- An unresolved reference is rewritten to its literal text and nothing else changes. -/
theorem unresolved_stay_text (N : LabelNorm) (D : DefTab) (st : NSt) (label : Bytes)
    (h : D.get? (N.fold label) = none) :
    stepRef N D st label = (.text ([0x5B, 0x5E] ++ label ++ [0x5D]), st) := by
  simp [stepRef, h]

/-- On a clean document (case variants, a reference inside a live definition, an unresolved name) every
    clause holds of the pass's output - the oracles are satisfiable. -/
theorem clean_document_intact :
    let t' := processFootnotes asciiNorm W.clean
    refsPointOk asciiNorm t' = true ∧ defsOnceOk t' = true ∧ refNumsOk t' = true ∧
    unreferencedOmittedOk t' = true ∧ backrefsMatch (renderToks {} {} t') = true ∧
    rootDefs t' = [([0x41], 3), ([0x62], 1)] := by decide

/-- `ref_nums_1_to_total` fails when a reference sits in a definition that is dropped: the dropped
    reference is counted. -/
theorem ref_nums_1_to_total_counterexample :
    leafRefsT W.discarded = true ∧ refNumsOk (processFootnotes asciiNorm W.discarded) = false := by decide

/-- ... and at HTML level the definition then links back to an id that does not exist (`fnref-a-2`). -/
theorem backrefs_match_refs_counterexample :
    let ts := renderToks {} {} (processFootnotes asciiNorm W.discarded)
    backrefsMatch ts = false ∧
    tokBackHrefs ts = [S.v_fnref ++ [0x61], S.v_fnref ++ [0x61, 0x2D, 0x32]] ∧ tokRefIds ts = [S.v_fnref ++ [0x61]] := by decide

/-- The ids of references are not pairwise distinct: `a` referenced twice and a footnote named `a-2`. -/
theorem ref_ids_distinct_counterexample :
    ¬ (tokRefIds (renderToks {} {} (processFootnotes asciiNorm W.suffix))).Nodup := by decide

/-- `unreferenced_omitted` fails for a definition nested in a definition: it is not found by the first
    walk, stays inside its parent and is rendered although nothing refers to it. -/
theorem unreferenced_omitted_counterexample :
    unreferencedOmittedOk (processFootnotes asciiNorm W.nested) = false ∧
    backrefsMatch (renderToks {} {} (processFootnotes asciiNorm W.nested)) = false := by decide

/-- `defs_rendered_once` fails with a nested definition that repeats a name: `fn-b` is rendered twice. -/
theorem defs_rendered_once_counterexample :
    defsOnceOk (processFootnotes asciiNorm W.nestedDup) = false ∧
    ¬ (tokDefIds (renderToks {} {} (processFootnotes asciiNorm W.nestedDup))).Nodup := by decide

/-- Witness of a repaired defect: when label normalisation is not idempotent (a label starting with
    U+00A0) the pinned tree gave the reference `keep (keep label)` and the definition `keep label`;
    since the `fix:` commit the reference copies the stored name, and the clause holds on the witness. -/
theorem refs_point_to_rendered_def_after_fix :
    refsPointOk ⟨id, id⟩ (processFootnotes nbspNorm W.nbsp) = true := by decide

/-! ## Footnotes: the remaining clauses, for every tree and label normaliser, outside the defect classes

Hypotheses (decidable predicates on the input tree, Lemmas/FootnotesGen.lean):
* `rootPlain t`      - the root is neither a definition (the pass returns such a tree unchanged) nor a reference;
* `leafRefsT t`      - reference nodes are leaves (true of every tree the inline parser builds);
* `noNestedDefs t`   - no definition nested in a definition (known finding C15-nested-def);
* `noRefInDropped N t` - no *resolvable* reference inside a definition that is dropped, i.e. shadowed by a later
                       definition with the same folded label or not referenced at all (C15-ref-in-discarded-def);
* `labelsCompat N t` - on the definitions' labels `keep`-equal implies `fold`-equal (a condition on the normaliser
                       parameter; true of `normalize_label`).
Idempotence of `N.keep` is NOT needed since the `fix:` commit (the reference copies the stored name). -/

/-- **Every reference points to a rendered definition**: it carries `ix ≥ 1` and the name of the `ix`-th
    definition under the root - for every tree with leaf references and every normaliser; in particular also with
    nested definitions, references in dropped definitions and non-idempotent label normalisation. -/
theorem refs_point_to_rendered_def_partial (N : LabelNorm) (t : Tree)
    (hr : rootPlain t = true) (hl : leafRefsT t = true) :
    refsPointOk N (processFootnotes N t) = true :=
  refsPointOk_gen N t hr hl

/-- **No definition name is rendered twice.** -/
theorem defs_rendered_once_partial (N : LabelNorm) (t : Tree)
    (hr : rootPlain t = true) (hl : leafRefsT t = true) (hn : noNestedDefs t = true)
    (hc : labelsCompat N t = true) :
    defsOnceOk (processFootnotes N t) = true :=
  defsOnceOk_gen N t hr hl hn hc

/-- **The references to the `i`-th rendered definition carry the `ref_num`s `1 .. total_references`, each once.** -/
theorem ref_nums_1_to_total_partial (N : LabelNorm) (t : Tree)
    (hr : rootPlain t = true) (hl : leafRefsT t = true) (hd : noRefInDropped N t = true) :
    refNumsOk (processFootnotes N t) = true :=
  refNumsOk_gen N t hr hl hd

/-- **Unreferenced definitions are omitted**: every definition in the output is one of the numbered definitions
    under the root, and each of those is referenced from the output. -/
theorem unreferenced_omitted_partial (N : LabelNorm) (t : Tree)
    (hr : rootPlain t = true) (hl : leafRefsT t = true) (hn : noNestedDefs t = true)
    (hd : noRefInDropped N t = true) :
    unreferencedOmittedOk (processFootnotes N t) = true :=
  unreferencedOmittedOk_gen N t hr hl hn hd

/-- The output, explicitly: the rendered definitions are the numbered keys in `ix` order, each with the stored
    name of its slot and the number of resolvable references to it in the whole input. -/
theorem rendered_defs_are_numbered_keys (N : LabelNorm) (t : Tree)
    (hr : rootPlain t = true) (hl : leafRefsT t = true) :
    rootDefs (processFootnotes N t) =
      (fnFin N t).seen.map fun k => (nameOf (fnD N t) k, (fnKeys N t).count k) := by
  rw [out_rootDefs N t hr hl]
  apply List.map_congr_left
  intro k _
  rw [fnHist_count]

/-! Non-vacuity: a tree with case variants, a reference inside a live definition, an unresolved name, a definition
    shadowed by a later duplicate (holding an unresolvable reference) and an unreferenced definition satisfies
    every hypothesis. -/
example : rootPlain W.clean2 = true ∧ leafRefsT W.clean2 = true ∧ noNestedDefs W.clean2 = true ∧
    noRefInDropped asciiNorm W.clean2 = true ∧ labelsCompat asciiNorm W.clean2 = true := by decide
example : rootDefs (processFootnotes asciiNorm W.clean2) = [([0x41], 3), ([0x62], 1)] ∧
    allRefsT (processFootnotes asciiNorm W.clean2) =
      [([0x41], 1, 1), ([0x62], 1, 2), ([0x41], 2, 1), ([0x41], 3, 1)] := by decide
example : refNumsOk (processFootnotes asciiNorm W.clean2) = true :=
  ref_nums_1_to_total_partial _ _ (by decide) (by decide) (by decide)
example : rootPlain W.clean = true ∧ leafRefsT W.clean = true ∧ noNestedDefs W.clean = true ∧
    noRefInDropped asciiNorm W.clean = true ∧ labelsCompat asciiNorm W.clean = true := by decide

/-! ### Each hypothesis is needed -/

/-- `noRefInDropped` is what fails on the witness of `ref_nums_1_to_total_counterexample`
    (all other hypotheses hold there). -/
theorem noRefInDropped_needed_for_ref_nums :
    rootPlain W.discarded = true ∧ leafRefsT W.discarded = true ∧ noNestedDefs W.discarded = true ∧
    labelsCompat asciiNorm W.discarded = true ∧ noRefInDropped asciiNorm W.discarded = false ∧
    refNumsOk (processFootnotes asciiNorm W.discarded) = false := by decide

/-- ... and for `unreferenced_omitted`: a definition referenced only from a dropped definition is rendered
    without any reference in the output. -/
theorem noRefInDropped_needed_for_unreferenced :
    rootPlain W.onlyFromDropped = true ∧ leafRefsT W.onlyFromDropped = true ∧ noNestedDefs W.onlyFromDropped = true ∧
    labelsCompat asciiNorm W.onlyFromDropped = true ∧ noRefInDropped asciiNorm W.onlyFromDropped = false ∧
    unreferencedOmittedOk (processFootnotes asciiNorm W.onlyFromDropped) = false := by decide

/-- `noNestedDefs` is what fails on the witnesses of `unreferenced_omitted_counterexample` and
    `defs_rendered_once_counterexample`. -/
theorem noNestedDefs_needed :
    (rootPlain W.nested = true ∧ leafRefsT W.nested = true ∧ noRefInDropped asciiNorm W.nested = true ∧
      labelsCompat asciiNorm W.nested = true ∧ noNestedDefs W.nested = false ∧
      unreferencedOmittedOk (processFootnotes asciiNorm W.nested) = false) ∧
    (rootPlain W.nestedDup = true ∧ leafRefsT W.nestedDup = true ∧ noRefInDropped asciiNorm W.nestedDup = true ∧
      labelsCompat asciiNorm W.nestedDup = true ∧ noNestedDefs W.nestedDup = false ∧
      defsOnceOk (processFootnotes asciiNorm W.nestedDup) = false) := by decide

/-- `labelsCompat`: with a normaliser whose preserved form identifies labels that the folded form
    distinguishes, two footnotes are rendered under one name. -/
theorem labelsCompat_needed :
    rootPlain W.two = true ∧ leafRefsT W.two = true ∧ noNestedDefs W.two = true ∧
    noRefInDropped constKeepNorm W.two = true ∧ labelsCompat constKeepNorm W.two = false ∧
    defsOnceOk (processFootnotes constKeepNorm W.two) = false := by decide

/-- `leafRefsT`: below an unresolvable reference node the pass does not look; a reference there keeps `ix = 0`. -/
theorem leafRefs_needed :
    rootPlain W.leafBad = true ∧ leafRefsT W.leafBad = false ∧
    refsPointOk asciiNorm (processFootnotes asciiNorm W.leafBad) = false := by decide

/-- `rootPlain`: a tree whose root is a definition is returned unchanged. -/
theorem rootPlain_needed :
    rootPlain W.rootDef = false ∧ leafRefsT W.rootDef = true ∧
    refsPointOk asciiNorm (processFootnotes asciiNorm W.rootDef) = false := by decide

/-- Idempotence of `keep` is not among the hypotheses: the witness of the repaired defect satisfies them. -/
example : rootPlain W.nbsp = true ∧ leafRefsT W.nbsp = true ∧ noNestedDefs W.nbsp = true ∧
    noRefInDropped nbspNorm W.nbsp = true ∧ labelsCompat nbspNorm W.nbsp = true := by decide

end Comrak.C15

/-! ## Heading anchors: the code as it is (memoised `Anchorizer`, /repo commit 70a0ef9)

`anchorizeMemo` (Comrak/Anchor.lean) follows `Anchorizer::anchorize` with its `HashMap<String, usize>` statement by
statement and is what the driver's `anchors` command runs against the real `Anchorizer`.  The theorems below
show that it refines the set-based `anchorize` above, so everything proved of that specification holds of the
code as it is, and that its probes are linear in the number of headings where the set-based loop (the code
before the repair) is quadratic. -/
namespace Comrak.C15
open Comrak Bytes

/-- The empty map and the empty set are related (a fresh `Anchorizer`). -/
theorem memoInv_empty : MemoInv [] [] := memoInv_nil

/-- `MemoInv m issued`, spelled out: the keys of the map are the issued anchors, and for a key `k` with stored
    counter `v` all of `k`, `k-1`, ..., `k-(v-1)` are keys. -/
theorem memoInv_iff (m : AnchorMap) (issued : List Bytes) :
    MemoInv m issued ↔
      (∀ k, m.containsKey k = true ↔ k ∈ issued) ∧
      (∀ k v, m.get k = some v → ∀ j, j < v → m.containsKey (anchorCand k j) = true) :=
  ⟨fun h => ⟨h.keys, h.taken⟩, fun h => ⟨h.1, h.2⟩⟩

/-- **The memoised `anchorize` refines the set-based one**: from related states it returns the same anchor, and
    the new states are related again. -/
theorem anchorizeMemo_refines (nt : NormTable) (m : AnchorMap) (issued : List Bytes) (header : Bytes)
    (h : MemoInv m issued) :
    (anchorizeMemo nt m header).1 = (anchorize nt issued header).1 ∧
    MemoInv (anchorizeMemo nt m header).2 (anchorize nt issued header).2 :=
  anchorizeMemo_refines_aux nt m issued header h

/-- Whole heading sequences from related states: the same list of anchors. -/
theorem anchorizeMemoFrom_refines (nt : NormTable) (m : AnchorMap) (issued : List Bytes) (hs : List Bytes)
    (h : MemoInv m issued) : anchorizeMemoFrom nt m hs = anchorizeFrom nt issued hs :=
  anchorizeMemoFrom_eq nt hs m issued h

/-- **One fresh `Anchorizer` as it is issues exactly the anchors of the specification**, for every
    normalisation table and every list of heading texts. -/
theorem anchorizeMemoAll_eq_spec (nt : NormTable) (hs : List Bytes) : anchorizeMemoAll nt hs = anchorizeAll nt hs :=
  anchorizeMemoFrom_eq nt hs [] [] memoInv_nil

/-- **Heading anchors of the code as it is are pairwise distinct.** -/
theorem anchors_pairwise_distinct_memo (nt : NormTable) (hs : List Bytes) : (anchorizeMemoAll nt hs).Nodup := by
  rw [anchorizeMemoAll_eq_spec]
  exact anchors_pairwise_distinct nt hs

/-- The anchor the code returns was not a key, and it is the normalised text itself unless that is a key, and
    then the one with the smallest free `-N` (although the loop starts at the stored counter, not at 0). -/
theorem anchorizeMemo_fresh_smallest (nt : NormTable) (m : AnchorMap) (issued : List Bytes) (header : Bytes)
    (h : MemoInv m issued) :
    m.containsKey (anchorizeMemo nt m header).1 = false ∧
    ∃ k, (anchorizeMemo nt m header).1 = anchorCand (nt.norm header) k ∧
         ∀ j, j < k → m.containsKey (anchorCand (nt.norm header) j) = true := by
  obtain ⟨u, _, _, e2, hf, hb⟩ := anchorizeMemo_step nt m issued header h
  rw [e2]
  refine ⟨?_, u, rfl, fun j hj => (h.keys _).mpr (hb j hj)⟩
  cases hc : m.containsKey (anchorCand (nt.norm header) u) with
  | false => rfl
  | true => exact absurd ((h.keys _).mp hc) hf

/-- **The probes of the memoised loop are linear**: over any sequence of `n` headings one fresh `Anchorizer`
    makes at most `2n` `contains_key` probes in total (each probe either ends a call or advances a stored
    counter over a taken candidate, and an issued anchor is such a candidate at most twice). -/
theorem anchorize_memo_linear (nt : NormTable) (hs : List Bytes) : memoProbesAll nt hs ≤ 2 * hs.length := by
  have := memoProbesFrom_le nt hs [] [] memoInv_nil AnchorMap.wf_nil
  simpa [memoProbesAll, AnchorMap.valSum] using this

/-- ... and from any reachable state: the probes for `hs` are at most twice the anchors issued at the end. -/
theorem anchorize_memo_linear_from (nt : NormTable) (m : AnchorMap) (issued : List Bytes) (hs : List Bytes)
    (h : MemoInv m issued) (hw : m.WF) :
    m.valSum + memoProbesFrom nt m hs ≤ 2 * (issued.length + hs.length) :=
  memoProbesFrom_le nt hs m issued h hw

/-- One call costs exactly what it adds to the stored counters. -/
theorem anchorize_memo_probes_are_potential (nt : NormTable) (m : AnchorMap) (header : Bytes) :
    (anchorizeMemo nt m header).2.valSum = m.valSum + anchorizeMemoProbes nt m header :=
  anchorizeMemo_probes_potential nt m header

/-- **The set-based loop (the code before the repair) is quadratic**: `n` equal headings cost
    `1 + 2 + ... + n = n(n+1)/2` probes, for every heading text and normalisation table. -/
theorem anchorize_old_quadratic (nt : NormTable) (h : Bytes) (n : Nat) :
    oldProbesAll nt (List.replicate n h) = n * (n + 1) / 2 := by
  have := oldProbesFrom_replicate nt h n 0 [] (by intro j; simp) (Nat.le_refl _)
  simpa [oldProbesAll] using this

/-! Non-vacuity and concrete runs. -/
example : anchorizeMemoAll {} [[0x61], [0x41], [0x61, 0x2D, 0x31], [0x61, 0x20, 0x31], [0x61]] =
    [[0x61], [0x61, 0x2D, 0x31], [0x61, 0x2D, 0x31, 0x2D, 0x31], [0x61, 0x2D, 0x31, 0x2D, 0x32], [0x61, 0x2D, 0x32]] := by decide
/-- `a`, `a`: with `uniq = 0` the second insert overwrites the entry of the first; then `a ↦ 2`, `a-1 ↦ 0`. -/
example : memoStateFrom {} [] [[0x61]] = [([0x61], 1)] ∧
    memoStateFrom {} [] [[0x61], [0x61]] = [([0x61], 2), ([0x61, 0x2D, 0x31], 0)] := by decide
example : ∃ m issued, MemoInv m issued ∧ m = [([0x61], 1)] ∧ issued = [[0x61]] :=
  ⟨_, _, (anchorizeMemo_refines {} [] [] [0x61] memoInv_empty).2, by decide, by decide⟩
example : AnchorMap.WF (memoStateFrom {} [] [[0x61], [0x61]]) :=
  anchorizeMemo_wf _ _ _ (anchorizeMemo_wf _ _ _ AnchorMap.wf_nil)
/-- 8 equal headings: 8 probes as it is, 36 before the repair. -/
example : memoProbesAll {} (List.replicate 8 [0x61]) = 8 ∧ oldProbesAll {} (List.replicate 8 [0x61]) = 36 := by decide
/-- `a-1 a-2 a-3 a a`: the last call walks over three anchors other headings took (4 probes); 8 ≤ 10 in total. -/
example : memoProbesAll {} [[0x61, 0x2D, 0x31], [0x61, 0x2D, 0x32], [0x61, 0x2D, 0x33], [0x61], [0x61]] = 8 := by decide

end Comrak.C15
