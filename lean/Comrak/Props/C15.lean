/-
C15  Footnote links and heading anchors are referentially intact.

Anchors: `anchorLoop`/`anchorize` of Comrak/Html.lean (src/html/anchorizer.rs) - full strength, for
every normalisation table, every set of issued anchors and every list of heading texts.
Footnotes: `processFootnotes` of Comrak/Footnotes.lean (the parser's pass, tied to the real pass node
for node by the harness) - numbering in first-reference order is proved for every tree and label
normaliser; the clauses the real pass violates are refuted by `decide` witnesses on the model
(each reproduced on the real code by the harness and listed in known_findings.json).
-/
import Comrak.Lemmas.Anchor
import Comrak.Lemmas.Footnotes
namespace Comrak.C15
open Comrak Bytes

/-! ## Heading anchors -/

/-- The uniqueness loop always finds a candidate within `issued.length + 1` tries (pigeonhole over the
    pairwise different candidates `id, id-1, id-2, ...`). -/
theorem anchorLoop_some (issued : List Bytes) (id : Bytes) :
    ∃ a, anchorLoop issued id (issued.length + 1) 0 = some a := by
  cases h : anchorLoop issued id (issued.length + 1) 0 with
  | none => exact absurd h (anchorLoop_ne_none issued id 0)
  | some a => exact ⟨a, rfl⟩

/-- The decimal suffixes are injective, so the candidates are pairwise different. -/
theorem candidates_injective (id : Bytes) (j k : Nat) (h : anchorCand id j = anchorCand id k) : j = k :=
  anchorCand_injective id h

/-- What the loop returns: the first candidate that was not issued before. -/
theorem anchorLoop_first_unused (issued : List Bytes) (id a : Bytes)
    (h : anchorLoop issued id (issued.length + 1) 0 = some a) :
    a ∉ issued ∧ ∃ k, a = anchorCand id k ∧ ∀ j, j < k → anchorCand id j ∈ issued := by
  obtain ⟨h1, k, _, h2, h3⟩ := anchorLoop_some_spec issued id _ 0 a h
  refine ⟨h1, k, by simpa using h2, ?_⟩
  intro j hj
  simpa using h3 j hj

/-- The returned anchor was not issued before, and it is recorded as issued. -/
theorem anchorize_fresh (nt : NormTable) (issued : List Bytes) (header : Bytes) :
    (anchorize nt issued header).1 ∉ issued ∧
    (anchorize nt issued header).2 = (anchorize nt issued header).1 :: issued := by
  unfold anchorize
  obtain ⟨a, ha⟩ := anchorLoop_some issued (nt.norm header)
  simp only [ha]
  exact ⟨(anchorLoop_first_unused issued _ a ha).1, trivial⟩

/-- The anchor is the normalised text itself unless that was issued already, and then the smallest free `-N`. -/
theorem anchorize_smallest_suffix (nt : NormTable) (issued : List Bytes) (header : Bytes) :
    ∃ k, (anchorize nt issued header).1 = anchorCand (nt.norm header) k ∧
         ∀ j, j < k → anchorCand (nt.norm header) j ∈ issued := by
  unfold anchorize
  obtain ⟨a, ha⟩ := anchorLoop_some issued (nt.norm header)
  simp only [ha]
  exact (anchorLoop_first_unused issued _ a ha).2

/-- **Heading anchors are pairwise distinct**: for every normalisation table and every list of heading
    texts (duplicates, texts that collide after normalisation or with generated `-N` suffixes). -/
theorem anchors_pairwise_distinct : ∀ (nt : NormTable) (hs : List Bytes), (anchorizeAll nt hs).Nodup :=
  fun nt hs => (anchorizeFrom_spec nt hs [] (anchorize_fresh nt)).2

example : anchorizeAll {} [[0x61], [0x41], [0x61, 0x2D, 0x31], [0x61, 0x20, 0x31], [0x61]] =
    [[0x61], [0x61, 0x2D, 0x31], [0x61, 0x2D, 0x31, 0x2D, 0x31], [0x61, 0x2D, 0x31, 0x2D, 0x32], [0x61, 0x2D, 0x32]] := by decide

/-! ## Footnotes -/

/-- **Footnotes are numbered 1, 2, 3, ... in order of first reference** (document order of the tree the pass
    walks, references inside definitions included): for every label normaliser, definition table, state and forest. -/
theorem ix_is_1_to_n_in_first_ref_order (N : LabelNorm) (D : DefTab) (f : Forest) (h : leafRefsF f = true) :
    firstRefOrder 0 (ixsOf (allRefsF (numberF N D f {}).1)) = true := by
  have := numberF_order N D f {} [] h
  simpa [firstRefOrder] using this

/-- An unresolved reference is rewritten to its literal text and nothing else changes. -/
theorem unresolved_stay_text (N : LabelNorm) (D : DefTab) (st : NSt) (label : Bytes)
    (h : D.get? (N.fold label) = none) :
    stepRef N D st label = (.text ([0x5B, 0x5E] ++ label ++ [0x5D]), st) := by
  simp [stepRef, h]

/-- On a clean document (case variants, a reference inside a live definition, an unresolved name) every
    clause holds of the pass's output - the oracles are satisfiable. -/
theorem clean_document_intact :
    let t' := processFootnotes asciiNorm W.clean
    refsPointOk asciiNorm t' = true ∧ defsOnceOk t' = true ∧ refNumsOk t' = true ∧
    unreferencedOmittedOk t' = true ∧ backrefsMatch (renderToks {} {} t') = true ∧
    rootDefs t' = [([0x41], 3), ([0x62], 1)] := by decide

/-- `ref_nums_1_to_total` fails when a reference sits in a definition that is dropped: the dropped
    reference is counted. -/
theorem ref_nums_1_to_total_counterexample :
    leafRefsT W.discarded = true ∧ refNumsOk (processFootnotes asciiNorm W.discarded) = false := by decide

/-- ... and at HTML level the definition then links back to an id that does not exist (`fnref-a-2`). -/
theorem backrefs_match_refs_counterexample :
    let ts := renderToks {} {} (processFootnotes asciiNorm W.discarded)
    backrefsMatch ts = false ∧
    tokBackHrefs ts = [S.v_fnref ++ [0x61], S.v_fnref ++ [0x61, 0x2D, 0x32]] ∧ tokRefIds ts = [S.v_fnref ++ [0x61]] := by decide

/-- The ids of references are not pairwise distinct: `a` referenced twice and a footnote named `a-2`. -/
theorem ref_ids_distinct_counterexample :
    ¬ (tokRefIds (renderToks {} {} (processFootnotes asciiNorm W.suffix))).Nodup := by decide

/-- `unreferenced_omitted` fails for a definition nested in a definition: it is not found by the first
    walk, stays inside its parent and is rendered although nothing refers to it. -/
theorem unreferenced_omitted_counterexample :
    unreferencedOmittedOk (processFootnotes asciiNorm W.nested) = false ∧
    backrefsMatch (renderToks {} {} (processFootnotes asciiNorm W.nested)) = false := by decide

/-- `defs_rendered_once` fails with a nested definition that repeats a name: `fn-b` is rendered twice. -/
theorem defs_rendered_once_counterexample :
    defsOnceOk (processFootnotes asciiNorm W.nestedDup) = false ∧
    ¬ (tokDefIds (renderToks {} {} (processFootnotes asciiNorm W.nestedDup))).Nodup := by decide

/-- Witness of a repaired defect: when label normalisation is not idempotent (a label starting with
    U+00A0) the pinned tree gave the reference `keep (keep label)` and the definition `keep label`;
    since the `fix:` commit the reference copies the stored name, and the clause holds on the witness. -/
theorem refs_point_to_rendered_def_after_fix :
    refsPointOk ⟨id, id⟩ (processFootnotes nbspNorm W.nbsp) = true := by decide

end Comrak.C15
