/-
C09  XML output is well-formed and mirrors the tree node for node.
Property theorems only; helper lemmas live in Comrak/Lemmas/Xml.lean (and XmlRead.lean).
The model (Comrak/Xml.lean) covers `format_xml` completely: prolog, all 41 node kinds with
their attributes, the local `escape`, indentation, the Pre/Post traversal.  The oracle
`readXml` and the expected element tree `xmlTree` are in Comrak/XmlLang.lean.

The full-strength statements are named propositions (`C09_wellformed_full`,
`C09_mirrors_full`) and both are proved (`xml_mirrors_tree`, `xml_wellformed`): for every option
vector and every tree in which no literal-kind node has children.  Until /repo commit ce28ea3
they were refuted at `EscapedTag` (payload written verbatim inside the start tag); the payload
is now an ordinary escaped attribute `tag`, `escapedTag_example` and
`escapedTag_payload_before_fix` keep the former witness as a positive example.
-/
import Comrak.Lemmas.XmlRead
import Comrak.Lemmas.XmlStack
import Comrak.Props.C19
namespace Comrak.C09
open Comrak Bytes

/-- The formatter's private `escape` loop computes the same function as `html::escape`. -/
theorem xml_escape_eq_html_escape (bs : Bytes) : xmlEscape bs = escape bs :=
  xmlEscape_eq bs

/-- Every token starts its line with at most 40 spaces followed by `<` (`min(indent, 40)`),
    whatever the nesting depth. -/
theorem indent_bounded (tok : XTok) :
    ∃ (n : Nat) (rest : Bytes), n ≤ 40 ∧ tok.spell = List.replicate n 0x20 ++ 0x3C :: rest := by
  cases tok with
  | opn i n as =>
    exact ⟨min i 40, n ++ spellXAttrs as ++ [0x3E, 0x0A], Nat.min_le_right _ _, by simp [XTok.spell, indentBytes, maxIndent]⟩
  | leaf i n as l =>
    exact ⟨min i 40, n ++ spellXAttrs as ++ [0x3E] ++ xmlEscape l ++ [0x3C, 0x2F] ++ n ++ [0x3E, 0x0A],
      Nat.min_le_right _ _, by simp [XTok.spell, indentBytes, maxIndent]⟩
  | empty i n as =>
    exact ⟨min i 40, n ++ spellXAttrs as ++ [0x20, 0x2F, 0x3E, 0x0A], Nat.min_le_right _ _, by simp [XTok.spell, indentBytes, maxIndent]⟩
  | close i n =>
    exact ⟨min i 40, [0x2F] ++ n ++ [0x3E, 0x0A], Nat.min_le_right _ _, by simp [XTok.spell, indentBytes, maxIndent]⟩

/-- **Traversal.** The explicit work-stack machine of `XmlFormatter::format` (Pre/Post items,
    children pushed in reverse, `indent += 2` on entering a node with children and
    `indent -= 2` on leaving it; Comrak/XmlStack.lean) writes exactly the tokens of the
    recursive renderer the other theorems are about; two iterations per node suffice, and the
    subtraction never goes below the value on entry. -/
theorem stack_traversal_eq_recursive (o : XmlOpts) (t : Tree) :
    renderXmlStack o t = renderXmlToks o t :=
  renderXmlStack_eq o t

/-- **Balance, token level.** For every option vector and every tree in which no literal-kind
    node has children (all parsed trees), every start tag is closed in the right order by the
    end tag of the same node and nothing is left open. -/
theorem xml_balanced (o : XmlOpts) (t : Tree) (h : litLeafT t = true) :
    xbalanced (renderXmlToks o t) = true := by
  simp [xbalanced, renderXmlToks, xrun_renderXmlT o t 0 {} [] h]

/-- The hypothesis of `xml_balanced` is needed: a literal node with a child gets its end tag twice. -/
theorem literal_with_children_counterexample :
    litLeafT (.node (.text [0x61]) {} (.cons (.node .softBreak {} .nil) .nil)) = false ∧
    xbalanced (renderXmlToks {} (.node (.text [0x61]) {} (.cons (.node .softBreak {} .nil) .nil))) = false := by
  decide

/-- **Escaping.** Every attribute value the renderer writes is `escape p` of some payload `p`
    (document data go through the escaper; comrak's own words and decimals contain none of
    `& < > "`, so they are their own escape), and every text run is `escape` of the literal.
    Hence no raw `<`, `>`, `"` and no `&` other than at the start of one of the four entities,
    for every tree and every option vector. -/
theorem xml_attr_values_escaped (o : XmlOpts) (t : Tree) :
    ∀ tok ∈ renderXmlToks o t,
      (∀ n v, XAttr.mk n v ∈ tok.attrs → (∃ p, v.spell = escape p) ∧ noActive v.spell = true) ∧
      (∀ l, tok.text = some l → noActive (xmlEscape l) = true) := by
  have hall : (renderXmlToks o t).all tokValsOk = true :=
    renderXmlT_all o tokValsOk (fun _ => true)
      (by intro ind cx v sp l _; simp [tokValsOk, XTok.attrs, xmlAttrs_vals]) t 0 {} (Tree.allV_true t)
  intro tok htok
  have htk := List.all_eq_true.mp hall tok htok
  refine ⟨?_, ?_⟩
  · intro n v hm
    have hv : valOk v = true := by
      have := List.all_eq_true.mp htk _ hm
      simpa [attrValOk] using this
    cases v with
    | esc p =>
      exact ⟨⟨p, xmlEscape_eq p⟩, by simp only [XVal.spell, xmlEscape_eq]; exact C19.escape_no_active p⟩
    | lit w =>
      have hw : escape w = w := escape_of_safeB w (by simpa [valOk] using hv)
      refine ⟨⟨w, by simp [XVal.spell, hw]⟩, ?_⟩
      have := C19.escape_no_active w
      rw [hw] at this
      simpa [XVal.spell] using this
  · intro l _
    rw [xmlEscape_eq]; exact C19.escape_no_active l

/-- **Names.** For every tree and every option vector every element name is legal
    (`[A-Za-z_][A-Za-z0-9_:.-]*`) and every piece written inside a start tag is a
    ` name="value"` attribute with a legal name. -/
theorem xml_names_legal (o : XmlOpts) (t : Tree) :
    ∀ tok ∈ renderXmlToks o t,
      xmlLegalName tok.name = true ∧
      ∀ a ∈ tok.attrs, ∃ n v, a = XAttr.mk n v ∧ xmlLegalName n = true := by
  have hall : (renderXmlToks o t).all tokNamesOk = true :=
    renderXmlT_all o tokNamesOk (fun _ => true)
      (by
        intro ind cx v sp l _
        simp [tokNamesOk, XTok.attrs, XTok.name, xmlName_legal, xmlAttrs_names o cx v sp])
      t 0 {} (Tree.allV_true t)
  intro tok htok
  have htk := List.all_eq_true.mp hall tok htok
  simp only [tokNamesOk, Bool.and_eq_true] at htk
  refine ⟨htk.1, ?_⟩
  intro a ha
  have := List.all_eq_true.mp htk.2 a ha
  cases a with
  | mk n v => exact ⟨n, v, rfl, by simpa [attrNameOk] using this⟩

/-! ## Whole documents: the full statements -/

/-- Full-strength well-formedness: the strict reader accepts the rendering of every tree the
    parser can produce. -/
def C09_wellformed_full : Prop :=
  ∀ (o : XmlOpts) (t : Tree), litLeafT t = true → (readXml (renderXml o t)).isSome = true

/-- Full-strength isomorphism: reading the rendering back gives the element tree of the AST. -/
def C09_mirrors_full : Prop :=
  ∀ (o : XmlOpts) (t : Tree), litLeafT t = true → readXml (renderXml o t) = some (xmlTree o t)

/-- **Lexical level.** The bytes of any list of tokens with legal names and good attribute lists
    lex into exactly the tokens' events (white space between them, one trailing newline). -/
theorem xml_lexes (ts : List XTok) (h : ts.all tokGood = true) (hne : ts ≠ []) :
    lexXml (spellXToks ts) = some (toksEvs [] ts ++ [.text nlB]) :=
  lexXml_spell ts h hne

/-- Every token the renderer writes, for every tree and option vector, satisfies the hypothesis
    of `xml_lexes`: legal element name, attributes with legal pairwise different names and
    escaped values. -/
theorem xml_tokens_lexable (o : XmlOpts) (t : Tree) : (renderXmlToks o t).all tokGood = true :=
  renderXmlToks_good o t

/-- **C09 at byte level.** For every option vector and every tree in which no literal-kind node
    has children (all parsed trees), the strict reader accepts the bytes `format_xml` writes and
    returns exactly the element tree of the AST: one element per node, same kinds, order and
    nesting, every attribute the format carries and every literal, destination, title, label,
    info string and escaped-tag payload recovered byte for byte. -/
theorem xml_mirrors_tree (o : XmlOpts) (t : Tree) (hl : litLeafT t = true) :
    readXml (renderXml o t) = some (xmlTree o t) :=
  readXml_renderXml o t hl

/-- Well-formedness is the weaker half. -/
theorem xml_wellformed (o : XmlOpts) (t : Tree) (hl : litLeafT t = true) :
    (readXml (renderXml o t)).isSome = true := by
  rw [xml_mirrors_tree o t hl]; rfl

theorem C09_mirrors_full_holds : C09_mirrors_full := xml_mirrors_tree
theorem C09_wellformed_full_holds : C09_wellformed_full := xml_wellformed

/-- The hypothesis `litLeafT` of `xml_mirrors_tree` is needed as well: the rendering of a
    literal node with a child carries two end tags and is rejected by the reader. -/
theorem literal_with_children_rejected :
    (readXml (renderXml {} (.node (.text [0x61]) {} (.cons (.node .softBreak {} .nil) .nil)))).isNone = true := by
  decide +kernel

/-- `|a|` with the spoiler extension: Document > Paragraph > EscapedTag("|") > Text("a"). -/
def escapedTagTree : Tree :=
  .node .document {} (.cons (.node .paragraph {} (.cons
    (.node (.escapedTag [0x7C]) {} (.cons (.node (.text [0x61]) {} .nil) .nil)) .nil)) .nil)

/-- The former counterexample, now a positive example.  Before /repo commit ce28ea3
    (`fix: write the payload of an escaped tag as an attribute in XML output`) `format_xml`
    wrote the payload of an `EscapedTag` node verbatim inside the start tag (`<escaped_tag|>`),
    the reader rejected this document and the full statements were false.  The defect was
    repaired in /repo commit ce28ea3: the payload is the escaped value of the attribute `tag`
    (`<escaped_tag tag="|">`), the document is accepted and read back as the element tree of
    the AST. -/
theorem escapedTag_example :
    litLeafT escapedTagTree = true ∧
    renderXmlToks {} escapedTagTree =
      [.opn 0 XS.e_document [xAttr XS.a_xmlns XS.v_xmlns], .opn 2 XS.e_paragraph [],
       .opn 4 XS.e_escaped_tag [xAttrE XS.a_tag [0x7C]], .leaf 6 XS.e_text [preserveAttr] [0x61],
       .close 4 XS.e_escaped_tag, .close 2 XS.e_paragraph, .close 0 XS.e_document] ∧
    (readXml (renderXml {} escapedTagTree)).isSome = true ∧
    (match readXml (renderXml {} escapedTagTree) with
     | some x => x.beq (xmlTree {} escapedTagTree)
     | none => false) = true := by
  decide +kernel

/-- Before/after witness of the repair in /repo commit ce28ea3 on the smallest document, a
    childless `EscapedTag("|")` as the root: the bytes written before the repair
    (`<escaped_tag| />`, payload right after the element name) are rejected by the strict reader;
    as modelled now (`<escaped_tag tag="|" />`) they are accepted.  A hostile payload `"<&>` is
    accepted too and read back exactly. -/
theorem escapedTag_payload_before_fix :
    (readXml (XS.prolog ++ [0x3C] ++ XS.e_escaped_tag ++ [0x7C, 0x20, 0x2F, 0x3E, 0x0A])).isNone = true ∧
    renderXml {} (.node (.escapedTag [0x7C]) {} .nil) =
      XS.prolog ++ [0x3C] ++ XS.e_escaped_tag ++ [0x20] ++ XS.a_tag ++ [0x3D, 0x22, 0x7C, 0x22, 0x20, 0x2F, 0x3E, 0x0A] ∧
    (readXml (renderXml {} (.node (.escapedTag [0x7C]) {} .nil))).isSome = true ∧
    (match readXml (renderXml {} (.node (.escapedTag [0x22, 0x3C, 0x26, 0x3E]) {} .nil)) with
     | some x => x.beq (.elem XS.e_escaped_tag [(XS.a_tag, [0x22, 0x3C, 0x26, 0x3E])] .nil)
     | none => false) = true := by
  decide +kernel

/-- The defect repaired by `fix: escape the code block info string in XML output`: before the
    repair the info string of ```` ```a"b<c ```` was written as comrak's own text (`XVal.lit`),
    and the strict reader rejects that start tag; as modelled now (`XVal.esc`) it is accepted. -/
theorem info_unescaped_before_fix :
    (readXml (spellXml [.leaf 0 XS.e_code_block
        [.mk XS.a_info (.lit [0x61, 0x22, 0x62, 0x3C, 0x63]), preserveAttr] [0x78, 0x0A]])).isNone = true ∧
    (readXml (spellXml [.leaf 0 XS.e_code_block
        [.mk XS.a_info (.esc [0x61, 0x22, 0x62, 0x3C, 0x63]), preserveAttr] [0x78, 0x0A]])).isSome = true := by
  decide +kernel

/-! Non-vacuity: a concrete tree with hostile payloads in an info string, a title, a label, a
    literal, with sourcepos on: the hypotheses hold, the rendering is read back, and the element
    tree read is the one the AST stands for. -/
def sampleTree : Tree :=
  .node .document ⟨1, 1, 3, 2⟩ (.cons
    (.node (.codeBlock true 0x60 3 0 [0x61, 0x22, 0x62, 0x3C, 0x63] [0x3C, 0x26, 0x3E, 0x0A]) ⟨1, 1, 3, 3⟩ .nil) (.cons
    (.node .paragraph ⟨4, 1, 4, 9⟩ (.cons
      (.node (.link [0x2F, 0x75, 0x22] [0x74, 0x26]) ⟨4, 1, 4, 5⟩ (.cons (.node (.text [0x20, 0x20]) {} .nil) .nil)) (.cons
      (.node (.footnoteReference [0x3C] 1 1) ⟨4, 6, 4, 9⟩ .nil) .nil))) .nil))

example : litLeafT sampleTree = true := by decide
example : (renderXmlToks { sourcepos := true } sampleTree).length = 9 := by decide
example :
    (match readXml (renderXml { sourcepos := true } sampleTree) with
     | some x => x.beq (xmlTree { sourcepos := true } sampleTree)
     | none => false) = true := by
  decide +kernel

end Comrak.C09
