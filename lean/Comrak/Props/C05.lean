/-
C05  Rendering is a deterministic pure function of input and options.
Lean definitions are functions, so the renderer models (`renderHtml o nt t`, ...) cannot depend
on anything but their arguments; the correspondence stage shows on every run that the real
formatters agree with them on every repeated call, thread and process.  What needs proof is
that the places where the *code* consults a hash map's iteration order are harmless.
-/
import Comrak.Determinism
namespace Comrak.C05
open Comrak Bytes List

theorem ixLe_trans (a b c : FnEntry) (h1 : ixLe a b = true) (h2 : ixLe b c = true) : ixLe a c = true := by
  unfold ixLe at *
  cases ha : a.ix <;> cases hb : b.ix <;> cases hc : c.ix <;> simp_all
  omega

theorem ixLe_total (a b : FnEntry) : (ixLe a b || ixLe b a) = true := by
  unfold ixLe
  cases ha : a.ix <;> cases hb : b.ix <;> simp
  omega

/-- **Footnote order does not depend on the hash map's iteration order**: for any two orders
    `vs ~ ws` of the same entries in which referenced definitions have distinct indices, the
    definitions appended to the document are the same list. -/
theorem footnotes_order_independent (vs ws : List FnEntry) (h : vs ~ ws)
    (distinct : ∀ a ∈ vs, ∀ b ∈ vs, a.ix.isSome = true → a.ix = b.ix → a = b) :
    appended vs = appended ws := by
  unfold appended
  have p : (vs.mergeSort ixLe).filter (fun e => e.ix.isSome) ~ (ws.mergeSort ixLe).filter (fun e => e.ix.isSome) :=
    ((mergeSort_perm vs ixLe).trans (h.trans (mergeSort_perm ws ixLe).symm)).filter _
  have s1 := (pairwise_mergeSort ixLe_trans ixLe_total vs).filter (fun e => e.ix.isSome)
  have s2 := (pairwise_mergeSort ixLe_trans ixLe_total ws).filter (fun e => e.ix.isSome)
  refine Perm.eq_of_pairwise (le := fun a b => ixLe a b = true) ?_ s1 s2 p
  intro a b ha hb hab hba
  have ha' := List.mem_filter.mp ha
  have hb' := List.mem_filter.mp hb
  have hav : a ∈ vs := (mergeSort_perm vs ixLe).mem_iff.mp ha'.1
  have hbv : b ∈ vs := h.symm.mem_iff.mp ((mergeSort_perm ws ixLe).mem_iff.mp hb'.1)
  apply distinct a hav b hbv ha'.2
  unfold ixLe at hab hba
  cases hai : a.ix <;> cases hbi : b.ix <;> simp_all
  omega

theorem bytesLe_refl (a : Bytes) : bytesLe a a = true := by
  induction a with
  | nil => rfl
  | cons x r ih => simp [bytesLe, ih]

theorem bytesLe_total (a b : Bytes) : (bytesLe a b || bytesLe b a) = true := by
  induction a generalizing b with
  | nil => simp [bytesLe]
  | cons x r ih =>
    cases b with
    | nil => simp [bytesLe]
    | cons y s =>
      simp only [bytesLe]
      by_cases h1 : x < y
      · simp [h1]
      · by_cases h2 : y < x
        · simp [h1, h2]
        · simp [h1, h2, ih s]

theorem bytesLe_antisymm (a b : Bytes) (h1 : bytesLe a b = true) (h2 : bytesLe b a = true) : a = b := by
  induction a generalizing b with
  | nil => cases b <;> simp_all [bytesLe]
  | cons x r ih =>
    cases b with
    | nil => simp [bytesLe] at h1
    | cons y s =>
      simp only [bytesLe] at h1 h2
      by_cases hxy : x < y
      · have : ¬ y < x := by exact UInt8.lt_asymm hxy
        simp [hxy, this] at h2
      · by_cases hyx : y < x
        · simp [hxy, hyx] at h1
        · simp only [hxy, hyx, if_false] at h1 h2
          have : x = y := by
            have := UInt8.le_antisymm (UInt8.not_lt.mp hyx) (UInt8.not_lt.mp hxy)
            exact this
          rw [this, ih s h1 h2]

theorem bytesLe_trans (a b c : Bytes) (h1 : bytesLe a b = true) (h2 : bytesLe b c = true) : bytesLe a c = true := by
  induction a generalizing b c with
  | nil => simp [bytesLe]
  | cons x r ih =>
    cases b with
    | nil => simp [bytesLe] at h1
    | cons y s =>
      cases c with
      | nil => simp [bytesLe] at h2
      | cons z t =>
        simp only [bytesLe] at h1 h2 ⊢
        by_cases hxy : x < y
        · by_cases hyz : y < z
          · simp [UInt8.lt_trans hxy hyz]
          · by_cases hzy : z < y
            · simp [hyz, hzy] at h2
            · have : y = z := UInt8.le_antisymm (UInt8.not_lt.mp hzy) (UInt8.not_lt.mp hyz)
              subst this; simp [hxy]
        · by_cases hyx : y < x
          · simp [hxy, hyx] at h1
          · have hxy' : x = y := UInt8.le_antisymm (UInt8.not_lt.mp hyx) (UInt8.not_lt.mp hxy)
            subst hxy'
            simp only [hxy, if_false] at h1
            by_cases hxz : x < z
            · simp [hxz]
            · by_cases hzx : z < x
              · simp [hxz, hzx] at h2
              · simp only [hxz, hzx, if_false] at h2 ⊢
                exact ih s t h1 h2

/-- **Attribute order written by the repaired syntect adapter does not depend on the hash map's
    iteration order**: any two orders of the same entries with distinct keys are written identically. -/
theorem attrs_order_independent (vs ws : List (Bytes × Bytes)) (h : vs ~ ws)
    (distinct : ∀ a ∈ vs, ∀ b ∈ vs, a.1 = b.1 → a = b) :
    writtenAttrs vs = writtenAttrs ws := by
  unfold writtenAttrs
  have p : vs.mergeSort keyLe ~ ws.mergeSort keyLe :=
    (mergeSort_perm vs keyLe).trans (h.trans (mergeSort_perm ws keyLe).symm)
  have tr : ∀ a b c : Bytes × Bytes, keyLe a b = true → keyLe b c = true → keyLe a c = true :=
    fun a b c => bytesLe_trans a.1 b.1 c.1
  have tot : ∀ a b : Bytes × Bytes, (keyLe a b || keyLe b a) = true := fun a b => bytesLe_total a.1 b.1
  refine Perm.eq_of_pairwise (le := fun a b => keyLe a b = true) ?_
    (pairwise_mergeSort tr tot vs) (pairwise_mergeSort tr tot ws) p
  intro a b ha hb hab hba
  have hav : a ∈ vs := (mergeSort_perm vs keyLe).mem_iff.mp ha
  have hbv : b ∈ vs := h.symm.mem_iff.mp ((mergeSort_perm ws keyLe).mem_iff.mp hb)
  exact distinct a hav b hbv (bytesLe_antisymm a.1 b.1 hab hba)

/-- The defect of the pinned tree, as a statement about iteration order: writing a hash map's
    entries *in iteration order* is not order independent as soon as there are two attributes. -/
theorem iteration_order_counterexample :
    ∃ vs ws : List (Bytes × Bytes), vs ~ ws ∧ vs ≠ ws :=
  ⟨[([0x61], []), ([0x62], [])], [([0x62], []), ([0x61], [])], Perm.swap .., by decide⟩

/-! Non-vacuity: concrete entry lists satisfying the hypotheses, in two different orders. -/
def sampleEntries : List FnEntry := [⟨some 2, [0x62], 1, 7⟩, ⟨none, [0x63], 0, 8⟩, ⟨some 1, [0x61], 2, 9⟩, ⟨none, [0x64], 0, 3⟩]
example : ∀ a ∈ sampleEntries, ∀ b ∈ sampleEntries, a.ix.isSome = true → a.ix = b.ix → a = b := by decide
example : sampleEntries ~ sampleEntries.reverse := (List.reverse_perm _).symm
example : appended sampleEntries = appended sampleEntries.reverse :=
  footnotes_order_independent _ _ (List.reverse_perm _).symm (by decide)
example : ∀ a ∈ [(([0x6C] : Bytes), ([0x78] : Bytes)), ([0x64], [0x79])], ∀ b ∈ [(([0x6C] : Bytes), ([0x78] : Bytes)), ([0x64], [0x79])],
    a.1 = b.1 → a = b := by decide

end Comrak.C05
