/-
C04 (link clause)  "... has mutually consistent parent, child and sibling links ..."

Model: Comrak/ArenaTree.lean, the link-array model of /repo/src/arena_tree.rs (five `Option` links per node,
`detach` / `append` / `prepend` / `insert_after` / `insert_before` statement by statement as in the Rust code).
`Links a` says that the five link fields of every node represent the forest `children a` (what `Node::children()`
iterates): `first_child` / `last_child` are the ends of the child list, `next_sibling` / `previous_sibling` link it
in both directions and end in `None`, every element has the right `parent`, every node with a parent is in that
parent's list, a parentless node has no siblings, no child list repeats a node.

Theorems: every mutator preserves `Links` under its operand condition, and acts on the abstraction as the obvious
list operation.  The tree the parser returns is built from `Node::new` nodes by these five mutators only
(`add_child` = `append`, inline surgery = `insert_before` / `insert_after` / `detach` / `append`), so its links
satisfy `Links` as far as the model corresponds to the code; that correspondence is checked on random operation
sequences by the harness (c04.rs, stage "arena").

Operand conditions (the Rust code does not check them and silently builds an inconsistent structure otherwise):
`c < a.size` (the node exists), for `insert_*` also `x ≠ c` and `x` has a parent (a sibling inserted next to a
parentless node gets `previous_sibling`/`next_sibling` but no parent).  `Links` is about parent/child/sibling
agreement only; that no node becomes its own ancestor is the separate invariant `Acyclic`, preserved when the new
child is neither the new parent nor one of its ancestors (`acyclic_preserved_*`).
-/
import Comrak.Lemmas.ArenaTree
namespace Comrak.C04
open Comrak.ArenaTree

/-! ### `Links` holds initially -/

/-- `Node::new` nodes: nothing is linked, every child list is empty. -/
theorem links_fresh (n : Nat) : Links (Arena.fresh n) := by
  have : Repr (Arena.fresh n) (fun _ => []) := by
    refine ⟨?_, ?_, ?_, ?_, ?_, ?_, ?_, ?_, ?_⟩ <;> simp [Arena.fresh, NodeLinks.empty, NextChain, PrevChain]
  exact this.links

/-! ### the five mutators preserve `Links` -/

/-- `x.detach()` keeps the links consistent (no operand condition). -/
theorem links_preserved_detach {a : Arena} (h : Links a) (x : Nat) : Links (detach a x) :=
  (repr_detach h x).links

/-- `p.append(c)` keeps the links consistent. -/
theorem links_preserved_append {a : Arena} (h : Links a) {p c : Nat} (hc : c < a.size) : Links (append a p c) :=
  (repr_append h hc).links

/-- `p.prepend(c)` keeps the links consistent. -/
theorem links_preserved_prepend {a : Arena} (h : Links a) {p c : Nat} (hc : c < a.size) : Links (prepend a p c) :=
  (repr_prepend h hc).links

/-- `x.insert_after(c)` keeps the links consistent when `x ≠ c` and `x` has a parent. -/
theorem links_preserved_insertAfter {a : Arena} (h : Links a) {x c p : Nat} (hc : c < a.size) (hxc : x ≠ c)
    (hxp : (a.node x).parent = some p) : Links (insertAfter a x c) :=
  (repr_insertAfter h hc hxc hxp).links

/-- `x.insert_before(c)` keeps the links consistent when `x ≠ c` and `x` has a parent. -/
theorem links_preserved_insertBefore {a : Arena} (h : Links a) {x c p : Nat} (hc : c < a.size) (hxc : x ≠ c)
    (hxp : (a.node x).parent = some p) : Links (insertBefore a x c) :=
  (repr_insertBefore h hc hxc hxp).links

/-- The conditions on `insert_after` are needed: `x.insert_after(x)` makes `x` its own sibling. -/
theorem insertAfter_self_counterexample : ¬ Links (insertAfter (append (Arena.fresh 2) 0 1) 1 1) := by
  intro h
  have := (h.root 1 (by decide)).1
  revert this
  decide

/-- ... and next to a parentless node the new sibling gets no parent. -/
theorem insertAfter_root_counterexample : ¬ Links (insertAfter (Arena.fresh 2) 0 1) := by
  intro h
  have := (h.root 1 (by decide)).1
  revert this
  decide

/-! ### what the mutators do to the child lists -/

/-- `detach` removes `x` from whatever child list it is in. -/
theorem children_detach {a : Arena} (h : Links a) (x q : Nat) :
    children (detach a x) q = (children a q).erase x :=
  (repr_detach h x).children_eq q

/-- `p.append(c)`: `c` leaves its old list and becomes the last child of `p`. -/
theorem children_append {a : Arena} (h : Links a) {p c : Nat} (hc : c < a.size) (q : Nat) :
    children (append a p c) q = if q = p then (children a p).erase c ++ [c] else (children a q).erase c :=
  (repr_append h hc).children_eq q

/-- `p.prepend(c)`: `c` leaves its old list and becomes the first child of `p`. -/
theorem children_prepend {a : Arena} (h : Links a) {p c : Nat} (hc : c < a.size) (q : Nat) :
    children (prepend a p c) q = if q = p then c :: (children a p).erase c else (children a q).erase c :=
  (repr_prepend h hc).children_eq q

/-- `x.insert_after(c)`: `c` leaves its old list and is put right after `x`. -/
theorem children_insertAfter {a : Arena} (h : Links a) {x c p : Nat} (hc : c < a.size) (hxc : x ≠ c)
    (hxp : (a.node x).parent = some p) (q : Nat) :
    children (insertAfter a x c) q = insertAfterL x c ((children a q).erase c) :=
  (repr_insertAfter h hc hxc hxp).children_eq q

/-- `x.insert_before(c)`: `c` leaves its old list and is put right before `x`. -/
theorem children_insertBefore {a : Arena} (h : Links a) {x c p : Nat} (hc : c < a.size) (hxc : x ≠ c)
    (hxp : (a.node x).parent = some p) (q : Nat) :
    children (insertBefore a x c) q = insertBeforeL x c ((children a q).erase c) :=
  (repr_insertBefore h hc hxc hxp).children_eq q

/-- A node is in the child list of `p` exactly when its `parent` link says `p`. -/
theorem mem_children_iff {a : Arena} (h : Links a) (x p : Nat) :
    x ∈ children a p ↔ (a.node x).parent = some p :=
  ⟨h.parent p x, h.mem x p⟩

/-- The parser's `add_child`: appending a parentless (freshly allocated) node. -/
theorem children_append_detached {a : Arena} (h : Links a) {p c : Nat} (hc : c < a.size)
    (hd : (a.node c).parent = none) : children (append a p c) p = children a p ++ [c] := by
  rw [children_append h hc, if_pos rfl, List.erase_of_not_mem]
  intro hm; rw [(mem_children_iff h c p).1 hm] at hd; cases hd

theorem children_prepend_detached {a : Arena} (h : Links a) {p c : Nat} (hc : c < a.size)
    (hd : (a.node c).parent = none) : children (prepend a p c) p = c :: children a p := by
  rw [children_prepend h hc, if_pos rfl, List.erase_of_not_mem]
  intro hm; rw [(mem_children_iff h c p).1 hm] at hd; cases hd

/-! ### the usual local conditions follow from `Links`
(these are also the `debug_assert!`s in `append`, `prepend`, `insert_after`, `insert_before`) -/

/-- `first_child` has parent `p` and no previous sibling (`debug_assert` in `prepend`). -/
theorem first_child_ok {a : Arena} (h : Links a) {p f : Nat} (hf : (a.node p).first = some f) :
    (a.node f).parent = some p ∧ (a.node f).prev = none := by
  have h1 := h.first p; rw [hf] at h1
  cases hk : children a p with
  | nil => rw [hk] at h1; cases h1
  | cons y r =>
    rw [hk] at h1; simp only [List.head?_cons, Option.some.injEq] at h1; subst h1
    have hp := h.prev p; rw [hk] at hp
    exact ⟨h.parent p f (by rw [hk]; simp), hp.1⟩

/-- `last_child` has parent `p` and no next sibling (`debug_assert` in `append`). -/
theorem last_child_ok {a : Arena} (h : Links a) {p l : Nat} (hl : (a.node p).last = some l) :
    (a.node l).parent = some p ∧ (a.node l).next = none := by
  have h1 := h.last p; rw [hl] at h1
  rcases eq_nil_or_snoc (children a p) with hk | ⟨r, y, hk⟩
  · rw [hk] at h1; cases h1
  · rw [hk] at h1; simp only [List.getLast?_append, List.getLast?_singleton, Option.some_or, Option.some.injEq] at h1
    subst h1
    have hn := h.next p; rw [hk, nextChain_append] at hn
    exact ⟨h.parent p l (by rw [hk]; simp), hn.2.1⟩

/-- `first_child` is `None` exactly when `last_child` is (`debug_assert` in the `else` branches). -/
theorem first_none_iff_last_none {a : Arena} (h : Links a) (p : Nat) :
    (a.node p).first = none ↔ (a.node p).last = none := by
  rw [h.first p, h.last p]; simp

/-- `next(x) = y` implies `prev(y) = x`, and both have the same parent (`debug_assert` in `insert_after`). -/
theorem next_prev {a : Arena} (h : Links a) {x y : Nat} (hn : (a.node x).next = some y) :
    (a.node y).prev = some x ∧ (a.node y).parent = (a.node x).parent := by
  cases hp : (a.node x).parent with
  | none => rw [(h.root x hp).2] at hn; cases hn
  | some p =>
    obtain ⟨l1, l2, hk⟩ := List.append_of_mem (h.mem x p hp)
    have hnc := h.next p; rw [hk, nextChain_append] at hnc
    have hx : (a.node x).next = headOr l2 none := hnc.2.1
    rw [hn] at hx
    cases l2 with
    | nil => cases hx
    | cons z l2' =>
      simp only [headOr, Option.some.injEq] at hx; subst hx
      have hpc := h.prev p; rw [hk, prevChain_append] at hpc
      exact ⟨hpc.2.2.1, h.parent p y (by rw [hk]; simp)⟩

/-- `prev(x) = y` implies `next(y) = x`, and both have the same parent (`debug_assert` in `insert_before`). -/
theorem prev_next {a : Arena} (h : Links a) {x y : Nat} (hv : (a.node x).prev = some y) :
    (a.node y).next = some x ∧ (a.node y).parent = (a.node x).parent := by
  cases hp : (a.node x).parent with
  | none => rw [(h.root x hp).1] at hv; cases hv
  | some p =>
    obtain ⟨l1, l2, hk⟩ := List.append_of_mem (h.mem x p hp)
    have hpc := h.prev p; rw [hk, prevChain_append] at hpc
    have hx : (a.node x).prev = lastOr l1 none := hpc.2.1
    rw [hv] at hx
    rcases eq_nil_or_snoc l1 with e | ⟨l1', z, e⟩
    · subst e; cases hx
    · subst e
      rw [lastOr_concat, Option.some.injEq] at hx; subst hx
      have hnc := h.next p; rw [hk, nextChain_append, nextChain_append] at hnc
      exact ⟨hnc.1.2.1, h.parent p y (by rw [hk]; simp)⟩

/-- A child without previous sibling is its parent's `first_child` (`debug_assert` in `insert_before`). -/
theorem first_of_prev_none {a : Arena} (h : Links a) {x p : Nat} (hp : (a.node x).parent = some p)
    (hv : (a.node x).prev = none) : (a.node p).first = some x := by
  obtain ⟨l1, l2, hk⟩ := List.append_of_mem (h.mem x p hp)
  have hpc := h.prev p; rw [hk, prevChain_append] at hpc
  have hx : (a.node x).prev = lastOr l1 none := hpc.2.1
  rw [hv] at hx
  have : l1 = [] := lastOr_eq_none.1 hx.symm
  subst this
  rw [h.first p, hk]; rfl

/-- A child without next sibling is its parent's `last_child` (`debug_assert` in `insert_after`). -/
theorem last_of_next_none {a : Arena} (h : Links a) {x p : Nat} (hp : (a.node x).parent = some p)
    (hn : (a.node x).next = none) : (a.node p).last = some x := by
  obtain ⟨l1, l2, hk⟩ := List.append_of_mem (h.mem x p hp)
  have hnc := h.next p; rw [hk, nextChain_append] at hnc
  have hx : (a.node x).next = headOr l2 none := hnc.2.1
  rw [hn] at hx
  have : l2 = [] := headOr_eq_none.1 hx.symm
  subst this
  rw [h.last p, hk]; simp

/-- A parentless node has no siblings. -/
theorem root_no_siblings {a : Arena} (h : Links a) {x : Nat} (hp : (a.node x).parent = none) :
    (a.node x).prev = none ∧ (a.node x).next = none := h.root x hp

/-- No child list repeats a node (the sibling chain is not a ring). -/
theorem children_nodup {a : Arena} (h : Links a) (p : Nat) : (children a p).Nodup := h.nodup p

/-! ### no node becomes its own ancestor -/

theorem acyclic_fresh (n : Nat) : Acyclic (Arena.fresh n) := by
  intro x h
  cases h with
  | step h => simp [Arena.fresh, NodeLinks.empty] at h
  | trans h _ => simp [Arena.fresh, NodeLinks.empty] at h

theorem acyclic_preserved_detach {a : Arena} (h : Acyclic a) (x : Nat) : Acyclic (detach a x) :=
  acyclic_reparent (newp := none) (detach_parent a x) h (fun _ e => by cases e)

/-- `p.append(c)` creates no parent cycle when `c` is neither `p` nor an ancestor of `p`. -/
theorem acyclic_preserved_append {a : Arena} (h : Acyclic a) {p c : Nat} (hpc : p ≠ c) (hanc : ¬ Anc a p c) :
    Acyclic (append a p c) :=
  acyclic_reparent (append_parent a p c) h (fun q e => by cases e; exact ⟨hpc, hanc⟩)

theorem acyclic_preserved_prepend {a : Arena} (h : Acyclic a) {p c : Nat} (hpc : p ≠ c) (hanc : ¬ Anc a p c) :
    Acyclic (prepend a p c) :=
  acyclic_reparent (prepend_parent a p c) h (fun q e => by cases e; exact ⟨hpc, hanc⟩)

/-- `x.insert_after(c)` creates no parent cycle when `c` is neither the parent of `x` nor an ancestor of it. -/
theorem acyclic_preserved_insertAfter {a : Arena} (h : Acyclic a) {x c : Nat} (hxc : x ≠ c)
    (hanc : ∀ p, (a.node x).parent = some p → p ≠ c ∧ ¬ Anc a p c) : Acyclic (insertAfter a x c) :=
  acyclic_reparent (insertAfter_parent a hxc) h hanc

theorem acyclic_preserved_insertBefore {a : Arena} (h : Acyclic a) {x c : Nat} (hxc : x ≠ c)
    (hanc : ∀ p, (a.node x).parent = some p → p ≠ c ∧ ¬ Anc a p c) : Acyclic (insertBefore a x c) :=
  acyclic_reparent (insertBefore_parent a hxc) h hanc

/-- The condition is needed: appending an ancestor below its descendant closes a parent cycle
(the Rust code does this silently; `Links` still holds, `Acyclic` does not). -/
theorem append_ancestor_counterexample : ¬ Acyclic (append (append (Arena.fresh 2) 0 1) 1 0) := by
  intro h
  exact h 0 (Anc.trans (p := 1) (by decide) (Anc.step (by decide)))

/-! ### non-vacuity: the `it_works` test of arena_tree.rs replayed on the model -/

/-- The operation sequence of `arena_tree::it_works` (nodes 1..10 of the test are 0..9 here). -/
def itWorks : Arena :=
  let a := Arena.fresh 10
  let a := append a 0 1
  let a := append a 0 2
  let a := prepend a 0 3
  let a := append a 4 0
  let a := insertBefore a 0 5
  let a := insertBefore a 0 6
  let a := insertAfter a 0 7
  let a := insertAfter a 0 8
  let a := append a 4 9
  detach a 7

example : children itWorks 4 = [5, 6, 0, 8, 9] := by decide
example : children itWorks 0 = [3, 1, 2] := by decide
example : Links (append (Arena.fresh 3) 0 1) := links_preserved_append (links_fresh 3) (by decide)
example : children (append (append (Arena.fresh 3) 0 1) 0 2) 0 = [1, 2] := by
  rw [children_append_detached (links_preserved_append (links_fresh 3) (by decide)) (by decide) (by decide),
    children_append_detached (links_fresh 3) (by decide) (by decide)]
  decide

end Comrak.C04
