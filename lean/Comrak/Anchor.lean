/-
C15, anchors: the sequence of anchors one `Anchorizer` issues for a list of heading texts
(`anchorize` of Comrak/Html.lean folded over the texts, threading the set of issued anchors).
-/
import Comrak.Html
namespace Comrak
open Bytes

/-- The anchors issued for `hs` in order, starting from the set `issued`. -/
def anchorizeFrom (nt : NormTable) : List Bytes → List Bytes → List Bytes
  | _, [] => []
  | issued, h :: hs =>
    let r := anchorize nt issued h
    r.1 :: anchorizeFrom nt r.2 hs

/-- One fresh `Anchorizer` (as `format_document` creates per output) applied to `hs` in order. -/
def anchorizeAll (nt : NormTable) (hs : List Bytes) : List Bytes := anchorizeFrom nt [] hs

/-- The `uniq`-th candidate of the uniqueness loop. -/
def anchorCand (id : Bytes) (uniq : Nat) : Bytes :=
  if uniq = 0 then id else id ++ [0x2D] ++ ofNatDec uniq

/-! ## The code as it is: `Anchorizer(HashMap<String, usize>)`

Since /repo commit 70a0ef9 the anchorizer keeps, with every anchor it has handed out, the first suffix
that has not been tried for it yet when it is used as a base.  `anchorizeMemo` follows
`Anchorizer::anchorize` statement by statement; Lemmas/AnchorMemo.lean proves that it returns the
anchors of the set-based `anchorize` above (which stays the specification used by the renderer model). -/

/-- The `HashMap<String, usize>`: an association list with at most one entry per key
    (`insert` replaces in place). -/
abbrev AnchorMap := List (Bytes × Nat)

namespace AnchorMap

/-- `HashMap::get(..).copied()`. -/
def get : AnchorMap → Bytes → Option Nat
  | [], _ => none
  | (k', v) :: r, k => if k' = k then some v else get r k

/-- `HashMap::contains_key`. -/
def containsKey (m : AnchorMap) (k : Bytes) : Bool := (m.get k).isSome

/-- `HashMap::insert`: the value of an existing key is overwritten. -/
def insert : AnchorMap → Bytes → Nat → AnchorMap
  | [], k, v => [(k, v)]
  | (k', v') :: r, k, v => if k' = k then (k, v) :: r else (k', v') :: insert r k v

/-- Sum of the stored counters (the potential of the amortised step count). -/
def valSum (m : AnchorMap) : Nat := (m.map (·.2)).sum

end AnchorMap

/-- The `loop` of the memoised `anchorize`, started at the stored counter: the first of
    `id-uniq, id-(uniq+1), ...` that is not a key, with the value of `uniq` at the `break`.
    `fuel` bounds the search (`m.length + 1` always suffices, `memoLoop_ne_none`). -/
def memoLoop (m : AnchorMap) (id : Bytes) : Nat → Nat → Option (Bytes × Nat)
  | 0, _ => none
  | fuel + 1, uniq =>
    let anchor := anchorCand id uniq
    if m.containsKey anchor then memoLoop m id fuel (uniq + 1) else some (anchor, uniq)

/-- Number of `contains_key` probes (= loop iterations) of `memoLoop`. -/
def memoLoopProbes (m : AnchorMap) (id : Bytes) : Nat → Nat → Nat
  | 0, _ => 0
  | fuel + 1, uniq =>
    if m.containsKey (anchorCand id uniq) then 1 + memoLoopProbes m id fuel (uniq + 1) else 1

/-- `Anchorizer::anchorize` as it is:
    `let mut uniq = self.0.get(&id).copied().unwrap_or(0); let anchor = loop {..};`
    `self.0.insert(anchor.clone(), 0); self.0.insert(id, uniq + 1); anchor`
    (with `uniq = 0` the second insert overwrites the entry the first one made). -/
def anchorizeMemo (nt : NormTable) (m : AnchorMap) (header : Bytes) : Bytes × AnchorMap :=
  let id := nt.norm header
  let uniq0 := (m.get id).getD 0
  match memoLoop m id (m.length + 1) uniq0 with
  | some (anchor, uniq) => (anchor, (m.insert anchor 0).insert id (uniq + 1))
  | none => (id, m)   -- unreachable (memoLoop_ne_none)

/-- Probes one call of the memoised `anchorize` makes. -/
def anchorizeMemoProbes (nt : NormTable) (m : AnchorMap) (header : Bytes) : Nat :=
  memoLoopProbes m (nt.norm header) (m.length + 1) ((m.get (nt.norm header)).getD 0)

/-- The anchors issued for `hs` in order, starting from the map `m`. -/
def anchorizeMemoFrom (nt : NormTable) : AnchorMap → List Bytes → List Bytes
  | _, [] => []
  | m, h :: hs =>
    let r := anchorizeMemo nt m h
    r.1 :: anchorizeMemoFrom nt r.2 hs

/-- The map after `hs`. -/
def memoStateFrom (nt : NormTable) : AnchorMap → List Bytes → AnchorMap
  | m, [] => m
  | m, h :: hs => memoStateFrom nt (anchorizeMemo nt m h).2 hs

/-- Probes made for `hs` altogether. -/
def memoProbesFrom (nt : NormTable) : AnchorMap → List Bytes → Nat
  | _, [] => 0
  | m, h :: hs => anchorizeMemoProbes nt m h + memoProbesFrom nt (anchorizeMemo nt m h).2 hs

/-- One fresh `Anchorizer` (the code as it is) applied to `hs` in order. -/
def anchorizeMemoAll (nt : NormTable) (hs : List Bytes) : List Bytes := anchorizeMemoFrom nt [] hs

def memoProbesAll (nt : NormTable) (hs : List Bytes) : Nat := memoProbesFrom nt [] hs

/-! ### Probes of the set-based loop (the code before the repair) -/

/-- Number of `contains` probes of `anchorLoop`. -/
def anchorLoopProbes (issued : List Bytes) (id : Bytes) : Nat → Nat → Nat
  | 0, _ => 0
  | fuel + 1, uniq =>
    if issued.contains (anchorCand id uniq) then 1 + anchorLoopProbes issued id fuel (uniq + 1) else 1

def oldProbesFrom (nt : NormTable) : List Bytes → List Bytes → Nat
  | _, [] => 0
  | issued, h :: hs =>
    anchorLoopProbes issued (nt.norm h) (issued.length + 1) 0 + oldProbesFrom nt (anchorize nt issued h).2 hs

def oldProbesAll (nt : NormTable) (hs : List Bytes) : Nat := oldProbesFrom nt [] hs

end Comrak
