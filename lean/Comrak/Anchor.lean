/-
C15, anchors: the sequence of anchors one `Anchorizer` issues for a list of heading texts
(`anchorize` of Comrak/Html.lean folded over the texts, threading the set of issued anchors).
-/
import Comrak.Html
namespace Comrak
open Bytes

/-- The anchors issued for `hs` in order, starting from the set `issued`. -/
def anchorizeFrom (nt : NormTable) : List Bytes → List Bytes → List Bytes
  | _, [] => []
  | issued, h :: hs =>
    let r := anchorize nt issued h
    r.1 :: anchorizeFrom nt r.2 hs

/-- One fresh `Anchorizer` (as `format_document` creates per output) applied to `hs` in order. -/
def anchorizeAll (nt : NormTable) (hs : List Bytes) : List Bytes := anchorizeFrom nt [] hs

/-- The `uniq`-th candidate of the uniqueness loop. -/
def anchorCand (id : Bytes) (uniq : Nat) : Bytes :=
  if uniq = 0 then id else id ++ [0x2D] ++ ofNatDec uniq

end Comrak
