/-
Link-array model of `comrak::arena_tree` (/repo/src/arena_tree.rs).

A node is an index; the arena maps every index to a record of the five `Cell<Option<&Node>>` links of the
Rust `Node`.  The five mutators are written as the Rust code writes them: the same `Cell::take` / `Cell::set`
calls in the same order, `append` / `prepend` / `insert_after` / `insert_before` start with `new.detach()`.
The `debug_assert!`s of the Rust code are not part of the model (they are consequences of `Links`, see
`Props/C04Arena.lean`); operand conditions under which the Rust code silently builds an inconsistent structure
(`insert_after(self, self)`, inserting next to a parentless node) are explicit hypotheses of the theorems.

`Links a` is the well-formedness invariant, stated through the abstraction `children a p` (the list obtained by
following `next_sibling` from `first_child`, which is what `Node::children()` iterates).
Core only (the driver links this file).
-/
namespace Comrak.ArenaTree

/-- The five link cells of one `arena_tree::Node`. -/
structure NodeLinks where
  parent : Option Nat := none
  prev : Option Nat := none
  next : Option Nat := none
  first : Option Nat := none
  last : Option Nat := none
  deriving Repr, DecidableEq, Inhabited

/-- `Node::new`: all five cells `None`. -/
def NodeLinks.empty : NodeLinks := {}

/-- An arena with `size` allocated nodes `0 .. size-1`; `node i` are the links of node `i`. -/
structure Arena where
  size : Nat
  node : Nat → NodeLinks

/-- `size` freshly allocated nodes. -/
def Arena.fresh (n : Nat) : Arena := { size := n, node := fun _ => NodeLinks.empty }

/-! ### the five `Cell::set`s -/

def setParent (a : Arena) (i : Nat) (v : Option Nat) : Arena :=
  { a with node := fun j => if j = i then { a.node j with parent := v } else a.node j }
def setPrev (a : Arena) (i : Nat) (v : Option Nat) : Arena :=
  { a with node := fun j => if j = i then { a.node j with prev := v } else a.node j }
def setNext (a : Arena) (i : Nat) (v : Option Nat) : Arena :=
  { a with node := fun j => if j = i then { a.node j with next := v } else a.node j }
def setFirst (a : Arena) (i : Nat) (v : Option Nat) : Arena :=
  { a with node := fun j => if j = i then { a.node j with first := v } else a.node j }
def setLast (a : Arena) (i : Nat) (v : Option Nat) : Arena :=
  { a with node := fun j => if j = i then { a.node j with last := v } else a.node j }

/-! ### the mutators, statement by statement as in arena_tree.rs -/

/-- `Node::detach` (arena_tree.rs:175-191). -/
def detach (a : Arena) (x : Nat) : Arena :=
  -- let parent = self.parent.take();
  let parent := (a.node x).parent
  let a := setParent a x none
  -- let previous_sibling = self.previous_sibling.take();
  let prev := (a.node x).prev
  let a := setPrev a x none
  -- let next_sibling = self.next_sibling.take();
  let next := (a.node x).next
  let a := setNext a x none
  -- if let Some(next_sibling) = next_sibling { next_sibling.previous_sibling.set(previous_sibling) }
  -- else if let Some(parent) = parent { parent.last_child.set(previous_sibling) }
  let a :=
    match next with
    | some n => setPrev a n prev
    | none =>
      match parent with
      | some p => setLast a p prev
      | none => a
  -- if let Some(previous_sibling) = previous_sibling { previous_sibling.next_sibling.set(next_sibling) }
  -- else if let Some(parent) = parent { parent.first_child.set(next_sibling) }
  match prev with
  | some pv => setNext a pv next
  | none =>
    match parent with
    | some p => setFirst a p next
    | none => a

/-- `Node::append` (arena_tree.rs:194-206): `p.append(c)`. -/
def append (a : Arena) (p c : Nat) : Arena :=
  -- new_child.detach();
  let a := detach a c
  -- new_child.parent.set(Some(self));
  let a := setParent a c (some p)
  -- if let Some(last_child) = self.last_child.take() {
  let last := (a.node p).last
  let a := setLast a p none
  let a :=
    match last with
    | some l =>
      -- new_child.previous_sibling.set(Some(last_child)); last_child.next_sibling.set(Some(new_child));
      let a := setPrev a c (some l)
      setNext a l (some c)
    | none =>
      -- self.first_child.set(Some(new_child));
      setFirst a p (some c)
  -- self.last_child.set(Some(new_child));
  setLast a p (some c)

/-- `Node::prepend` (arena_tree.rs:209-221): `p.prepend(c)`. -/
def prepend (a : Arena) (p c : Nat) : Arena :=
  let a := detach a c
  let a := setParent a c (some p)
  -- if let Some(first_child) = self.first_child.take() {
  let first := (a.node p).first
  let a := setFirst a p none
  let a :=
    match first with
    | some f =>
      -- first_child.previous_sibling.set(Some(new_child)); new_child.next_sibling.set(Some(first_child));
      let a := setPrev a f (some c)
      setNext a c (some f)
    | none =>
      -- self.last_child.set(Some(new_child));
      setLast a p (some c)
  -- self.first_child.set(Some(new_child));
  setFirst a p (some c)

/-- `Node::insert_after` (arena_tree.rs:224-240): `x.insert_after(c)`. -/
def insertAfter (a : Arena) (x c : Nat) : Arena :=
  let a := detach a c
  -- new_sibling.parent.set(self.parent.get());
  let a := setParent a c (a.node x).parent
  -- new_sibling.previous_sibling.set(Some(self));
  let a := setPrev a c (some x)
  -- if let Some(next_sibling) = self.next_sibling.take() {
  let next := (a.node x).next
  let a := setNext a x none
  let a :=
    match next with
    | some n =>
      -- next_sibling.previous_sibling.set(Some(new_sibling)); new_sibling.next_sibling.set(Some(next_sibling));
      let a := setPrev a n (some c)
      setNext a c (some n)
    | none =>
      -- else if let Some(parent) = self.parent.get() { parent.last_child.set(Some(new_sibling)); }
      match (a.node x).parent with
      | some p => setLast a p (some c)
      | none => a
  -- self.next_sibling.set(Some(new_sibling));
  setNext a x (some c)

/-- `Node::insert_before` (arena_tree.rs:243-259): `x.insert_before(c)`. -/
def insertBefore (a : Arena) (x c : Nat) : Arena :=
  let a := detach a c
  -- new_sibling.parent.set(self.parent.get());
  let a := setParent a c (a.node x).parent
  -- new_sibling.next_sibling.set(Some(self));
  let a := setNext a c (some x)
  -- if let Some(previous_sibling) = self.previous_sibling.take() {
  let prev := (a.node x).prev
  let a := setPrev a x none
  let a :=
    match prev with
    | some pv =>
      -- new_sibling.previous_sibling.set(Some(previous_sibling)); previous_sibling.next_sibling.set(Some(new_sibling));
      let a := setPrev a c (some pv)
      setNext a pv (some c)
    | none =>
      -- else if let Some(parent) = self.parent.get() { parent.first_child.set(Some(new_sibling)); }
      match (a.node x).parent with
      | some p => setFirst a p (some c)
      | none => a
  -- self.previous_sibling.set(Some(new_sibling));
  setPrev a x (some c)

/-! ### abstraction to child lists -/

/-- Follow `next_sibling` from `start` for at most `fuel` nodes (`Children::next`, arena_tree.rs:299-302). -/
def chain (a : Arena) : Nat → Option Nat → List Nat
  | 0, _ => []
  | _ + 1, none => []
  | fuel + 1, some x => x :: chain a fuel (a.node x).next

/-- `Node::children()` as a list. An arena of `size` nodes has no duplicate-free chain longer than `size`. -/
def children (a : Arena) (p : Nat) : List Nat := chain a a.size (a.node p).first

/-- List counterpart of `insert_after`: put `c` right after the first `x` (nothing happens if `x` is absent). -/
def insertAfterL (x c : Nat) : List Nat → List Nat
  | [] => []
  | y :: r => if y = x then y :: c :: r else y :: insertAfterL x c r

/-- List counterpart of `insert_before`: put `c` right before the first `x`. -/
def insertBeforeL (x c : Nat) : List Nat → List Nat
  | [] => []
  | y :: r => if y = x then c :: y :: r else y :: insertBeforeL x c r

/-! ### the invariant -/

/-- `head?` with a default: the node that follows a segment. -/
def headOr : List Nat → Option Nat → Option Nat
  | [], d => d
  | y :: _, _ => some y

/-- `getLast?` with a default: the node that precedes a segment. -/
def lastOr : List Nat → Option Nat → Option Nat
  | [], d => d
  | y :: r, _ => lastOr r (some y)

/-- Every node of `l` points with `next_sibling` to its successor in `l`; the last one to `nx`. -/
def NextChain (a : Arena) : List Nat → Option Nat → Prop
  | [], _ => True
  | x :: r, nx => (a.node x).next = headOr r nx ∧ NextChain a r nx

/-- Every node of `l` points with `previous_sibling` to its predecessor in `l`; the first one to `pv`. -/
def PrevChain (a : Arena) : Option Nat → List Nat → Prop
  | _, [] => True
  | pv, x :: r => (a.node x).prev = pv ∧ PrevChain a (some x) r

/-- The arena `a` represents the forest in which the children of `p` are `kids p`, in order. -/
structure Repr (a : Arena) (kids : Nat → List Nat) : Prop where
  /-- child lists have no repetition -/
  nodup : ∀ p, (kids p).Nodup
  /-- `first_child` / `last_child` are the ends of the child list -/
  first : ∀ p, (a.node p).first = (kids p).head?
  last : ∀ p, (a.node p).last = (kids p).getLast?
  /-- every element of the child list of `p` has parent `p` -/
  parent : ∀ p x, x ∈ kids p → (a.node x).parent = some p
  /-- `next_sibling` links the child list forwards and ends in `None` -/
  next : ∀ p, NextChain a (kids p) none
  /-- `previous_sibling` links it backwards and starts with `None` -/
  prev : ∀ p, PrevChain a none (kids p)
  /-- a node that has a parent is in that parent's child list -/
  mem : ∀ x p, (a.node x).parent = some p → x ∈ kids p
  /-- a node without parent has no siblings -/
  root : ∀ x, (a.node x).parent = none → (a.node x).prev = none ∧ (a.node x).next = none
  /-- only allocated nodes are linked into a child list -/
  bound : ∀ x p, (a.node x).parent = some p → x < a.size

/-- Well-formedness: the links represent the forest given by `children` (what `Node::children()` iterates). -/
def Links (a : Arena) : Prop := Repr a (children a)

/-! ### no parent cycles -/

/-- `y` is a proper ancestor of `x` (what `Node::ancestors()` yields after the node itself). -/
inductive Anc (a : Arena) : Nat → Nat → Prop
  | step {x p : Nat} : (a.node x).parent = some p → Anc a x p
  | trans {x p y : Nat} : (a.node x).parent = some p → Anc a p y → Anc a x y

/-- No node is its own ancestor: following `parent` never comes back. -/
def Acyclic (a : Arena) : Prop := ∀ x, ¬ Anc a x x

end Comrak.ArenaTree
