/-
Structural validity of trees (src/nodes.rs `can_contain_type` / `validate`, plus the shape
invariants the formatters rely on).  `Shape` is the full executable predicate of property C04;
`balShapeT` is the part of it the HTML balance theorem (C10) needs.
-/
import Comrak.Ast
namespace Comrak

/-- `nodes::can_contain_type` on kinds (the function inspects only the variants). -/
def canContain (parent child : Kind) : Bool :=
  match child with
  | .document => false
  | .frontMatter => parent == .document
  | _ =>
    match parent with
    | .document | .blockQuote | .footnoteDefinition | .descriptionTerm | .descriptionDetails
    | .item | .taskItem | .multilineBlockQuote | .alert =>
      child.isBlock && !(child == .item || child == .taskItem)
    | .list => child == .item || child == .taskItem
    | .descriptionList => child == .descriptionItem
    | .descriptionItem => child == .descriptionTerm || child == .descriptionDetails
    | .paragraph | .heading | .emph | .strong | .link | .image | .wikiLink | .strikethrough
    | .superscript | .spoileredText | .underline | .subscript | .escaped | .escapedTag => !child.isBlock
    | .table => child == .tableRow
    | .tableRow => child == .tableCell
    | .tableCell =>
      match child with
      | .text | .code | .emph | .strong | .link | .image | .strikethrough | .htmlInline | .math
      | .wikiLink | .footnoteReference | .superscript | .spoileredText | .underline | .subscript
      | .escaped | .escapedTag => true
      | _ => false
    | _ => false

mutual
/-- `AstNode::validate`: every edge satisfies the containment table. -/
def validateT : Tree → Bool
  | .node v _ cs => validateF v.kind cs
def validateF (parent : Kind) : Forest → Bool
  | .nil => true
  | .cons t ts => canContain parent t.value.kind && validateT t && validateF parent ts
end

/-! ## Placement and table structure -/

def isTable : Option NodeValue → Bool | some (.table ..) => true | _ => false
def isDocOrDef : Option NodeValue → Bool
  | some .document => true | some (.footnoteDefinition ..) => true | _ => false
def isRowV : Option NodeValue → Bool | some (.tableRow _) => true | _ => false

/-- Where a node may sit, beyond the containment table. -/
def placeOk (parent : Option NodeValue) (v : NodeValue) : Bool :=
  match v with
  | .document => parent.isNone
  | .tableRow _ => isTable parent
  | .tableCell => isRowV parent
  | .footnoteDefinition .. => isDocOrDef parent
  | _ => true

/-- Rows after the header: only non-header rows. -/
def restRows : Forest → Bool
  | .nil => true
  | .cons (.node v _ _) r => (match v with | .tableRow false => true | _ => false) && restRows r

/-- Children of a table: a header row first, then only non-header rows. -/
def rowsOk : Forest → Bool
  | .nil => false
  | .cons (.node v _ _) r => (match v with | .tableRow true => true | _ => false) && restRows r

def tableOk (v : NodeValue) (cs : Forest) : Bool :=
  match v with
  | .table .. => rowsOk cs
  | _ => true

mutual
/-- The part of `Shape` the balance theorem needs. -/
def balShapeT (parent : Option NodeValue) : Tree → Bool
  | .node v _ cs => placeOk parent v && tableOk v cs && balShapeF (some v) cs
def balShapeF (parent : Option NodeValue) : Forest → Bool
  | .nil => true
  | .cons t ts => balShapeT parent t && balShapeF parent ts
end

/-! ## Full shape (C04) -/

def cellsOk (n : Nat) : Forest → Bool
  | .nil => true
  | .cons (.node v _ cs) r => (match v with | .tableRow _ => cs.length == n | _ => false) && cellsOk n r

def allCells : Forest → Bool
  | .nil => true
  | .cons (.node v _ _) r => (match v with | .tableCell => true | _ => false) && allCells r

/-- Node-local invariants: heading level, table geometry, list children. -/
def localOk (v : NodeValue) (cs : Forest) : Bool :=
  match v with
  | .heading level _ => 1 ≤ level && level ≤ 6
  | .table aligns ncols _ _ => rowsOk cs && aligns.length == ncols && cellsOk ncols cs
  | .tableRow _ => allCells cs
  | _ => true

mutual
def shapeT (parent : Option NodeValue) : Tree → Bool
  | .node v _ cs =>
    (match parent with | some p => canContain p.kind v.kind | none => true) &&
    placeOk parent v && localOk v cs && shapeF (some v) cs
def shapeF (parent : Option NodeValue) : Forest → Bool
  | .nil => true
  | .cons t ts => shapeT parent t && shapeF parent ts
end

/-- C04's shape predicate for a whole tree. -/
def Shape (t : Tree) : Bool := shapeT none t

end Comrak
