import Comrak.Props.C03
open Comrak.C03
#print axioms inlines_canon
#print axioms block_canon
#print axioms table_canon
#print axioms items_canon
#print axioms footnotes_canon
#print axioms refHtml_eq_renderHtml_of_safe
#print axioms refHtml_eq_renderHtml_canon
#print axioms shape_canon
#print axioms toTreeP_erase_canon
#print axioms positions_canon_partial
#print axioms write_lines_clean_canon
#print axioms positions_canon
#print axioms math_info_counterexample
