import Comrak.Props.C10
open Comrak.C10
#print axioms enter_leaves_opened
#print axioms exit_closes_closing
#print axioms backrefs_balanced
#print axioms tbody_once
#print axioms shapeT_imp_balShapeT
#print axioms html_balanced
#print axioms html_balanced_of_shape
#print axioms lex_spell
#print axioms balancedBytes_imp_core
#print axioms html_void_discipline
#print axioms balanced_tokens_balanced_bytes
#print axioms html_balanced_bytes_partial
#print axioms html_footnote_section_once_bytes
#print axioms html_table_sections
#print axioms flagged_tokens_balanced_bytes
#print axioms html_balanced_bytes
#print axioms html_balanced_bytes_needs_shape
