import Comrak.Props.C10
open Comrak.C10
#print axioms enter_leaves_opened
#print axioms exit_closes_closing
#print axioms backrefs_balanced
#print axioms tbody_once
#print axioms shapeT_imp_balShapeT
#print axioms html_balanced
#print axioms html_balanced_of_shape
