import Comrak.Props.C17
open Comrak.C17
#print axioms cr_blankline_idempotent
#print axioms crFlush_clears
#print axioms tight_item_single_newline
#print axioms renderCm_final_newline
#print axioms canonical_spellings
#print axioms cm_end_list_after_empty_item_counterexample
#print axioms cm_fixed_point_canon_partial
#print axioms cm_idempotent_canon_partial
