import Comrak.Props.C08
open Comrak.C08
#print axioms feed_eq_splitLines
#print axioms lines_crlf
#print axioms lines_cr
#print axioms lines_any_endings
#print axioms lines_final_newline
#print axioms lines_final_newline_empty
#print axioms lines_nul
#print axioms bom_first_line
#print axioms bom_skipped
#print axioms bom_counterexample
#print axioms Comrak.C08.sentinel
