import Comrak.Props.C11
import Comrak.Props.C11C12Canon
open Comrak.C11
#print axioms lineTable_covers
#print axioms spNested_trans
#print axioms spNested_refl
#print axioms spOrdered_trans
#print axioms spOrdered_of_nested
#print axioms spInRange_sound
#print axioms spx_consume_conserves
#print axioms spx_consume_in_span
#print axioms spx_consume_in_range
#print axioms blockEnd_after_start
#print axioms blockEnd_counterexample
#print axioms thematicEnd_exact
#print axioms thematicEnd_old_exact_iff
#print axioms thematicEnd_old_counterexample
#print axioms canon_positions_in_range_nested_ordered
