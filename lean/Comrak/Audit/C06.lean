import Comrak.Props.C06
open Comrak.C06
#print axioms escape_len
#print axioms escapeHref_len
#print axioms escape_len_ge
#print axioms findCloser_some
#print axioms findCloser_none_iff
#print axioms btLoop_bound
#print axioms backticks_linear
#print axioms cdSteps_replicate
#print axioms dollar_quadratic
#print axioms refmap_budget
#print axioms autocomplete_cap
#print axioms xml_indent_cap
#print axioms label_bounded
#print axioms paren_depth_bounded
#print axioms btStepsPos_differs_counterexample
