import Comrak.Props.C19
open Comrak.C19
#print axioms escape_loop_eq_spec
#print axioms escapeHref_loop_eq_spec
#print axioms escape_append
#print axioms escapeHref_append
#print axioms escape_no_active
#print axioms escape_no_raw
#print axioms escapeHref_alphabet
#print axioms unescapeText_escape
#print axioms escape_injective
#print axioms escapeHref_not_injective
#print axioms hrefDecode_escapeHref_partial
#print axioms escapeHref_injective_partial
#print axioms hrefDecode_escapeHref_noPctEscape
#print axioms escapeHref_injective_noPctEscape
#print axioms noPctEscape_of_no_pct
#print axioms noPctEscape_boundary
#print axioms openTag_complete
#print axioms openTag_injective
#print axioms openTag_raw_name_counterexample
#print axioms entityDecode_escapeHref_eq_pctEnc
#print axioms escapeHref_decode_equiv
#print axioms escapeHref_injective_mod_pct
#print axioms escapeHref_decode_order_counterexample
