import Comrak.Props.C15
open Comrak.C15
#print axioms anchorLoop_some
#print axioms candidates_injective
#print axioms anchorLoop_first_unused
#print axioms anchorize_fresh
#print axioms anchorize_smallest_suffix
#print axioms anchors_pairwise_distinct
#print axioms ix_is_1_to_n_in_first_ref_order
#print axioms unresolved_stay_text
#print axioms clean_document_intact
#print axioms ref_nums_1_to_total_counterexample
#print axioms backrefs_match_refs_counterexample
#print axioms ref_ids_distinct_counterexample
#print axioms unreferenced_omitted_counterexample
#print axioms defs_rendered_once_counterexample
#print axioms refs_point_to_rendered_def_after_fix
