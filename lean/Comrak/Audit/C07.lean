import Comrak.Props.C07
open Comrak.C07
#print axioms longestCharSequence_spec
#print axioms code_fence_longer_than_content
#print axioms fence_char_not_in_info
#print axioms shortestUnused_spec
#print axioms code_span_ticks_unused
#print axioms code_span_ticks_counterexample
#print axioms outc_escapes_specials
#print axioms outc_gaps_counterexample
#print axioms table_escape_pipes
#print axioms cm_prefix_after_literal_counterexample
#print axioms pct2X_wellformed
#print axioms item_exit_restores_prefix
#print axioms output_keeps_frame
#print axioms cm_round_trip_canon_partial
