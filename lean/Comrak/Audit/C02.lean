import Comrak.Props.C02
open Comrak.C02
#print axioms html_safe
#print axioms raw_html_only_placeholder
#print axioms raw_html_escaped_when_escape
#print axioms text_is_escaped
#print axioms dangerous_invariant_under_escapeHref
#print axioms no_dangerous_destination
#print axioms allowed_value_cannot_break_out
#print axioms dangerous_invariant_under_escapeHref_decoded
#print axioms allowed_value_is_valueSafe
#print axioms html_destinations_safe
#print axioms safe_tokens_safe_bytes
#print axioms html_safe_bytes
