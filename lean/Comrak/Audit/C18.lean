import Comrak.Props.C18
open Comrak.C18
#print axioms enter_sourcepos_only_adds
#print axioms exit_independent_of_sourcepos
#print axioms exit_sourcepos_only_adds
#print axioms off_has_no_sourcepos
#print axioms html_sourcepos_only_adds
#print axioms state_independent_of_sourcepos
