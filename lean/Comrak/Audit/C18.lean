import Comrak.Props.C18
open Comrak.C18
#print axioms enter_sourcepos_only_adds
#print axioms exit_independent_of_sourcepos
#print axioms exit_sourcepos_only_adds
#print axioms off_has_no_sourcepos
#print axioms html_sourcepos_only_adds
#print axioms state_independent_of_sourcepos
#print axioms xml_attrs_sourcepos_only_adds
#print axioms xml_sourcepos_only_adds
#print axioms xml_sourcepos_only_adds_bytes
#print axioms xml_sourcepos_bytes_inserted
#print axioms xml_off_has_no_sourcepos
#print axioms cm_ignores_sourcepos
#print axioms cm_ignores_positions
