import Comrak.Props.C09
open Comrak.C09
#print axioms xml_escape_eq_html_escape
#print axioms indent_bounded
#print axioms xml_balanced
#print axioms literal_with_children_counterexample
#print axioms xml_attr_values_escaped
#print axioms xml_names_legal
#print axioms escapedTag_counterexample
#print axioms C09_wellformed_full_false
#print axioms info_unescaped_before_fix
#print axioms xml_lexes
#print axioms xml_mirrors_tree_partial
#print axioms xml_wellformed_partial
#print axioms C09_mirrors_full_false
#print axioms stack_traversal_eq_recursive
