import Comrak.Props.C09
open Comrak.C09
#print axioms xml_escape_eq_html_escape
#print axioms indent_bounded
#print axioms xml_balanced
#print axioms literal_with_children_counterexample
#print axioms xml_attr_values_escaped
#print axioms xml_names_legal
#print axioms xml_lexes
#print axioms xml_tokens_lexable
#print axioms xml_mirrors_tree
#print axioms xml_wellformed
#print axioms C09_mirrors_full_holds
#print axioms C09_wellformed_full_holds
#print axioms literal_with_children_rejected
#print axioms escapedTag_example
#print axioms escapedTag_payload_before_fix
#print axioms info_unescaped_before_fix
#print axioms stack_traversal_eq_recursive
