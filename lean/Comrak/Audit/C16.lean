import Comrak.Props.C16
open Comrak.C16
#print axioms cli_matches_documentation
#print axioms gfm_bundle
#print axioms gfm_is_shorthand
#print axioms flags_one_to_one
#print axioms extension_on_iff
#print axioms unflagged_options_default
#print axioms defaults
#print axioms mergeConfig_eq_append
#print axioms mergeConfigOld_eq_append_partial
#print axioms mergeConfig_nil
#print axioms mergeConfigOld_non_unicode_counterexample
#print axioms mergeConfigOld_panic_counterexample
#print axioms formatter_choice
#print axioms sink_choice
#print axioms inputs_concatenated
#print axioms unreadable_file_exit3
#print axioms cli_renders_library
#print axioms invalid_utf8_exit1
#print axioms failure_leaves_no_output
#print axioms exit_codes
#print axioms config_none
#print axioms config_appended
