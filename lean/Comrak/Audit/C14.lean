import Comrak.Props.C14
open Comrak.C14
#print axioms tagfilter_oob_before_fix
#print axioms tagfilter_total
#print axioms tagfilter_eq_spec
#print axioms tagfilter_eq_spec_partial
#print axioms tagfilter_formfeed_filtered
#print axioms tagfilterBlock_eq_rewriteSpec
#print axioms tagfilterBlock_eq_rewriteSpec_partial
#print axioms inline_filtered_iff
#print axioms block_filtered
#print axioms unfiltered_verbatim
#print axioms no_disallowed_survives
#print axioms no_disallowed_survives_partial
#print axioms no_disallowed_survives_formfeed
#print axioms drv_survivors_eq
#print axioms inline_first_not_disallowed
#print axioms tagfilterBlock_local
#print axioms disallowed_neutralised_in_context
