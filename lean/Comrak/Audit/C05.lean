import Comrak.Props.C05
open Comrak.C05
#print axioms footnotes_order_independent
#print axioms attrs_order_independent
#print axioms iteration_order_counterexample
#print axioms bytesLe_trans
#print axioms bytesLe_antisymm
