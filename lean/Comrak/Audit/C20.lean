import Comrak.Props.C20
open Comrak.C20
#print axioms split_cases
#print axioms split_sound
#print axioms split_none_not_at_start
#print axioms split_none_open_not_alone
#print axioms split_none_unterminated
#print axioms split_none_close_not_alone
#print axioms split_complete_partial
#print axioms split_complete_eof_partial
#print axioms split_complete_hypotheses_satisfiable
#print axioms preludes_shift
#print axioms lines_shift
#print axioms unrecognised_is_ordinary
#print axioms front_matter_cr_counterexample
#print axioms body_line_eof_counterexample
#print axioms empty_body_counterexample
#print axioms mixed_endings_counterexample
#print axioms bom_rest_counterexample
#print axioms html_front_matter_absent
#print axioms html_front_matter_absent_doc
#print axioms html_front_matter_absent_bytes
#print axioms xml_front_matter_is_empty_element
#print axioms xml_front_matter_one_element_doc
#print axioms xml_front_matter_not_absent
#print axioms cm_front_matter_alone
#print axioms cm_front_matter_alone_lf
#print axioms cm_front_matter_verbatim
