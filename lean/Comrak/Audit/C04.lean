import Comrak.Props.C04
open Comrak.C04
#print axioms shape_validate
#print axioms rowsOk_length
#print axioms table_noPanic
#print axioms cell_noPanic
#print axioms paragraph_noPanic
#print axioms row_completion_length
#print axioms atx_level_range
#print axioms shape_gives_balanced_html
