import Comrak.Props.C12
import Comrak.Props.C11C12Canon
open Comrak.C12
#print axioms slice_length
#print axioms slice_is_infix
#print axioms contentMap_exact
#print axioms contentMap_total
#print axioms makeInline_in_line
#print axioms makeInline_matches_contentMap
#print axioms column_zero_rejected
#print axioms canon_positions_denote_their_text
