import Comrak.Props.C01
open Comrak.C01
#print axioms shortestUnused_le_32
#print axioms shortestUnused_pos
#print axioms shortestUnused_total
#print axioms shortestUnused_is_unused_partial
#print axioms shortestUnused_cap_counterexample
#print axioms shortestUnused_old_diverges
#print axioms shortestUnused_old_all_bits
#print axioms shortestUnused_old_shift_overflow
#print axioms shortestUnused_fixed_on_witnesses
#print axioms spx_consume_total
#print axioms spx_consume_all_total
#print axioms spx_consume_verbatim
#print axioms spx_consume_former_counterexample
#print axioms spx_consume_empty_counterexample
#print axioms entity_codepoint_no_overflow
#print axioms hexval_no_underflow
#print axioms numericEntity_no_overflow
#print axioms normalizeCode_nonempty
#print axioms chop_hashtags_total
#print axioms remove_trailing_blank_lines_total
#print axioms chop_hashtags_unguarded_counterexample
#print axioms cm_prefix_restored_partial
#print axioms cm_prefix_underflow_counterexample
#print axioms html_no_panic_of_shape
#print axioms xml_no_panic_of_shape
#print axioms cm_no_panic_of_shape
