/-
C15, footnotes: model of the parser's footnote pass (src/parser/mod.rs `process_footnotes`,
`find_footnote_definitions`, `find_footnote_references`, `cleanup_footnote_definitions`) on
trees as the inline parser leaves them: every `[^x]` is a `footnoteReference x 0 0`, every
definition still sits where the block parser put it.

The `HashMap<folded label, FootnoteDefinition{ix,node,name,total_references}>` is represented by
* `DefTab`: for every folded label the definition that holds the slot (`map.insert` overwrites:
  the *last* outermost definition in document order wins) - fixed after the first walk;
* `NSt.seen`: the folded labels that have an `ix`, in the order they got it
  (`ix = position in seen + 1`, the counter `*ixp = seen.length`);
* `NSt.hist`: the folded labels of the resolved references met so far
  (`total_references = hist.count label`).
The label normaliser (`strings::normalize_label` with `Case::Fold` / `Case::Preserve`, Unicode
tables) is a parameter.
-/
import Comrak.Ast
namespace Comrak
open Bytes

structure LabelNorm where
  fold : Bytes → Bytes     -- `normalize_label(_, Case::Fold)`
  keep : Bytes → Bytes     -- `normalize_label(_, Case::Preserve)`

/-- Slot of the definition map. -/
structure DefSlot where
  key : Bytes              -- folded label
  name : Bytes             -- `normalize_label(label, Preserve)` of the definition holding the slot
  pos : Nat                -- which outermost definition (document order, from 0) holds the slot
  deriving Repr, DecidableEq, Inhabited

abbrev DefTab := List DefSlot

def DefTab.get? (D : DefTab) (key : Bytes) : Option DefSlot := D.find? fun d => d.key == key

/-- `HashMap::insert`: a later definition with the same folded label replaces the earlier one. -/
def DefTab.insert (D : DefTab) (s : DefSlot) : DefTab := (D.filter fun d => d.key != s.key) ++ [s]

mutual
/-- `find_footnote_definitions`: the outermost definitions in document order (the walk does not
    descend into a definition, so definitions nested in definitions are not found). -/
def outerDefsT : Tree → List Tree
  | .node v sp cs =>
    match v with
    | .footnoteDefinition .. => [.node v sp cs]
    | _ => outerDefsF cs
def outerDefsF : Forest → List Tree
  | .nil => []
  | .cons t ts => outerDefsT t ++ outerDefsF ts
end

def defLabel : Tree → Bytes
  | .node (.footnoteDefinition name _) _ _ => name
  | _ => []

def buildTab (N : LabelNorm) : Nat → List Tree → DefTab → DefTab
  | _, [], D => D
  | i, d :: ds, D => buildTab N (i + 1) ds (D.insert ⟨N.fold (defLabel d), N.keep (defLabel d), i⟩)

/-- State of `find_footnote_references`. -/
structure NSt where
  seen : List Bytes := []
  hist : List Bytes := []
  deriving Repr, DecidableEq, Inhabited

/-- One `FootnoteReference` node met by `find_footnote_references`. -/
def stepRef (N : LabelNorm) (D : DefTab) (st : NSt) (label : Bytes) : NodeValue × NSt :=
  let key := N.fold label
  match D.get? key with
  | none => (.text ([0x5B, 0x5E] ++ label ++ [0x5D]), st)          -- `[^label]` stays literal text
  | some d =>
    let seen' := if st.seen.contains key then st.seen else st.seen ++ [key]
    let hist' := key :: st.hist
    (.footnoteReference d.name (hist'.count key) (seen'.idxOf key + 1), ⟨seen', hist'⟩)

mutual
/-- `find_footnote_references`: pre-order walk over the whole tree *including* the inside of every
    definition (also of those that are dropped afterwards). -/
def numberT (N : LabelNorm) (D : DefTab) : Tree → NSt → Tree × NSt
  | .node v sp cs, st =>
    match v with
    | .footnoteReference name _ _ =>
      let r := stepRef N D st name
      (.node r.1 sp cs, r.2)
    | _ =>
      let r := numberF N D cs st
      (.node v sp r.1, r.2)
def numberF (N : LabelNorm) (D : DefTab) : Forest → NSt → Forest × NSt
  | .nil, st => (.nil, st)
  | .cons t ts, st =>
    let r1 := numberT N D t st
    let r2 := numberF N D ts r1.2
    (.cons r1.1 r2.1, r2.2)
end

mutual
/-- `cleanup_footnote_definitions`: detach every outermost definition. -/
def stripT : Tree → Tree
  | .node v sp cs => .node v sp (stripF cs)
def stripF : Forest → Forest
  | .nil => .nil
  | .cons t ts =>
    match t with
    | .node (.footnoteDefinition ..) _ _ => stripF ts
    | _ => .cons (stripT t) (stripF ts)
end

def setDef (name : Bytes) (total : Nat) : Tree → Tree
  | .node _ sp cs => .node (.footnoteDefinition name total) sp cs

/-- The definitions that got an `ix`, in `ix` order, renamed and with their reference count. -/
def usedDefs (D : DefTab) (outer : List Tree) (st : NSt) : List Tree :=
  st.seen.filterMap fun key =>
    match D.get? key with
    | none => none
    | some d => (outer[d.pos]?).map (setDef d.name (st.hist.count key))

def isDefValue : NodeValue → Bool
  | .footnoteDefinition .. => true
  | _ => false

/-- `process_footnotes` (root: the `Document` node; a root that is itself a definition is left alone). -/
def processFootnotes (N : LabelNorm) : Tree → Tree
  | .node v sp cs =>
    if isDefValue v then .node v sp cs else
    let D := buildTab N 0 (outerDefsF cs) []
    let r := numberF N D cs {}
    .node v sp ((stripF r.1).append (Forest.ofList (usedDefs D (outerDefsF r.1) r.2)))

/-! ## What the property says about an output tree -/

mutual
/-- All reference nodes `(name, ref_num, ix)` in document order. -/
def allRefsT : Tree → List (Bytes × Nat × Nat)
  | .node v _ cs =>
    match v with
    | .footnoteReference name refNum ix => [(name, refNum, ix)]     -- a leaf; the pass does not look below it either
    | _ => allRefsF cs
def allRefsF : Forest → List (Bytes × Nat × Nat)
  | .nil => []
  | .cons t ts => allRefsT t ++ allRefsF ts
end

mutual
/-- All definition nodes `(name, total_references)` anywhere in the tree, document order. -/
def allDefsT : Tree → List (Bytes × Nat)
  | .node v _ cs =>
    (match v with
     | .footnoteDefinition name total => [(name, total)]
     | _ => []) ++ allDefsF cs
def allDefsF : Forest → List (Bytes × Nat)
  | .nil => []
  | .cons t ts => allDefsT t ++ allDefsF ts
end

/-- The definitions that are children of the root: the renderer numbers them 1, 2, ... -/
def rootDefs : Tree → List (Bytes × Nat)
  | .node _ _ cs => cs.toList.filterMap fun c =>
      match c with
      | .node (.footnoteDefinition name total) _ _ => some (name, total)
      | _ => none

/-- Every reference carries the number and (normalised) name of a definition under the root. -/
def refsPointOk (N : LabelNorm) (t : Tree) : Bool :=
  (allRefsT t).all fun r =>
    decide (1 ≤ r.2.2) && (match (rootDefs t)[r.2.2 - 1]? with
      | some d => d.1 == r.1
      | none => false)

/-- No definition name is rendered twice. -/
def defsOnceOk (t : Tree) : Bool := decide ((allDefsT t).map (·.1)).Nodup

/-- Every definition in the tree is one of the numbered definitions under the root. -/
def noStrayDefs (t : Tree) : Bool := (allDefsT t).length == (rootDefs t).length

/-- For the `i`-th definition under the root the references carrying `ix = i` have the
    `ref_num`s `1 .. total_references`, each once. -/
def refNumsOk (t : Tree) : Bool :=
  (rootDefs t).zipIdx.all fun (d, i) =>
    let nums := ((allRefsT t).filter fun r => r.2.2 == i + 1).map (·.2.1)
    nums.length == d.2 && (List.range' 1 d.2).all fun k => nums.contains k

/-- Every definition in the output is referenced from the output. -/
def unreferencedOmittedOk (t : Tree) : Bool :=
  (rootDefs t).zipIdx.all (fun (_, i) => (allRefsT t).any fun r => r.2.2 == i + 1) && noStrayDefs t

/-- In document order the `ix` values appear as 1, 2, 3, ...: a new footnote always gets the next number. -/
def firstRefOrder : Nat → List Nat → Bool
  | _, [] => true
  | m, x :: xs => if x == m + 1 then firstRefOrder (m + 1) xs else decide (1 ≤ x) && decide (x ≤ m) && firstRefOrder m xs

mutual
/-- Reference nodes are leaves (they are, in every tree the inline parser builds). -/
def leafRefsT : Tree → Bool
  | .node v _ cs =>
    match v with
    | .footnoteReference .. => cs.isNil
    | _ => leafRefsF cs
def leafRefsF : Forest → Bool
  | .nil => true
  | .cons t ts => leafRefsT t && leafRefsF ts
end

/-! ## ASCII label normaliser (used by `decide` witnesses and as the driver's fallback) -/

def isWsAscii (c : UInt8) : Bool := isSpace c || c == 0x0B || c == 0x0C

def collapseWs : Bool → Bytes → Bytes
  | _, [] => []
  | lastWs, c :: r =>
    if isWsAscii c then (if lastWs then collapseWs true r else 0x20 :: collapseWs true r)
    else c :: collapseWs false r

def trimSpace (s : Bytes) : Bytes := ((s.dropWhile isSpace).reverse.dropWhile isSpace).reverse

def keepAscii (s : Bytes) : Bytes := collapseWs false (trimSpace s)
def foldAscii (s : Bytes) : Bytes := (keepAscii s).map toLowerAscii

def asciiNorm : LabelNorm := ⟨foldAscii, keepAscii⟩

/-- Normaliser given by a table `(label, fold, keep)` with the ASCII rules as fallback. -/
def tableNorm (tab : List (Bytes × Bytes × Bytes)) : LabelNorm :=
  { fold := fun s => match tab.find? fun p => p.1 == s with | some p => p.2.1 | none => foldAscii s
    keep := fun s => match tab.find? fun p => p.1 == s with | some p => p.2.2 | none => keepAscii s }

end Comrak
