/-
Model of the line splitter of `Parser::feed` / `Parser::finish` and of the prelude of
`Parser::process_line` (src/parser/mod.rs).  Core Lean only.

* `splitLines` is the specification: structural recursion over the input with the pending line and
  one flag "the previous byte was a CR that ended a line".
* `feedLoop` / `feed` / `parseLines` mirror the code: the outer `while buffer < end`, the inner scan
  for a line-end byte or NUL (`scanSeg`), the three-way branch (process / NUL / carry over), the
  advance over `\0`, `\r`, `\n`, `last_buffer_ended_with_cr`, and `finish` handing a non-empty
  `linebuf` to `process_line`.  The remaining input `s[buffer..]` is carried as a list instead of
  the index `buffer`.
* `sentinel`, `bomOffset`, `prelude` model the head of `process_line`.
-/
import Comrak.Bytes
namespace Comrak
open Bytes

namespace Feed

def LF : UInt8 := 0x0A
def CR : UInt8 := 0x0D
def NUL : UInt8 := 0x00
/-- UTF-8 of U+FFFD. -/
def FFFD : Bytes := [0xEF, 0xBF, 0xBD]
/-- UTF-8 of U+FEFF. -/
def BOM : Bytes := [0xEF, 0xBB, 0xBF]

/-- `strings::is_line_end_char` -/
def isLineEnd (b : UInt8) : Bool := b == 0x0A || b == 0x0D

/-! ## Specification -/

/-- The lines handed to `process_line`, in order. `cur` is the pending line (NUL already replaced),
    `cr` says that the previous byte was a CR terminator (so a directly following LF belongs to it). -/
def splitLines (cur : Bytes) (cr : Bool) : Bytes → List Bytes
  | [] => if cur = [] then [] else [cur]
  | b :: r =>
    if b = 0x0A then (if cr then splitLines cur false r else cur :: splitLines [] false r)
    else if b = 0x0D then cur :: splitLines [] true r
    else if b = 0x00 then splitLines (cur ++ FFFD) false r
    else splitLines (cur ++ [b]) false r

/-! ## The code's loop -/

/-- The inner `while eol < end` scan: the bytes up to (not including) the first line-end byte or
    NUL, and the input from that byte on. -/
def scanSeg : Bytes → Bytes × Bytes
  | [] => ([], [])
  | b :: r =>
    if isLineEnd b || b == 0x00 then ([], b :: r)
    else ((b :: (scanSeg r).1), (scanSeg r).2)

/-- The advance at the bottom of the outer loop (`buffer = eol; if buffer < end {...}`), on the
    input from `eol` on. Returns the input from the new `buffer` on and whether
    `last_buffer_ended_with_cr` was set. -/
def advance : Bytes → Bytes × Bool
  | [] => ([], false)
  | b :: t =>
    if b = 0x00 then (t, false)
    else if b = 0x0D then
      (match t with
       | [] => ([], true)
       | c :: u => if c = 0x0A then (u, false) else (c :: u, false))
    else if b = 0x0A then (t, false)
    else (b :: t, false)

/-- State after `feed`: the `process_line` calls made, `linebuf`, `last_buffer_ended_with_cr`. -/
structure Out where
  lines : List Bytes
  linebuf : Bytes
  lastCr : Bool
deriving Repr, DecidableEq

/-- The outer `while buffer < end` loop; `rem` is `s[buffer..]`, the first argument bounds the
    number of iterations (every iteration consumes at least one byte). -/
def feedLoop (eof : Bool) : Nat → Bytes → Bytes → Out
  | 0, lb, _ => ⟨[], lb, false⟩
  | fuel + 1, lb, rem =>
    match rem with
    | [] => ⟨[], lb, false⟩
    | _ :: _ =>
      let seg := (scanSeg rem).1
      let rest := (scanSeg rem).2            -- s[eol..]
      let process : Bool :=
        (match rest with
         | [] => eof                          -- eol >= end && eof
         | c :: _ => isLineEnd c)
      let adv := advance rest
      if process then
        let o := feedLoop eof fuel [] adv.1
        ⟨(lb ++ seg) :: o.lines, o.linebuf, adv.2 || o.lastCr⟩
      else
        let lb' := (match rest with
                    | c :: _ => if c = 0x00 then lb ++ seg ++ FFFD else lb ++ seg
                    | [] => lb ++ seg)
        let o := feedLoop eof fuel lb' adv.1
        ⟨o.lines, o.linebuf, adv.2 || o.lastCr⟩

/-- `Parser::feed(linebuf, s, eof)` after the front-matter step: skips an LF that completes a CR
    which ended the previous buffer, then runs the loop. -/
def feed (lb : Bytes) (lastCr : Bool) (s : Bytes) (eof : Bool) : Out :=
  let s' := (match s with
             | c :: t => if lastCr && c == 0x0A then t else c :: t
             | [] => [])
  feedLoop eof s'.length lb s'

/-- `Parser::finish`: a non-empty `linebuf` is handed to `process_line`. -/
def finish (o : Out) : List Bytes :=
  if o.linebuf = [] then o.lines else o.lines ++ [o.linebuf]

/-- `parse_document`: one `feed` of the whole text with `eof = true`, then `finish`. -/
def parseLines (s : Bytes) : List Bytes := finish (feed [] false s true)

/-! ## The head of `process_line` -/

/-- A missing final line end is supplied (`process_line` never sees an unterminated line). -/
def sentinel (l : Bytes) : Bytes :=
  match l.getLast? with
  | none => [0x0A]
  | some c => if isLineEnd c then l else l ++ [0x0A]

/-- `offset` after the BOM skip; `lineNo` is `line_number` before the increment. -/
def bomOffset (lineNo : Nat) (l : Bytes) : Nat :=
  if lineNo = 0 ∧ isPrefixB BOM l then 3 else 0

/-- What the block parser works on for one `process_line` call: the terminated line and the offset
    it starts reading at. -/
def prelude (lineNo : Nat) (l : Bytes) : Bytes × Nat := (sentinel l, bomOffset lineNo (sentinel l))

/-- All `process_line` calls of a document that starts at line number `n0` (0 without front
    matter), after the prelude, with their line numbers (after the increment). -/
def preludes (n0 : Nat) : List Bytes → List (Bytes × Nat × Nat)
  | [] => []
  | l :: ls => ((prelude n0 l).1, (prelude n0 l).2, n0 + 1) :: preludes (n0 + 1) ls

/-- The bytes the block parser actually reads: every line after the prelude, minus the skipped
    prefix. -/
def blockInput (n0 : Nat) (ls : List Bytes) : List Bytes :=
  (preludes n0 ls).map fun p => p.1.drop p.2.1

/-! ## The four rewrites of the property -/

def lfToCrlf : Bytes → Bytes
  | [] => []
  | b :: r => if b = 0x0A then 0x0D :: 0x0A :: lfToCrlf r else b :: lfToCrlf r

def lfToCr : Bytes → Bytes
  | [] => []
  | b :: r => if b = 0x0A then 0x0D :: lfToCr r else b :: lfToCr r

/-- Every line end (CRLF, bare CR, LF) written as LF; `cr` = the previous byte was a CR. -/
def toLf (cr : Bool) : Bytes → Bytes
  | [] => []
  | b :: r =>
    if b = 0x0A then (if cr then toLf false r else 0x0A :: toLf false r)
    else if b = 0x0D then 0x0A :: toLf true r
    else b :: toLf false r

def nulToFFFD : Bytes → Bytes
  | [] => []
  | b :: r => if b = 0x00 then FFFD ++ nulToFFFD r else b :: nulToFFFD r

end Feed
end Comrak
