/-
C02: the vocabulary of comrak's own HTML, `allowedTok` (token level, what the theorems are
about) and `safeBytes` (byte level, the oracle run on the real output).
-/
import Comrak.HtmlLang
namespace Comrak
open Bytes

/-- Fixed element vocabulary of html.rs (headings are `h1`..`h6`). -/
def tagVocab : List Bytes :=
  [S.t_blockquote, S.t_code, S.t_pre, S.t_em, S.t_a, S.t_img, S.t_figure, S.t_figcaption, S.t_li, S.t_br, S.t_ul, S.t_ol, S.t_p, S.t_strong, S.t_hr, S.t_section, S.t_sup, S.t_del, S.t_table, S.t_thead, S.t_tbody, S.t_tr, S.t_th, S.t_td, S.t_input, S.t_div, S.t_dd, S.t_dl, S.t_dt, S.t_span, S.t_sub, S.t_u,
   headingName 1, headingName 2, headingName 3, headingName 4, headingName 5, headingName 6]

/-- Fixed attribute vocabulary of html.rs. -/
def attrVocab : List Bytes :=
  [S.a_data_sourcepos, S.a_href, S.a_src, S.a_alt, S.a_title, S.a_class, S.a_start, S.a_id, S.a_data_footnotes, S.a_data_footnote_ref, S.a_data_footnote_backref, S.a_data_footnote_backref_idx, S.a_aria_label, S.a_aria_hidden, S.a_align, S.a_type, S.a_checked, S.a_disabled, S.a_lang, S.a_data_meta, S.a_data_math_style, S.a_data_wikilink, S.a_data_escaped_char]

/-- A literal that cannot break out of an attribute value or of text: no `"`, `<`, `>`, `&`. -/
def litSafe (v : Bytes) : Bool := v.all fun c => !(c == 0x22 || c == 0x3C || c == 0x3E || c == 0x26)

def partOk : APart → Bool
  | .lit v => litSafe v
  | _ => true

def attrOk (a : Attr) : Bool :=
  attrVocab.contains a.name &&
  match a.val with
  | none => true
  | some ps => ps.all partOk

/-- A token of comrak's own safe markup: element and attribute names from the fixed vocabulary,
    attribute values made of escaped document text (`esc`/`href`) and harmless literals,
    document text only as `txt` (spelled escaped), raw bytes only when harmless, and the
    placeholder comment. -/
def allowedTok : Tok → Bool
  | .op n as => tagVocab.contains n && as.all attrOk
  | .vd n as => tagVocab.contains n && as.all attrOk
  | .cl n => tagVocab.contains n
  | .txt _ => true
  | .lit v => litSafe v
  | .raw v => litSafe v
  | .cmt => true

/-! ## Byte-level oracle -/

def entApos' : Bytes := [0x26,0x23,0x78,0x32,0x37,0x3B]

/-- No raw `<`, `>`, `"`; every `&` begins one of `&quot; &amp; &lt; &gt; &#x27;`. -/
def valueSafe : Bytes → Bool
  | [] => true
  | b :: r =>
    (if b = 0x26 then
        isPrefixB entQuot (b :: r) || isPrefixB entAmp (b :: r) || isPrefixB entLt (b :: r) ||
        isPrefixB entGt (b :: r) || isPrefixB entApos' (b :: r)
     else !(b == 0x22 || b == 0x3C || b == 0x3E)) && valueSafe r

/-- Decode the five entities comrak writes (for the destination check). -/
def entDecodeAux (skip : Nat) : Bytes → Bytes
  | [] => []
  | b :: r =>
    match skip with
    | k + 1 => entDecodeAux k r
    | 0 =>
      if isPrefixB entAmp (b :: r) then 0x26 :: entDecodeAux 4 r
      else if isPrefixB entApos' (b :: r) then 0x27 :: entDecodeAux 5 r
      else if isPrefixB entQuot (b :: r) then 0x22 :: entDecodeAux 5 r
      else if isPrefixB entLt (b :: r) then 0x3C :: entDecodeAux 3 r
      else if isPrefixB entGt (b :: r) then 0x3E :: entDecodeAux 3 r
      else b :: entDecodeAux 0 r
def entDecode (bs : Bytes) : Bytes := entDecodeAux 0 bs

inductive SafeErr where
  | unlexable | tag (n : Bytes) | attr (n : Bytes) | value (n : Bytes) | text | comment | destination (n : Bytes)

def SafeErr.code : SafeErr → String
  | .unlexable => "unlexable"
  | .tag n => s!"tag-outside-vocabulary:{strOf n}"
  | .attr n => s!"attribute-outside-vocabulary:{strOf n}"
  | .value n => s!"attribute-value-not-escaped:{strOf n}"
  | .text => "text-not-escaped"
  | .comment => "foreign-comment"
  | .destination n => s!"dangerous-destination:{strOf n}"

def omittedBody : Bytes := (S.v_omitted.drop 4).take (S.v_omitted.length - 7)

def checkAttrs : List (Bytes × Option Bytes) → Except SafeErr Unit
  | [] => .ok ()
  | (n, v) :: r =>
    if !attrVocab.contains n then .error (.attr n) else
    match v with
    | none => checkAttrs r
    | some raw =>
      if !valueSafe raw then .error (.value n)
      else if (n == S.a_href || n == S.a_src) && dangerousUrl (entDecode raw) then .error (.destination n)
      else checkAttrs r

def checkLToks : List LTok → Except SafeErr Unit
  | [] => .ok ()
  | .op n as :: r | .vd n as :: r =>
    if !tagVocab.contains n then .error (.tag n) else
    match checkAttrs as with
    | .ok () => checkLToks r
    | .error e => .error e
  | .cl n :: r => if !tagVocab.contains n then .error (.tag n) else checkLToks r
  | .text v :: r => if valueSafe v then checkLToks r else .error .text
  | .cmt v :: r => if v == omittedBody then checkLToks r else .error .comment

/-- The C02 oracle on bytes: lexes as comrak's own markup and every piece is in the safe language. -/
def safeBytes (bs : Bytes) : Except SafeErr Unit :=
  match lexHtml bs with
  | none => .error .unlexable
  | some ts => checkLToks ts

end Comrak
