import Comrak.Drv.Util
import Comrak.Inline.Dispatch
namespace Comrak.Drv.C13
open Comrak Bytes Comrak.Drv

def natHex (n : Nat) : String := String.ofList (Nat.toDigits 16 n)

def insertSorted (b : UInt8) : Bytes → Bytes
  | [] => [b]
  | x :: r => if b ≤ x then b :: x :: r else x :: insertSorted b r

def sortBytes (l : Bytes) : Bytes := l.foldr insertSorted []

def handle : Handler := fun cmd args =>
  match cmd, args with
  | "c13tables", [i] => some do
      let some i := i.toNat? | throw "bad-index"
      pure (natHex (Generated.specialMasks.getD i 0) ++ " " ++ natHex (Generated.skipMasks.getD i 0) ++ " "
        ++ natHex (Generated.smartMasks.getD i 0))
  | "c13trig", [n] => some do
      match Feature.all.find? (fun f => f.name == n) with
      | some f => pure (outHex (sortBytes (triggerBytes f)))
      | none => throw "unknown-feature"
  | "c13features", [] => some (pure (", ".intercalate (Feature.all.map Feature.name) |>.replace ", " ","))
  | _, _ => none

end Comrak.Drv.C13
