/-
Driver commands for the model of src/cm.rs (C07 / C17):
  cm <opts7> <tree>            bytes `renderCm` writes (hex)
  cmlongest <hex> <ch>         `longestCharSequence`
  cmshortest <hex> <ch>        `shortestUnusedSequence`
  cmcode <hex>                 the code span `format_code` writes without wrapping (hex)
  cmfence <info hex> <lit hex> `<fence char> <fence length>`
  cmoutc <prev> <bc> <c> <esc> <nextc|-1>   `outcBytes` (hex);  cmtesc <kind> <c>   `tableEscape`
-/
import Comrak.Drv.Opts
import Comrak.Cm
namespace Comrak.Drv.Cm
open Comrak Bytes Comrak.Drv Comrak.Cm

def cmOpts (o : AllOpts) : CmOpts :=
  { width := o.width, olWidth := o.olWidth,
    listStyle := if o.listStyle == 1 then 0x2B else if o.listStyle == 2 then 0x2A else 0x2D,
    preferFenced := o.get "prefer_fenced", hardbreaks := o.get "hardbreaks",
    wikilinks := if o.get "wikilinks_title_after_pipe" then 1
                 else if o.get "wikilinks_title_before_pipe" then 2 else 0 }

def handle : Handler := fun cmd args =>
  match cmd with
  | "cm" => some do
      let (o, r) ← parseOpts args
      let t ← parseTree r
      pure (outHex (renderCm (cmOpts o) t))
  | "cmlongest" => some do
      match args with
      | [h, c] =>
        let b ← hexArg h
        let some c := c.toNat? | throw "bad-char"
        pure (toString (longestCharSequence b (UInt8.ofNat c)))
      | _ => throw "bad-args"
  | "cmshortest" => some do
      match args with
      | [h, c] =>
        let b ← hexArg h
        let some c := c.toNat? | throw "bad-char"
        pure (toString (shortestUnusedSequence b (UInt8.ofNat c)))
      | _ => throw "bad-args"
  | "cmcode" => some do
      match args with
      | [h] => pure (outHex (codeSpan (← hexArg h)))
      | _ => throw "bad-args"
  | "cmfence" => some do
      match args with
      | [i, l] =>
        let info ← hexArg i
        let lit ← hexArg l
        pure (toString (fenceChar info).toNat ++ " " ++ toString (fenceLen info lit))
      | _ => throw "bad-args"
  | "cmoutc" => some do
      -- cmoutc <prev hex> <begin_content 0/1> <c> <esc 1 normal|2 url|3 title|0 literal> <nextc|-1>
      match args with
      | [p, bc, c, e, n] =>
        let prev ← hexArg p
        let some c := c.toNat? | throw "bad-char"
        let some e := e.toNat? | throw "bad-esc"
        let esc : Esc := if e == 1 then .normal else if e == 2 then .url else if e == 3 then .title else .literal
        let fd := match prev.getLast? with | some b => isAsciiDigit b | none => false
        let nx : UInt8 := match n.toNat? with | some k => UInt8.ofNat k | none => 0
        pure (outHex (outcBytes (UInt8.ofNat c) esc (bc == "1") fd nx))
      | _ => throw "bad-args"
  | "cmtesc" => some do
      match args with
      | [k, c] =>
        let some c := c.toNat? | throw "bad-char"
        let kind : Kind := if k == "table" then .table else if k == "table_row" then .tableRow
          else if k == "table_cell" then .tableCell else if k == "text" then .text else .code
        pure (outBool (tableEscape kind (UInt8.ofNat c)))
      | _ => throw "bad-args"
  | _ => none

end Comrak.Drv.Cm
