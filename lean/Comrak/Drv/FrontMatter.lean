import Comrak.Drv.Util
import Comrak.Drv.Feed
import Comrak.FrontMatter
namespace Comrak.Drv.FrontMatter
open Comrak Bytes Comrak.Drv Comrak.FrontMatter

def handle : Handler := fun cmd args =>
  match cmd, args with
  | "fmsplit", [h, d] => some do
      let s ← hexArg h
      let d ← hexArg d
      match splitOffFrontMatter s d with
      | none => pure "none"
      | some (fm, rest) => pure ("some " ++ outHex fm ++ " " ++ outHex rest)
  | "fmlines", [h] => some do
      let s ← hexArg h
      pure (Comrak.Drv.Feed.outLines (lines s))
  | "fmdoc", [h, d] => some do
      let s ← hexArg h
      let d ← hexArg d
      let r := parseDoc (some d) s
      pure (outOptHex r.1 ++ " " ++ Comrak.Drv.Feed.outPreludes r.2)
  | _, _ => none

end Comrak.Drv.FrontMatter
