/-
Registry of driver handlers. To add a property's driver commands: create
Comrak/Drv/<Name>.lean exposing `handle : Handler`, import it here and append it to `handlers`.
-/
import Comrak.Drv.Util
import Comrak.Drv.C19
import Comrak.Drv.Html
import Comrak.Drv.C14
namespace Comrak.Drv

def handlers : List Handler :=
  [ Comrak.Drv.C19.handle
  , Comrak.Drv.Html.handle
  , Comrak.Drv.C14.handle
  ]

end Comrak.Drv
