/-
Registry of driver handlers. To add a property's driver commands: create
Comrak/Drv/<Name>.lean exposing `handle : Handler`, import it here and append it to `handlers`.
-/
import Comrak.Drv.Util
import Comrak.Drv.C19
import Comrak.Drv.Html
import Comrak.Drv.C14
import Comrak.Drv.Xml
import Comrak.Drv.Feed
import Comrak.Drv.C16
import Comrak.Drv.Sourcepos
import Comrak.Drv.C15
import Comrak.Drv.FrontMatter
import Comrak.Drv.C13
import Comrak.Drv.Canon
import Comrak.Drv.C01
import Comrak.Drv.C04
import Comrak.Drv.Cm
import Comrak.Drv.C06
import Comrak.Drv.Arena
namespace Comrak.Drv

def handlers : List Handler :=
  [ Comrak.Drv.C19.handle
  , Comrak.Drv.Html.handle
  , Comrak.Drv.C14.handle
  , Comrak.Drv.Xml.handle
  , Comrak.Drv.Feed.handle
  , Comrak.Drv.C16.handle
  , Comrak.Drv.Sourcepos.handle
  , Comrak.Drv.C15.handle
  , Comrak.Drv.FrontMatter.handle
  , Comrak.Drv.C13.handle
  , Comrak.Drv.Canon.handle
  , Comrak.Drv.C01.handle
  , Comrak.Drv.C04.handle
  , Comrak.Drv.Cm.handle
  , Comrak.Drv.C06.handle
  , Comrak.Drv.Arena.handle
  ]

end Comrak.Drv
