/-
Driver commands of C09:
  xml <opts (7 tokens)> <tree wire>      hex of `renderXml`
  xmlread <hex>                          `none` or the canonical rendering of `readXml`'s tree
  xmltree <opts (7 tokens)> <tree wire>  canonical rendering of `xmlTree`
  xmlshape <tree wire>                   `litLeafT` (the theorems' hypothesis) as 0/1
-/
import Comrak.Drv.Opts
import Comrak.XmlLang
namespace Comrak.Drv.Xml
open Comrak Bytes Comrak.Drv

def xmlOpts (o : AllOpts) : XmlOpts := { sourcepos := o.get "sourcepos" }

def handle : Handler := fun cmd args =>
  match cmd with
  | "xml" => some do
      let (o, r) ← parseOpts args
      let t ← parseTree r
      pure (outHex (renderXml (xmlOpts o) t))
  | "xmlread" => some do
      match args with
      | [h] =>
        let b ← hexArg h
        match readXml b with
        | some t => pure t.render
        | none => pure "none"
      | _ => throw "bad-args"
  | "xmltree" => some do
      let (o, r) ← parseOpts args
      let t ← parseTree r
      pure (xmlTree (xmlOpts o) t).render
  | "xmlshape" => some do
      let t ← parseTree args
      pure (outBool (litLeafT t))
  | _ => none

end Comrak.Drv.Xml
