import Comrak.Drv.Util
import Comrak.TagFilter
namespace Comrak.Drv.C14
open Comrak Bytes Comrak.Drv

/-- Number of positions of `out` holding a `<` that opens a disallowed tag. -/
def survivors : Bytes → Nat
  | [] => 0
  | b :: r => (if b = 0x3C ∧ disallowedAt (b :: r) = true then 1 else 0) + survivors r

def handle : Handler := fun cmd args =>
  match cmd, args with
  | "tagf", [h] => some do
      let b ← hexArg h
      pure (outBool (tagfilter b) ++ " " ++ outHex (tagfilterBlock b))
  | "tagspec", [h] => some do
      let b ← hexArg h
      pure (outBool (disallowedAt b) ++ " " ++ outHex (rewriteSpec b))
  | "survivors", [h] => some do
      let b ← hexArg h
      pure (toString (survivors b))
  | _, _ => none

end Comrak.Drv.C14
