import Comrak.Drv.Util
import Comrak.Shape
namespace Comrak.Drv.C04
open Comrak Bytes Comrak.Drv

def kindOfName (s : String) : Option Kind :=
  match s with
  | "document" => some .document | "frontmatter" => some .frontMatter | "block_quote" => some .blockQuote
  | "list" => some .list | "item" => some .item | "description_list" => some .descriptionList
  | "description_item" => some .descriptionItem | "description_term" => some .descriptionTerm
  | "description_details" => some .descriptionDetails | "code_block" => some .codeBlock
  | "html_block" => some .htmlBlock | "paragraph" => some .paragraph | "heading" => some .heading
  | "thematic_break" => some .thematicBreak | "footnote_definition" => some .footnoteDefinition
  | "table" => some .table | "table_row" => some .tableRow | "table_cell" => some .tableCell
  | "text" => some .text | "taskitem" => some .taskItem | "softbreak" => some .softBreak
  | "linebreak" => some .lineBreak | "code" => some .code | "html_inline" => some .htmlInline
  | "raw" => some .raw | "emph" => some .emph | "strong" => some .strong
  | "strikethrough" => some .strikethrough | "superscript" => some .superscript | "link" => some .link
  | "image" => some .image | "footnote_reference" => some .footnoteReference | "math" => some .math
  | "multiline_block_quote" => some .multilineBlockQuote | "escaped" => some .escaped
  | "wikilink" => some .wikiLink | "underline" => some .underline | "subscript" => some .subscript
  | "spoiler" => some .spoileredText | "escaped_tag" => some .escapedTag | "alert" => some .alert
  | _ => none

/-- First failing clause of `Shape`, for diagnostics: kind names of parent and child. -/
def handle : Handler := fun cmd args =>
  match cmd, args with
  | "cancontain", [p, c] => some do
      match kindOfName p, kindOfName c with
      | some p, some c => pure (outBool (canContain p c))
      | _, _ => throw "bad-kind"
  | _, _ => none

end Comrak.Drv.C04
