/-
Driver commands of C15:
  anchors A<n> t1 n1 .. <hex text>...      anchors one fresh Anchorizer issues for the texts, in order
                                           (the memoised model `anchorizeMemoAll` = the code as it is; equal to the
                                           set-based `anchorizeAll` by C15.anchorizeMemoAll_eq_spec)
  fnpass L<n> (label fold keep).. <tree> <tree>   does `processFootnotes` map the first tree to the second?
  fncheck L<n> (label fold keep).. <tree>  the tree-level oracles of Comrak/Footnotes.lean on a (real) final tree
  idgraph <hex html>                       lexHtml + the id/href skeleton of the output
-/
import Comrak.Drv.Opts
import Comrak.Anchor
import Comrak.Footnotes
import Comrak.HtmlLang
namespace Comrak.Drv.C15
open Comrak Bytes Comrak.Drv

def parseLabels : List String → Except String (LabelNorm × List String)
  | a :: rest =>
    if a.startsWith "L" then
      match (a.drop 1).toString.toNat? with
      | none => .error "bad-label-count"
      | some n =>
        let rec go : Nat → List String → List (Bytes × Bytes × Bytes) → Except String (List (Bytes × Bytes × Bytes) × List String)
          | 0, r, acc => .ok (acc.reverse, r)
          | k + 1, l :: f :: p :: r, acc => do
            let l ← hexArg l; let f ← hexArg f; let p ← hexArg p
            go k r ((l, f, p) :: acc)
          | _, _, _ => .error "short-labels"
        (go n rest []).map fun p => (tableNorm p.1, p.2)
    else .error "missing-labels"
  | [] => .error "missing-labels"

mutual
/-- Pre-order index and description of the first node where two trees differ. -/
def diffT : Tree → Tree → Nat → Except String Nat
  | .node v1 s1 c1, .node v2 s2 c2, i =>
    if v1 != v2 then .error s!"node {i}: model {reprStr v1} real {reprStr v2}"
    else if s1 != s2 then .error s!"node {i}: sourcepos differs"
    else diffF c1 c2 (i + 1)
def diffF : Forest → Forest → Nat → Except String Nat
  | .nil, .nil, i => .ok i
  | .cons t1 r1, .cons t2 r2, i =>
    match diffT t1 t2 i with
    | .ok j => diffF r1 r2 j
    | .error e => .error e
  | .nil, .cons t _, i => .error s!"node {i}: model has no node, real has {reprStr t.value}"
  | .cons t _, .nil, i => .error s!"node {i}: model has {reprStr t.value}, real has no node"
end

def attrOf (as : List (Bytes × Option Bytes)) (n : Bytes) : Option (Option Bytes) :=
  (as.find? fun a => a.1 == n).map (·.2)

def showAttr (as : List (Bytes × Option Bytes)) (n : Bytes) : String :=
  match attrOf as n with
  | some (some v) => outHex v
  | some none => "-"
  | none => "~"

def flags (as : List (Bytes × Option Bytes)) : String :=
  (if (attrOf as S.a_data_footnote_ref).isSome then "r" else "") ++
  (if (attrOf as S.a_data_footnote_backref).isSome then "b" else "") ++
  (if (attrOf as S.a_data_footnotes).isSome then "s" else "") ++
  (if attrOf as S.a_class == some (some S.v_anchor) then "a" else "") ++ "."

def skel : LTok → String
  | .op n as => s!"O|{strOf n}|{showAttr as S.a_id}|{showAttr as S.a_href}|{flags as}"
  | .vd n as => s!"V|{strOf n}|{showAttr as S.a_id}|{showAttr as S.a_href}|{flags as}"
  | .cl n => s!"C|{strOf n}"
  | .text v => s!"T|{outHex v}"
  | .cmt _ => "M"

def handle : Handler := fun cmd args =>
  match cmd with
  | "anchors" => some do
      let (nt, r) ← parseNorm args
      let hs ← r.mapM hexArg
      pure (String.intercalate " " ((anchorizeMemoAll nt hs).map outHex))
  | "fnpass" => some do
      let (N, r) ← parseLabels args
      match Wire.forest? (r.length + 1) r with
      | some (.cons pre (.cons post .nil), []) =>
        match diffT (processFootnotes N pre) post 0 with
        | .ok _ => pure "1"
        | .error e => pure ("0 " ++ e)
      | _ => throw "bad-trees"
  | "fncheck" => some do
      let (N, r) ← parseLabels args
      let t ← parseTree r
      pure (String.intercalate " " [outBool (refsPointOk N t), outBool (defsOnceOk t), outBool (refNumsOk t),
                                    outBool (unreferencedOmittedOk t), outBool (noStrayDefs t)])
  | "idgraph" => some do
      match args with
      | [h] =>
        let b ← hexArg h
        match lexHtml b with
        | none => pure "unlexable"
        | some ts => pure (String.intercalate " " (ts.map skel))
      | _ => throw "bad-args"
  | _ => none

end Comrak.Drv.C15
