import Comrak.Drv.Util
import Comrak.Feed
namespace Comrak.Drv.Feed
open Comrak Bytes Comrak.Drv Comrak.Feed

def joinComma : List String → String
  | [] => ""
  | [a] => a
  | a :: r => a ++ "," ++ joinComma r

def outLines (ls : List Bytes) : String :=
  toString ls.length ++ (if ls.isEmpty then "" else " " ++ joinComma (ls.map outHex))

def outPreludes (ps : List (Bytes × Nat × Nat)) : String :=
  toString ps.length ++
    (if ps.isEmpty then "" else " " ++ joinComma (ps.map fun p => outHex p.1 ++ ":" ++ toString p.2.1 ++ ":" ++ toString p.2.2))

def handle : Handler := fun cmd args =>
  match cmd, args with
  | "lines", [h] => some do
      let b ← hexArg h
      pure (outLines (parseLines b))
  | "speclines", [h] => some do
      let b ← hexArg h
      pure (outLines (splitLines [] false b))
  | "prel", [n, h] => some do
      let b ← hexArg h
      match n.toNat? with
      | some n0 => pure (outPreludes (preludes n0 (parseLines b)))
      | none => throw "bad-nat"
  | _, _ => none

end Comrak.Drv.Feed
