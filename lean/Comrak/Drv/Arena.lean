/-
Driver for the link-array model of arena_tree (Comrak/ArenaTree.lean).

  arena <n> <op> ...      ops:  a <p> <c>   p.append(c)          p <p> <c>   p.prepend(c)
                                ia <x> <c>  x.insert_after(c)    ib <x> <c>  x.insert_before(c)
                                d <x>       x.detach()
  -> one link dump per operation, separated by `;`.  A dump lists the nodes 0..n-1 separated by `/`,
     each as `parent,prev,next,first,last` with `-` for None.
The operations executed are the model definitions the theorems of Props/C04Arena.lean are about.
-/
import Comrak.Drv.Util
import Comrak.ArenaTree
namespace Comrak.Drv.Arena
open Comrak.Drv Comrak.ArenaTree

def optS : Option Nat → String
  | none => "-"
  | some n => toString n

def nodeS (l : NodeLinks) : String :=
  optS l.parent ++ "," ++ optS l.prev ++ "," ++ optS l.next ++ "," ++ optS l.first ++ "," ++ optS l.last

def dump (a : Arena) : String :=
  "/".intercalate ((List.range a.size).map fun i => nodeS (a.node i))

/-- Same arena, with the closure chain of functional updates replaced by one table lookup (speed only). -/
def tabulate (a : Arena) : Arena :=
  let arr : Array NodeLinks := Array.ofFn (n := a.size) fun i => a.node i.val
  { size := a.size, node := fun i => arr.getD i NodeLinks.empty }

def nat? (s : String) : Except String Nat :=
  match s.toNat? with
  | some n => .ok n
  | none => .error "bad-number"

partial def run (a : Arena) (acc : List String) : List String → Except String (List String)
  | [] => .ok acc.reverse
  | "d" :: x :: rest => do
      let x ← nat? x
      let a := tabulate (detach a x)
      run a (dump a :: acc) rest
  | op :: x :: y :: rest => do
      let x ← nat? x
      let y ← nat? y
      let a ← match op with
        | "a" => pure (append a x y)
        | "p" => pure (prepend a x y)
        | "ia" => pure (insertAfter a x y)
        | "ib" => pure (insertBefore a x y)
        | _ => throw "bad-op"
      let a := tabulate a
      run a (dump a :: acc) rest
  | _ => .error "bad-arity"

def handle : Handler := fun cmd args =>
  match cmd, args with
  | "arena", n :: ops => some do
      let n ← nat? n
      if n > 4096 then throw "too-many-nodes"
      let steps ← run (Arena.fresh n) [] ops
      pure (";".intercalate steps)
  | _, _ => none

end Comrak.Drv.Arena
