/-
Driver commands for C11 / C12 (Comrak/Sourcepos.lean):
  spcheck   <hex source> <tree wire>   all clauses, C11's first
  spcheck11 <hex source> <tree wire>   range / nesting / order clauses only
  spcheck12 <hex source> <tree wire>   slice clauses only
  -> `ok` or the first failing clause as `clause:kind:line:col-line:col`
  linetable <hex source>               -> `off+len+tlen,...` (`-` when there is no line)
  slice <hex source> sl sc el ec       -> `some <hex>` / `none`
  spx <rem> <sl:sc:el:ec:x,...>        -> Spx::consume model: `<col> <queue>` / `PANIC`
-/
import Comrak.Drv.Opts
import Comrak.Sourcepos
namespace Comrak.Drv.Sourcepos
open Comrak Bytes Comrak.Drv

def kindTag : Kind → String
  | .document => "document" | .frontMatter => "frontmatter" | .blockQuote => "block_quote"
  | .list => "list" | .item => "item" | .descriptionList => "description_list"
  | .descriptionItem => "description_item" | .descriptionTerm => "description_term"
  | .descriptionDetails => "description_details" | .codeBlock => "code_block"
  | .htmlBlock => "html_block" | .paragraph => "paragraph" | .heading => "heading"
  | .thematicBreak => "thematic_break" | .footnoteDefinition => "footnote_definition"
  | .table => "table" | .tableRow => "table_row" | .tableCell => "table_cell" | .text => "text"
  | .taskItem => "taskitem" | .softBreak => "softbreak" | .lineBreak => "linebreak"
  | .code => "code" | .htmlInline => "html_inline" | .raw => "raw" | .emph => "emph"
  | .strong => "strong" | .strikethrough => "strikethrough" | .superscript => "superscript"
  | .link => "link" | .image => "image" | .footnoteReference => "footnote_reference"
  | .math => "math" | .multilineBlockQuote => "multiline_block_quote" | .escaped => "escaped"
  | .wikiLink => "wikilink" | .underline => "underline" | .subscript => "subscript"
  | .spoileredText => "spoiler" | .escapedTag => "escaped_tag" | .alert => "alert"

def showFail (f : SpFail) : String :=
  s!"{f.clause}:{kindTag f.kind}:{f.sp.sl}:{f.sp.sc}-{f.sp.el}:{f.sp.ec}"

def run (c11 c12 : Bool) (args : List String) : Except String String :=
  match args with
  | h :: wire => do
    let src ← hexArg h
    let t ← parseTree wire
    let lt := lineEnts src
    let r1 := if c11 then rangeCheckT lt none t else none
    match r1 with
    | some f => pure (showFail f)
    | none =>
      match (if c12 then sliceCheckT lt src t else none) with
      | some f => pure (showFail f)
      | none => pure "ok"
  | _ => throw "bad-args"

def parseQ (s : String) : Option SpxQ :=
  if s == "-" then some [] else
  (s.splitOn ",").mapM fun e =>
    match (e.splitOn ":").map String.toNat? with
    | [some a, some b, some c, some d, some x] => some ({ sl := a, sc := b, el := c, ec := d }, x)
    | _ => none

def showQ (q : SpxQ) : String :=
  if q.isEmpty then "-" else
  String.intercalate "," (q.map fun e => s!"{e.1.sl}:{e.1.sc}:{e.1.el}:{e.1.ec}:{e.2}")

def handle : Handler := fun cmd args =>
  match cmd with
  | "spcheck" => some (run true true args)
  | "spcheck11" => some (run true false args)
  | "spcheck12" => some (run false true args)
  | "linetable" => some do
      match args with
      | [h] =>
        let src ← hexArg h
        let es := lineEnts src
        pure (if es.isEmpty then "-" else String.intercalate "," (es.map fun e => s!"{e.off}+{e.len}+{e.tlen}"))
      | _ => throw "bad-args"
  | "slice" => some do
      match args with
      | [h, a, b, c, d] =>
        let src ← hexArg h
        match a.toNat?, b.toNat?, c.toNat?, d.toNat? with
        | some a, some b, some c, some d => pure (outOptHex (slice src { sl := a, sc := b, el := c, ec := d }))
        | _, _, _, _ => throw "bad-args"
      | _ => throw "bad-args"
  | "spx" => some do
      match args with
      | [r, q] =>
        match r.toNat?, parseQ q with
        | some r, some q =>
          match spxConsume q r with
          | some (c, q') => pure (toString c ++ " " ++ showQ q')
          | none => pure "PANIC"
        | _, _ => throw "bad-args"
      | _ => throw "bad-args"
  | _ => none

end Comrak.Drv.Sourcepos
