/-
Driver commands for C16 (the model of the `comrak` binary).

  cliplan <default-config-path> <config-path> <absent|bad|words> <stdin> <k> (<path> <content|!>) x k
          <n> <argv tokens x n> <config words...>
      all tokens hex. The world: standard input, k files (`!` = cannot be opened; any other path cannot be
      opened either). `argv[0]` is the program name. The config file at <config-path> is unreadable
      (`absent`), has unbalanced quotes (`bad`) or splits into the given words.
      -> `unsupported` | `exit <code>` (2 usage, 4 in-place file count, 3 unreadable, 1 invalid UTF-8, 101 panic) |
         `run M <option vector> D <option vector> F <html|xml|commonmark> H <none|s<hex theme>>
              S <stdout|f<hex path>> X <hex of the buffer handed to the parser>`
      M = cliToOptions, D = documented, both in the wire format of harness/src/opts.rs `Opts::wire()`.
      The answer is `mainModel` run over the library stub (validUtf8 = real UTF-8 validity, render = identity).
  climerge <n> <argv tokens x n, `!` = not valid Unicode> <config words...>   -> the spliced argument list
-/
import Comrak.Drv.Util
import Comrak.Cli
namespace Comrak.Drv.C16
open Comrak Bytes Comrak.Drv Comrak.Cli

def optS : Option Bytes → String
  | none => "none"
  | some b => "s" ++ outHex b

def wire (o : Options) : String :=
  String.ofList (o.bits.map fun b => if b then '1' else '0') ++ " " ++ optS o.extension.headerIds ++ " " ++
    optS o.extension.frontMatterDelimiter ++ " " ++ optS o.parse.defaultInfoString ++ " " ++
    toString o.render.width ++ " " ++ toString o.render.olWidth ++ " " ++ toString o.render.listStyle.code

def fmtName : Cli.Format → String
  | .html => "html" | .xml => "xml" | .commonmark => "commonmark"

def hexList (l : List String) : Except String (List Bytes) := l.mapM hexArg

def stubLib : Lib :=
  { validUtf8 := fun b => ByteArray.validateUTF8 (ByteArray.mk b.toArray)
    render := fun _ _ _ s => s }

def describe (c : Cli) (r : Result) : String :=
  if r.exit != 0 then "exit " ++ toString r.exit
  else
    let (sink, buf) := match r.written with
      | some (p, out) => ("f" ++ outHex p, out)
      | none => ("stdout", r.stdout)
    "run M " ++ wire (cliToOptions c) ++ " D " ++ wire (documented c) ++ " F " ++ fmtName (chosenFormat c) ++
      " H " ++ optS (chosenHighlighter c) ++ " S " ++ sink ++ " X " ++ outHex buf

def parseFiles : Nat → List String → Except String (List (Bytes × Option Bytes) × List String)
  | 0, r => .ok ([], r)
  | k + 1, p :: c :: r => do
    let p ← hexArg p
    let c ← if c == "!" then pure none else (hexArg c).map some
    let (fs, r') ← parseFiles k r
    pure ((p, c) :: fs, r')
  | _, _ => .error "short-files"

def handle : Handler := fun cmd args =>
  match cmd, args with
  | "cliplan", dflt :: cpath :: state :: stdin :: k :: rest => some do
      let dflt ← hexArg dflt
      let cpath ← hexArg cpath
      let stdin ← hexArg stdin
      let some k := k.toNat? | throw "bad-file-count"
      let (files, rest) ← parseFiles k rest
      let n :: rest := rest | throw "missing-argc"
      let some n := n.toNat? | throw "bad-count"
      if rest.length < n then throw "short-argv"
      let argv ← hexList (rest.take n)
      let words ← hexList (rest.drop n)
      let content : Option (Option (List Bytes)) ←
        (match state with
         | "absent" => pure none
         | "bad" => pure (some none)
         | "words" => pure (some (some words))
         | _ => throw "bad-config-state")
      let cfgFs : ConfigFs := fun p => if p = cpath then content else none
      let w : World :=
        { stdin := stdin
          file := fun p => match files.find? (fun f => f.1 == p) with
            | some f => f.2
            | none => none }
      match cliWithConfig dflt cfgFs argv with
      | .error .unsupported => pure "unsupported"
      | .error .usage => pure "exit 2"
      | .error .panic => pure "exit 101"
      | .ok c => pure (describe c (execute stubLib w c))
  | "climerge", n :: rest => some do
      let some n := n.toNat? | throw "bad-count"
      if rest.length < n then throw "short-argv"
      let env ← (rest.take n).mapM fun t => if t == "!" then pure [] else hexArg t
      let words ← hexList (rest.drop n)
      pure (" ".intercalate ((mergeConfig env words).map outHex))
  | _, _ => none

end Comrak.Drv.C16
