import Comrak.Drv.Opts
import Comrak.HtmlLang
import Comrak.Shape
import Comrak.HtmlSafe
import Comrak.Lemmas.HtmlSafeTree
namespace Comrak.Drv.Html
open Comrak Bytes Comrak.Drv

def handle : Handler := fun cmd args =>
  match cmd with
  | "optnames" => some (.ok (String.intercalate "," optNames))
  | "html" => some do
      let (o, r) ← parseOpts args
      let (nt, r) ← parseNorm r
      let t ← parseTree r
      pure (outHex (renderHtml o.html nt t))
  | "balshape" => some do
      let t ← parseTree args
      pure (outBool (balShapeT none t))
  | "shape" => some do
      let t ← parseTree args
      pure (outBool (Shape t) ++ " " ++ outBool (validateT t))
  | "treesafe" => some do
      let t ← parseTree args
      pure (outBool (treeSafe t))
  | "htmlsafe" => some do
      match args with
      | [h] =>
        let b ← hexArg h
        match safeBytes b with
        | .ok () => pure "1"
        | .error e => pure e.code
      | _ => throw "bad-args"
  | "htmlbal" => some do
      match args with
      | [h] =>
        let b ← hexArg h
        match balancedBytes b with
        | .ok () => pure "1"
        | .error e => pure e.code
      | _ => throw "bad-args"
  | _ => none

end Comrak.Drv.Html
