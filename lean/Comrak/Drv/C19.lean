import Comrak.Drv.Util
import Comrak.Lemmas.Escape
namespace Comrak.Drv.C19
open Comrak Bytes Comrak.Drv

def pairs : List String → Except String (List (Bytes × Bytes))
  | [] => .ok []
  | [_] => .error "odd-attrs"
  | k :: v :: r => do
    let k ← hexArg k; let v ← hexArg v; let t ← pairs r
    pure ((k, v) :: t)

def handle : Handler := fun cmd args =>
  match cmd, args with
  | "esc", [h] => some do let b ← hexArg h; pure (outHex (escape b))
  | "escl", [h] => some do let b ← hexArg h; pure (outHex (escapeLoop [] b))
  | "href", [h] => some do let b ← hexArg h; pure (outHex (escapeHref b))
  | "hrefl", [h] => some do let b ← hexArg h; pure (outHex (escapeHrefLoop [] b))
  | "otag", t :: r => some do
      let t ← hexArg t; let a ← pairs r; pure (outHex (openTag t a))
  | "noact", [h] => some do let b ← hexArg h; pure (outBool (noActive b))
  | "unesc", [h] => some do let b ← hexArg h; pure (outOptHex (unescapeText b))
  | "hrefalpha", [h] => some do let b ← hexArg h; pure (outBool (hrefAlphabet b))
  | "hrefdec", [h] => some do let b ← hexArg h; pure (outHex (hrefDecode b))
  | "pstag", [h] => some do
      let b ← hexArg h
      match parseStartTag b with
      | none => pure "none"
      | some (n, attrs) =>
        pure ("some " ++ outHex n ++ String.join (attrs.map fun (k, v) => " " ++ outHex k ++ " " ++ outHex v))
  | _, _ => none

end Comrak.Drv.C19
