import Comrak.Drv.Util
import Comrak.Cost
namespace Comrak.Drv.C06
open Comrak Bytes Comrak.Drv Comrak.Cost

/-- Runs of backticks (byte 0x60) of an inline text: `(runs, tail)`. -/
def runsOf : Bytes → Nat → Nat → List Run → List Run × Nat
  | [], gap, cur, acc => if cur > 0 then ((⟨gap, cur⟩ :: acc).reverse, 0) else (acc.reverse, gap)
  | c :: r, gap, cur, acc =>
    if c = 0x60 then runsOf r gap (cur + 1) acc
    else if cur > 0 then runsOf r 1 0 (⟨gap, cur⟩ :: acc)
    else runsOf r (gap + 1) 0 acc

def handle : Handler := fun cmd args =>
  match cmd, args with
  | "c06bt", [h] => some do
      let b ← hexArg h
      let (rs, tail) := runsOf b 0 0 []
      pure s!"{btStepsPos rs tail} {btSteps rs tail} {totalLen rs + tail}"
  | "c06cd", [n, p] => some do
      match n.toNat?, p.toNat? with
      | some n, some p => pure (toString (cdSteps (List.replicate n p)))
      | _, _ => .error "bad-args"
  | _, _ => none

end Comrak.Drv.C06
