import Comrak.Drv.Util
import Comrak.Cost
namespace Comrak.Drv.C06
open Comrak Bytes Comrak.Drv Comrak.Cost

/-- Runs of backticks (byte 0x60) of an inline text: `(runs, tail)`. -/
def runsOf : Bytes → Nat → Nat → List Run → List Run × Nat
  | [], gap, cur, acc => if cur > 0 then ((⟨gap, cur⟩ :: acc).reverse, 0) else (acc.reverse, gap)
  | c :: r, gap, cur, acc =>
    if c = 0x60 then runsOf r gap (cur + 1) acc
    else if cur > 0 then runsOf r 1 0 (⟨gap, cur⟩ :: acc)
    else runsOf r (gap + 1) 0 acc

/-! ### Delimiter runs of a one-paragraph text over letters, spaces, `*`, `_` and (strikethrough on) `~` (glue for the K stage:
`scan_delims` + `push_delimiter` restricted to ASCII; not part of the proved model) -/

inductive CC | ws | punct | other
  deriving DecidableEq

def ccOf (b : UInt8) : CC :=
  if b = 0x20 ∨ (0x09 ≤ b ∧ b ≤ 0x0D) then .ws
  else if (0x21 ≤ b ∧ b ≤ 0x2F) ∨ (0x3A ≤ b ∧ b ≤ 0x40) ∨ (0x5B ≤ b ∧ b ≤ 0x60) ∨ (0x7B ≤ b ∧ b ≤ 0x7E) then .punct
  else .other

def flank (c : UInt8) (before after : CC) : Bool × Bool :=
  let lf := after != .ws && !(after == .punct && before != .ws && before != .punct)
  let rf := before != .ws && !(before == .punct && after != .ws && after != .punct)
  if c = 0x5F then (lf && (!rf || before == .punct), rf && (!lf || after == .punct)) else (lf, rf)

def spanRun (c : UInt8) : Bytes → Nat × Bytes
  | [] => (0, [])
  | b :: r => if b = c then let (n, r') := spanRun c r; (n + 1, r') else (0, b :: r)

/-- `after_char` of `scan_delims`: with strikethrough / subscript on, `~` is a skip character - the next byte
    that is not a `~`, white space if there is none. -/
def afterCC (tilde : Bool) : Bytes → CC
  | [] => .ws
  | a :: r => if tilde && a = 0x7E then afterCC tilde r else ccOf a

/-- `prev` = class of the nearest preceding byte that is not a skip character (`before_char`). -/
def emDelims (tilde : Bool) : Nat → CC → Nat → Bytes → List Delim
  | 0, _, _, _ => []
  | _, _, _, [] => []
  | fuel + 1, prev, pos, b :: r =>
    if b = 0x2A ∨ b = 0x5F ∨ (tilde = true ∧ b = 0x7E) then
      let (n, rest) := spanRun b r
      let len := n + 1
      let (co, cc) := flank b prev (afterCC tilde rest)
      (if co || cc then [(⟨b, len, len, co, cc, pos + len⟩ : Delim)] else []) ++
        emDelims tilde fuel (if b = 0x7E then prev else .punct) (pos + len) rest
    else emDelims tilde fuel (ccOf b) (pos + 1) r

/-- Decidable form of `C06.noOddMatch` (hypothesis of `emphasis_linear_old_noodd`). -/
def noOddB (ds : List Delim) : Bool :=
  ds.all fun o => ds.all fun c => !(o.canOpen && c.canClose && o.ch == c.ch) || !oddMatch o c

def optNat : Option Nat → String
  | some k => toString k
  | none => "none"

def handle : Handler := fun cmd args =>
  match cmd, args with
  | "c06bt", [h] => some do
      let b ← hexArg h
      let (rs, tail) := runsOf b 0 0 []
      pure s!"{btStepsPos rs tail} {btSteps rs tail} {totalLen rs + tail}"
  | "c06em", [tl, h] => some do
      let b ← hexArg h
      let ds := emDelims (tl == "1") b.length .ws 0 b
      -- <steps of the code as it is> <steps of the loop before /repo commit 9704a60> <delimiters>
      -- <delimiter characters> <no odd match: 1/0>
      pure s!"{optNat (emSteps true ds)} {optNat (emSteps false ds)} {ds.length} {sumCur ds} {if noOddB ds then 1 else 0}"
  | "c06dl", [mc, md, h] => some do
      let b0 ← hexArg h
      -- the paragraph content is right-trimmed before the inlines are parsed
      let b := (b0.reverse.dropWhile (· == 0x20)).reverse
      let mc := mc == "1"
      let md := md == "1"
      let ev := dlEvents mc md b
      let evOld := dlEventsOld mc md b
      let rej := dlCost (ev.filter (·.rejected))
      -- the memo-less abstraction against the memo-less byte-level model (code-dollar openers only, all ran out)
      let absOk := if !md && evOld.all (fun e => e.ranOut) then
          (if cdStepsOld (cdPieces b.length (evOld.map (·.dpos))) == dlCost evOld then 1 else 0) else 2
      -- <dollar-scan steps, code as it is> <before /repo 657287d> <executed scans> <steps of the rejected `$` scans>
      -- <text length> <cdStepsOld(pieces) == dlStepsOld: 1/0, 2 = not applicable>
      pure s!"{dlCost ev} {dlCost evOld} {ev.length} {rej} {b.length} {absOk}"
  | "c06cap", [c, ks] => some do
      -- <accepted body rows> <autocompleted cells> <cells in the source> for a table `c` columns wide and rows of the given widths
      match c.toNat?, (ks.splitOn ",").mapM (·.toNat?) with
      | some c, some ks => pure s!"{acceptedRows c 0 ks} {autocompleteRows c 0 ks} {presentCells c 0 ks}"
      | _, _ => .error "bad-args"
  | "c06cd", [n, p] => some do
      match n.toNat?, p.toNat? with
      | some n, some p => pure (toString (cdStepsOld (List.replicate n p)))
      | _, _ => .error "bad-args"
  | _, _ => none

end Comrak.Drv.C06
