/-
Driver side of the canonical-document checks (C03): `canon <seed> <size>` (first-stage class, also the
document source of C07/C17) and `canon2 <seed> <size>` (whole class: + tables, ...) generate a `Doc` from a
PRNG inside the driver, so that the `write`, `toTree` and `refHtml` executed are the proved
definitions, and answers `<ok> <hex write d> <hex refHtml d> <tree wire of toTree d>`.
`Wire.print` is the inverse of `Wire.tree?` (Comrak/Ast.lean).
`canoncm <seed> <size>` generates a document of the class of `C17.cm_fixed_point_canon_partial` (see below).
-/
import Comrak.Drv.Util
import Comrak.Canon.Ok
import Comrak.Canon.Ref
import Comrak.Canon.Pos
import Comrak.Lemmas.CmCanonC
namespace Comrak.Wire
open Comrak Bytes

def pHex (b : Bytes) : String := if b.isEmpty then "-" else toHex b
def pBool (b : Bool) : String := if b then "1" else "0"

def pNList (l : NList) : String :=
  s!"{if l.ty == .bullet then 0 else 1} {l.markerOffset} {l.padding} {l.start} {if l.delim == .period then 0 else 1} {l.bulletChar.toNat} {pBool l.tight} {pBool l.isTaskList}"

def pAligns (a : List Align) : String :=
  if a.isEmpty then "-" else
  String.ofList (a.map fun x => match x with | .none => 'n' | .left => 'l' | .center => 'c' | .right => 'r')

def pAlert : AlertType → String
  | .note => "0" | .tip => "1" | .important => "2" | .warning => "3" | .caution => "4"

/-- Kind name followed by the payload fields. -/
def pValue : NodeValue → String
  | .document => "document"
  | .frontMatter s => s!"frontmatter {pHex s}"
  | .blockQuote => "block_quote"
  | .list l => s!"list {pNList l}"
  | .item l => s!"item {pNList l}"
  | .descriptionList => "description_list"
  | .descriptionItem a b c => s!"description_item {a} {b} {pBool c}"
  | .descriptionTerm => "description_term"
  | .descriptionDetails => "description_details"
  | .codeBlock f c len off info lit => s!"code_block {pBool f} {c.toNat} {len} {off} {pHex info} {pHex lit}"
  | .htmlBlock t lit => s!"html_block {t} {pHex lit}"
  | .paragraph => "paragraph"
  | .heading l s => s!"heading {l} {pBool s}"
  | .thematicBreak => "thematic_break"
  | .footnoteDefinition n t => s!"footnote_definition {pHex n} {t}"
  | .table al nc nr ne => s!"table {nc} {nr} {ne} {pAligns al}"
  | .tableRow h => s!"table_row {pBool h}"
  | .tableCell => "table_cell"
  | .text s => s!"text {pHex s}"
  | .taskItem none => "taskitem 0 -"
  | .taskItem (some s) => s!"taskitem 1 {pHex s}"
  | .softBreak => "softbreak"
  | .lineBreak => "linebreak"
  | .code n s => s!"code {n} {pHex s}"
  | .htmlInline s => s!"html_inline {pHex s}"
  | .raw s => s!"raw {pHex s}"
  | .emph => "emph"
  | .strong => "strong"
  | .strikethrough => "strikethrough"
  | .superscript => "superscript"
  | .link u t => s!"link {pHex u} {pHex t}"
  | .image u t => s!"image {pHex u} {pHex t}"
  | .footnoteReference n r i => s!"footnote_reference {pHex n} {r} {i}"
  | .math d p l => s!"math {pBool d} {pBool p} {pHex l}"
  | .multilineBlockQuote a b => s!"multiline_block_quote {a} {b}"
  | .escaped => "escaped"
  | .wikiLink u => s!"wikilink {pHex u}"
  | .underline => "underline"
  | .subscript => "subscript"
  | .spoileredText => "spoiler"
  | .escapedTag s => s!"escaped_tag {pHex s}"
  | .alert ty none m fl fo => s!"alert {pAlert ty} 0 - {pBool m} {fl} {fo}"
  | .alert ty (some t) m fl fo => s!"alert {pAlert ty} 1 {pHex t} {pBool m} {fl} {fo}"

mutual
def printT : Tree → List String → List String
  | .node v sp cs, acc =>
    match (pValue v).splitOn " " with
    | [] => acc
    | kind :: fields =>
      ["N", kind, toString sp.sl, toString sp.sc, toString sp.el, toString sp.ec] ++ fields ++ printF cs ("E" :: acc)
def printF : Forest → List String → List String
  | .nil, acc => acc
  | .cons t ts, acc => printT t (printF ts acc)
end

/-- `N <kind> <sl> <sc> <el> <ec> <fields...> children... E`, tokens separated by one space. -/
def print (t : Tree) : String := " ".intercalate (printT t [])

end Comrak.Wire

namespace Comrak.Drv.Canon
open Comrak Bytes Comrak.Drv Comrak.Canon

/-! ## Generator: xorshift64* state threaded by hand -/

abbrev Gen := StateM UInt64

def nextU : Gen UInt64 := fun s =>
  let x := s ^^^ (s >>> 12)
  let x := x ^^^ (x <<< 25)
  let x := x ^^^ (x >>> 27)
  (x * 0x2545F4914F6CDD1D, x)

def below (n : Nat) : Gen Nat := do
  let x ← nextU
  pure (if n = 0 then 0 else (x >>> 11).toNat % n)

def chance (num den : Nat) : Gen Bool := do pure ((← below den) < num)

def pick [Inhabited α] (xs : List α) : Gen α := do pure (xs.getD (← below xs.length) default)

def seedOf (seed : Nat) : UInt64 :=
  let z : UInt64 := UInt64.ofNat seed + 0x9E3779B97F4A7C15
  let z := (z ^^^ (z >>> 30)) * 0xBF58476D1CE4E5B9
  let z := (z ^^^ (z >>> 27)) * 0x94D049BB133111EB
  let z := z ^^^ (z >>> 31)
  if z == 0 then 0x123456789ABCDEF1 else z

def alnums : Bytes := "abcdefghijklmnopqrstuvwxyzABCDEFGHIJKLMNOPQRSTUVWXYZ0123456789".toUTF8.toList
def puncts : Bytes := "!\"#$%&'()*+,-./:;<=>?@[\\]^_`{|}~".toUTF8.toList

def genAlnum : Gen Atom := do pure (.ch (← pick alnums))

def genAtom : Gen Atom := do
  let k ← below 100
  if k < 55 then genAlnum
  else if k < 68 then pure (.ch 0x20)
  else if k < 73 then pure (.ch (← pick plainPunct))
  else if k < 88 then pure (.esc (← pick puncts))
  else if k < 92 then pure (.ent (← below entTable.length))
  else if k < 96 then pure (.num (← pick (alnums ++ puncts)) (← chance 1 2))
  else pure (.uni (← below uniTable.length))

def genNonSpace : Gen Atom := do
  let a ← genAtom
  if a.isSpace then genAlnum else pure a

def genAtoms : Nat → Gen (List Atom)
  | 0 => pure []
  | n + 1 => do let a ← genAtom; let r ← genAtoms n; pure (a :: r)

/-- A text run; `lead`/`trail`: put a space at that end; `alnumFirst/Last`: force a letter or digit. -/
def genPlain : Gen Atom := do
  let k ← below 100
  if k < 70 then genAlnum
  else if k < 85 then pure (.ch 0x20)
  else if k < 93 then pure (.ch (← pick plainPunct))
  else pure (.uni (← below uniTable.length))

def genPlains : Nat → Gen (List Atom)
  | 0 => pure []
  | n + 1 => do let a ← genPlain; let r ← genPlains n; pure (a :: r)

/-- One escape or character reference (its own text node inside brackets). -/
def genSpecial : Gen Inl := do
  let k ← below 10
  if k < 6 then pure (.text [.esc (← pick puncts)])
  else if k < 8 then pure (.text [.ent (← below entTable.length)])
  else pure (.text [.num (← pick (alnums ++ puncts)) (← chance 1 2)])

def genText (plainOnly lead trail alnumFirst alnumLast : Bool) : Gen Inl := do
  let n ← below 6
  let nonSpace : Gen Atom := do
    let a ← if plainOnly then genPlain else genAtom
    if a.isSpace then genAlnum else pure a
  let first ← if alnumFirst then genAlnum else nonSpace
  let mid ← if plainOnly then genPlains n else genAtoms n
  let last ← if alnumLast then genAlnum else nonSpace
  let core := if n == 0 && (← chance 1 2) then [first] else [first] ++ mid ++ [last]
  pure (.text ((if lead then [.ch 0x20] else []) ++ core ++ (if trail then [.ch 0x20] else [])))

def genBytes (alpha : Bytes) : Nat → Gen Bytes
  | 0 => pure []
  | n + 1 => do let a ← pick alpha; let r ← genBytes alpha n; pure (a :: r)

def urlAlpha : Bytes := "abcdefghijklmnopqrstuvwxyzABCXYZ0123456789/:.-_~?=#%+&@,".toUTF8.toList
def titleAlpha : Bytes := "abcdefghijklmnopqrstuvwxyzABCXYZ0123456789   '(),.!?<>:;-".toUTF8.toList
def codeAlpha : Bytes := "abcdefghijklmnopqrstuvwxyzABC012   `*_[]()<>&\\\"'#-+.!|~$^{}=:;/".toUTF8.toList

def genUrl (angle : Bool) : Gen Bytes := do
  let n ← below 12
  let u ← genBytes urlAlpha (n + 1)
  if angle && (← chance 1 4) then pure (u ++ [0x20] ++ (← genBytes urlAlpha 2)) else pure u

def genTitle : Gen Bytes := do
  if ← chance 1 2 then pure [] else
  let n ← below 8
  let t ← genBytes titleAlpha n
  pure ([← pick alnums] ++ t ++ [← pick alnums])

def flipCase (c : UInt8) : UInt8 :=
  if 0x41 ≤ c && c ≤ 0x5A then c + 0x20 else if 0x61 ≤ c && c ≤ 0x7A then c - 0x20 else c

def genCaseVariant : Bytes → Gen Bytes
  | [] => pure []
  | c :: r => do
    let f ← chance 1 2
    let t ← genCaseVariant r
    pure ((if f then flipCase c else c) :: t)

/-- Spelling of a link: inline, or by reference with a fresh random label. -/
def genSpell : Gen Spell := do
  if ← chance 3 5 then pure .inline else
  let l ← genBytes alnums (3 + (← below 6))
  pure (.ref l (← genCaseVariant l) (← chance 1 2))

def genCode : Gen Inl := do
  let n ← below 8
  let s ← genBytes codeAlpha n
  let s := [← pick alnums] ++ s ++ [← pick alnums]
  let m := maxTicks 0 0 s
  pure (.code (m + 1 + (← below 2)) s)

inductive IKind | text | special | code | emph | strong | strike | link | image | autolink | hard | soft
  deriving DecidableEq, Inhabited

def genKind (inLink breaks : Bool) (leafOnly : Bool) : Gen IKind := do
  let k ← below 100
  if k < 12 then pure .code
  else if k < 30 then pure (if leafOnly then .code else .emph)
  else if k < 40 then pure (if leafOnly then .text else .strong)
  else if k < 45 then pure (if leafOnly then .text else .strike)
  else if k < 60 then pure (if inLink || leafOnly then .text else .link)
  else if k < 68 then pure (if leafOnly then .text else .image)
  else if k < 76 then pure (if inLink then .code else .autolink)
  else if k < 84 then pure (if breaks then .hard else .text)
  else if k < 94 then pure (if breaks then .soft else .text)
  else pure .text

/-- Kinds of a sequence of `n` inlines: never two texts in a row, breaks only between others. -/
def genKinds (inLink inBr breaks leafOnly : Bool) : Nat → Option IKind → Gen (List IKind)
  | 0, _ => pure []
  | n + 1, prev => do
    let k ← genKind inLink breaks leafOnly
    let isBrk := k == .hard || k == .soft
    let prevBrk := prev == some .hard || prev == some .soft
    let alt : IKind := if inBr then .special else .code
    let k := if isBrk && (prev.isNone || prevBrk || n == 0) then .text else k
    let k := if prev == some .text && k == .text then alt else k
    let k := if inBr && prev != some .text && k == .text && (← chance 1 4) then .special else k
    let r ← genKinds inLink inBr breaks leafOnly n (some k)
    pure (k :: r)

def isBrk (k : Option IKind) : Bool := k == some .hard || k == some .soft

mutual
/-- Inline content that satisfies `Inls.wf` in the given context (rejection sampling with a
    trivially valid fallback). `edges`: must start and end with a letter or digit of a text. -/
def genInls : Nat → Bool → Bool → Bool → UInt8 → UInt8 → Bool → Gen Inls
  | 0, _, _, _, _, _, _ => pure (.cons (.text [.ch 0x78]) .nil)
  | fuel + 1, inLink, inBr, breaks, prev, after, edges => do
    let fallback : Inls := .cons (.text [.ch 0x78]) .nil
    let attempt : Gen Inls := do
      let n ← below (if fuel == 0 then 2 else 5)
      let mids ← genKinds inLink inBr breaks (fuel == 0) (n + 1) (if edges then some .text else none)
      let kinds := if edges then [IKind.text] ++ (if n == 0 then [] else mids ++ [.text]) else mids
      let kinds := if edges && n != 0 && mids.getLast? == some .text then [IKind.text] ++ mids else kinds
      fillInls fuel inLink inBr breaks edges none kinds
    let tryN : Nat → Gen Inls := fun k => do
      let mut res := fallback
      let mut found := false
      for _ in [0:k] do
        if !found then
          let c ← attempt
          if c.wf inLink inBr breaks prev after true 0 && (!edges || (c.startsAlnum && c.endsAlnum)) then
            res := c
            found := true
      pure res
    tryN 6
def fillInls : Nat → Bool → Bool → Bool → Bool → Option IKind → List IKind → Gen Inls
  | _, _, _, _, _, _, [] => pure .nil
  | fuel, inLink, inBr, breaks, edges, prev, k :: rest => do
    let nxt := rest.head?
    let i ← match k with
      | .special => genSpecial
      | .text => genText inBr (prev.isSome && !isBrk prev && (← chance 4 5)) (nxt.isSome && !isBrk nxt && (← chance 4 5))
                   (edges && prev.isNone) (edges && nxt.isNone)
      | .code => genCode
      | .emph => do pure (.emph (← chance 1 3) (← genInls fuel inLink inBr breaks 0x2A 0x2A true))
      | .strong => do pure (.strong (← chance 1 3) (← genInls fuel inLink inBr breaks 0x2A 0x2A true))
      | .strike => do pure (.strike (← genInls fuel inLink inBr breaks 0x7E 0x7E true))
      | .link => do
        let a ← chance 1 3
        pure (.link (← genUrl a) (← genTitle) a (← genSpell) (← genInls fuel true true breaks 0x5B 0x5D false))
      | .image => do
        let a ← chance 1 3
        pure (.image (← genUrl a) (← genTitle) a (← genInls fuel inLink true breaks 0x5B 0x5D false))
      | .autolink => do pure (.autolink (← below schemeTable.length) (← genBytes urlAlpha (← below 10)))
      | .hard => do pure (.hard (← chance 1 2))
      | .soft => pure .soft
    let r ← fillInls fuel inLink inBr breaks edges (some k) rest
    pure (.cons i r)
end

def infoAlpha : Bytes := "abcdefghijklmnopqrstuvwxyzABC0123456789-+.#_".toUTF8.toList
def lineAlpha : Bytes := "abcdefghijklmnopqrstuvwxyz012    `~*_-+#>[]()<&\\\"'.!|=:;/1".toUTF8.toList

def genLines : Nat → Gen (List Bytes)
  | 0 => pure []
  | n + 1 => do
    let l ← if ← chance 1 6 then pure [] else genBytes lineAlpha (← below 14)
    let r ← genLines n
    pure (l :: r)

def genMarker : Gen Marker := do
  let ordered ← chance 2 5
  let start ← if ← chance 1 2 then pure 1 else
    pick [0, 2, 3, 7, 9, 10, 42, 99, 100, 999, 12345, 999999990, 123456789]
  pure { ordered := ordered, bullet := ← pick [0x2D, 0x2B, 0x2A], start := start, paren := ← chance 1 3, tight := ← chance 1 2 }

/-- One table cell: a line of inline content without breaks (sometimes empty). -/
def genCell (fuel : Nat) : Gen Inls := do
  if ← chance 1 8 then pure .nil else
  let c ← genInls (min fuel 2 + 1) false false false 0x20 0x20 false
  pure (if cellWf c then c else .cons (.text [.ch 0x63]) .nil)

def genCells (fuel : Nat) : Nat → Gen (List Inls)
  | 0 => pure []
  | n + 1 => do let c ← genCell fuel; let r ← genCells fuel n; pure (c :: r)

def genRows (fuel ncols : Nat) : Nat → Gen (List (List Inls))
  | 0 => pure []
  | n + 1 => do let c ← genCells fuel ncols; let r ← genRows fuel ncols n; pure (c :: r)

def genAligns : Nat → Gen (List Align)
  | 0 => pure []
  | n + 1 => do let a ← pick [Align.none, .left, .right, .center]; let r ← genAligns n; pure (a :: r)

def genTable (fuel : Nat) : Gen Blk := do
  let ncols := 1 + (← below 4)
  let nrows ← below 4
  pure (.table (← genAligns ncols) (← genCells fuel ncols) (← genRows fuel ncols nrows))

def htmlAlpha : Bytes := "abcdefghijklmnopqrstuvwxyz012    <>/=\"'*_`[]()&#-.!|:;".toUTF8.toList

def genHtmlLines : Nat → Gen (List Bytes)
  | 0 => pure []
  | n + 1 => do
    let l ← genBytes htmlAlpha (← below 12)
    let r ← genHtmlLines n
    pure (([← pick (alnums ++ "<&*_`[".toUTF8.toList)] ++ l) :: r)

/-- An HTML block of start condition 6: `<tag`, `</tag`, then `>`, ` attr>`, `/>`, or nothing. -/
def genHtmlb : Gen Blk := do
  let tag ← pick html6Tags
  let closing ← chance 1 4
  let tail ← pick ["".toUTF8.toList, ">".toUTF8.toList, ">".toUTF8.toList, " class=\"a b\">".toUTF8.toList, "/>".toUTF8.toList,
                   " id=x>".toUTF8.toList, ">*not emphasis*".toUTF8.toList, " ".toUTF8.toList]
  let more ← genHtmlLines (← below 3)
  pure (.htmlb (([0x3C] ++ (if closing then [0x2F] else []) ++ tag ++ tail) :: more))

mutual
/-- A block that satisfies `Blk.wf` in the given context (fallback: `___`, valid anywhere).
    `ext`: also the constructs of the GFM extensions (tables); with `ext = false` the random stream
    and the documents are those of the first-stage class (the `canon` command, used by C07/C17). -/
def genBlk : Bool → Nat → Bool → UInt8 → Nat → Prev → Gen Blk
  | _, 0, _, _, _, _ => pure (.hr 0x5F 3)
  | ext, fuel + 1, tight, bullet, idx, prevB => do
    let attempt : Gen Blk := do
      let x ← if ext then below 100 else pure 100
      if x < 14 then genTable fuel else
      if x < 21 then genHtmlb else
      let k ← below 100
      if k < 30 then pure (.para (← genInls (min fuel 3 + 1) false false true 0x0A 0x0A false))
      else if k < 40 then pure (.heading (1 + (← below 6)) (← genInls (min fuel 3 + 1) false false false 0x20 0x0A false))
      else if k < 44 then pure (.setext (1 + (← below 2)) (2 + (← below 5)) (← genInls (min fuel 3 + 1) false false true 0x0A 0x0A false))
      else if k < 49 then pure (.hr (← pick [0x2A, 0x2D, 0x5F]) (3 + (← below 4)))
      else if k < 54 then
        let n ← below 3
        let first ← genBytes lineAlpha (← below 10)
        let mid ← genLines n
        let last ← genBytes lineAlpha (← below 10)
        let a ← pick alnums
        let b ← pick alnums
        pure (.icode ([[a] ++ first] ++ (if n == 0 then [] else mid ++ [[b] ++ last])))
      else if k < 60 then
        let n ← below 5
        let il ← below 6
        let info0 ← genBytes infoAlpha (1 + il)
        let info := if ← chance 1 3 then [] else info0
        pure (.fence (← pick [0x60, 0x7E]) (3 + (← below 3)) info (← genLines n))
      else if fuel == 0 then pure (.para (← genInls 1 false false true 0x0A 0x0A false))
      else if k < 75 then pure (.quote (← genBlks ext fuel false 0 0 .none (1 + (← below 3))))
      else
        let m ← genMarker
        pure (.list m (← genItems ext fuel m (1 + (← below 3))))
    let mut res : Blk := .hr 0x5F 3
    let mut found := false
    for _ in [0:6] do
      if !found then
        let c ← attempt
        if c.wf tight bullet idx prevB then
          res := c
          found := true
    pure res
def genBlks : Bool → Nat → Bool → UInt8 → Nat → Prev → Nat → Gen Blks
  | _, 0, _, _, _, _, _ => pure .nil
  | _, _, _, _, _, _, 0 => pure .nil
  | ext, fuel + 1, tight, bullet, idx, prevB, n + 1 => do
    let b ← genBlk ext fuel tight bullet idx prevB
    -- in a tight item nothing can follow an HTML block (only a blank line ends it)
    let r ← if tight && b.isHtml then pure Blks.nil else genBlks ext fuel tight bullet (idx + 1) b.asPrev n
    pure (.cons b r)
def genItems : Bool → Nat → Marker → Nat → Gen Items
  | _, 0, _, _ => pure .nil
  | _, _, _, 0 => pure .nil
  | ext, fuel + 1, m, n + 1 => do
    let k ← below 3
    let bs ← genBlks ext fuel m.tight (if m.ordered then 0 else m.bullet) 0 .none (1 + (if fuel == 0 then 0 else k))
    let bs := if bs.isNil then Blks.cons (.hr 0x5F 3) .nil else bs
    let t : Task ← if ext && bs.startsPara then pick [Task.no, .no, .no, .unchecked, .checked 0x78, .checked 0x58] else pure Task.no
    let r ← genItems ext fuel m n
    pure (.cons t bs r)
end

/-! ### Footnotes: a second pass over the generated blocks puts references `[^name]` at random
places (outside link text and image descriptions) and numbers them the way comrak's footnote pass
does, in document order. -/

structure SpS where
  rng : UInt64
  /-- the notes referenced so far, with their reference counts, in the order of first reference -/
  seen : List (Bytes × Nat) := []
  /-- names to choose from -/
  pool : List Bytes := []

def SpS.coin (s : SpS) (num den : Nat) : Bool × SpS :=
  let (x, r) := nextU s.rng
  (decide ((x >>> 11).toNat % den < num), { s with rng := r })

/-- A reference to a name of the pool, numbered. -/
def SpS.ref (s : SpS) : Inl × SpS :=
  let (x, r) := nextU s.rng
  let name := s.pool.getD ((x >>> 11).toNat % s.pool.length) [0x31]
  match s.seen.findIdx? (fun p => p.1 == name) with
  | some i =>
    let c := (s.seen.getD i ([], 0)).2
    (.fnref name (c + 1) (i + 1), { s with rng := r, seen := s.seen.set i (name, c + 1) })
  | none => (.fnref name 1 (s.seen.length + 1), { s with rng := r, seen := s.seen ++ [(name, 1)] })

mutual
def _root_.Comrak.Canon.Inl.sprinkle (s : SpS) : Inl → Inl × SpS
  | .emph us cs => let (c, s) := cs.sprinkle s false; (.emph us c, s)
  | .strong us cs => let (c, s) := cs.sprinkle s false; (.strong us c, s)
  | .strike cs => let (c, s) := cs.sprinkle s false; (.strike c, s)
  | i => (i, s)
/-- `atEnd`: a reference may follow the last inline (not inside emphasis, whose content must end
    with a letter or digit). -/
def _root_.Comrak.Canon.Inls.sprinkle (s : SpS) (atEnd : Bool) : Inls → Inls × SpS
  | .nil => (.nil, s)
  | .cons i r =>
    let (i', s) := i.sprinkle s
    let (b, s) := s.coin 1 7
    let fits := (atEnd || !r.isNil) && i'.lastB != 0x21 && !(r.firstB 0x0A == 0x5B || r.firstB 0x0A == 0x28 || r.firstB 0x0A == 0x3A)
    if b && fits then
      let (f, s) := s.ref
      let (r', s) := r.sprinkle s atEnd
      (.cons i' (.cons f r'), s)
    else
      let (r', s) := r.sprinkle s atEnd
      (.cons i' r', s)
end

def sprinkleCells (s : SpS) : List Inls → List Inls × SpS
  | [] => ([], s)
  | c :: r => let (c', s) := c.sprinkle s true; let (r', s) := sprinkleCells s r; (c' :: r', s)

def sprinkleRows (s : SpS) : List (List Inls) → List (List Inls) × SpS
  | [] => ([], s)
  | c :: r => let (c', s) := sprinkleCells s c; let (r', s) := sprinkleRows s r; (c' :: r', s)

mutual
def _root_.Comrak.Canon.Blk.sprinkle (s : SpS) : Blk → Blk × SpS
  | .para is => let (c, s) := is.sprinkle s true; (.para c, s)
  | .heading l is => let (c, s) := is.sprinkle s true; (.heading l c, s)
  | .setext l n is => let (c, s) := is.sprinkle s true; (.setext l n c, s)
  | .quote bs => let (c, s) := bs.sprinkle s; (.quote c, s)
  | .list m items => let (c, s) := items.sprinkle s; (.list m c, s)
  | .table al h rows => let (h', s) := sprinkleCells s h; let (r', s) := sprinkleRows s rows; (.table al h' r', s)
  | b => (b, s)
def _root_.Comrak.Canon.Blks.sprinkle (s : SpS) : Blks → Blks × SpS
  | .nil => (.nil, s)
  | .cons b r => let (b', s) := b.sprinkle s; let (r', s) := r.sprinkle s; (.cons b' r', s)
def _root_.Comrak.Canon.Items.sprinkle (s : SpS) : Items → Items × SpS
  | .nil => (.nil, s)
  | .cons t bs r => let (b', s) := bs.sprinkle s; let (r', s) := r.sprinkle s; (.cons t b' r', s)
end

/-- 1..4 names, distinct up to letter case. -/
def genPool : Nat → Gen (List Bytes)
  | 0 => pure []
  | n + 1 => do
    let nm ← genBytes alnums (1 + (← below 4))
    let r ← genPool n
    pure (if (r.map lowerB).contains (lowerB nm) then r else nm :: r)

def genNoteBody : Gen Inls := do
  let c ← genInls 3 false false false 0x0A 0x0A false
  pure (if c.wf false false false 0x0A 0x0A true 0 && c.fnrefs.isEmpty then c else .cons (.text [.ch 0x6E]) .nil)

def genNotes : List (Bytes × Nat) → Gen (List Note)
  | [] => pure []
  | (nm, total) :: r => do
    let b ← genNoteBody
    let rest ← genNotes r
    pure ({ name := nm, total := total, body := b } :: rest)

/-- A permutation of `0..n-1`: identity, reversal or a rotation. -/
def genOrder (n : Nat) : Gen (List Nat) := do
  let k ← below 3
  let ids := List.range n
  if k == 0 then pure ids
  else if k == 1 then pure ids.reverse
  else let j ← below (n + 1); pure (ids.drop j ++ ids.take j)

/-- Shadowed definitions: for some used labels a later definition with another destination (it
    must lose), and some definitions nothing refers to. -/
def genShadow : List RefDef → Gen (List RefDef)
  | [] => do
    if ← chance 1 4 then
      pure [{ label := ← genBytes alnums 4, url := ← genUrl false, title := ← genTitle, angle := false, before := false }]
    else pure []
  | d :: r => do
    let rest ← genShadow r
    if ← chance 1 3 then
      let a ← chance 1 3
      pure ({ label := ← genCaseVariant d.label, url := ← genUrl a, title := ← genTitle, angle := a, before := false } :: rest)
    else pure rest

/-- References sprinkled over the blocks, then the definitions (for half of the documents). -/
def genFootnotes (bs : Blks) : Gen (Blks × List Note × List Nat × List Note) := do
  if ← chance 1 2 then pure (bs, [], [], []) else
  let pool ← genPool (1 + (← below 4))
  let r0 ← nextU
  let sp : Blks × SpS := if pool.isEmpty then (bs, { rng := 0 }) else bs.sprinkle { rng := r0, pool := pool }
  let notes ← genNotes sp.2.seen
  let order ← genOrder notes.length
  let u ← chance 1 4
  let nm ← genBytes alnums 6
  let ub ← genNoteBody
  let unused : List Note := if u then [{ name := [0x75] ++ nm, total := 0, body := ub }] else []
  pure (sp.1, notes, order, unused)

def genDocTry (ext : Bool) (seed size salt : Nat) : Doc :=
  let fuel := 2 + min 6 (size / 2)
  let n := 1 + size % 4 + size / 6
  let g : Gen Doc := do
    let bs ← genBlks ext fuel false 0 0 .none n
    -- footnotes (whole class only; no random draw otherwise, so that `canon` keeps its documents)
    let fx ← if ext then genFootnotes bs else pure (bs, [], [], [])
    let (bs2, notes, order, unused) := fx
    let sh ← genShadow (bs2.defs ++ notes.flatMap fun n => n.body.defs)
    let d : Doc := { blocks := bs2, shadow := sh, notes := notes, noteOrder := order, unused := unused }
    let d1 : Doc := { blocks := bs2, shadow := [], notes := notes, noteOrder := order, unused := unused }
    let d2 : Doc := { blocks := bs, shadow := [] }
    pure (if d.ok then d else if d1.ok then d1 else d2)
  g.run' (seedOf (seed * 64 + size + salt * 1000003)) |> Id.run

def genDoc (ext : Bool) (seed size : Nat) : Doc :=
  let rec go : Nat → Nat → Doc
    | 0, _ => { blocks := .nil }
    | k + 1, salt => let d := genDocTry ext seed size salt; if d.ok then d else go k (salt + 1)
  go 5 0

def answer (ext : Bool) (seed size : String) : Except String String := do
  let seed ← (seed.toNat?.map Except.ok).getD (.error "bad-seed")
  let size ← (size.toNat?.map Except.ok).getD (.error "bad-size")
  let d := genDoc ext seed size
  -- `canon2` appends the tree with the positions of `Doc.toTreeP` after a `|` token
  pure (outBool d.ok ++ " " ++ outHex d.write ++ " " ++ outHex d.refHtml ++ " " ++ Wire.print d.toTree ++
    (if ext then " | " ++ Wire.print d.toTreeP ++ " | " ++ outBool d.posOk else ""))

/-! ## `canoncm`: documents of the class of `C17.cm_fixed_point_canon_partial`

`canoncm <seed> <size>` answers `<hyp> <eq> <hex write d> <tree wire of toTree d>`: `hyp` = the
hypotheses of the theorem hold (`d.ok && d.cmOk`), `eq` = the evaluated
`renderCm {} d.toTree == d.write` (the theorem says `hyp` implies `eq`). -/

def genCmWord : Gen (List Atom) := do
  let n ← below 5
  let first ← genAlnum
  let rest ← genPlains n
  let last ← genAlnum
  -- sometimes one of the marks the writer escapes everywhere, written as a backslash escape
  let esc : List Atom ← if ← chance 1 4 then pure [Atom.esc (← pick [0x2A, 0x5F, 0x5B, 0x5D, 0x23, 0x3C, 0x3E, 0x5C, 0x60, 0x21])]
    else pure []
  pure (if n == 0 then [first] else [first] ++ rest.filter (fun a => !a.isSpace) ++ esc ++ [last])

/-- Words separated by single spaces. -/
def genCmText (lead trail : Bool) : Gen Inl := do
  let n ← below 3
  let w0 ← genCmWord
  let mut as := w0
  for _ in [0:n] do
    let w ← genCmWord
    as := as ++ [.ch 0x20] ++ w
  pure (.text ((if lead then [.ch 0x20] else []) ++ as ++ (if trail then [.ch 0x20] else [])))

def genCmSpan : Gen Inl := do
  let k ← below 8
  let t ← genCmText false false
  if k == 7 then
    if ← chance 1 2 then pure (.strike (Inls.ofList [t]))
    else pure (.autolink (← pick [0, 1, 2, 4]) (← genBytes alnums (1 + (← below 6))))   -- not `mailto:`
  else
  if k ≥ 5 then
    let url ← genUrl false
    let title ← genTitle
    let title := title.filter fun c => !(c == 0x3C || c == 0x3E)
    -- inside brackets `Doc.ok` wants escapes in text nodes of their own: keep the link text plain
    let t : Inl := match t with
      | .text as => .text (as.filter fun a => match a with | .esc _ => false | _ => true)
      | x => x
    if k == 5 then pure (.link url title false .inline (Inls.ofList [t]))
    else pure (.image url title false (Inls.ofList [t]))
  else
  if k == 0 then pure (.emph false (Inls.ofList [t]))
  else if k == 1 then pure (.strong false (Inls.ofList [t]))
  else if k == 2 then
    let w ← genBytes alnums (1 + (← below 6))
    pure (.code 1 w)
  else if k == 3 then
    let a ← genCmText false true
    let c ← genCmText true false
    pure (.strong false (Inls.ofList [a, .emph false (Inls.ofList [t]), c]))
  else
    let a ← genCmText false true
    let c ← genCmText true false
    pure (.emph false (Inls.ofList [a, .strong false (Inls.ofList [t]), c]))

/-- Text, spans between texts, sometimes a soft or hard break before a last text. -/
def genCmInls (breaks : Bool) : Gen Inls := do
  let n ← below 3
  let mut out : List Inl := []
  if n == 0 then
    out := [← genCmText false false]
  else
    out := [← genCmText false true]
    for i in [0:n] do
      let x ← genCmSpan
      let t ← genCmText true (i + 1 < n)
      out := out ++ [x, t]
  if breaks && (← chance 1 3) then
    let b : Inl := if ← chance 1 2 then .soft else .hard true
    out := out ++ [b, ← genCmText false false]
  pure (Inls.ofList out)

def genCmLeaf : Gen Blk := do
  if ← chance 1 4 then pure (.heading (1 + (← below 6)) (← genCmInls false))
  else pure (.para (← genCmInls true))

def genCmList : Nat → Bool → Gen Blk
  | 0, _ => genCmLeaf
  | fuel + 1, top => do
    let tight ← if top then chance 2 3 else pure true
    let n ← below 3
    let mut items : List (Task × Blks) := []
    for _ in [0:if tight then n + 1 else n + 2] do
      -- a task marker stands before a paragraph
      let task : Task ← if ← chance 1 4 then (do if ← chance 1 2 then pure Task.unchecked else pure (Task.checked (← pick [0x78, 0x58])))
        else pure Task.no
      let first ← if task.isTask then (do pure (Blk.para (← genCmInls true))) else genCmLeaf
      let nested ← if tight && (← chance 1 3) then pure [← genCmList fuel false] else pure []
      let more ← if tight && nested.isEmpty && (← chance 1 5) then
          pure [Blk.heading (1 + (← below 6)) (← genCmInls false)] else pure []
      items := items ++ [(task, Blks.ofList ([first] ++ more ++ nested))]
    let ordered ← chance 2 5
    let start ← if !top || (← chance 1 2) then pure 1 else pick [0, 2, 7, 9, 10, 42, 99, 100, 999, 999999990]
    pure (.list { ordered := ordered, start := start, paren := ← chance 1 3, tight := tight } (Items.ofListT items))

def genCmBlk (fuel : Nat) : Gen Blk := do
  let k ← below 10
  if k < 3 then genCmLeaf
  else if k < 4 then pure (.hr 0x2D 5)
  else if k < 6 then pure (.quote (Blks.ofList [← if ← chance 1 3 then genCmList fuel false else genCmLeaf]))
  else genCmList fuel true

def genCmDocTry (seed size salt : Nat) : Doc :=
  let g : Gen Doc := do
    let n := 1 + size % 4 + size / 6
    let mut bs : List Blk := []
    for _ in [0:n] do
      let b ← genCmBlk (1 + min 3 (size / 3))
      -- the writer separates two lists by a comment: keep them apart
      let sep : List Blk := match bs.getLast?, b with
        | some (.list ..), .list .. => [.hr 0x2D 5]
        | _, _ => []
      bs := bs ++ sep ++ [b]
    pure { blocks := Blks.ofList bs }
  g.run' (seedOf (seed * 64 + size + salt * 1000003 + 77)) |> Id.run

def genCmDoc (seed size : Nat) : Doc :=
  let rec go : Nat → Nat → Doc
    | 0, _ => { blocks := .nil }
    | k + 1, salt => let d := genCmDocTry seed size salt; if d.ok && d.cmOk then d else go k (salt + 1)
  go 5 0

def answerCm (seed size : String) : Except String String := do
  let seed ← (seed.toNat?.map Except.ok).getD (.error "bad-seed")
  let size ← (size.toNat?.map Except.ok).getD (.error "bad-size")
  let d := genCmDoc seed size
  pure (outBool (d.ok && d.cmOk) ++ " " ++ outBool (Cm.renderCm {} d.toTree == d.write) ++ " " ++ outHex d.write ++ " " ++
    Wire.print d.toTree)

def handle : Handler := fun cmd args =>
  match cmd, args with
  | "canon", [seed, size] => some (answer false seed size)
  | "canon2", [seed, size] => some (answer true seed size)
  | "canoncm", [seed, size] => some (answerCm seed size)
  | _, _ => none

end Comrak.Drv.Canon
