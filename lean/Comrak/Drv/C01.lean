import Comrak.Drv.Util
import Comrak.Total
namespace Comrak.Drv.C01
open Comrak Bytes Comrak.Drv Comrak.Tot

def natList? (s : String) : Option (List Nat) :=
  if s == "-" then some [] else (s.splitOn ",").mapM (·.toNat?)

def segs? (s : String) : Option (List Seg) :=
  if s == "-" then some [] else
  (s.splitOn ";").mapM fun t =>
    match natList? t with
    | some [a, b, c, d, x] => some ⟨a, b, c, d, x⟩
    | _ => none

def showNats (l : List Nat) : String := if l.isEmpty then "-" else ",".intercalate (l.map toString)
def showSegs (q : List Seg) : String :=
  if q.isEmpty then "-" else ";".intercalate (q.map fun s => showNats [s.sl, s.sc, s.el, s.ec, s.x])

def handle : Handler := fun cmd args =>
  match cmd, args with
  | "c01su", [h, f] => some do
      let b ← hexArg h
      let fb ← hexArg f
      pure (toString (shortestUnused b (fb.headD 0x60)))
  | "c01spx", [rems, segs] => some do
      match natList? rems, segs? segs with
      | some rs, some q =>
        match spxConsumeAll q rs with
        | none => pure "none"
        | some (es, q') => pure ("some " ++ showNats es ++ " " ++ showSegs q')
      | _, _ => .error "bad-args"
  | "c01ent", [h] => some do
      let b ← hexArg h
      match numericEntity b with
      | .overflow => pure "overflow"
      | .fallthrough => pure "fallthrough"
      | .hit cp n => pure s!"hit {cp} {n}"
  | "c01ncode", [h] => some do
      let b ← hexArg h
      pure (outHex (normalizeCode b))
  | "c01chop", [h] => some do
      let b ← hexArg h
      pure (outOptHex (chopHashtags b))
  | "c01rtbl", [h] => some do
      let b ← hexArg h
      pure (outOptHex (removeTrailingBlankLines b))
  | _, _ => none

end Comrak.Drv.C01
