/-
Option vector wire format (mirrors /verif/harness/src/opts.rs `BOOLS` order):
`<bits> <header_ids|none> <front_matter|none> <default_info|none> <width> <ol_width> <list_style>`.
-/
import Comrak.Drv.Util
import Comrak.Html
namespace Comrak.Drv
open Comrak Bytes

def optNames : List String :=
  ["strikethrough", "tagfilter", "table", "autolink", "tasklist", "superscript", "footnotes",
   "description_lists", "multiline_block_quotes", "alerts", "math_dollars", "math_code",
   "wikilinks_title_after_pipe", "wikilinks_title_before_pipe", "underline", "subscript", "spoiler",
   "greentext",
   "smart", "relaxed_tasklist_matching", "relaxed_autolinks",
   "hardbreaks", "github_pre_lang", "full_info_string", "unsafe_", "escape", "sourcepos",
   "escaped_char_spans", "ignore_setext", "ignore_empty_links", "gfm_quirks", "prefer_fenced",
   "figure_with_caption", "tasklist_classes", "experimental_minimize_commonmark"]

structure AllOpts where
  bits : List (String × Bool)
  headerIds : Option Bytes
  frontMatter : Option Bytes
  defaultInfo : Option Bytes
  width : Nat
  olWidth : Nat
  listStyle : Nat

def AllOpts.get (o : AllOpts) (n : String) : Bool :=
  match o.bits.find? fun p => p.1 == n with
  | some p => p.2
  | none => false

def optStr (s : String) : Except String (Option Bytes) :=
  if s == "none" then .ok none
  else if s.startsWith "s" then (hexArg (s.drop 1).toString).map some
  else .error "bad-opt-string"

/-- Parses the seven option tokens; returns the options and the remaining tokens. -/
def parseOpts : List String → Except String (AllOpts × List String)
  | bits :: h :: f :: d :: w :: ow :: ls :: rest => do
    let bs := bits.toList.map (· == '1')
    if bs.length != optNames.length then throw "bad-opt-bits"
    let some w := w.toNat? | throw "bad-width"
    let some ow := ow.toNat? | throw "bad-olwidth"
    let some ls := ls.toNat? | throw "bad-liststyle"
    pure ({ bits := optNames.zip bs, headerIds := ← optStr h, frontMatter := ← optStr f,
            defaultInfo := ← optStr d, width := w, olWidth := ow, listStyle := ls }, rest)
  | _ => .error "short-opts"

def AllOpts.html (o : AllOpts) : HtmlOpts :=
  { sourcepos := o.get "sourcepos", githubPreLang := o.get "github_pre_lang",
    fullInfoString := o.get "full_info_string", escape := o.get "escape", unsafe_ := o.get "unsafe_",
    hardbreaks := o.get "hardbreaks", tasklistClasses := o.get "tasklist_classes",
    figureWithCaption := o.get "figure_with_caption", gfmQuirks := o.get "gfm_quirks",
    escapedCharSpans := o.get "escaped_char_spans", relaxedAutolinks := o.get "relaxed_autolinks",
    tagfilter := o.get "tagfilter", headerIds := o.headerIds }

/-- `A<n> t1 n1 t2 n2 ...`: anchor normalisation pairs supplied by the harness. -/
def parseNorm : List String → Except String (NormTable × List String)
  | a :: rest =>
    if a.startsWith "A" then
      match (a.drop 1).toString.toNat? with
      | none => .error "bad-norm-count"
      | some n =>
        let rec go : Nat → List String → List (Bytes × Bytes) → Except String (List (Bytes × Bytes) × List String)
          | 0, r, acc => .ok (acc.reverse, r)
          | k + 1, t :: m :: r, acc => do
            let t ← hexArg t; let m ← hexArg m
            go k r ((t, m) :: acc)
          | _, _, _ => .error "short-norm"
        (go n rest []).map fun p => ({ pairs := p.1 }, p.2)
    else .error "missing-norm"
  | [] => .error "missing-norm"

def parseTree (toks : List String) : Except String Tree :=
  match Wire.tree? toks with
  | some (t, []) => .ok t
  | some (_, _) => .error "trailing-tokens-after-tree"
  | none => .error "bad-tree"

end Comrak.Drv
