import Comrak.Bytes
namespace Comrak.Drv
open Comrak Bytes

def hexArg (s : String) : Except String Bytes :=
  match ofHex? s with
  | some b => .ok b
  | none => .error s!"bad-hex"

def outHex (b : Bytes) : String := if b.isEmpty then "-" else toHex b
def outBool (b : Bool) : String := if b then "1" else "0"
def outOptHex : Option Bytes → String
  | some b => "some " ++ outHex b
  | none => "none"

/-- A handler answers one request line (already split on spaces) or declines. -/
abbrev Handler := String → List String → Option (Except String String)

end Comrak.Drv
