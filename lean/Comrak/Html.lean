/-
Token-level model of the HTML formatter (src/html.rs `format_document_with_formatter` +
`format_node_default`, src/html/context.rs).  Every render function returns the tokens it
writes and the new writer state; `spell` is the only place bytes are produced.
The recursive `renderT`/`renderF` stand for comrak's explicit work-stack traversal.
Plugins (syntax highlighter, heading adapter) and URL rewriters are outside the model
(the properties exclude them).
-/
import Comrak.Ast
import Comrak.Escape
import Comrak.Names
import Comrak.Url
import Comrak.TagFilter
namespace Comrak
open Bytes

/-! ## Options read by html.rs -/
structure HtmlOpts where
  sourcepos : Bool := false
  githubPreLang : Bool := false
  fullInfoString : Bool := false
  escape : Bool := false
  unsafe_ : Bool := false
  hardbreaks : Bool := false
  tasklistClasses : Bool := false
  figureWithCaption : Bool := false
  gfmQuirks : Bool := false
  escapedCharSpans : Bool := false
  relaxedAutolinks : Bool := false
  tagfilter : Bool := false
  headerIds : Option Bytes := none
  deriving Repr, DecidableEq, Inhabited

/-! ## Tokens -/

/-- One piece of an attribute value and how it is spelled. -/
inductive APart where
  | esc (v : Bytes)    -- through `escape`
  | href (v : Bytes)   -- through `escape_href`
  | lit (v : Bytes)    -- written as is (fixed literals, decimals, anchors)
  deriving Repr, DecidableEq, Inhabited

structure Attr where
  name : Bytes
  val : Option (List APart)      -- `none`: bare attribute such as `data-footnotes`
  deriving Repr, DecidableEq, Inhabited

inductive Tok where
  | op (name : Bytes) (attrs : List Attr)    -- `<name attrs>`
  | cl (name : Bytes)                        -- `</name>`
  | vd (name : Bytes) (attrs : List Attr)    -- `<name attrs />`
  | txt (v : Bytes)                          -- document text, spelled `escape v`
  | lit (v : Bytes)                          -- comrak's own literal bytes outside tags
  | raw (v : Bytes)                          -- bytes of the document passed through unescaped
  | cmt                                      -- `<!-- raw HTML omitted -->`
  deriving Repr, DecidableEq, Inhabited

def APart.spell : APart → Bytes
  | .esc v => escape v
  | .href v => escapeHref v
  | .lit v => v

def spellVal (ps : List APart) : Bytes := ps.flatMap APart.spell

def Attr.spell (a : Attr) : Bytes :=
  match a.val with
  | none => [0x20] ++ a.name
  | some ps => [0x20] ++ a.name ++ [0x3D, 0x22] ++ spellVal ps ++ [0x22]

def spellAttrs (as : List Attr) : Bytes := as.flatMap Attr.spell

def Tok.spell : Tok → Bytes
  | .op n as => [0x3C] ++ n ++ spellAttrs as ++ [0x3E]
  | .cl n => [0x3C, 0x2F] ++ n ++ [0x3E]
  | .vd n as => [0x3C] ++ n ++ spellAttrs as ++ S.v_voidend
  | .txt v => escape v
  | .lit v => v
  | .raw v => v
  | .cmt => S.v_omitted

def spell (ts : List Tok) : Bytes := ts.flatMap Tok.spell

/-! ## Writer state (`Context`) -/
structure St where
  lastLf : Bool := true
  fnIx : Nat := 0
  writtenFnIx : Nat := 0
  anchors : List Bytes := []
  deriving Repr, DecidableEq, Inhabited

/-- `Context::write`: a non-empty write sets `last_was_lf` from its last byte. -/
def lastLfAfter (cur : Bool) (bs : Bytes) : Bool :=
  match bs.getLast? with
  | none => cur
  | some b => b == 0x0A

abbrev W := St → List Tok × St

def W.emit (ts : List Tok) : W := fun st => (ts, { st with lastLf := lastLfAfter st.lastLf (spell ts) })
def W.nop : W := fun st => ([], st)
/-- `Context::cr`. -/
def W.cr : W := fun st => if st.lastLf then ([], st) else ([.lit [0x0A]], { st with lastLf := true })
def W.seq (a b : W) : W := fun st =>
  let r1 := a st
  let r2 := b r1.2
  (r1.1 ++ r2.1, r2.2)
infixl:60 " ⨟ " => W.seq

def nl : Tok := .lit [0x0A]

/-! ## Helpers -/

def spBytes (sp : Sp) : Bytes :=
  ofNatDec sp.sl ++ [0x3A] ++ ofNatDec sp.sc ++ [0x2D] ++ ofNatDec sp.el ++ [0x3A] ++ ofNatDec sp.ec

/-- `render_sourcepos`. -/
def spAttr (o : HtmlOpts) (sp : Sp) : List Attr :=
  if o.sourcepos && sp.sl > 0 then [⟨S.a_data_sourcepos, some [.lit (spBytes sp)]⟩] else []

def litAttr (n v : Bytes) : Attr := ⟨n, some [.lit v]⟩

mutual
/-- `collect_text`. -/
def collectTextT : Tree → Bytes
  | .node v _ cs =>
    match v with
    | .text s => s
    | .code _ s => s
    | .lineBreak => [0x20]
    | .softBreak => [0x20]
    | .math _ _ s => s
    | _ => collectTextF cs
def collectTextF : Forest → Bytes
  | .nil => []
  | .cons t ts => collectTextT t ++ collectTextF ts
end

mutual
/-- What the `ChildRendering::Plain` phase writes for a subtree (before escaping). -/
def plainT : Tree → Bytes
  | .node v _ cs =>
    (match v with
     | .text s => s
     | .code _ s => s
     | .htmlInline s => s
     | .lineBreak => [0x20]
     | .softBreak => [0x20]
     | .math _ _ s => s
     | _ => []) ++ plainF cs
def plainF : Forest → Bytes
  | .nil => []
  | .cons t ts => plainT t ++ plainF ts
end

/-! ### Unicode `str::trim` (White_Space) on UTF-8 bytes, used for the info string -/

/-- Length in bytes of a White_Space character at the head, or 0. -/
def wsPrefixLen : Bytes → Nat
  | 0x09 :: _ | 0x0A :: _ | 0x0B :: _ | 0x0C :: _ | 0x0D :: _ | 0x20 :: _ => 1
  | 0xC2 :: 0x85 :: _ | 0xC2 :: 0xA0 :: _ => 2
  | 0xE1 :: 0x9A :: 0x80 :: _ => 3
  | 0xE2 :: 0x80 :: c :: _ => if (0x80 ≤ c && c ≤ 0x8A) || c == 0xA8 || c == 0xA9 || c == 0xAF then 3 else 0
  | 0xE2 :: 0x81 :: 0x9F :: _ => 3
  | 0xE3 :: 0x80 :: 0x80 :: _ => 3
  | _ => 0

def trimStartAux : Nat → Bytes → Bytes
  | 0, s => s
  | fuel + 1, s => let n := wsPrefixLen s; if n = 0 then s else trimStartAux fuel (s.drop n)
def trimStart (s : Bytes) : Bytes := trimStartAux s.length s

/-- Length of a White_Space character at the head of the *reversed* string, or 0. -/
def wsSuffixLenRev : Bytes → Nat
  | 0x09 :: _ | 0x0A :: _ | 0x0B :: _ | 0x0C :: _ | 0x0D :: _ | 0x20 :: _ => 1
  | 0x85 :: 0xC2 :: _ | 0xA0 :: 0xC2 :: _ => 2
  | 0x80 :: 0x9A :: 0xE1 :: _ => 3
  | 0x9F :: 0x81 :: 0xE2 :: _ => 3
  | 0x80 :: 0x80 :: 0xE3 :: _ => 3
  | c :: 0x80 :: 0xE2 :: _ => if (0x80 ≤ c && c ≤ 0x8A) || c == 0xA8 || c == 0xA9 || c == 0xAF then 3 else 0
  | _ => 0

def trimEndRevAux : Nat → Bytes → Bytes
  | 0, s => s
  | fuel + 1, s => let n := wsSuffixLenRev s; if n = 0 then s else trimEndRevAux fuel (s.drop n)
def trimEnd (s : Bytes) : Bytes := (trimEndRevAux s.length s.reverse).reverse
def trimUnicode (s : Bytes) : Bytes := trimEnd (trimStart s)

/-- Split the info string at the first `isspace` byte: (lang, rest). -/
def splitInfo : Bytes → Bytes × Bytes
  | [] => ([], [])
  | c :: r => if isSpace c then ([], c :: r) else let p := splitInfo r; (c :: p.1, p.2)

/-! ### Anchorizer (src/html/anchorizer.rs) over an abstract normaliser -/

/-- ASCII part of the anchor normalisation: lower-case, keep space/`-`/letters/digits/`_`,
    space becomes `-`.  Non-ASCII text is normalised by Unicode tables outside the model:
    requests carry `(text, normalised)` pairs obtained from the real `Anchorizer`. -/
def normAscii (s : Bytes) : Bytes :=
  s.filterMap fun c =>
    let c := toLowerAscii c
    if c == 0x20 then some 0x2D
    else if c == 0x2D || c == 0x5F || isAsciiAlnum c || c ≥ 0x80 then some c else none

structure NormTable where
  pairs : List (Bytes × Bytes) := []

def NormTable.norm (t : NormTable) (s : Bytes) : Bytes :=
  match t.pairs.find? fun p => p.1 == s with
  | some p => p.2
  | none => normAscii s

/-- The `loop` of `anchorize`: first of `id, id-1, id-2, ...` not yet issued; `fuel` bounds the search
    (`issued.length + 1` candidates always suffice, see `Props/C15`). -/
def anchorLoop (issued : List Bytes) (id : Bytes) : Nat → Nat → Option Bytes
  | 0, _ => none
  | fuel + 1, uniq =>
    let cand := if uniq = 0 then id else id ++ [0x2D] ++ ofNatDec uniq
    if issued.contains cand then anchorLoop issued id fuel (uniq + 1) else some cand

def anchorize (nt : NormTable) (issued : List Bytes) (header : Bytes) : Bytes × List Bytes :=
  let id := nt.norm header
  match anchorLoop issued id (issued.length + 1) 0 with
  | some a => (a, a :: issued)
  | none => (id, issued)   -- unreachable (anchorLoop_some)

/-! ## Per-node rendering -/

/-- Where a node sits: the values of parent, grandparent and previous sibling, whether it is the
    last child, and its index among its siblings. -/
structure Ctx where
  parent : Option NodeValue := none
  grand : Option NodeValue := none
  prev : Option NodeValue := none
  isLast : Bool := true
  index : Nat := 0
  deriving Inhabited

/-- `put_footnote_backref`: tokens of the back-links for `total` references. -/
def backrefToks (name : Bytes) (fnIx : Nat) : Nat → Nat → List Tok
  | 0, _ => []
  | k + 1, refNum =>
    let suffix : Bytes := if refNum > 1 then [0x2D] ++ ofNatDec refNum else []
    (if refNum > 1 then [Tok.lit [0x20]] else []) ++
    [Tok.op S.t_a [⟨S.a_href, some [.lit S.v_hfnref, .href name, .lit suffix]⟩,
                   litAttr S.a_class S.v_footnote_backref,
                   ⟨S.a_data_footnote_backref, none⟩,
                   litAttr S.a_data_footnote_backref_idx (ofNatDec fnIx ++ suffix),
                   litAttr S.a_aria_label (S.v_back_to_reference ++ ofNatDec fnIx ++ suffix)],
     Tok.lit S.v_backarrow] ++
    (if refNum > 1 then [Tok.op S.t_sup [litAttr S.a_class S.v_footnote_ref], Tok.lit (ofNatDec refNum), Tok.cl S.t_sup] else []) ++
    [Tok.cl S.t_a] ++ backrefToks name fnIx k (refNum + 1)

/-- `put_footnote_backref` with its guard; the Boolean is its return value. -/
def putBackref (name : Bytes) (total : Nat) : St → (List Tok × St) × Bool := fun st =>
  if st.writtenFnIx ≥ st.fnIx then (([], st), false)
  else
    let st1 := { st with writtenFnIx := st.fnIx }
    (W.emit (backrefToks name st.fnIx total 1) st1, true)

def alertCss : AlertType → Bytes
  | .note => S.v_markdown_alert_note | .tip => S.v_markdown_alert_tip
  | .important => S.v_markdown_alert_important | .warning => S.v_markdown_alert_warning
  | .caution => S.v_markdown_alert_caution
def alertTitle : AlertType → Bytes
  | .note => S.v_Note | .tip => S.v_Tip | .important => S.v_Important
  | .warning => S.v_Warning | .caution => S.v_Caution

def alignAttr : Align → List Attr
  | .none => []
  | .left => [litAttr S.a_align S.v_left]
  | .right => [litAttr S.a_align S.v_right]
  | .center => [litAttr S.a_align S.v_center]

def headingName (level : Nat) : Bytes := S.t_h ++ ofNatDec level

/-- destination attribute value: empty when the URL is dangerous and `unsafe_` is off. -/
def urlVal (o : HtmlOpts) (url : Bytes) : List APart :=
  if o.unsafe_ || !dangerousUrl url then [.href url] else []

/-- `paragraph` tightness as computed in `render_paragraph`. -/
def paraTight (cx : Ctx) : Bool :=
  (match cx.grand with
   | some (.list l) => l.tight
   | some (.descriptionItem _ _ t) => t
   | _ => false) ||
  (match cx.parent with
   | some .descriptionTerm => true
   | _ => false)

def parentIsLink (cx : Ctx) : Bool := match cx.parent with | some (.link ..) => true | _ => false
def parentIsStrong (cx : Ctx) : Bool := match cx.parent with | some .strong => true | _ => false

/-- Attributes of `<pre>` / `<code>` for a (non-math) code block, in insertion order. -/
def codeBlockAttrs (o : HtmlOpts) (info : Bytes) (sp : Sp) : List Attr × List Attr :=
  let p := splitInfo info
  let lang := p.1
  let metaS := trimUnicode p.2
  let pre0 : List Attr :=
    if info.isEmpty then [] else
    if o.githubPreLang then
      [⟨S.a_lang, some [.esc lang]⟩] ++ (if o.fullInfoString && !metaS.isEmpty then [⟨S.a_data_meta, some [.esc metaS]⟩] else [])
    else []
  let code : List Attr :=
    if info.isEmpty then [] else
    if o.githubPreLang then [] else
      [⟨S.a_class, some [.esc (S.v_language ++ lang)]⟩] ++ (if o.fullInfoString && !metaS.isEmpty then [⟨S.a_data_meta, some [.esc metaS]⟩] else [])
  let pre := pre0 ++ (if o.sourcepos then [⟨S.a_data_sourcepos, some [.esc (spBytes sp)]⟩] else [])
  (pre, code)

def mathCodeBlockToks (o : HtmlOpts) (sp : Sp) (literal : Bytes) : List Tok :=
  let pre0 : List Attr := if o.githubPreLang then
      [⟨S.a_lang, some [.esc S.v_math]⟩, ⟨S.a_data_math_style, some [.esc S.v_display]⟩] else []
  let code : List Attr := if o.githubPreLang then [] else
      [⟨S.a_class, some [.esc (S.v_language ++ S.v_math)]⟩, ⟨S.a_data_math_style, some [.esc S.v_display]⟩]
  let pre := pre0 ++ (if o.sourcepos then [⟨S.a_data_sourcepos, some [.esc (spBytes sp)]⟩] else [])
  [.op S.t_pre pre, .op S.t_code code, .txt literal, .cl S.t_code, .cl S.t_pre, nl]

/-- Raw HTML cascade shared by blocks and inlines: escape > safe placeholder > tagfilter > raw. -/
def htmlBlockToks (o : HtmlOpts) (literal : Bytes) : List Tok :=
  if o.escape then [.txt literal]
  else if !o.unsafe_ then [.cmt]
  else if o.tagfilter then [.raw (tagfilterBlock literal)]
  else [.raw literal]

def htmlInlineToks (o : HtmlOpts) (literal : Bytes) : List Tok :=
  if o.escape then [.txt literal]
  else if !o.unsafe_ then [.cmt]
  else if o.tagfilter && tagfilter literal then [.lit S.v_lt, .raw (literal.drop 1)]
  else [.raw literal]

/-- `<thead>` for the header row, `<tbody>` for the first row after a header row. -/
def rowSectionToks (header : Bool) (prev : Option NodeValue) : List Tok :=
  if header then [.op S.t_thead [], nl]
  else match prev with
    | some (.tableRow true) => [.op S.t_tbody [], nl]
    | _ => []

/-- Does the formatter descend into the children in HTML mode (`true`) or in Plain mode (`false`)? -/
def htmlChildren : NodeValue → Bool
  | .image .. => false
  | _ => true

/-- The `entering = true` call of `format_node_default`. -/
def enter (o : HtmlOpts) (nt : NormTable) (cx : Ctx) (v : NodeValue) (sp : Sp) (cs : Forest) : W :=
  match v with
  | .document => W.nop
  | .frontMatter _ => W.nop
  | .blockQuote => W.cr ⨟ W.emit [.op S.t_blockquote (spAttr o sp), nl]
  | .multilineBlockQuote .. => W.cr ⨟ W.emit [.op S.t_blockquote (spAttr o sp), nl]
  | .list l =>
    let cls : List Attr := if l.isTaskList && o.tasklistClasses then [litAttr S.a_class S.v_contains_task_list] else []
    match l.ty with
    | .bullet => W.cr ⨟ W.emit [.op S.t_ul (cls ++ spAttr o sp), nl]
    | .ordered =>
      let st : List Attr := if l.start = 1 then [] else [litAttr S.a_start (ofNatDec l.start)]
      W.cr ⨟ W.emit [.op S.t_ol (cls ++ spAttr o sp ++ st), nl]
  | .item _ => W.cr ⨟ W.emit [.op S.t_li (spAttr o sp)]
  | .descriptionList => W.cr ⨟ W.emit [.op S.t_dl (spAttr o sp), nl]
  | .descriptionItem .. => W.nop
  | .descriptionTerm => W.emit [.op S.t_dt (spAttr o sp)]
  | .descriptionDetails => W.emit [.op S.t_dd (spAttr o sp)]
  | .codeBlock _ _ _ _ info literal =>
    if info == S.v_math then W.cr ⨟ W.emit (mathCodeBlockToks o sp literal)
    else
      let a := codeBlockAttrs o info sp
      W.cr ⨟ W.emit [.op S.t_pre a.1, .op S.t_code a.2, .txt literal, .cl S.t_code, .cl S.t_pre, nl]
  | .htmlBlock _ literal => W.cr ⨟ W.emit (htmlBlockToks o literal) ⨟ W.cr
  | .paragraph =>
    if paraTight cx then W.nop else W.cr ⨟ W.emit [.op S.t_p (spAttr o sp)]
  | .heading level _ =>
    W.cr ⨟ W.emit [.op (headingName level) (spAttr o sp)] ⨟
    (match o.headerIds with
     | none => W.nop
     | some pfx => fun (st : St) =>
       let r := anchorize nt st.anchors (collectTextF cs)
       W.emit [.op S.t_a [litAttr S.a_href (S.v_hash ++ r.1), litAttr S.a_aria_hidden S.v_true,
                          litAttr S.a_class S.v_anchor, litAttr S.a_id (pfx ++ r.1)], .cl S.t_a]
         { st with anchors := r.2 })
  | .thematicBreak => W.cr ⨟ W.emit [.vd S.t_hr (spAttr o sp), nl]
  | .footnoteDefinition name _ => fun (st : St) =>
    let open_ : W := if st.fnIx = 0 then
        W.emit [.op S.t_section (spAttr o sp ++ [litAttr S.a_class S.v_footnotes, ⟨S.a_data_footnotes, none⟩]), nl,
                .op S.t_ol [], nl]
      else W.nop
    (open_ ⨟ (fun (s : St) => (([] : List Tok), { s with fnIx := s.fnIx + 1 })) ⨟
      W.emit [.op S.t_li (spAttr o sp ++ [⟨S.a_id, some [.lit S.v_fn, .href name]⟩])]) st
  | .table .. => W.cr ⨟ W.emit [.op S.t_table (spAttr o sp), nl]
  | .tableRow header => W.cr ⨟ W.emit (rowSectionToks header cx.prev) ⨟ W.emit [.op S.t_tr (spAttr o sp)]
  | .tableCell =>
    let inHeader := match cx.parent with | some (.tableRow h) => h | _ => false
    let aligns := match cx.grand with | some (.table a ..) => a | _ => []
    W.cr ⨟ W.emit [.op (if inHeader then S.t_th else S.t_td) (spAttr o sp ++ alignAttr (aligns.getD cx.index .none))]
  | .text s => W.emit [.txt s]
  | .taskItem sym =>
    W.cr ⨟
    W.emit [.op S.t_li ((if o.tasklistClasses then [litAttr S.a_class S.v_task_list_item] else []) ++ spAttr o sp),
            .vd S.t_input ([litAttr S.a_type S.v_checkbox] ++
                           (if o.tasklistClasses then [litAttr S.a_class S.v_task_list_item_checkbox] else []) ++
                           (if sym.isSome then [litAttr S.a_checked []] else []) ++
                           [litAttr S.a_disabled []]),
            .lit [0x20]]
  | .softBreak => if o.hardbreaks then W.emit [.vd S.t_br (spAttr o sp), nl] else W.emit [nl]
  | .lineBreak => W.emit [.vd S.t_br (spAttr o sp), nl]
  | .code _ literal => W.emit [.op S.t_code (spAttr o sp), .txt literal, .cl S.t_code]
  | .htmlInline s => W.emit (htmlInlineToks o s)
  | .raw s => W.emit [.raw s]
  | .emph => W.emit [.op S.t_em (spAttr o sp)]
  | .strong => if !o.gfmQuirks || !parentIsStrong cx then W.emit [.op S.t_strong (spAttr o sp)] else W.nop
  | .strikethrough => W.emit [.op S.t_del (spAttr o sp)]
  | .superscript => W.emit [.op S.t_sup (spAttr o sp)]
  | .subscript => W.emit [.op S.t_sub (spAttr o sp)]
  | .underline => W.emit [.op S.t_u (spAttr o sp)]
  | .spoileredText => W.emit [.op S.t_span (spAttr o sp ++ [litAttr S.a_class S.v_spoiler])]
  | .link url title =>
    if !o.relaxedAutolinks || !parentIsLink cx then
      W.emit [.op S.t_a (spAttr o sp ++ [⟨S.a_href, some (urlVal o url)⟩] ++
                         (if title.isEmpty then [] else [⟨S.a_title, some [.esc title]⟩]))]
    else W.nop
  | .image url title =>
    W.emit ((if o.figureWithCaption then [Tok.op S.t_figure []] else []) ++
            [.vd S.t_img (spAttr o sp ++ [⟨S.a_src, some (urlVal o url)⟩, ⟨S.a_alt, some [.esc (plainF cs)]⟩] ++
                          (if title.isEmpty then [] else [⟨S.a_title, some [.esc title]⟩]))])
  | .footnoteReference name refNum ix =>
    let refId : Bytes := S.v_fnref ++ name ++ (if refNum > 1 then [0x2D] ++ ofNatDec refNum else [])
    W.emit [.op S.t_sup (spAttr o sp ++ [litAttr S.a_class S.v_footnote_ref]),
            .op S.t_a [⟨S.a_href, some [.lit S.v_hfn, .href name]⟩, ⟨S.a_id, some [.href refId]⟩, ⟨S.a_data_footnote_ref, none⟩],
            .lit (ofNatDec ix), .cl S.t_a, .cl S.t_sup]
  | .math dollar display literal =>
    let tag := if dollar then S.t_span else S.t_code
    W.emit [.op tag ([⟨S.a_data_math_style, some [.esc (if display then S.v_display else S.v_inline)]⟩] ++
                     (if o.sourcepos then [⟨S.a_data_sourcepos, some [.esc (spBytes sp)]⟩] else [])),
            .txt literal, .cl tag]
  | .escaped => if o.escapedCharSpans then W.emit [.op S.t_span ([⟨S.a_data_escaped_char, none⟩] ++ spAttr o sp)] else W.nop
  | .wikiLink url =>
    W.emit [.op S.t_a (spAttr o sp ++ [⟨S.a_href, some (urlVal o url)⟩, litAttr S.a_data_wikilink S.v_true])]
  | .escapedTag s => W.emit [.raw s]
  | .alert ty title _ _ _ =>
    W.cr ⨟
    W.emit [.op S.t_div ([⟨S.a_class, some [.lit S.v_markdown_alert_sp, .lit (alertCss ty)]⟩] ++ spAttr o sp), nl,
            .op S.t_p [litAttr S.a_class S.v_markdown_alert_title],
            (match title with | some t => .txt t | none => .lit (alertTitle ty)),
            .cl S.t_p, nl]

/-- The `entering = false` call of `format_node_default`. -/
def exit (o : HtmlOpts) (cx : Ctx) (v : NodeValue) (cs : Forest) : W :=
  match v with
  | .blockQuote => W.cr ⨟ W.emit [.cl S.t_blockquote, nl]
  | .multilineBlockQuote .. => W.cr ⨟ W.emit [.cl S.t_blockquote, nl]
  | .list l => match l.ty with
    | .bullet => W.emit [.cl S.t_ul, nl]
    | .ordered => W.emit [.cl S.t_ol, nl]
  | .item _ => W.emit [.cl S.t_li, nl]
  | .descriptionList => W.emit [.cl S.t_dl, nl]
  | .descriptionTerm => W.emit [.cl S.t_dt, nl]
  | .descriptionDetails => W.emit [.cl S.t_dd, nl]
  | .paragraph =>
    if paraTight cx then W.nop else
    (match cx.parent with
     | some (.footnoteDefinition name total) =>
       if cx.isLast then W.emit [.lit [0x20]] ⨟ (fun (st : St) => (putBackref name total st).1) else W.nop
     | _ => W.nop) ⨟ W.emit [.cl S.t_p, nl]
  | .heading level _ => W.emit [.cl (headingName level), nl]
  | .footnoteDefinition name total => fun (st : St) =>
    let r := putBackref name total st
    ((fun (_ : St) => r.1) ⨟ (if r.2 then W.emit [nl] else W.nop) ⨟ W.emit [.cl S.t_li, nl]) st
  | .table .. =>
    (if cs.length ≠ 1 then W.cr ⨟ W.emit [.cl S.t_tbody, nl] else W.nop) ⨟ W.cr ⨟ W.emit [.cl S.t_table, nl]
  | .tableRow header =>
    W.cr ⨟ W.emit [.cl S.t_tr] ⨟ (if header then W.cr ⨟ W.emit [.cl S.t_thead] else W.nop)
  | .tableCell =>
    let inHeader := match cx.parent with | some (.tableRow h) => h | _ => false
    W.emit [.cl (if inHeader then S.t_th else S.t_td)]
  | .taskItem _ => W.emit [.cl S.t_li, nl]
  | .emph => W.emit [.cl S.t_em]
  | .strong => if !o.gfmQuirks || !parentIsStrong cx then W.emit [.cl S.t_strong] else W.nop
  | .strikethrough => W.emit [.cl S.t_del]
  | .superscript => W.emit [.cl S.t_sup]
  | .subscript => W.emit [.cl S.t_sub]
  | .underline => W.emit [.cl S.t_u]
  | .spoileredText => W.emit [.cl S.t_span]
  | .link .. => if !o.relaxedAutolinks || !parentIsLink cx then W.emit [.cl S.t_a] else W.nop
  | .image _ title =>
    if o.figureWithCaption then
      W.emit ((if title.isEmpty then [] else [Tok.op S.t_figcaption [], .txt title, .cl S.t_figcaption]) ++ [.cl S.t_figure])
    else W.nop
  | .escaped => if o.escapedCharSpans then W.emit [.cl S.t_span] else W.nop
  | .wikiLink _ => W.emit [.cl S.t_a]
  | .escapedTag s => W.emit [.raw s]
  | .alert .. => W.cr ⨟ W.emit [.cl S.t_div, nl]
  | _ => W.nop

mutual
def renderT (o : HtmlOpts) (nt : NormTable) (cx : Ctx) : Tree → W
  | .node v sp cs => fun st =>
    let r1 := enter o nt cx v sp cs st
    let r2 := if htmlChildren v then renderF o nt (some v) cx.parent none 0 cs r1.2 else ([], r1.2)
    let r3 := exit o cx v cs r2.2
    (r1.1 ++ r2.1 ++ r3.1, r3.2)
def renderF (o : HtmlOpts) (nt : NormTable) (parent grand prev : Option NodeValue) (idx : Nat) : Forest → W
  | .nil => fun st => ([], st)
  | .cons t ts => fun st =>
    let cx : Ctx := { parent := parent, grand := grand, prev := prev, isLast := ts.isNil, index := idx }
    let r1 := renderT o nt cx t st
    let r2 := renderF o nt parent grand (some t.value) (idx + 1) ts r1.2
    (r1.1 ++ r2.1, r2.2)
end

/-- `Context::finish`. -/
def finish : W := fun st =>
  if st.fnIx > 0 then W.emit [.cl S.t_ol, nl, .cl S.t_section, nl] st else ([], st)

/-- `format_document`: tokens for a whole tree. -/
def renderToks (o : HtmlOpts) (nt : NormTable) (t : Tree) : List Tok :=
  ((renderT o nt {} t) ⨟ finish) {} |>.1

def renderHtml (o : HtmlOpts) (nt : NormTable) (t : Tree) : Bytes := spell (renderToks o nt t)

end Comrak
