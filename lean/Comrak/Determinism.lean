/-
C05: the two places where comrak's output is computed from a hash map's *iteration order*,
modelled with the iteration order as an arbitrary permutation:
  * `process_footnotes`: `map.into_values()` -> `sort_unstable_by(ix)` -> keep those with an index;
  * the syntect adapter: attributes collected in a map, written in key order (after the fix:
    `BTreeMap` = sorted by key).
Everything else in the renderers is a function of (options, tree): the Lean models take no
other argument.
-/
import Comrak.Bytes
namespace Comrak
open Bytes

/-- What `process_footnotes` keeps per definition. -/
structure FnEntry where
  ix : Option Nat
  name : Bytes
  total : Nat
  node : Nat          -- identity of the definition node
  deriving DecidableEq, Repr

/-- `Option<u32>` ordering used by `a.ix.cmp(&b.ix)`: `None < Some _`. -/
def ixLe (a b : FnEntry) : Bool :=
  match a.ix, b.ix with
  | none, _ => true
  | some _, none => false
  | some x, some y => decide (x ≤ y)

/-- The definitions appended to the document, in order: sort by index, keep the referenced ones.
    `vs` is the hash map's values in iteration order. -/
def appended (vs : List FnEntry) : List FnEntry := (vs.mergeSort ixLe).filter fun e => e.ix.isSome

/-- Byte-lexicographic order on attribute names (`BTreeMap<String, _>` iteration order). -/
def bytesLe : Bytes → Bytes → Bool
  | [], _ => true
  | _ :: _, [] => false
  | a :: x, b :: y => if a < b then true else if b < a then false else bytesLe x y

def keyLe (a b : Bytes × Bytes) : Bool := bytesLe a.1 b.1

/-- Attributes as written by the repaired syntect adapter: in key order. -/
def writtenAttrs (entries : List (Bytes × Bytes)) : List (Bytes × Bytes) := entries.mergeSort keyLe

end Comrak
