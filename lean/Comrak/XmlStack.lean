/-
The traversal of `XmlFormatter::format` (src/xml.rs) as the explicit work-stack machine it is:
a stack of `(node, Pre | Post)` items and the mutable `indent` field.  `Pre` pushes the node
back as `Post`, calls `format_node(node, true)` (which adds 2 to `indent` when the node has
children) and pushes the children in reverse order, so that the first child is popped next;
`Post` calls `format_node(node, false)` (which, when the node has children, subtracts 2 from
`indent`, writes the indentation and the end tag).  `plain` is always `false`.

`Lemmas/XmlStack.lean` proves that this machine writes exactly the tokens of the recursive
`renderXmlT` of Comrak/Xml.lean, which is the form the other theorems are about.
(The position of a node that a table cell looks up through `ancestors()` and
`preceding_siblings()` travels with the work item as an `XCtx`.)
-/
import Comrak.Xml
namespace Comrak
open Bytes

inductive XWork where
  | pre (t : Tree) (cx : XCtx)
  | post (v : NodeValue) (hasKids : Bool)

/-- `format_node(node, true)`: the one token written on entering a node. -/
def enterTok (o : XmlOpts) (ind : Nat) (cx : XCtx) (v : NodeValue) (sp : Sp) (hasKids : Bool) : XTok :=
  match xmlLiteral v with
  | some l => .leaf ind (xmlName v) (xmlAttrs o cx v sp) l
  | none => if hasKids then .opn ind (xmlName v) (xmlAttrs o cx v sp) else .empty ind (xmlName v) (xmlAttrs o cx v sp)

/-- The children as work items, first child on top of the stack. -/
def childWork (parent grand : Option NodeValue) (idx : Nat) : Forest → List XWork
  | .nil => []
  | .cons t ts => .pre t { parent := parent, grand := grand, index := idx } :: childWork parent grand (idx + 1) ts

/-- `while let Some(..) = stack.pop()`: `fuel` bounds the number of iterations
    (two per node suffice, see `xmlLoop_eq_render`). -/
def xmlLoop (o : XmlOpts) : Nat → List XWork → Nat → List XTok
  | 0, _, _ => []
  | _ + 1, [], _ => []
  | f + 1, .pre (.node v sp cs) cx :: st, ind =>
    enterTok o ind cx v sp (!cs.isNil) ::
      xmlLoop o f (childWork (some v) cx.parent 0 cs ++ .post v (!cs.isNil) :: st) (if cs.isNil then ind else ind + 2)
  | f + 1, .post v k :: st, ind =>
    if k then .close (ind - 2) (xmlName v) :: xmlLoop o f st (ind - 2) else xmlLoop o f st ind

/-- `XmlFormatter::format(root, false)` with `indent = 0`. -/
def renderXmlStack (o : XmlOpts) (t : Tree) : List XTok := xmlLoop o (2 * t.size) [.pre t {}] 0

end Comrak
