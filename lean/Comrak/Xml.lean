/-
Token-level model of the XML formatter (src/xml.rs `format_document_with_plugins`,
`XmlFormatter::{escape, format, indent, format_node}`; element names from src/nodes.rs
`xml_node_name`, `TableAlignment::xml_name`, `ListDelimType::xml_name`).

`renderXmlT`/`renderXmlF` return the tokens written for a tree at a given value of the
formatter's `indent` field; `spellXml` is the only place bytes are produced, so that
`renderXml o t` is byte for byte what `format_xml` writes.  The recursive pair stands for
comrak's explicit work-stack traversal (Pre/Post phases).  The `plain` mode of `format` is
dead code (`format_node` always returns `false`) and is not modelled.

Points where the model follows the code literally:
* a literal kind (text, code, html_block, html_inline, raw, code_block, math) writes
  `... xml:space="preserve">` + escaped literal + `</name` and `>\n`; if such a node has
  children they are still traversed and a second `</name>` is written on the way out;
* `EscapedTag` writes its payload as the escaped value of an attribute `tag`, after the
  optional sourcepos attribute like every other per-kind attribute (since /repo commit
  ce28ea3; before that the payload was written verbatim inside the start tag);
* header-row cells read `alignments[ix]`; an out-of-range index (a panic in the code) is
  modelled as "no attribute" and is outside the correspondence.
-/
import Comrak.Ast
import Comrak.Escape
import Comrak.XmlNames
namespace Comrak
open Bytes

/-! ## Options read by xml.rs -/
structure XmlOpts where
  sourcepos : Bool := false
  deriving Repr, DecidableEq, Inhabited

/-! ## The formatter's own `escape` (loop form) -/

/-- `XML_UNSAFE = character_set!(b"&<>\"")`. -/
def xmlUnsafe (b : UInt8) : Bool := b == 0x26 || b == 0x3C || b == 0x3E || b == 0x22

/-- The `match byte` of `XmlFormatter::escape` (the last arm is the `unreachable!()`). -/
def xmlEsc (b : UInt8) : Bytes :=
  if b = 0x22 then entQuot
  else if b = 0x26 then entAmp
  else if b = 0x3C then entLt
  else if b = 0x3E then entGt
  else []

/-- `for (i, &byte)` loop of `XmlFormatter::escape`: `pending` is `buffer[offset..i]`. -/
def xmlEscapeLoop (pending : Bytes) : Bytes → Bytes
  | [] => pending
  | b :: r =>
    if xmlUnsafe b then pending ++ xmlEsc b ++ xmlEscapeLoop [] r
    else xmlEscapeLoop (pending ++ [b]) r

def xmlEscape (bs : Bytes) : Bytes := xmlEscapeLoop [] bs

/-! ## Decimal numbers (`write!("{}", n)`), structurally so that the digits are provable -/

def natDecAux : Nat → Nat → Bytes → Bytes
  | 0, _, acc => acc
  | fuel + 1, n, acc =>
    let d : UInt8 := UInt8.ofNat (48 + n % 10)
    if n / 10 = 0 then d :: acc else natDecAux fuel (n / 10) (d :: acc)

def natDec (n : Nat) : Bytes := natDecAux (n + 1) n []

/-- `Display for Sourcepos`: `l:c-l:c`. -/
def xmlSpBytes (sp : Sp) : Bytes :=
  natDec sp.sl ++ [0x3A] ++ natDec sp.sc ++ [0x2D] ++ natDec sp.el ++ [0x3A] ++ natDec sp.ec

/-! ## Tokens -/

/-- How an attribute value reaches the output. -/
inductive XVal where
  | esc (v : Bytes)    -- document data, through `escape`
  | lit (v : Bytes)    -- comrak's own text (fixed words, decimals), written as is
  deriving Repr, DecidableEq, Inhabited

/-- One piece of a start tag after the element name: always an attribute ` name="value"`. -/
inductive XAttr where
  | mk (name : Bytes) (val : XVal)     -- ` name="value"`
  deriving Repr, DecidableEq, Inhabited

inductive XTok where
  | opn (ind : Nat) (name : Bytes) (attrs : List XAttr)                  -- `<name attrs>\n`
  | leaf (ind : Nat) (name : Bytes) (attrs : List XAttr) (lit : Bytes)   -- `<name attrs>literal</name>\n`
  | empty (ind : Nat) (name : Bytes) (attrs : List XAttr)                -- `<name attrs />\n`
  | close (ind : Nat) (name : Bytes)                                     -- `</name>\n`
  deriving Repr, DecidableEq, Inhabited

def maxIndent : Nat := 40

/-- `XmlFormatter::indent`. -/
def indentBytes (n : Nat) : Bytes := List.replicate (min n maxIndent) 0x20

def XVal.spell : XVal → Bytes
  | .esc v => xmlEscape v
  | .lit v => v

def XAttr.spell : XAttr → Bytes
  | .mk n v => [0x20] ++ n ++ [0x3D, 0x22] ++ v.spell ++ [0x22]

def spellXAttrs (as : List XAttr) : Bytes := as.flatMap XAttr.spell

def XTok.spell : XTok → Bytes
  | .opn i n as => indentBytes i ++ [0x3C] ++ n ++ spellXAttrs as ++ [0x3E, 0x0A]
  | .leaf i n as l =>
    indentBytes i ++ [0x3C] ++ n ++ spellXAttrs as ++ [0x3E] ++ xmlEscape l ++ [0x3C, 0x2F] ++ n ++ [0x3E, 0x0A]
  | .empty i n as => indentBytes i ++ [0x3C] ++ n ++ spellXAttrs as ++ [0x20, 0x2F, 0x3E, 0x0A]
  | .close i n => indentBytes i ++ [0x3C, 0x2F] ++ n ++ [0x3E, 0x0A]

def spellXToks (ts : List XTok) : Bytes := ts.flatMap XTok.spell

/-- The two fixed lines written by `format_document_with_plugins`, then the tokens. -/
def spellXml (ts : List XTok) : Bytes := XS.prolog ++ spellXToks ts

/-! ## Per-node data -/

/-- `NodeValue::xml_node_name`. -/
def xmlName : NodeValue → Bytes
  | .document => XS.e_document
  | .frontMatter _ => XS.e_frontmatter
  | .blockQuote => XS.e_block_quote
  | .list _ => XS.e_list
  | .item _ => XS.e_item
  | .descriptionList => XS.e_description_list
  | .descriptionItem .. => XS.e_description_item
  | .descriptionTerm => XS.e_description_term
  | .descriptionDetails => XS.e_description_details
  | .codeBlock .. => XS.e_code_block
  | .htmlBlock .. => XS.e_html_block
  | .paragraph => XS.e_paragraph
  | .heading .. => XS.e_heading
  | .thematicBreak => XS.e_thematic_break
  | .footnoteDefinition .. => XS.e_footnote_definition
  | .table .. => XS.e_table
  | .tableRow _ => XS.e_table_row
  | .tableCell => XS.e_table_cell
  | .text _ => XS.e_text
  | .taskItem _ => XS.e_taskitem
  | .softBreak => XS.e_softbreak
  | .lineBreak => XS.e_linebreak
  | .code .. => XS.e_code
  | .htmlInline _ => XS.e_html_inline
  | .raw _ => XS.e_raw
  | .emph => XS.e_emph
  | .strong => XS.e_strong
  | .strikethrough => XS.e_strikethrough
  | .superscript => XS.e_superscript
  | .link .. => XS.e_link
  | .image .. => XS.e_image
  | .footnoteReference .. => XS.e_footnote_reference
  | .math .. => XS.e_math
  | .multilineBlockQuote .. => XS.e_multiline_block_quote
  | .escaped => XS.e_escaped
  | .wikiLink _ => XS.e_wikilink
  | .underline => XS.e_underline
  | .subscript => XS.e_subscript
  | .spoileredText => XS.e_spoiler
  | .escapedTag _ => XS.e_escaped_tag
  | .alert .. => XS.e_alert

/-- The literal of the kinds that set `was_literal`. -/
def xmlLiteral : NodeValue → Option Bytes
  | .text s => some s
  | .code _ s => some s
  | .htmlBlock _ s => some s
  | .htmlInline s => some s
  | .raw s => some s
  | .codeBlock _ _ _ _ _ s => some s
  | .math _ _ s => some s
  | _ => none

/-- Where a node sits (only table cells look): parent, grandparent, index among the siblings. -/
structure XCtx where
  parent : Option NodeValue := none
  grand : Option NodeValue := none
  index : Nat := 0
  deriving Inhabited

def xAttr (n v : Bytes) : XAttr := .mk n (.lit v)
def xAttrE (n v : Bytes) : XAttr := .mk n (.esc v)

def boolBytes (b : Bool) : Bytes := if b then XS.v_true else XS.v_false

/-- `TableAlignment::xml_name`. -/
def alignXmlAttr : Align → List XAttr
  | .none => []
  | .left => [xAttr XS.a_align XS.v_left]
  | .center => [xAttr XS.a_align XS.v_center]
  | .right => [xAttr XS.a_align XS.v_right]

/-- `alert_type.default_title().to_lowercase()`. -/
def alertXmlType : AlertType → Bytes
  | .note => XS.v_note | .tip => XS.v_tip | .important => XS.v_important
  | .warning => XS.v_warning | .caution => XS.v_caution

def preserveAttr : XAttr := xAttr XS.a_xml_space XS.v_preserve

/-- ` sourcepos="l:c-l:c"` when the option is on and the start line is not 0. -/
def xmlSpAttr (o : XmlOpts) (sp : Sp) : List XAttr :=
  if o.sourcepos && sp.sl != 0 then [xAttr XS.a_sourcepos (xmlSpBytes sp)] else []

/-- The `match ast.value` of `format_node`: everything written between the optional
    sourcepos attribute and the end of the start tag. -/
def xmlKindAttrs (cx : XCtx) : NodeValue → List XAttr
  | .document => [xAttr XS.a_xmlns XS.v_xmlns]
  | .text _ => [preserveAttr]
  | .code .. => [preserveAttr]
  | .htmlBlock .. => [preserveAttr]
  | .htmlInline _ => [preserveAttr]
  | .raw _ => [preserveAttr]
  | .list l =>
    (match l.ty with
     | .bullet => [xAttr XS.a_type XS.v_bullet]
     | .ordered => [xAttr XS.a_type XS.v_ordered, xAttr XS.a_start (natDec l.start),
                    xAttr XS.a_delim (match l.delim with | .period => XS.v_period | .paren => XS.v_paren)]) ++
    (if l.isTaskList then [xAttr XS.a_tasklist XS.v_true] else []) ++
    [xAttr XS.a_tight (boolBytes l.tight)]
  | .heading level _ => [xAttr XS.a_level (natDec level)]
  | .codeBlock _ _ _ _ info _ =>
    (if info.isEmpty then []
     else [xAttrE XS.a_info info] ++ (if info == XS.v_math then [xAttr XS.a_math_style XS.v_display] else [])) ++
    [preserveAttr]
  | .link url title => [xAttrE XS.a_destination url, xAttrE XS.a_title title]
  | .image url title => [xAttrE XS.a_destination url, xAttrE XS.a_title title]
  | .tableCell =>
    (match cx.parent, cx.grand with
     | some (.tableRow true), some (.table aligns ..) => alignXmlAttr (aligns.getD cx.index .none)
     | _, _ => [])
  | .footnoteDefinition name _ => [xAttrE XS.a_label name]
  | .footnoteReference name _ _ => [xAttrE XS.a_label name]
  | .taskItem sym => [xAttr XS.a_completed (boolBytes sym.isSome)]
  | .math _ display _ =>
    [xAttr XS.a_math_style (if display then XS.v_display else XS.v_inline), preserveAttr]
  | .wikiLink url => [xAttrE XS.a_destination url]
  | .escapedTag s => [xAttrE XS.a_tag s]
  | .alert ty title multiline _ _ =>
    [xAttr XS.a_type (alertXmlType ty)] ++
    (match title with | some t => [xAttrE XS.a_title t] | none => []) ++
    (if multiline then [xAttr XS.a_multiline XS.v_true] else [])
  | _ => []

def xmlAttrs (o : XmlOpts) (cx : XCtx) (v : NodeValue) (sp : Sp) : List XAttr :=
  xmlSpAttr o sp ++ xmlKindAttrs cx v

/-! ## Traversal -/

mutual
/-- Tokens for one subtree when the formatter's `indent` field is `ind` on entry. -/
def renderXmlT (o : XmlOpts) (ind : Nat) (cx : XCtx) : Tree → List XTok
  | .node v sp cs =>
    let name := xmlName v
    let attrs := xmlAttrs o cx v sp
    match xmlLiteral v with
    | some l =>
      -- `was_literal`: the element is already closed; children (never produced by the parser)
      -- are still traversed and the Post phase writes a second end tag
      .leaf ind name attrs l ::
        (if cs.isNil then [] else renderXmlF o (ind + 2) (some v) cx.parent 0 cs ++ [.close ind name])
    | none =>
      if cs.isNil then [.empty ind name attrs]
      else .opn ind name attrs :: (renderXmlF o (ind + 2) (some v) cx.parent 0 cs ++ [.close ind name])
def renderXmlF (o : XmlOpts) (ind : Nat) (parent grand : Option NodeValue) (idx : Nat) : Forest → List XTok
  | .nil => []
  | .cons t ts =>
    renderXmlT o ind { parent := parent, grand := grand, index := idx } t ++
      renderXmlF o ind parent grand (idx + 1) ts
end

/-- `format_document`: all tokens for a tree. -/
def renderXmlToks (o : XmlOpts) (t : Tree) : List XTok := renderXmlT o 0 {} t

/-- `format_xml`: prolog and body bytes. -/
def renderXml (o : XmlOpts) (t : Tree) : Bytes := spellXml (renderXmlToks o t)

/-! ## Classes of trees the theorems speak about -/

mutual
/-- No literal-kind node has children (true of every parsed tree: the parser never attaches
    children to text, code, raw HTML, code blocks or math). -/
def litLeafT : Tree → Bool
  | .node v _ cs => ((xmlLiteral v).isNone || cs.isNil) && litLeafF cs
def litLeafF : Forest → Bool
  | .nil => true
  | .cons t ts => litLeafT t && litLeafF ts
end

mutual
/-- Every node value of the tree satisfies `q`. -/
def Tree.allV (q : NodeValue → Bool) : Tree → Bool
  | .node v _ cs => q v && Forest.allV q cs
def Forest.allV (q : NodeValue → Bool) : Forest → Bool
  | .nil => true
  | .cons t ts => Tree.allV q t && Forest.allV q ts
end

/-! ## Token accessors -/

def XTok.name : XTok → Bytes
  | .opn _ n _ => n | .leaf _ n _ _ => n | .empty _ n _ => n | .close _ n => n
def XTok.attrs : XTok → List XAttr
  | .opn _ _ a => a | .leaf _ _ a _ => a | .empty _ _ a => a | .close .. => []
def XTok.ind : XTok → Nat
  | .opn i _ _ => i | .leaf i _ _ _ => i | .empty i _ _ => i | .close i _ => i
/-- The text run of a token (only literal elements have one). -/
def XTok.text : XTok → Option Bytes
  | .leaf _ _ _ l => some l | _ => none

end Comrak
