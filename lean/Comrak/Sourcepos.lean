/-
Source positions (C11, C12): executable oracles over (source bytes, tree with positions) and models of
the position arithmetic of the parser (src/parser/mod.rs, inlines.rs).

Conventions of comrak (src/nodes.rs `Sourcepos`, pinned by src/tests/sourcepos.rs):
* lines are 1-based, a line ends at LF, CRLF or a lone CR (`Parser::feed`); a final line without
  terminator counts, a trailing terminator does not open another line;
* columns are 1-based BYTE columns inside the line, `end` is inclusive;
* column `len + 1` of a line that has a terminator addresses the line ending itself: that is where
  `SoftBreak` lives (`"stuff before\nstuff after"` -> `1:13-1:13`) and where a `LineBreak` ends;
* a blank line holds no character, so a range whose last line is blank reports end column 0 there
  (`"a\n\n"` -> document `1:1-2:0`).  The oracle accepts end column 0 exactly on an empty line (the
  inclusive end of an empty range) and nowhere else; a start column is never 0.

Core Lean only: the driver links this file.
-/
import Comrak.Ast
namespace Comrak
open Bytes

/-! ## Lines of the source -/

/-- The source split into `(content, terminator)` pairs; terminators are LF, CRLF or CR. -/
def splitLines : Bytes → List (Bytes × Bytes)
  | [] => []
  | b :: r =>
    let rest := splitLines r
    if b = 0x0A then ([], [0x0A]) :: rest
    else if b = 0x0D then
      -- CR directly followed by LF: `rest` starts with the empty line terminated by that LF
      match r, rest with
      | c :: _, (l, t) :: ls => if c = 0x0A then (l, 0x0D :: t) :: ls else ([], [0x0D]) :: rest
      | _, _ => ([], [0x0D]) :: rest
    else
      match rest with
      | [] => [([b], [])]
      | (c, t) :: ls => (b :: c, t) :: ls

/-- One line of the table: offset of its first byte, length without terminator, terminator length. -/
structure LineEnt where
  off : Nat
  len : Nat
  tlen : Nat
  deriving Repr, DecidableEq, Inhabited

def lineEntsFrom : Nat → List (Bytes × Bytes) → List LineEnt
  | _, [] => []
  | off, (c, t) :: ls => ⟨off, c.length, t.length⟩ :: lineEntsFrom (off + c.length + t.length) ls

def lineEnts (s : Bytes) : List LineEnt := lineEntsFrom 0 (splitLines s)

/-- Start offset and length of every line of the source. -/
def lineTable (s : Bytes) : List (Nat × Nat) := (lineEnts s).map fun e => (e.off, e.len)

/-- Line `l` (1-based). -/
def lineAt (lt : List LineEnt) (l : Nat) : Option LineEnt := if l = 0 then none else lt[l - 1]?

/-! ## Range clauses (C11) -/

/-- Highest admissible column of a line: its length, plus one when it has a terminator. -/
def LineEnt.maxCol (e : LineEnt) : Nat := e.len + (if e.tlen = 0 then 0 else 1)

/-- `1 ≤ start line ≤ end line ≤ #lines`. -/
def spLinesOk (lt : List LineEnt) (sp : Sp) : Bool := 1 ≤ sp.sl && sp.sl ≤ sp.el && sp.el ≤ lt.length

def spStartColOk (lt : List LineEnt) (sp : Sp) : Bool :=
  match lineAt lt sp.sl with
  | some e => 1 ≤ sp.sc && sp.sc ≤ max e.maxCol 1
  | none => false

def spEndColOk (lt : List LineEnt) (sp : Sp) : Bool :=
  match lineAt lt sp.el with
  | some e => (1 ≤ sp.ec && sp.ec ≤ e.maxCol) || (sp.ec = 0 && e.len = 0)
  | none => false

/-- The start does not come after the end; `l:1-l:0` is the empty range of a blank line. -/
def spStartLeEnd (sp : Sp) : Bool :=
  sp.sl < sp.el || (sp.sl = sp.el && (sp.sc ≤ sp.ec || (sp.ec = 0 && sp.sc = 1)))

/-- First failing range clause of one position. -/
def spRangeFail (lt : List LineEnt) (sp : Sp) : Option String :=
  if !spLinesOk lt sp then some "line-range"
  else if !spStartColOk lt sp then some "start-col"
  else if !spEndColOk lt sp then some "end-col"
  else if !spStartLeEnd sp then some "start-after-end"
  else none

def spInRange (lt : List LineEnt) (sp : Sp) : Bool := (spRangeFail lt sp).isNone

/-- Lexicographic `≤` / `<` on (line, column). -/
def posLe (l1 c1 l2 c2 : Nat) : Bool := l1 < l2 || (l1 = l2 && c1 ≤ c2)
def posLt (l1 c1 l2 c2 : Nat) : Bool := l1 < l2 || (l1 = l2 && c1 < c2)

/-- The child's range lies within the parent's. -/
def spNested (p c : Sp) : Bool := posLe p.sl p.sc c.sl c.sc && posLe c.el c.ec p.el p.ec

/-- `a` ends strictly before `b` starts. -/
def spOrdered (a b : Sp) : Bool := posLt a.el a.ec b.sl b.sc

/-- Kinds whose positions the documentation declares unreliable (`RenderOptions::sourcepos`: "reliable
    for core block items excluding lists and list items ... The description lists extension still has
    issues"; src/tests/sourcepos.rs drops exactly these as "buggy variants"). -/
def Kind.spReliable : Kind → Bool
  | .list | .item | .taskItem | .descriptionList | .descriptionItem | .descriptionTerm
  | .descriptionDetails => false
  | _ => true

/-- Footnote definitions are moved to the end of the document by the parser (in reference order),
    keeping the position of their source: they are exempt from the sibling-order clause only. -/
def Kind.spInOrder (k : Kind) : Bool := k.spReliable && k != .footnoteDefinition

structure SpFail where
  clause : String
  kind : Kind
  sp : Sp

mutual
/-- First failing C11 clause in document order. `anc` is the nearest reliable ancestor's range. -/
def rangeCheckT (lt : List LineEnt) (anc : Option Sp) : Tree → Option SpFail
  | .node v sp cs =>
    if v.kind.spReliable then
      match spRangeFail lt sp with
      | some c => some ⟨c, v.kind, sp⟩
      | none =>
        match anc with
        | some p => if spNested p sp then rangeCheckF lt (some sp) none cs else some ⟨"nested", v.kind, sp⟩
        | none => rangeCheckF lt (some sp) none cs
    else rangeCheckF lt anc none cs
/-- `prev` is the previous sibling that takes part in the order clause. -/
def rangeCheckF (lt : List LineEnt) (anc prev : Option Sp) : Forest → Option SpFail
  | .nil => none
  | .cons t ts =>
    let k := t.value.kind
    let bad := match prev with
      | some p => k.spInOrder && !spOrdered p t.sp
      | none => false
    if bad then some ⟨"ordered", k, t.sp⟩ else
    match rangeCheckT lt anc t with
    | some f => some f
    | none => rangeCheckF lt anc (if k.spInOrder then some t.sp else prev) ts
end

/-! ## Slices (C12) -/

/-- Offset of the first byte and one past the last byte of a position (`none` if a line is missing). -/
def spOffsets (lt : List LineEnt) (sp : Sp) : Option (Nat × Nat) :=
  match lineAt lt sp.sl, lineAt lt sp.el with
  | some a, some b => if sp.sc = 0 then none else some (a.off + sp.sc - 1, b.off + sp.ec)
  | _, _ => none

/-- The bytes a position denotes. -/
def sliceLT (lt : List LineEnt) (src : Bytes) (sp : Sp) : Option Bytes :=
  match spOffsets lt sp with
  | some (a, b) => if a ≤ b && b ≤ src.length then some ((src.drop a).take (b - a)) else none
  | none => none

def slice (src : Bytes) (sp : Sp) : Option Bytes := sliceLT (lineEnts src) src sp

def lastB (s : Bytes) : Option UInt8 := s.getLast?
def firstB (s : Bytes) : Option UInt8 := s.head?

def isSpTab (c : UInt8) : Bool := c == 0x20 || c == 0x09

/-- Drops trailing spaces and tabs. -/
def rtrimSp (s : Bytes) : Bytes := (s.reverse.dropWhile isSpTab).reverse

/-- Does `s` contain the three bytes `a b c` consecutively? -/
def hasTriple (a b c : UInt8) : Bytes → Bool
  | x :: y :: z :: r => (x == a && y == b && z == c) || hasTriple a b c (y :: z :: r)
  | _ => false

/-- A text literal that may come out of smart punctuation (U+2018/19/1C/1D, U+2013/14, U+2026) or of a
    NUL (U+FFFD): such a node is not "copied verbatim". -/
def hasSmartOrFffd (s : Bytes) : Bool :=
  hasTriple 0xE2 0x80 0x98 s || hasTriple 0xE2 0x80 0x99 s || hasTriple 0xE2 0x80 0x9C s
  || hasTriple 0xE2 0x80 0x9D s || hasTriple 0xE2 0x80 0x93 s || hasTriple 0xE2 0x80 0x94 s
  || hasTriple 0xE2 0x80 0xA6 s || hasTriple 0xEF 0xBF 0xBD s

/-- The slice involves no escape (`\`), entity (`&`) or NUL. -/
def plainSlice (s : Bytes) : Bool := !(s.contains 0x5C || s.contains 0x26 || s.contains 0x00)

/-- Is there a `|` that ends a cell?  `\\|` never does (table.rs `unescape_pipes`, scanner `table_cell`),
    and a pair `||` is the spoiler delimiter, which the cell scanner accepts inside a cell when that
    extension is on (the oracle does not see options, so pairs are accepted in both modes; the
    scanner's class `['|']['|']` also pairs a pipe with an apostrophe, so `'|` and `|'` are accepted too).
    `p` is the previous byte. -/
def hasBarePipe : UInt8 → Bytes → Bool
  | _, [] => false
  | p, c :: r =>
    (c == 0x7C && p != 0x5C && p != 0x7C && p != 0x27 && r.head? != some 0x7C && r.head? != some 0x27)
    || hasBarePipe c r

def allIn (p : UInt8 → Bool) (s : Bytes) : Bool := s.all p

/-- Text of a single `Text` child (the shape of every autolink). -/
def soleText : Forest → Option Bytes
  | .cons (.node (.text s) _ _) .nil => some s
  | _ => none

/-- The clause a node's slice has to satisfy; `none` = holds or nothing is claimed for this kind. -/
def sliceFail (v : NodeValue) (cs : Forest) (s : Bytes) : Option String :=
  match v with
  | .text lit =>
    if plainSlice s && !hasSmartOrFffd lit then (if s = lit then none else some "text-literal") else none
  | .code _ _ => if firstB s == some 0x60 && lastB s == some 0x60 && s.length ≥ 2 then none else some "code-ticks"
  | .emph =>
    match firstB s with
    | some c => if (c == 0x2A || c == 0x5F) && lastB s == some c && s.length ≥ 2 then none else some "emph-delims"
    | none => some "emph-delims"
  | .strong =>
    match s with
    | c :: d :: _ =>
      if (c == 0x2A || c == 0x5F) && d == c && (s.reverse.take 2 == [c, c]) && s.length ≥ 4 then none
      else some "strong-delims"
    | _ => some "strong-delims"
  | .strikethrough =>
    if firstB s == some 0x7E && lastB s == some 0x7E && s.length ≥ 2 then none else some "strike-delims"
  | .link _ _ =>
    match firstB s with
    | some 0x5B => if lastB s == some 0x29 || lastB s == some 0x5D then none else some "link-brackets"
    | some 0x3C => if lastB s == some 0x3E then none else some "autolink-pointy"
    | _ =>
      match soleText cs with
      | some t => if !plainSlice s || s = t then none else some "autolink-bare"
      | none => some "link-brackets"
  | .image _ _ =>
    if isPrefixB [0x21, 0x5B] s && (lastB s == some 0x29 || lastB s == some 0x5D) then none else some "image-brackets"
  | .heading _ setext =>
    if setext then
      (match lastB (rtrimSp s), firstB s with
       | some c, some f => if (c == 0x3D || c == 0x2D) && !isSpTab f && (s.contains 0x0A || s.contains 0x0D) then none
                           else some "heading-setext"
       | _, _ => some "heading-setext")
    else if firstB s == some 0x23 then none else some "heading-atx"
  | .codeBlock fenced fc fl _ _ _ =>
    if !fenced then none
    else if fl ≥ 3 && isPrefixB (List.replicate fl fc) s then none else some "fence"
  | .blockQuote => if firstB s == some 0x3E then none else some "quote-marker"
  | .thematicBreak =>
    match firstB s with
    | some c =>
      if (c == 0x2A || c == 0x2D || c == 0x5F) && allIn (fun x => x == c || isSpTab x) s && s.count c ≥ 3 then none
      else some "thematic"
    | none => some "thematic"
  | .tableCell => if hasBarePipe 0 s then some "cell" else none
  | _ => none

/-- Does the byte offset `b` (exclusive end of a slice) stand at the end of a line's content, up to
    trailing spaces and tabs? A block quote covers whole lines: its slice ends where a line ends. -/
def atLineEnd (lt : List LineEnt) (src : Bytes) (b : Nat) : Bool :=
  lt.any fun e => e.off ≤ b && b ≤ e.off + e.len && ((src.drop b).take (e.off + e.len - b)).all isSpTab

/-- Clauses that need the surroundings of the slice, not only its bytes. -/
def sliceEndFail (lt : List LineEnt) (src : Bytes) (v : NodeValue) (sp : Sp) : Option String :=
  match v with
  | .blockQuote =>
    match spOffsets lt sp with
    | some (_, b) => if atLineEnd lt src b then none else some "quote-end"
    | none => none
  | _ => none

mutual
/-- First failing C12 clause in document order.  A node whose position does not denote a slice of
    the source at all is C11's business and is skipped here. -/
def sliceCheckT (lt : List LineEnt) (src : Bytes) : Tree → Option SpFail
  | .node v sp cs =>
    let here := match sliceLT lt src sp with
      | some s => (sliceFail v cs s).orElse fun _ => sliceEndFail lt src v sp
      | none => none
    match here with
    | some c => some ⟨c, v.kind, sp⟩
    | none => sliceCheckF lt src cs
def sliceCheckF (lt : List LineEnt) (src : Bytes) : Forest → Option SpFail
  | .nil => none
  | .cons t ts =>
    match sliceCheckT lt src t with
    | some f => some f
    | none => sliceCheckF lt src ts
end

/-- `sliceMatches` for one node. -/
def sliceMatches (src : Bytes) (t : Tree) : Bool :=
  match slice src t.sp with
  | some s => (sliceFail t.value t.children s).isNone
  | none => true

/-! ## Mechanism models -/

/-- `Spx` (src/parser/mod.rs): the queue of (position, byte count) of the text nodes merged into one. -/
abbrev SpxQ := List (Sp × Nat)

/-- `Spx::consume`, exactly: `none` models the `unreachable!()` panic (queue exhausted); the split
    inside an element is kept within its range (the pinned tree asserted exactness here; repaired). -/
def spxConsume : SpxQ → Nat → Option (Nat × SpxQ)
  | [], _ => none
  | (sp, x) :: q, rem =>
    if rem > x then spxConsume q (rem - x)
    else if rem = x then some (sp.ec, q)
    else
      let split := min (sp.sc + rem) (sp.ec + 1)
      some (split - 1, ({ sp with sc := split }, x - rem) :: q)

/-- Total number of bytes still queued. -/
def spxBytes (q : SpxQ) : Nat := (q.map Prod.snd).sum

/-- Every queued element lies on one line and spans exactly its byte count (what `make_inline` gives
    to a text run that was copied verbatim). -/
def spxExact (q : SpxQ) : Prop := ∀ e ∈ q, e.1.ec + 1 = e.1.sc + e.2 ∧ 1 ≤ e.2

/-- The inline parser's cursor (src/parser/inlines.rs `Subject`): `pos` in the block's content,
    `columnOffset` (signed, set to `-pos` after every line end) and `lineOffset` (bytes stripped from the
    current source line by the block parser). -/
structure Cursor where
  line : Nat
  columnOffset : Int
  lineOffset : Nat
  deriving Repr, DecidableEq

/-- `Subject::make_inline`: columns are `pos + 1 + column_offset + line_offset`;
    `none` models the `usize::try_from(..).unwrap()` panic on a negative column. -/
def makeInline (c : Cursor) (startPos endPos : Nat) : Option Sp :=
  let s : Int := (startPos : Int) + 1 + c.columnOffset + c.lineOffset
  let e : Int := (endPos : Int) + 1 + c.columnOffset + c.lineOffset
  if 0 ≤ s ∧ 0 ≤ e then some { sl := c.line, sc := s.toNat, el := c.line, ec := e.toNat } else none

/-- The cursor after `handle_newline` consumed a line end that finishes at content index `pos`. -/
def Cursor.newline (c : Cursor) (pos : Nat) (nextLineOffset : Nat) : Cursor :=
  { line := c.line + 1, columnOffset := -(pos : Int), lineOffset := nextLineOffset }

/-- One source line as `add_line` sees it: its bytes (terminator replaced by a single LF by
    `process_line`) and the offset from which the block's content takes it. -/
structure LineIn where
  bytes : Bytes
  offset : Nat

/-- `add_line` without a partially consumed tab: `content += line[offset..]`, `line_offsets.push(offset)`. -/
def contentOf : List LineIn → Bytes
  | [] => []
  | l :: ls => l.bytes.drop l.offset ++ contentOf ls

def lineOffsetsOf (ls : List LineIn) : List Nat := ls.map (·.offset)

/-- Content index -> (line index k, index r inside the kept part of line k). -/
def contentMap : List LineIn → Nat → Option (Nat × Nat)
  | [], _ => none
  | l :: ls, p =>
    if p < (l.bytes.drop l.offset).length then some (0, p)
    else match contentMap ls (p - (l.bytes.drop l.offset).length) with
      | some (k, r) => some (k + 1, r)
      | none => none

/-- How a block is closed when `finalize_borrowed` runs (src/parser/mod.rs). -/
inductive CloseCtx where
  /-- end of input: `curline_len == 0` -/
  | eof
  /-- closed while its own terminator line is being processed (fenced code, multi-line block quote, document) -/
  | ownLine
  /-- a later line failed to continue it -/
  | laterLine
  deriving Repr, DecidableEq

/-- The end position chosen by `finalize_borrowed`: `lineNumber` is the parser's current line,
    `curEnd` = `curline_end_col`, `lastLen` = `last_line_length`. -/
def blockEnd (ctx : CloseCtx) (lineNumber curEnd lastLen : Nat) : Nat × Nat :=
  match ctx with
  | .eof => (lineNumber, lastLen)
  | .ownLine => (lineNumber, curEnd)
  | .laterLine => (lineNumber - 1, lastLen)

/-- Thematic break end column as the pinned tree computed it (`line.len() - 1 - self.offset`), as the
    code computes it since the repair (`curline_end_col` = the line without its LF, set when the
    break is opened and no longer replaced by `finalize_borrowed`, which now tests for a thematic
    break first) and as the documentation promises it (the last byte of the line). -/
def thematicEndOld (lineLen offset : Nat) : Nat := lineLen - 1 - offset
def thematicEndCode (lineLen : Nat) : Nat := lineLen - 1
def thematicEndSpec (lineLen : Nat) : Nat := lineLen - 1

end Comrak
