/-
C01 mechanisms: models of the small functions whose totality the parser and the CommonMark writer
rely on, with every Rust panic site explicit (`none` = panic: failed `assert!`, `unreachable!()`,
index out of bounds, arithmetic overflow in a build with overflow checks) and every `while` loop
either structurally recursive or driven by fuel with a termination theorem.

  * `shortestUnused`      src/cm.rs  `shortest_unused_sequence` (as repaired: u32 set, runs >= 32 ignored,
                          loop capped at 32);  `suScanOld`/`suLoopOld`: the pinned code (i32 set,
                          arithmetic shift, no cap)
  * `spxConsume`          src/parser/mod.rs `Spx::consume`
  * `cpFold`, `hexval`    src/entity.rs `unescape` code-point arithmetic
  * `normalizeCode`       src/strings.rs `normalize_code`
  * `chopHashtags`        src/strings.rs `chop_trailing_hashtags`
  * `removeTrailingBlankLines` src/strings.rs `remove_trailing_blank_lines`
Core Lean only.
-/
import Comrak.Bytes
namespace Comrak.Tot
open Comrak Bytes

/-! ## `shortest_unused_sequence` (repaired code) -/

/-- `used |= 1 << current` guarded by `current > 0 && current < 32`. -/
def suMark (cur used : Nat) : Nat := if 0 < cur ∧ cur < 32 then used ||| (1 <<< cur) else used

/-- The `for c in literal` loop: `cur` = length of the current run of `f`, `used` = bit set. -/
def suScan (f : UInt8) : Bytes → Nat → Nat → Nat
  | [], cur, used => suMark cur used
  | c :: r, cur, used => if c = f then suScan f r (cur + 1) used else suScan f r 0 (suMark cur used)

/-- `while i < 32 && used & 1 != 0 { used >>= 1; i += 1 }`; the first argument is `32 - i`. -/
def suLoop : Nat → Nat → Nat → Nat
  | 0, _, i => i
  | k + 1, used, i => if used % 2 = 1 then suLoop k (used / 2) (i + 1) else i

def shortestUnused (l : Bytes) (f : UInt8) : Nat := suLoop 32 (suScan f l 0 1) 0

/-- Maximal runs of `f` in `l` (their lengths), `cur` = length of the run in progress. -/
def runsAux (f : UInt8) : Bytes → Nat → List Nat
  | [], cur => if 0 < cur then [cur] else []
  | c :: r, cur => if c = f then runsAux f r (cur + 1) else (if 0 < cur then cur :: runsAux f r 0 else runsAux f r 0)

def runs (f : UInt8) (l : Bytes) : List Nat := runsAux f l 0

/-! ## `shortest_unused_sequence` (pinned code: `let mut used = 1` is an `i32`, `>>=` is arithmetic) -/

/-- `used |= 1 << current` guarded only by `current > 0`. With overflow checks (`debug`) a shift by
    32 or more panics (`none`); without them the shift amount is masked to 5 bits. -/
def suMarkOld (debug : Bool) (cur : Nat) (used : BitVec 32) : Option (BitVec 32) :=
  if cur = 0 then some used
  else if cur < 32 then some (used ||| (1#32 <<< cur))
  else if debug then none
  else some (used ||| (1#32 <<< (cur % 32)))

def suScanOld (debug : Bool) (f : UInt8) : Bytes → Nat → BitVec 32 → Option (BitVec 32)
  | [], cur, used => suMarkOld debug cur used
  | c :: r, cur, used =>
    if c = f then suScanOld debug f r (cur + 1) used
    else match suMarkOld debug cur used with
      | none => none
      | some u => suScanOld debug f r 0 u

/-- `while used & 1 != 0 { used >>= 1; i += 1 }` on an `i32`; `none` = the fuel ran out before the
    loop condition became false. -/
def suLoopOld : Nat → BitVec 32 → Nat → Option Nat
  | 0, _, _ => none
  | k + 1, used, i => if used &&& 1#32 ≠ 0#32 then suLoopOld k (used.sshiftRight 1) (i + 1) else some i

/-! ## `Spx::consume` -/

/-- One queue element: source position (lines, columns) and the number of bytes of text it stands for. -/
structure Seg where
  sl : Nat
  sc : Nat
  el : Nat
  ec : Nat
  x : Nat
  deriving DecidableEq, Repr

/-- The element's text is spelled verbatim in the source: one column per byte. -/
def Seg.verbatim (s : Seg) : Prop := s.ec + 1 = s.sc + s.x

instance (s : Seg) : Decidable s.verbatim := by unfold Seg.verbatim; exact inferInstance

/-- Well-formed position (what every parsed node has): columns start at 1 and `end + 1 >= start`. -/
def Seg.wf (s : Seg) : Prop := 1 ≤ s.sc ∧ s.sc ≤ s.ec + 1

def spxTotal (q : List Seg) : Nat := (q.map (·.x)).sum

/-- `Spx::consume(rem)`: `none` = the queue runs out (`unreachable!()`). In the `Less` arm the split
    is kept within the element's range (`min`), so there is no assertion any more (repaired in /repo:
    the pinned tree asserted `ec - sc + 1 = x ∨ rem = 0` here). Returns the end column and the
    remaining queue. -/
def spxConsume : List Seg → Nat → Option (Nat × List Seg)
  | [], _ => none
  | s :: q, rem =>
    if s.x < rem then spxConsume q (rem - s.x)
    else if rem = s.x then some (s.ec, q)
    else
      let split := min (s.sc + rem) (s.ec + 1)
      some (split - 1, { s with sc := split, x := s.x - rem } :: q)

/-- Successive calls, as `process_email_autolinks` and `process_tasklist` make them. -/
def spxConsumeAll : List Seg → List Nat → Option (List Nat × List Seg)
  | q, [] => some ([], q)
  | q, r :: rs =>
    match spxConsume q r with
    | none => none
    | some (e, q') =>
      match spxConsumeAll q' rs with
      | none => none
      | some (es, q'') => some (e :: es, q'')

/-! ## `entity::unescape`: code-point arithmetic in `u32` -/

/-- `codepoint = codepoint * base + d; codepoint = min(codepoint, 0x110000)`; `none` = `u32` overflow. -/
def cpStep (base cp d : Nat) : Option Nat :=
  let v := cp * base + d
  if v < 2 ^ 32 then some (min v 0x110000) else none

def cpFold (base : Nat) : List Nat → Nat → Option Nat
  | [], cp => some cp
  | d :: ds, cp => match cpStep base cp d with
    | none => none
    | some cp' => cpFold base ds cp'

def isXDigit (c : UInt8) : Bool :=
  (0x30 ≤ c && c ≤ 0x39) || (0x61 ≤ c && c ≤ 0x66) || (0x41 ≤ c && c ≤ 0x46)

/-- `(text[i] as u32 | 32) % 39 - 9`; `none` = the subtraction underflows. -/
def hexval (c : UInt8) : Option Nat :=
  let v := (c.toNat ||| 32) % 39
  if v < 9 then none else some (v - 9)

def decval (c : UInt8) : Nat := c.toNat - 0x30

/-- Result of the numeric-reference branch of `entity::unescape`. -/
inductive NumEnt where
  | overflow                       -- arithmetic panic
  | fallthrough                    -- not a numeric reference: the named-entity lookup runs
  | hit (cp : Nat) (consumed : Nat)
  deriving DecidableEq, Repr

def finalCp (cp : Nat) : Nat :=
  if cp = 0 ∨ (0xD800 ≤ cp ∧ cp ≤ 0xE000) ∨ 0x110000 ≤ cp then 0xFFFD else cp

/-- The `if text.len() >= 3 && text[0] == b'#'` branch. -/
def numericEntity (t : Bytes) : NumEnt :=
  if t.length < 3 || t[0]? != some 0x23 then .fallthrough else
  let c1 := t[1]?.getD 0
  if isAsciiDigit c1 then
    let ds := (t.drop 1).takeWhile isAsciiDigit
    match cpFold 10 (ds.map decval) 0 with
    | none => .overflow
    | some cp =>
      let i := 1 + ds.length
      if t[i]? == some 0x3B && 1 ≤ ds.length && ds.length ≤ 7 then .hit (finalCp cp) (i + 1) else .fallthrough
  else if c1 = 0x78 ∨ c1 = 0x58 then
    let ds := (t.drop 2).takeWhile isXDigit
    match cpFold 16 (ds.map fun c => (hexval c).getD 0) 0 with
    | none => .overflow
    | some cp =>
      let i := 2 + ds.length
      -- `(hex && 1..=6 digits) || 1..=7 digits`: the second disjunct also admits 7 hex digits
      if t[i]? == some 0x3B && 1 ≤ ds.length && ds.length ≤ 7 then .hit (finalCp cp) (i + 1) else .fallthrough
  else .fallthrough

/-! ## `strings::normalize_code` -/

/-- The byte loop: CR LF -> one space (pushed at the LF), lone CR -> space, LF -> space. -/
def ncBody : Bytes → Bytes
  | [] => []
  | c :: r =>
    if c = 0x0D then
      (match r with
       | [] => [0x20]
       | d :: _ => if d = 0x0A then ncBody r else 0x20 :: ncBody r)
    else if c = 0x0A then 0x20 :: ncBody r
    else c :: ncBody r

def isCodeSpace (c : UInt8) : Bool := c == 0x20 || c == 0x0D || c == 0x0A

def normalizeCode (v : Bytes) : Bytes :=
  let r := ncBody v
  if v.any (fun c => !isCodeSpace c) && r.head? == some 0x20 && r.getLast? == some 0x20 then (r.drop 1).dropLast
  else r

/-! ## `strings::chop_trailing_hashtags`, `strings::remove_trailing_blank_lines` -/

def rtrim (l : Bytes) : Bytes := (l.reverse.dropWhile isSpace).reverse

def isSpaceOrTab (c : UInt8) : Bool := c == 0x09 || c == 0x20
def isLineEnd (c : UInt8) : Bool := c == 0x0A || c == 0x0D

/-- `none` = `line.len() - 1` underflows / `line[n]` out of bounds: the line is empty after `rtrim`. -/
def chopHashtags (l : Bytes) : Option Bytes :=
  let t := rtrim l
  if t.isEmpty then none else
  let rev := t.reverse
  let rest := rev.dropWhile (· == 0x23)
  match rest with
  | [] => some t                                -- only `#`: `n` reaches 0, early return
  | c :: before =>
    if rest.length ≠ rev.length && isSpaceOrTab c then some (rtrim before.reverse) else some t

/-- `none` = `line.len() - 1` underflows on the empty string. -/
def removeTrailingBlankLines (l : Bytes) : Option Bytes :=
  if l.isEmpty then none else
  let blankTail := (l.reverse.takeWhile fun c => c == 0x20 || c == 0x09 || isLineEnd c).length
  if blankTail = l.length then some [] else
  let i := l.length - 1 - blankTail             -- index of the last non-blank byte
  let tail := l.drop i
  let keep := (tail.takeWhile fun c => !isLineEnd c).length
  some (l.take (i + keep))

/-! ## CommonMark writer: prefix bookkeeping around an ordered list item inside a block quote
(`format_block_quote`, `format_item` in src/cm.rs). A witness model for one defect: only the length
of `self.prefix` is tracked. -/

def numDigitsAux : Nat → Nat → Nat
  | 0, _ => 1
  | f + 1, n => if n < 10 then 1 else 1 + numDigitsAux f (n / 10)

def numDigits (n : Nat) : Nat := numDigitsAux 20 n

/-- `> n) x`: enter block quote (+2), enter item (+ width of "n) "), leave item (the width is
    recomputed from the already incremented `ol_stack` top, i.e. for `n + 1`, clamped at 0), leave
    block quote (`self.prefix.len() - 2`; `none` = the subtraction underflows, a panic in builds with
    overflow checks). -/
def cmQuoteItemPrefix (n : Nat) : Option Nat :=
  let p1 := 2 + (numDigits n + 2)
  let w' := numDigits (n + 1) + 2
  let p2 := if p1 > w' then p1 - w' else 0
  if p2 < 2 then none else some (p2 - 2)

end Comrak.Tot
