/-
Model of `strings::split_off_front_matter` / `strings::line_ending_len` (src/strings.rs, as of
/repo commit d92265f "fix: recognise front matter line by line"), of `strings::count_line_endings`
(/repo commit ef24343) and of the front-matter step at the head of `Parser::feed`
(src/parser/mod.rs).  Core Lean only.

The code works on `&str` with byte offsets; every offset it slices at is the start of the text, the
end of the text, or directly before/after an ASCII byte (`\n`, `\r`) or after a complete match of
the (valid UTF-8) delimiter, so on valid UTF-8 the byte-level reading below is exact.  The `char`
search `find(|c| c == '\n' || c == '\r')` is a byte search: both are ASCII.

`splitOld` is the function as it was before that commit (three substring searches in turn); it is
kept only for the `_repaired` theorems of Props/C20.lean.
-/
import Comrak.Feed
namespace Comrak
open Bytes

namespace FrontMatter
open Comrak.Feed (BOM isLineEnd)

/-- `trim_start_match(s, "\u{feff}")` -/
def stripBom (s : Bytes) : Bytes := if isPrefixB BOM s then s.drop 3 else s

/-- `line_ending_len`: 2 if the text starts with CRLF, 1 if it starts with LF or CR, else 0. -/
def lineEndingLen : Bytes → Nat
  | [] => 0
  | b :: r =>
    if b = 0x0D then
      (match r with
       | [] => 1
       | c :: _ => if c = 0x0A then 2 else 1)
    else if b = 0x0A then 1 else 0

/-- `s[pos..].find(|c| c == '\n' || c == '\r')`: the content of the line that starts here
    (`s[pos..content_end]`) and the text from its end on (`s[content_end..]`). -/
def scanLine : Bytes → Bytes × Bytes
  | [] => ([], [])
  | b :: r => if isLineEnd b then ([], b :: r) else (b :: (scanLine r).1, (scanLine r).2)

/-- The `loop` of `split_off_front_matter` on `rem = s[pos..]`: what is taken of `rem`
    (`s[pos..end]`) and the rest (`s[end..]`).  The first argument bounds the number of iterations
    (every iteration that continues consumes at least one byte). -/
def closeLoop (d : Bytes) : Nat → Bytes → Option (Bytes × Bytes)
  | 0, _ => none
  | fuel + 1, rem =>
    let c := (scanLine rem).1                  -- s[pos..content_end]
    let t := (scanLine rem).2                  -- s[content_end..]
    let e := lineEndingLen t                   -- next - content_end
    if c = d then
      let e2 := lineEndingLen (t.drop e)       -- end - next
      some (c ++ t.take (e + e2), t.drop (e + e2))
    else if e = 0 then none                    -- next == content_end: end of input
    else (closeLoop d fuel (t.drop e)).map fun p => (c ++ t.take e ++ p.1, p.2)

/-- `split_off_front_matter(s, delimiter)`: `(front matter, rest)`. -/
def splitOffFrontMatter (s0 d : Bytes) : Option (Bytes × Bytes) :=
  let s := stripBom s0
  if isPrefixB d s then
    let t := s.drop d.length
    let e := lineEndingLen t
    if e = 0 then none
    else (closeLoop d (t.length + 1) (t.drop e)).map fun p => (d ++ t.take e ++ p.1, p.2)
  else none

/-! ## Vocabulary of the statements -/

/-- A line ending: LF, CRLF or CR. -/
def IsEol (e : Bytes) : Prop := e = [0x0A] ∨ e = [0x0D, 0x0A] ∨ e = [0x0D]

/-- No line-end byte. -/
def noEol (c : Bytes) : Prop := ∀ b ∈ c, isLineEnd b = false

/-- `e` followed by `x` is read as the line ending `e` (a lone CR is not followed by LF). -/
def Junction (e x : Bytes) : Prop := e = [0x0D] → x.head? ≠ some 0x0A

/-- The lines of a text, terminators LF / CRLF / CR, without their terminators: `Feed.splitLines`
    (the C08 specification of the feeder) minus its NUL replacement; see
    `C20.parseLines_eq_lines`.  `cur` is the pending line, `cr` = the previous byte was a CR. -/
def rawLines (cur : Bytes) (cr : Bool) : Bytes → List Bytes
  | [] => if cur = [] then [] else [cur]
  | b :: r =>
    if b = 0x0A then (if cr then rawLines cur false r else cur :: rawLines [] false r)
    else if b = 0x0D then cur :: rawLines [] true r
    else rawLines (cur ++ [b]) false r

/-- The lines of a text (a final line end does not open another line). -/
def lines (s : Bytes) : List Bytes := rawLines [] false s

/-- `strings::count_line_endings` (since /repo commit ef24343): the number of line endings (LF,
    CRLF or CR) of a text; `find` the next line-end byte, count, skip `line_ending_len`.  The
    first argument bounds the number of iterations. -/
def countLineEndings : Nat → Bytes → Nat
  | 0, _ => 0
  | fuel + 1, s =>
    let t := (scanLine s).2                    -- rest[n..]; empty when `find` returns None
    if t = [] then 0 else 1 + countLineEndings fuel (t.drop (lineEndingLen t))

/-- `count_line_endings(s)`. -/
def lineEndings (s : Bytes) : Nat := countLineEndings (s.length + 1) s

/-- Number of LF bytes: what `feed` added to `line_number` before /repo commit ef24343
    (`front_matter.as_bytes().iter().filter(|b| **b == b'\n').count()`). -/
def countLF (s : Bytes) : Nat := (s.filter (· == 0x0A)).length

/-- The head of `parse_document` with `front_matter_delimiter = Some d`: the front matter node's
    literal (if any) and the `process_line` calls after the prelude, with line numbers. Without a
    delimiter (`none`) the whole text is split into lines. -/
def parseDoc (d : Option Bytes) (s : Bytes) : Option Bytes × List (Bytes × Nat × Nat) :=
  match d with
  | none => (none, Feed.preludes 0 (Feed.parseLines s))
  | some d =>
    match splitOffFrontMatter s d with
    | none => (none, Feed.preludes 0 (Feed.parseLines s))
    | some (fm, rest) => (some fm, Feed.preludes (lineEndings fm) (Feed.parseLines rest))

/-! ## The function before /repo commit d92265f -/

/-- `str::find`: byte index of the first occurrence of `pat`. -/
def findSub (pat : Bytes) : Bytes → Option Nat
  | [] => if isPrefixB pat [] then some 0 else none
  | b :: r => if isPrefixB pat (b :: r) then some 0 else (findSub pat r).map (· + 1)

/-- Old: `starts_with('\n')` -> 1, else `starts_with("\r\n")` -> 2, else nothing. -/
def eolLenOld (s : Bytes) : Option Nat :=
  if isPrefixB [0x0A] s then some 1 else if isPrefixB [0x0D, 0x0A] s then some 2 else none

/-- Old: the three `find` alternatives, in the old code's order: delimiter line ended by CRLF, by
    LF, or (meant to be) by the end of the input. -/
def findCloseOld (d body : Bytes) : Option Nat :=
  match findSub (0x0A :: d ++ [0x0D, 0x0A]) body with
  | some n => some n
  | none =>
    match findSub (0x0A :: d ++ [0x0A]) body with
    | some n => some n
    | none => findSub (0x0A :: d) body

/-- `split_off_front_matter` as it was before d92265f. -/
def splitOld (s0 d : Bytes) : Option (Bytes × Bytes) :=
  let s := stripBom s0
  if isPrefixB d s then
    match eolLenOld (s.drop d.length) with
    | none => none
    | some e1 =>
      let start := d.length + e1
      match findCloseOld d (s.drop start) with
      | none => none
      | some n =>
        let start2 := start + (n + 1 + d.length)
        if start2 = s.length then some (s, [])
        else
          match eolLenOld (s.drop start2) with
          | none => none
          | some e2 =>
            let start3 := start2 + e2
            let start4 := start3 + (eolLenOld (s.drop start3)).getD 0
            some (s.take start4, s.drop start4)
  else none

end FrontMatter
end Comrak
