/-
Model of `strings::split_off_front_matter` (src/strings.rs) and of the front-matter step at the
head of `Parser::feed` (src/parser/mod.rs).  Core Lean only.

The code works on `&str` with byte offsets; every offset it slices at follows a complete match of
a valid UTF-8 pattern, so on valid UTF-8 the byte-level reading below is exact.
-/
import Comrak.Feed
namespace Comrak
open Bytes

namespace FrontMatter
open Comrak.Feed (BOM)

/-- `trim_start_match(s, "\u{feff}")` -/
def stripBom (s : Bytes) : Bytes := if isPrefixB BOM s then s.drop 3 else s

/-- `str::find`: byte index of the first occurrence of `pat`. -/
def findSub (pat : Bytes) : Bytes → Option Nat
  | [] => if isPrefixB pat [] then some 0 else none
  | b :: r => if isPrefixB pat (b :: r) then some 0 else (findSub pat r).map (· + 1)

/-- `starts_with('\n')` -> 1, else `starts_with("\r\n")` -> 2, else nothing. -/
def eolLen (s : Bytes) : Option Nat :=
  if isPrefixB [0x0A] s then some 1 else if isPrefixB [0x0D, 0x0A] s then some 2 else none

/-- The three `find` alternatives, in the code's order: delimiter line ended by CRLF, by LF, or
    (meant to be) by the end of the input. -/
def findClose (d body : Bytes) : Option Nat :=
  match findSub (0x0A :: d ++ [0x0D, 0x0A]) body with
  | some n => some n
  | none =>
    match findSub (0x0A :: d ++ [0x0A]) body with
    | some n => some n
    | none => findSub (0x0A :: d) body

/-- `split_off_front_matter(s, delimiter)`: `(front matter, rest)`. -/
def splitOffFrontMatter (s0 d : Bytes) : Option (Bytes × Bytes) :=
  let s := stripBom s0
  if isPrefixB d s then
    match eolLen (s.drop d.length) with
    | none => none
    | some e1 =>
      let start := d.length + e1
      match findClose d (s.drop start) with
      | none => none
      | some n =>
        let start2 := start + (n + 1 + d.length)
        if start2 = s.length then some (s, [])
        else
          match eolLen (s.drop start2) with
          | none => none
          | some e2 =>
            let start3 := start2 + e2
            let start4 := start3 + (eolLen (s.drop start3)).getD 0
            some (s.take start4, s.drop start4)
  else none

/-! ## Vocabulary of the statements -/

/-- `\n` or `\r\n`. -/
def IsEol (e : Bytes) : Prop := e = [0x0A] ∨ e = [0x0D, 0x0A]

/-- The uniform line end of a text: CRLF or LF. -/
def eol (crlf : Bool) : Bytes := if crlf then [0x0D, 0x0A] else [0x0A]

/-- No line of the text starts with `d`; lines begin at the start (`bol = true`) and after every LF. -/
def noLineStartsWith (d : Bytes) : Bool → Bytes → Bool
  | _, [] => true
  | bol, c :: r => (!(bol && isPrefixB d (c :: r))) && noLineStartsWith d (c == 0x0A) r

/-- Number of LF bytes (`front_matter.as_bytes().iter().filter(|b| **b == b'\n').count()`). -/
def countLF (s : Bytes) : Nat := (s.filter (· == 0x0A)).length

/-- The head of `parse_document` with `front_matter_delimiter = Some d`: the front matter node's
    literal (if any) and the `process_line` calls after the prelude, with line numbers. Without a
    delimiter (`none`) the whole text is split into lines. -/
def parseDoc (d : Option Bytes) (s : Bytes) : Option Bytes × List (Bytes × Nat × Nat) :=
  match d with
  | none => (none, Feed.preludes 0 (Feed.parseLines s))
  | some d =>
    match splitOffFrontMatter s d with
    | none => (none, Feed.preludes 0 (Feed.parseLines s))
    | some (fm, rest) => (some fm, Feed.preludes (countLF fm) (Feed.parseLines rest))

end FrontMatter
end Comrak
