/-
The comrak AST (src/nodes.rs) as a Lean inductive type: the 41 node kinds of the default
build (`ShortCode` is feature-gated off) with the payload fields the three formatters read,
source positions, and rose trees as a mutual `Tree`/`Forest` pair (so that renderers are
plain structural recursions and theorems go by mutual induction).
-/
import Comrak.Bytes
namespace Comrak
open Bytes

structure Sp where
  sl : Nat := 0
  sc : Nat := 0
  el : Nat := 0
  ec : Nat := 0
  deriving Repr, DecidableEq, Inhabited

inductive ListType | bullet | ordered
  deriving Repr, DecidableEq, Inhabited
inductive ListDelim | period | paren
  deriving Repr, DecidableEq, Inhabited

structure NList where
  ty : ListType := .bullet
  markerOffset : Nat := 0
  padding : Nat := 0
  start : Nat := 1
  delim : ListDelim := .period
  bulletChar : UInt8 := 0x2D
  tight : Bool := false
  isTaskList : Bool := false
  deriving Repr, DecidableEq, Inhabited

inductive Align | none | left | center | right
  deriving Repr, DecidableEq, Inhabited

inductive AlertType | note | tip | important | warning | caution
  deriving Repr, DecidableEq, Inhabited

inductive NodeValue where
  | document
  | frontMatter (s : Bytes)
  | blockQuote
  | list (l : NList)
  | item (l : NList)
  | descriptionList
  | descriptionItem (markerOffset padding : Nat) (tight : Bool)
  | descriptionTerm
  | descriptionDetails
  | codeBlock (fenced : Bool) (fenceChar : UInt8) (fenceLength fenceOffset : Nat) (info literal : Bytes)
  | htmlBlock (blockType : Nat) (literal : Bytes)
  | paragraph
  | heading (level : Nat) (setext : Bool)
  | thematicBreak
  | footnoteDefinition (name : Bytes) (totalReferences : Nat)
  | table (aligns : List Align) (numColumns numRows numNonempty : Nat)
  | tableRow (header : Bool)
  | tableCell
  | text (s : Bytes)
  | taskItem (symbol : Option Bytes)
  | softBreak
  | lineBreak
  | code (numBackticks : Nat) (literal : Bytes)
  | htmlInline (s : Bytes)
  | raw (s : Bytes)
  | emph
  | strong
  | strikethrough
  | superscript
  | link (url title : Bytes)
  | image (url title : Bytes)
  | footnoteReference (name : Bytes) (refNum ix : Nat)
  | math (dollar display : Bool) (literal : Bytes)
  | multilineBlockQuote (fenceLength fenceOffset : Nat)
  | escaped
  | wikiLink (url : Bytes)
  | underline
  | subscript
  | spoileredText
  | escapedTag (s : Bytes)
  | alert (ty : AlertType) (title : Option Bytes) (multiline : Bool) (fenceLength fenceOffset : Nat)
  deriving Repr, DecidableEq, Inhabited

/-- Payload-free tag of a node value (41 kinds). -/
inductive Kind where
  | document | frontMatter | blockQuote | list | item | descriptionList | descriptionItem
  | descriptionTerm | descriptionDetails | codeBlock | htmlBlock | paragraph | heading
  | thematicBreak | footnoteDefinition | table | tableRow | tableCell | text | taskItem
  | softBreak | lineBreak | code | htmlInline | raw | emph | strong | strikethrough
  | superscript | link | image | footnoteReference | math | multilineBlockQuote | escaped
  | wikiLink | underline | subscript | spoileredText | escapedTag | alert
  deriving Repr, DecidableEq, Inhabited

def NodeValue.kind : NodeValue → Kind
  | .document => .document | .frontMatter _ => .frontMatter | .blockQuote => .blockQuote
  | .list _ => .list | .item _ => .item | .descriptionList => .descriptionList
  | .descriptionItem .. => .descriptionItem | .descriptionTerm => .descriptionTerm
  | .descriptionDetails => .descriptionDetails | .codeBlock .. => .codeBlock
  | .htmlBlock .. => .htmlBlock | .paragraph => .paragraph | .heading .. => .heading
  | .thematicBreak => .thematicBreak | .footnoteDefinition .. => .footnoteDefinition
  | .table .. => .table | .tableRow _ => .tableRow | .tableCell => .tableCell | .text _ => .text
  | .taskItem _ => .taskItem | .softBreak => .softBreak | .lineBreak => .lineBreak
  | .code .. => .code | .htmlInline _ => .htmlInline | .raw _ => .raw | .emph => .emph
  | .strong => .strong | .strikethrough => .strikethrough | .superscript => .superscript
  | .link .. => .link | .image .. => .image | .footnoteReference .. => .footnoteReference
  | .math .. => .math | .multilineBlockQuote .. => .multilineBlockQuote | .escaped => .escaped
  | .wikiLink _ => .wikiLink | .underline => .underline | .subscript => .subscript
  | .spoileredText => .spoileredText | .escapedTag _ => .escapedTag | .alert .. => .alert

def Kind.all : List Kind :=
  [.document, .frontMatter, .blockQuote, .list, .item, .descriptionList, .descriptionItem,
   .descriptionTerm, .descriptionDetails, .codeBlock, .htmlBlock, .paragraph, .heading,
   .thematicBreak, .footnoteDefinition, .table, .tableRow, .tableCell, .text, .taskItem,
   .softBreak, .lineBreak, .code, .htmlInline, .raw, .emph, .strong, .strikethrough,
   .superscript, .link, .image, .footnoteReference, .math, .multilineBlockQuote, .escaped,
   .wikiLink, .underline, .subscript, .spoileredText, .escapedTag, .alert]

/-- `NodeValue::block()`. -/
def Kind.isBlock : Kind → Bool
  | .document | .blockQuote | .footnoteDefinition | .list | .descriptionList | .descriptionItem
  | .descriptionTerm | .descriptionDetails | .item | .codeBlock | .htmlBlock | .paragraph
  | .heading | .thematicBreak | .table | .tableRow | .tableCell | .taskItem
  | .multilineBlockQuote | .alert => true
  | _ => false

mutual
inductive Tree where
  | node (v : NodeValue) (sp : Sp) (cs : Forest)
inductive Forest where
  | nil
  | cons (t : Tree) (ts : Forest)
end

instance : Inhabited Tree := ⟨.node .document {} .nil⟩
instance : Inhabited Forest := ⟨.nil⟩

def Tree.value : Tree → NodeValue | .node v _ _ => v
def Tree.sp : Tree → Sp | .node _ sp _ => sp
def Tree.children : Tree → Forest | .node _ _ cs => cs

def Forest.toList : Forest → List Tree
  | .nil => []
  | .cons t ts => t :: ts.toList

def Forest.ofList : List Tree → Forest
  | [] => .nil
  | t :: ts => .cons t (Forest.ofList ts)

def Forest.length : Forest → Nat
  | .nil => 0
  | .cons _ ts => ts.length + 1

def Forest.isNil : Forest → Bool
  | .nil => true
  | .cons .. => false

def Forest.append : Forest → Forest → Forest
  | .nil, g => g
  | .cons t ts, g => .cons t (ts.append g)

mutual
def Tree.size : Tree → Nat
  | .node _ _ cs => cs.size + 1
def Forest.size : Forest → Nat
  | .nil => 0
  | .cons t ts => t.size + ts.size
end

/-! ## Wire format

One request line carries a tree as space-separated tokens:
`N <kind> <sl> <sc> <el> <ec> <fields...>` opens a node (the number of fields is fixed per
kind), its children follow, `E` closes it.  Bytes are hex (`-` = empty), numbers decimal,
Booleans `0`/`1`. -/

namespace Wire

def nat? (s : String) : Option Nat := s.toNat?
def bool? (s : String) : Option Bool := if s == "1" then some true else if s == "0" then some false else none
def hex? (s : String) : Option Bytes := ofHex? s

def aligns? (s : String) : Option (List Align) :=
  if s == "-" then some [] else
  s.toList.mapM fun c =>
    if c == 'n' then some Align.none else if c == 'l' then some Align.left
    else if c == 'c' then some Align.center else if c == 'r' then some Align.right else none

def nlist? : List String → Option NList
  | [ty, mo, pd, st, dl, bc, tg, tk] => do
    let ty ← nat? ty; let mo ← nat? mo; let pd ← nat? pd; let st ← nat? st
    let dl ← nat? dl; let bc ← nat? bc; let tg ← bool? tg; let tk ← bool? tk
    pure { ty := if ty == 0 then .bullet else .ordered, markerOffset := mo, padding := pd, start := st,
           delim := if dl == 0 then .period else .paren, bulletChar := UInt8.ofNat bc, tight := tg, isTaskList := tk }
  | _ => none

def alertType? (s : String) : Option AlertType :=
  match s with
  | "0" => some .note | "1" => some .tip | "2" => some .important
  | "3" => some .warning | "4" => some .caution | _ => none

/-- Number of payload fields per kind name. -/
def arity (k : String) : Option Nat :=
  match k with
  | "document" | "block_quote" | "description_list" | "description_term" | "description_details"
  | "paragraph" | "thematic_break" | "table_cell" | "softbreak" | "linebreak" | "emph" | "strong"
  | "strikethrough" | "superscript" | "escaped" | "underline" | "subscript" | "spoiler" => some 0
  | "frontmatter" | "table_row" | "text" | "html_inline" | "raw" | "wikilink" | "escaped_tag" => some 1
  | "list" | "item" => some 8
  | "description_item" => some 3
  | "code_block" => some 6
  | "html_block" | "heading" | "footnote_definition" | "taskitem" | "code" | "link" | "image"
  | "multiline_block_quote" => some 2
  | "table" => some 4
  | "footnote_reference" | "math" => some 3
  | "alert" => some 6
  | _ => none

def value? (k : String) (f : List String) : Option NodeValue :=
  match k, f with
  | "document", [] => some .document
  | "frontmatter", [s] => do pure (.frontMatter (← hex? s))
  | "block_quote", [] => some .blockQuote
  | "list", f => do pure (.list (← nlist? f))
  | "item", f => do pure (.item (← nlist? f))
  | "description_list", [] => some .descriptionList
  | "description_item", [a, b, c] => do pure (.descriptionItem (← nat? a) (← nat? b) (← bool? c))
  | "description_term", [] => some .descriptionTerm
  | "description_details", [] => some .descriptionDetails
  | "code_block", [a, b, c, d, e, g] => do
    pure (.codeBlock (← bool? a) (UInt8.ofNat (← nat? b)) (← nat? c) (← nat? d) (← hex? e) (← hex? g))
  | "html_block", [a, b] => do pure (.htmlBlock (← nat? a) (← hex? b))
  | "paragraph", [] => some .paragraph
  | "heading", [a, b] => do pure (.heading (← nat? a) (← bool? b))
  | "thematic_break", [] => some .thematicBreak
  | "footnote_definition", [a, b] => do pure (.footnoteDefinition (← hex? a) (← nat? b))
  | "table", [a, b, c, d] => do pure (.table (← aligns? d) (← nat? a) (← nat? b) (← nat? c))
  | "table_row", [a] => do pure (.tableRow (← bool? a))
  | "table_cell", [] => some .tableCell
  | "text", [s] => do pure (.text (← hex? s))
  | "taskitem", [a, b] => do
    let has ← bool? a; let s ← hex? b
    pure (.taskItem (if has then some s else none))
  | "softbreak", [] => some .softBreak
  | "linebreak", [] => some .lineBreak
  | "code", [a, b] => do pure (.code (← nat? a) (← hex? b))
  | "html_inline", [s] => do pure (.htmlInline (← hex? s))
  | "raw", [s] => do pure (.raw (← hex? s))
  | "emph", [] => some .emph
  | "strong", [] => some .strong
  | "strikethrough", [] => some .strikethrough
  | "superscript", [] => some .superscript
  | "link", [a, b] => do pure (.link (← hex? a) (← hex? b))
  | "image", [a, b] => do pure (.image (← hex? a) (← hex? b))
  | "footnote_reference", [a, b, c] => do pure (.footnoteReference (← hex? a) (← nat? b) (← nat? c))
  | "math", [a, b, c] => do pure (.math (← bool? a) (← bool? b) (← hex? c))
  | "multiline_block_quote", [a, b] => do pure (.multilineBlockQuote (← nat? a) (← nat? b))
  | "escaped", [] => some .escaped
  | "wikilink", [s] => do pure (.wikiLink (← hex? s))
  | "underline", [] => some .underline
  | "subscript", [] => some .subscript
  | "spoiler", [] => some .spoileredText
  | "escaped_tag", [s] => do pure (.escapedTag (← hex? s))
  | "alert", [a, b, c, d, e, g] => do
    let has ← bool? b; let t ← hex? c
    pure (.alert (← alertType? a) (if has then some t else none) (← bool? d) (← nat? e) (← nat? g))
  | _, _ => none

/-- Parses a forest from the token stream; stops at the matching `E` (not consumed) or at the end. -/
def forest? : Nat → List String → Option (Forest × List String)
  | 0, _ => none
  | fuel + 1, toks =>
    match toks with
    | "N" :: k :: sl :: sc :: el :: ec :: rest => do
      let n ← arity k
      let v ← value? k (rest.take n)
      let sp : Sp := { sl := ← nat? sl, sc := ← nat? sc, el := ← nat? el, ec := ← nat? ec }
      let (cs, rest1) ← forest? fuel (rest.drop n)
      match rest1 with
      | "E" :: rest2 =>
        let (sibs, rest3) ← forest? fuel rest2
        pure (.cons (.node v sp cs) sibs, rest3)
      | _ => none
    | _ => some (.nil, toks)

/-- A single tree followed by the remaining tokens. -/
def tree? (toks : List String) : Option (Tree × List String) :=
  match forest? (toks.length + 1) toks with
  | some (.cons t .nil, rest) => some (t, rest)
  | _ => none

end Wire
end Comrak
