/-
Model of the CommonMark formatter (src/cm.rs): the pure helpers (`longest_char_sequence`,
`shortest_unused_sequence`, the escape decision of `outc`, code-span padding, fence choice,
`table_escape`), the line-assembly state machine (`output`, `outc`, `cr`, `blankline`) and
`format_node` for every node kind, giving `renderCm : CmOpts → Tree → Bytes`.

The output buffer `v` is kept reversed (`rv`, most recent byte first): pushes are conses, "the
last byte" is the head, and `v[k]` for `k` counted from the end is an index into `rv`.
The recursive `renderT`/`renderF` stand for comrak's explicit work-stack traversal.
Core Lean only.
-/
import Comrak.Ast
namespace Comrak.Cm
open Comrak Bytes

/-! ## ctype classes used by cm.rs -/

/-- `ctype::ispunct` (class 2 of `CMARK_CTYPE_CLASS`). -/
def isPunct (c : UInt8) : Bool :=
  (0x21 ≤ c && c ≤ 0x2F) || (0x3A ≤ c && c ≤ 0x40) || (0x5B ≤ c && c ≤ 0x60) || (0x7B ≤ c && c ≤ 0x7E)

/-! ## (i) pure helpers -/

/-- Loop of `longest_char_sequence`: `cur` = current run, `lon` = longest closed run so far. -/
def longestAux (ch : UInt8) : Bytes → Nat → Nat → Nat
  | [], cur, lon => if cur > lon then cur else lon
  | c :: r, cur, lon =>
    if c == ch then longestAux ch r (cur + 1) lon
    else longestAux ch r 0 (if cur > lon then cur else lon)

/-- `longest_char_sequence(literal, ch)`. -/
def longestCharSequence (lit : Bytes) (ch : UInt8) : Nat := longestAux ch lit 0 0

/-- Lengths of the maximal runs of `ch` in `lit`, in order (`cur` = length of the run being read). -/
def runsAux (ch : UInt8) : Bytes → Nat → List Nat
  | [], cur => if cur > 0 then [cur] else []
  | c :: r, cur =>
    if c == ch then runsAux ch r (cur + 1)
    else if cur > 0 then cur :: runsAux ch r 0 else runsAux ch r 0

def runs (ch : UInt8) (lit : Bytes) : List Nat := runsAux ch lit 0

/-- Scanning loop of `shortest_unused_sequence`: the set `used` (the `u32` bit set; bit `n` set
    iff `n ∈ used`), only run lengths in `1..31` are recorded. -/
def usedAux (ch : UInt8) : Bytes → Nat → List Nat → List Nat
  | [], cur, used => if cur > 0 && cur < 32 then cur :: used else used
  | c :: r, cur, used =>
    if c == ch then usedAux ch r (cur + 1) used
    else usedAux ch r 0 (if cur > 0 && cur < 32 then cur :: used else used)

/-- `while i < 32 && used & 1 != 0 { used >>= 1; i += 1 }` (bit 0 is always set). -/
def firstUnused (used : List Nat) : Nat → Nat → Nat
  | 0, i => i
  | fuel + 1, i => if i < 32 && (i == 0 || used.contains i) then firstUnused used fuel (i + 1) else i

/-- `shortest_unused_sequence(literal, f)` (the repaired version: `u32` set, runs ≥ 32 ignored,
    result capped at 32). -/
def shortestUnusedSequence (lit : Bytes) (ch : UInt8) : Nat := firstUnused (usedAux ch lit 0 []) 33 0

inductive Esc | literal | normal | url | title
  deriving Repr, DecidableEq, Inhabited

/-- The `needs_escaping` decision of `outc` as a pure function. -/
def needsEscape (c : UInt8) (esc : Esc) (beginContent followsDigit : Bool) (nextc : UInt8) : Bool :=
  c < 0x80 && esc != .literal &&
  ((esc == .normal &&
      (c < 0x20 || c == 0x2A || c == 0x5F || c == 0x5B || c == 0x5D || c == 0x23 || c == 0x3C || c == 0x3E
        || c == 0x5C || c == 0x60 || c == 0x21 || (c == 0x26 && isAsciiAlpha nextc) || (c == 0x21 && nextc == 0x5B)
        || (beginContent && (c == 0x2D || c == 0x2B || c == 0x3D) && !followsDigit)
        || (beginContent && (c == 0x2E || c == 0x29) && followsDigit && (nextc == 0 || isSpace nextc))))
   || (esc == .url && (c == 0x60 || c == 0x3C || c == 0x3E || isSpace c || c == 0x5C || c == 0x29 || c == 0x28))
   || (esc == .title && (c == 0x60 || c == 0x3C || c == 0x3E || c == 0x22 || c == 0x5C)))

/-- `format!("%{:02X}", c)`: `%` and two upper-case hex digits. -/
def pct2X (c : UInt8) : Bytes :=
  [0x25, hexDigit (c >>> 4), hexDigit (c &&& 0xF)]

/-- What `outc` appends for one byte when its own nested write does not meet a line start
    (the general case is `outc` below). -/
def outcBytes (c : UInt8) (esc : Esc) (beginContent followsDigit : Bool) (nextc : UInt8) : Bytes :=
  if needsEscape c esc beginContent followsDigit nextc then
    if esc == .url && isSpace c then pct2X c
    else if isPunct c then [0x5C, c]
    else [0x26, 0x23] ++ ofNatDec c.toNat ++ [0x3B]
  else [c]

/-- Padding decision of `format_code` (non-empty literal). -/
def codePad (lit : Bytes) : Bool :=
  let allSpace := lit.all fun c => c == 0x20 || c == 0x0D || c == 0x0A
  let edgeSpace := lit.head? == some 0x20 || lit.getLast? == some 0x20
  let edgeTick := lit.head? == some 0x60 || lit.getLast? == some 0x60
  lit.isEmpty || edgeTick || (!allSpace && edgeSpace)

/-- The code span `format_code` writes when nothing wraps. -/
def codeSpan (lit : Bytes) : Bytes :=
  let n := shortestUnusedSequence lit 0x60
  let pad : Bytes := if codePad lit then [0x20] else []
  List.replicate n 0x60 ++ pad ++ lit ++ pad ++ List.replicate n 0x60

/-- Fence character of `format_code_block`. -/
def fenceChar (info : Bytes) : UInt8 := if info.contains 0x60 then 0x7E else 0x60
/-- Fence length: `max(3, longest run + 1)`. -/
def fenceLen (info lit : Bytes) : Nat := max 3 (longestCharSequence lit (fenceChar info) + 1)

/-- Does `format_code_block` write an indented block (as opposed to a fenced one)? -/
def codeIndented (preferFenced firstInItem : Bool) (info lit : Bytes) : Bool :=
  !(info.length > 0 || lit.length ≤ 2 || (match lit.head? with | some c => isSpace c | none => false)
    || firstInItem || preferFenced
    || ((match lit.getLast? with | some c => isSpace c | none => false) &&
        (match lit.dropLast.getLast? with | some c => isSpace c | none => false)))

/-- `table_escape(node, c)`: inside a table every `|` written for a node other than the table,
    its rows and cells is preceded by a backslash. -/
def tableEscape (k : Kind) (c : UInt8) : Bool :=
  match k with
  | .table | .tableRow | .tableCell => false
  | _ => c == 0x7C

/-- `scanners::scheme(s).is_some()`: `[A-Za-z][A-Za-z0-9.+-]{1,31}:` at the start. -/
def schemeChar (c : UInt8) : Bool := isAsciiAlnum c || c == 0x2E || c == 0x2B || c == 0x2D
def hasScheme : Bytes → Bool
  | [] => false
  | c :: r =>
    isAsciiAlpha c &&
      (let run := r.takeWhile schemeChar
       1 ≤ run.length && run.length ≤ 31 && (r.drop run.length).head? == some 0x3A)

def mailto : Bytes := [0x6D, 0x61, 0x69, 0x6C, 0x74, 0x6F, 0x3A]
/-- `trim_start_match(url, "mailto:")`. -/
def trimMailto (url : Bytes) : Bytes := if isPrefixB mailto url then url.drop 7 else url

/-! ## (ii) the line-assembly state machine -/

structure CmOpts where
  width : Nat := 0
  olWidth : Nat := 0
  listStyle : UInt8 := 0x2D
  preferFenced : Bool := false
  hardbreaks : Bool := false
  /-- `extension.wikilinks()`: 0 none, 1 url first (title after pipe), 2 title first -/
  wikilinks : Nat := 0
  deriving Repr, DecidableEq, Inhabited

structure St where
  rv : Bytes := []
  prefix_ : Bytes := []
  column : Nat := 0
  needCr : Nat := 0
  lastBreakable : Nat := 0
  beginLine : Bool := true
  beginContent : Bool := true
  noLinebreaks : Bool := false
  inTight : Bool := false
  customEscape : Bool := false
  olStack : List Nat := []
  deriving Repr, DecidableEq, Inhabited

/-- `cr()`. -/
def St.cr (st : St) : St := { st with needCr := max st.needCr 1 }
/-- `blankline()`. -/
def St.blankline (st : St) : St := { st with needCr := max st.needCr 2 }

/-- The pending-newline loop at the head of `output`: `rv0` is the buffer at loop entry, `j` how
    far the scan `k` has moved back from its end. -/
def crLoop (rv0 pfx : Bytes) : Nat → Nat → Bytes → Bytes
  | 0, _, rv => rv
  | n + 1, j, rv =>
    match rv0[j]? with
    | none => crLoop rv0 pfx n (j + 1) rv
    | some c =>
      if c == 0x0A then crLoop rv0 pfx n (j + 1) rv
      else crLoop rv0 pfx n j ((if n + 1 > 1 then pfx.reverse else []) ++ 0x0A :: rv)

def crFlush (st : St) : St :=
  let need := if st.inTight && st.needCr > 1 then 1 else st.needCr
  if need == 0 then { st with needCr := 0 }
  else { st with rv := crLoop st.rv st.prefix_ need 0 st.rv, column := 0, lastBreakable := 0,
                 beginLine := true, beginContent := true, needCr := 0 }

/-- Line-start prefix and the table `custom_escape` for one byte. -/
def pre (escPipe : Bool) (st : St) (c : UInt8) : St :=
  let st := if st.beginLine then { st with rv := st.prefix_.reverse ++ st.rv, column := st.prefix_.length } else st
  if escPipe && c == 0x7C then { st with rv := 0x5C :: st.rv } else st

/-- The re-wrap at the last breakable space once the column passes `width`. -/
def wrapCheck (o : CmOpts) (st : St) : St :=
  if o.width > 0 && st.column > o.width && !st.beginLine && st.lastBreakable > 0 then
    let len := st.rv.length
    let remRev := st.rv.take (len - st.lastBreakable - 1)
    { st with rv := remRev ++ st.prefix_.reverse ++ 0x0A :: st.rv.drop (len - st.lastBreakable),
              column := st.prefix_.length + remRev.length, lastBreakable := 0,
              beginLine := false, beginContent := false }
  else st

def litByte (st : St) (c : UInt8) : St :=
  if c == 0x0A then { st with rv := 0x0A :: st.rv, column := 0, beginLine := true, beginContent := true, lastBreakable := 0 }
  else { st with rv := c :: st.rv, column := st.column + 1, beginLine := false,
                 beginContent := st.beginContent && isAsciiDigit c }

/-- `output(buf, false, Literal)` after the pending newlines were flushed. -/
def outLitLoop (o : CmOpts) (escPipe : Bool) : St → Bytes → St
  | st, [] => st
  | st, c :: r => outLitLoop o escPipe (wrapCheck o (litByte (pre escPipe st c) c)) r

/-- `outc`. -/
def outc (o : CmOpts) (escPipe : Bool) (st : St) (c : UInt8) (esc : Esc) (nextc : Option UInt8) : St :=
  let followsDigit := match st.rv with | [] => false | b :: _ => isAsciiDigit b
  let nx := nextc.getD 0
  if needsEscape c esc st.beginContent followsDigit nx then
    if esc == .url && isSpace c then { st with rv := (pct2X c).reverse ++ st.rv, column := st.column + 3 }
    else if isPunct c then { st with rv := c :: 0x5C :: st.rv, column := st.column + 2 }
    else
      let s : Bytes := [0x26, 0x23] ++ ofNatDec c.toNat ++ [0x3B]
      -- `self.write_all(s)`: a nested literal `output` (no newline is pending at this point)
      let st' := outLitLoop o escPipe st s
      { st' with column := st'.column + s.length }
  else { st with rv := c :: st.rv, column := st.column + 1 }

/-- The byte loop of `output`. -/
def outLoop (o : CmOpts) (escPipe wrap : Bool) (esc : Esc) : Nat → St → Bytes → St
  | 0, st, _ => st
  | _, st, [] => st
  | f + 1, st, c :: r =>
    let st1 := pre escPipe st c
    if c == 0x20 && wrap then
      if !st1.beginLine then
        let lastNonspace := st1.rv.length
        let st2 := { st1 with rv := 0x20 :: st1.rv, column := st1.column + 1, beginLine := false, beginContent := false }
        let r' := r.dropWhile (· == 0x20)
        let nextDigit := match r'.head? with | some d => isAsciiDigit d | none => false
        let st3 := if nextDigit then st2 else { st2 with lastBreakable := lastNonspace }
        outLoop o escPipe wrap esc f (wrapCheck o st3) r'
      else outLoop o escPipe wrap esc f (wrapCheck o st1) r
    else if esc == .literal then outLoop o escPipe wrap esc f (wrapCheck o (litByte st1 c)) r
    else
      let st2 := outc o escPipe st1 c esc r.head?
      outLoop o escPipe wrap esc f
        (wrapCheck o { st2 with beginLine := false, beginContent := st2.beginContent && isAsciiDigit c }) r

/-- `output(buf, wrap, escaping)`. -/
def output (o : CmOpts) (escPipe : Bool) (st : St) (buf : Bytes) (wrap : Bool) (esc : Esc) : St :=
  let wrap := wrap && !st.noLinebreaks
  outLoop o escPipe wrap esc (buf.length + 1) (crFlush st) buf

/-- `write!(self, ..)` / `write_all`: a literal, unwrapped `output` (an empty write never reaches `output`). -/
def wr (o : CmOpts) (escPipe : Bool) (bs : Bytes) (st : St) : St :=
  if bs.isEmpty then st else output o escPipe st bs false .literal

/-! ## (iii) `format_node` -/

/-- Where a node sits. -/
structure Ctx where
  parent : Option NodeValue := none
  grand : Option NodeValue := none
  hasPrev : Bool := false
  next : Option NodeValue := none
  deriving Inhabited

def isItemV : Option NodeValue → Bool
  | some (.item _) | some (.taskItem _) => true
  | _ => false

def grandTight (cx : Ctx) : Bool := match cx.grand with | some (.list l) => l.tight | _ => false

def spaces (n : Nat) : Bytes := List.replicate n 0x20

/-- The ordered-list marker `format_item` builds from the current number. -/
def olMarker (o : CmOpts) (n : Nat) (delim : ListDelim) : Bytes :=
  let m := ofNatDec n ++ [if delim == .paren then 0x29 else 0x2E, 0x20]
  m ++ spaces (o.olWidth - m.length)

/-- `is_autolink(node, nl)`. -/
def isAutolink (url title : Bytes) (cs : Forest) : Bool :=
  !url.isEmpty && hasScheme url && title.isEmpty &&
  (match cs with
   | .cons (.node (.text t) _ _) _ => trimMailto url == t
   | _ => false)

def alignCell : Align → Bytes
  | .left => [0x3A, 0x2D, 0x2D] | .center => [0x3A, 0x2D, 0x3A] | .right => [0x2D, 0x2D, 0x3A] | .none => [0x2D, 0x2D, 0x2D]

def alertName : AlertType → Bytes
  | .note => [0x4E, 0x4F, 0x54, 0x45] | .tip => [0x54, 0x49, 0x50]
  | .important => [0x49, 0x4D, 0x50, 0x4F, 0x52, 0x54, 0x41, 0x4E, 0x54]
  | .warning => [0x57, 0x41, 0x52, 0x4E, 0x49, 0x4E, 0x47] | .caution => [0x43, 0x41, 0x55, 0x54, 0x49, 0x4F, 0x4E]

def truncPrefix (st : St) (n : Nat) : St :=
  -- `self.prefix.len() - n` wraps in release builds when the prefix is shorter (then `truncate` is a no-op)
  if st.prefix_.length ≥ n then { st with prefix_ := st.prefix_.take (st.prefix_.length - n) } else st

/-- `format_item` (shared with `format_task_item`): `ownStart` is the number used when no ordered
    list is open. -/
def fmtItem (o : CmOpts) (ep : Bool) (pl : NList) (ownStart : Nat) (entering : Bool) (st : St) : St :=
  let number := match st.olStack with | n :: _ => (if entering then n else n - 1) | [] => ownStart
  let st := if pl.ty == .ordered && entering then
      (match st.olStack with | n :: r => { st with olStack := (n + 1) :: r } | [] => st) else st
  let marker := olMarker o number pl.delim
  let mw := if pl.ty == .bullet then 2 else marker.length
  if entering then
    let st := if pl.ty == .bullet then wr o ep [o.listStyle, 0x20] st else wr o ep marker st
    { st with beginContent := true, prefix_ := st.prefix_ ++ spaces mw }
  else
    ({ st with prefix_ := st.prefix_.take (if st.prefix_.length > mw then st.prefix_.length - mw else 0) }).cr

/-- `format_front_matter` after the payload: a lone CR at its end ends a line just as LF does
    (repaired in /repo: the writer's line state was reset only after LF). -/
def fmEnd (fm : Bytes) (st : St) : St :=
  if fm.getLast? == some 0x0D then
    { st with column := 0, beginLine := true, beginContent := true, lastBreakable := 0 }
  else st

def isBlockV (v : NodeValue) : Bool := v.kind.isBlock

/-- The `entering = true` call of `format_node`; the Boolean is its return value (descend?). -/
def enter (o : CmOpts) (cx : Ctx) (v : NodeValue) (cs : Forest) (st0 : St) : St × Bool :=
  let allowWrap := o.width > 0 && !o.hardbreaks
  let st := if isItemV cx.parent then
      { st0 with inTight := (match v with | .item _ | .taskItem _ => false | _ => grandTight cx) } else st0
  let ep := st.customEscape && !(match v with | .table .. | .tableRow _ | .tableCell => true | _ => false)
  let w := wr o ep
  match v with
  | .document => (st, true)
  | .frontMatter fm => (fmEnd fm (output o ep st fm false .literal), true)
  | .blockQuote | .multilineBlockQuote .. =>
    let st := w [0x3E, 0x20] st
    ({ st with beginContent := true, prefix_ := st.prefix_ ++ [0x3E, 0x20] }, true)
  | .list l => (if l.ty == .ordered then { st with olStack := l.start :: st.olStack } else st, true)
  | .item l =>
    (match cx.parent with
     | some (.list pl) => fmtItem o ep pl l.start true st
     | _ => st, true)
  | .taskItem sym =>
    (match cx.parent with
     | some (.list pl) =>
       let st := fmtItem o ep pl pl.start true st
       w ([0x5B] ++ (sym.getD [0x20]) ++ [0x5D, 0x20]) st
     | _ => st, true)
  | .descriptionList | .descriptionItem .. | .descriptionTerm => (st, true)
  | .descriptionDetails => (w [0x3A, 0x20] st, true)
  | .heading level _ =>
    let st := w (List.replicate level 0x23) st
    let st := w [0x20] st
    ({ st with beginContent := true, noLinebreaks := true }, true)
  | .codeBlock _ _ _ _ info lit =>
    let firstInItem := !cx.hasPrev && isItemV cx.parent
    let st := if firstInItem then st else st.blankline
    let st :=
      if codeIndented o.preferFenced firstInItem info lit then
        let st := w (spaces 4) st
        let st := { st with prefix_ := st.prefix_ ++ spaces 4 }
        let st := w lit st
        truncPrefix st 4
      else
        let fc := fenceChar info
        let n := fenceLen info lit
        let st := w (List.replicate n fc) st
        let st := if info.isEmpty then st else w info (w [0x20] st)
        let st := st.cr
        let st := w lit st
        let st := st.cr
        w (List.replicate n fc) st
    (st.blankline, true)
  | .htmlBlock _ lit => ((w lit st.blankline).blankline, true)
  | .thematicBreak => ((w [0x2D, 0x2D, 0x2D, 0x2D, 0x2D] st.blankline).blankline, true)
  | .paragraph => (st, true)
  | .text lit => (output o ep st lit allowWrap .normal, true)
  | .lineBreak =>
    let nextIsBlock := match cx.next with | none => true | some n => isBlockV n
    let st := if !o.hardbreaks && !nextIsBlock then w [0x5C] st else st
    (st.cr, true)
  | .softBreak =>
    (if !st.noLinebreaks && o.width == 0 && !o.hardbreaks then st.cr
     else if o.hardbreaks then output o ep st [0x0A] allowWrap .literal
     else output o ep st [0x20] allowWrap .literal, true)
  | .code _ lit =>
    let n := shortestUnusedSequence lit 0x60
    let st := w (List.replicate n 0x60) st
    let pad := codePad lit
    let st := if pad then w [0x20] st else st
    let st := output o ep st lit allowWrap .literal
    let st := if pad then w [0x20] st else st
    (w (List.replicate n 0x60) st, true)
  | .htmlInline lit => (w lit st, true)
  | .raw lit => (w lit st, true)
  | .strong => (match cx.parent with | some .strong => st | _ => w [0x2A, 0x2A] st, true)
  | .emph =>
    let d : UInt8 := if (match cx.parent with | some .emph => true | _ => false) && cx.next.isNone && !cx.hasPrev then 0x5F else 0x2A
    (w [d] st, true)
  | .strikethrough => (w [0x7E, 0x7E] st, true)
  | .superscript => (w [0x5E] st, true)
  | .underline => (w [0x5F, 0x5F] st, true)
  | .subscript => (w [0x7E] st, true)
  | .spoileredText => (w [0x7C, 0x7C] st, true)
  | .escapedTag s => (output o ep st s false .literal, true)
  | .escaped => (st, true)
  | .link url title =>
    if isAutolink url title cs then
      (w [0x3E] (w (trimMailto url) (w [0x3C] st)), false)
    else (w [0x5B] st, true)
  | .wikiLink url =>
    let st := w [0x5B, 0x5B] st
    (if o.wikilinks == 1 then w [0x7C] (output o ep st url false .url) else st, true)
  | .image .. => (w [0x21, 0x5B] st, true)
  | .table .. => (({ st with customEscape := true } : St).blankline, true)
  | .tableRow _ => (w [0x7C] st.cr, true)
  | .tableCell => (w [0x20] st, true)
  | .footnoteDefinition name _ =>
    let st := w ([0x5B, 0x5E] ++ name ++ [0x5D, 0x3A]) st
    let st := w [0x0A] st
    ({ st with prefix_ := st.prefix_ ++ spaces 4 }, true)
  | .footnoteReference name _ _ => (w [0x5D] (w name (w [0x5B, 0x5E] st)), true)
  | .math dollar display lit =>
    let startF : Bytes := if dollar then (if display then [0x24, 0x24] else [0x24]) else [0x24, 0x60]
    let endF : Bytes := if dollar then startF else [0x60, 0x24]
    let st := output o ep st startF false .literal
    let st := output o ep st lit allowWrap .literal
    (output o ep st endF false .literal, true)
  | .alert ty title _ _ _ =>
    let st := w ([0x3E, 0x20, 0x5B, 0x21] ++ alertName ty ++ [0x5D]) st
    let st := match title with | some t => w t (w [0x20] st) | none => st
    let st := w [0x0A] st
    let st := w [0x3E, 0x20] st
    ({ st with beginContent := true, prefix_ := st.prefix_ ++ [0x3E, 0x20] }, true)

/-- The `entering = false` call of `format_node`. -/
def exit (o : CmOpts) (cx : Ctx) (v : NodeValue) (st0 : St) : St :=
  let allowWrap := o.width > 0 && !o.hardbreaks
  let st := match v with
    | .list _ => { st0 with inTight := isItemV cx.parent && grandTight cx }
    | _ => st0
  let ep := st.customEscape && !(match v with | .table .. | .tableRow _ | .tableCell => true | _ => false)
  let w := wr o ep
  match v with
  | .blockQuote | .multilineBlockQuote .. | .alert .. => (truncPrefix st 2).blankline
  | .list l =>
    let st := if l.ty == .ordered then { st with olStack := st.olStack.drop 1 } else st
    (match cx.next with
     | some (.codeBlock ..) | some (.list _) =>
       (w [0x3C, 0x21, 0x2D, 0x2D, 0x20, 0x65, 0x6E, 0x64, 0x20, 0x6C, 0x69, 0x73, 0x74, 0x20, 0x2D, 0x2D, 0x3E] st.cr).blankline
     | _ => st)
  | .item l =>
    (match cx.parent with
     | some (.list pl) => fmtItem o ep pl l.start false st
     | _ => st)
  | .taskItem _ =>
    (match cx.parent with
     | some (.list pl) => fmtItem o ep pl pl.start false st
     | _ => st)
  | .heading .. => ({ st with noLinebreaks := false } : St).blankline
  | .paragraph => st.blankline
  | .strong => (match cx.parent with | some .strong => st | _ => w [0x2A, 0x2A] st)
  | .emph =>
    let d : UInt8 := if (match cx.parent with | some .emph => true | _ => false) && cx.next.isNone && !cx.hasPrev then 0x5F else 0x2A
    w [d] st
  | .strikethrough => w [0x7E, 0x7E] st
  | .superscript => w [0x5E] st
  | .underline => w [0x5F, 0x5F] st
  | .subscript => w [0x7E] st
  | .spoileredText => w [0x7C, 0x7C] st
  | .escapedTag s => output o ep st s false .literal
  | .link url title =>
    let st := w [0x5D, 0x28] st
    let st := output o ep st url false .url
    let st := if title.isEmpty then st else
      w [0x22] (output o ep (w [0x20, 0x22] st) title false .title)
    w [0x29] st
  | .wikiLink url =>
    let st := if o.wikilinks == 2 then output o ep (w [0x7C] st) url false .url else st
    w [0x5D, 0x5D] st
  | .image url title =>
    let st := w [0x5D, 0x28] st
    let st := output o ep st url false .url
    let st := if title.isEmpty then st else
      w [0x22] (output o ep (output o ep st [0x20, 0x22] allowWrap .literal) title false .title)
    w [0x29] st
  | .table .. => ({ st with customEscape := false } : St).blankline
  | .tableCell =>
    let st := w [0x20, 0x7C] st
    let inHeader := match cx.parent with | some (.tableRow h) => h | _ => false
    if inHeader && cx.next.isNone then
      let aligns := match cx.grand with | some (.table a ..) => a | _ => []
      let st := w [0x7C] st.cr
      let st := aligns.foldl (fun s a => w ([0x20] ++ alignCell a ++ [0x20, 0x7C]) s) st
      st.cr
    else st
  | .footnoteDefinition .. => truncPrefix st 4
  | _ => st

mutual
def renderT (o : CmOpts) (cx : Ctx) : Tree → St → St
  | .node v _ cs => fun st =>
    let r := enter o cx v cs st
    if r.2 then exit o cx v (renderF o (some v) cx.parent false cs r.1) else r.1
def renderF (o : CmOpts) (parent grand : Option NodeValue) (hasPrev : Bool) : Forest → St → St
  | .nil => fun st => st
  | .cons t ts => fun st =>
    let next := match ts with | .cons n _ => some n.value | .nil => none
    let st1 := renderT o { parent := parent, grand := grand, hasPrev := hasPrev, next := next } t st
    renderF o parent grand true ts st1
end

/-- `format_document`: the bytes written for a tree (a final newline is added when missing;
    newlines still pending are dropped). -/
def renderCm (o : CmOpts) (t : Tree) : Bytes :=
  let st := renderT o {} t {}
  match st.rv with
  | [] => []
  | b :: _ => if b == 0x0A then st.rv.reverse else (0x0A :: st.rv).reverse

end Comrak.Cm
