/-
Positions of canonical documents, layer I: the lines of a whole document, its footnote definitions,
and the theorem for documents.
-/
import Comrak.Lemmas.CanonPosG
namespace Comrak.Canon
open Comrak Bytes

/-! ### The written lines -/

/-- The lines `Doc.write` joins. -/
def Doc.glines (d : Doc) : List Bytes :=
  let ds := d.useDefs
  joinGroups
    ([ (ds.filter (fun x => x.before)).map RefDef.line,
       d.blocks.lines false,
       (ds.filter (fun x => !x.before) ++ d.shadow).map RefDef.line ] ++
     d.writtenNotes.map fun n => [n.line])

theorem Doc.write_eq (d : Doc) : d.write = joinLines d.glines := rfl

theorem nth_append_right : ∀ (xs ys : List Bytes) (k : Nat), nth (xs ++ ys) (xs.length + k) = nth ys k
  | [], ys, k => by simp
  | x :: xs, ys, k => by
    have : (x :: xs).length + k = (xs.length + k) + 1 := by simp; omega
    rw [List.cons_append, this]
    simpa [nth] using nth_append_right xs ys k

theorem nth_beyond : ∀ (xs : List Bytes) (k : Nat), xs.length ≤ k → nth xs k = []
  | [], _, _ => by simp [nth]
  | x :: xs, 0, h => by simp at h
  | x :: xs, k + 1, h => by simpa [nth] using nth_beyond xs k (by simpa using h)

theorem nth_ne_lt (xs : List Bytes) (k : Nat) (h : nth xs k ≠ []) : k < xs.length := by
  by_cases hk : k < xs.length
  · exact hk
  · exact absurd (nth_beyond xs k (by omega)) h

/-- Where the lines of the groups after the first stand. -/
def gOff (g : List Bytes) : Nat := if g.isEmpty then 0 else g.length + 1

theorem joinGroups_head (g : List Bytes) (rest : List (List Bytes)) (k : Nat) (hk : k < g.length) :
    nth (joinGroups (g :: rest)) k = nth g k := by
  simp only [joinGroups]
  have hg : g.isEmpty = false := by cases g <;> simp at hk ⊢
  simp only [hg, Bool.false_eq_true, if_false]
  split
  · rfl
  · rw [List.append_assoc, nth_append_left _ _ k hk]

theorem joinGroups_tail (g : List Bytes) (rest : List (List Bytes)) (k : Nat) :
    nth (joinGroups (g :: rest)) (gOff g + k) = nth (joinGroups rest) k := by
  simp only [joinGroups, gOff]
  cases hg : g.isEmpty
  · simp only [Bool.false_eq_true, if_false]
    split
    · rename_i hr
      have : joinGroups rest = [] := by simpa using hr
      rw [this, nth_beyond _ _ (by omega)]; simp [nth]
    · have e : g.length + 1 + k = (g ++ [[]]).length + k := by simp
      rw [e, nth_append_right]
  · simp

theorem joinGroups_length (g : List Bytes) (rest : List (List Bytes)) :
    (joinGroups (g :: rest)).length = (if (joinGroups rest).isEmpty then g.length else gOff g + (joinGroups rest).length) := by
  simp only [joinGroups, gOff]
  cases hg : g.isEmpty
  · simp only [Bool.false_eq_true, if_false]
    split <;> simp <;> omega
  · have : g = [] := by simpa using hg
    subst this
    split <;> simp_all

/-- The footnote definitions: one line each, a blank line between two. -/
theorem notes_lines : ∀ (ns : List Note),
    (joinGroups (ns.map fun n => [n.line])).length = 2 * ns.length - 1 ∧
    (∀ j, j < ns.length → nth (joinGroups (ns.map fun n => [n.line])) (2 * j) = (ns.getD j ⟨[], 0, .nil⟩).line) ∧
    (∀ j, j + 1 < ns.length → nth (joinGroups (ns.map fun n => [n.line])) (2 * j + 1) = [])
  | [] => ⟨rfl, fun j h => by simp at h, fun j h => by simp at h⟩
  | n :: ns => by
    obtain ⟨i1, i2, i3⟩ := notes_lines ns
    have hlen := joinGroups_length [n.line] (ns.map fun n => [n.line])
    have hoff : gOff [n.line] = 2 := rfl
    refine ⟨?_, ?_, ?_⟩
    · show (joinGroups ([n.line] :: ns.map fun n => [n.line])).length = 2 * (n :: ns).length - 1
      rw [hlen]
      cases ns with
      | nil => simp [joinGroups]
      | cons m ms =>
        have : ¬ (joinGroups ((m :: ms).map fun n => [n.line])).isEmpty = true := by
          intro h
          have := List.isEmpty_iff.mp h
          have hl := i1
          rw [this] at hl
          simp only [List.length_nil, List.length_cons] at hl
          omega
        rw [if_neg this, hoff, i1]
        simp only [List.length_cons]
        omega
    · intro j hj
      cases j with
      | zero =>
        have := joinGroups_head [n.line] (ns.map fun n => [n.line]) 0 (by simp)
        simpa [nth] using this
      | succ j =>
        have := joinGroups_tail [n.line] (ns.map fun n => [n.line]) (2 * j)
        rw [hoff] at this
        have e : 2 * (j + 1) = 2 + 2 * j := by omega
        simp only [List.map_cons, e, this, List.getD_cons_succ]
        exact i2 j (by simpa using hj)
    · intro j hj
      cases j with
      | zero =>
        simp only [List.map_cons, joinGroups]
        have hne : ¬ (joinGroups (ns.map fun n => [n.line])).isEmpty = true := by
          intro h
          have := List.isEmpty_iff.mp h
          rw [this] at i1
          simp at i1 hj
          omega
        simp [hne, nth]
      | succ j =>
        have := joinGroups_tail [n.line] (ns.map fun n => [n.line]) (2 * j + 1)
        rw [hoff] at this
        have e : 2 * (j + 1) + 1 = 2 + (2 * j + 1) := by omega
        simp only [List.map_cons, e, this]
        exact i3 j (by simpa using hj)

/-- Lines that stand at the beginning of source lines. -/
theorem emb_of_nth {G : List Bytes} : ∀ (ls : List Bytes) (l : Nat), 1 ≤ l → (∀ k, k < ls.length → nth G (l - 1 + k) = nth ls k) →
    Emb G 1 l 1 ls
  | [], _, _, _ => trivial
  | x :: rest, l, hl, h => by
    refine ⟨fun hx => ?_, emb_of_nth rest (l + 1) (by omega) (fun k hk => ?_)⟩
    · have h0 := h 0 (by simp)
      simp only [Nat.add_zero, nth] at h0
      have : l - 1 < G.length := nth_ne_lt G _ (by rw [h0]; exact hx)
      exact ⟨hl, by omega, [], by simpa using h0, rfl⟩
    · have := h (k + 1) (by simpa using hk)
      simp only [nth] at this
      have e : l + 1 - 1 + k = l - 1 + (k + 1) := by omega
      rw [e]; exact this

/-! ### Lists of trees -/

theorem claimF_unfold (lt : List LineEnt) (anc prev : Option Sp) (t : Tree) (ts : Forest) :
    claimCheckF lt anc prev (.cons t ts) =
      if (match prev with
          | some p => t.value.kind.spInOrder && t.sp.sl != 0 && !spOrdered p t.sp
          | none => false) = true then some ⟨"ordered", t.value.kind, t.sp⟩
      else match claimCheckT lt anc t with
        | some f => some f
        | none => claimCheckF lt anc (if (t.value.kind.spInOrder && t.sp.sl != 0) = true then some t.sp else prev) ts := by
  simp only [claimCheckF]; rfl

theorem claimF_append {lt : List LineEnt} {anc : Option Sp} : ∀ (f g : Forest) (prev : Option Sp),
    claimCheckF lt anc prev f = none → (∀ pv, claimCheckF lt anc pv g = none) → claimCheckF lt anc prev (f.append g) = none
  | .nil, g, prev, _, hg => hg prev
  | .cons t ts, g, prev, hf, hg => by
    rw [Forest.append, claimF_unfold]
    rw [claimF_unfold] at hf
    generalize hb : (match prev with
          | some p => t.value.kind.spInOrder && t.sp.sl != 0 && !spOrdered p t.sp
          | none => false) = bad at hf ⊢
    cases bad
    · simp only [Bool.false_eq_true, if_false] at hf ⊢
      cases ht : claimCheckT lt anc t with
      | some f => simp [ht] at hf
      | none =>
        simp only [ht] at hf ⊢
        exact claimF_append ts g _ hf hg
    · simp at hf

theorem sliceF_append {lt : List LineEnt} {src : Bytes} : ∀ (f g : Forest),
    sliceCheckF lt src f = none → sliceCheckF lt src g = none → sliceCheckF lt src (f.append g) = none
  | .nil, g, _, hg => hg
  | .cons t ts, g, hf, hg => by
    simp only [sliceCheckF] at hf
    split at hf
    · cases hf
    · rename_i h1
      simp [Forest.append, sliceCheckF, h1, sliceF_append ts g hf hg]

theorem toForestThenP_eq (tail : Forest) : ∀ (bs : Blks) (l : Nat),
    bs.toForestThenP tail l = (bs.toForestP false l 1 1).append tail
  | .nil, _ => rfl
  | .cons b r, l => by
    simp only [Blks.toForestThenP, Blks.toForestP, Forest.append, Bool.false_eq_true, if_false]
    rw [toForestThenP_eq tail r]

/-! ### Footnote definitions -/

def Note.ph (n : Note) : Bool := n.body.ph && nlFree n.body.src && !n.body.src.isEmpty

section doc
variable (G : List Bytes)

local notation "LT" => lineEnts (joinLines G)
local notation "SRC" => joinLines G

theorem note_line_ne (n : Note) : n.line ≠ [] := by simp [Note.line]

/-- One footnote definition written on line `L`; `last`: nothing follows it. -/
theorem note_good (hG : cleanG G = true) (D : Sp) (n : Note) (L : Nat) (last : Bool) (hph : n.ph = true)
    (hL1 : 1 ≤ L) (hline : nth G (L - 1) = n.line) (hD1 : posLe D.sl D.sc L 1 = true)
    (hlast : last = true → posLe L n.line.length D.el D.ec = true)
    (hnl : last = false → nth G L = [] ∧ L + 1 ≤ G.length ∧ posLe (L + 1) 0 D.el D.ec = true) :
    GoodT G (some D) (n.toTreeP L last) := by
  simp only [Note.ph, Bool.and_eq_true, Bool.not_eq_true', List.isEmpty_eq_false_iff] at hph
  obtain ⟨⟨hbph, hbnl⟩, hbne⟩ := hph
  have hLG : L - 1 < G.length := nth_ne_lt G _ (by rw [hline]; exact note_line_ne n)
  have hLle : L ≤ G.length := by omega
  let P : Bytes := [0x5B, 0x5E] ++ n.name ++ [0x5D, 0x3A, 0x20]
  have hPl : P.length + 1 = n.name.length + 6 := by simp [P]
  have hl2 : nth G (L - 1) = P ++ n.body.src ++ [] := by rw [hline]; simp [Note.line, P]
  have hreg : Reg G 0 (L, n.name.length + 6) n.body.src := by
    have := reg_of_line (G := G) (c0 := 0) L hL1 hLle n.body.src P [] hl2 hbnl
    rw [hPl] at this
    exact this
  have hlinelen : n.line.length = n.name.length + 5 + n.body.src.length := by simp [Note.line]; omega
  have hd : nlFree n.body.src.dropLast = true := by
    obtain ⟨b, hb⟩ := dropLast_append_last _ hbne
    rw [hb, nlFree_append] at hbnl
    exact (Bool.and_eq_true _ _ ▸ hbnl).1
  have hpos := List.length_pos_iff.mpr hbne
  -- the span of the definition
  let S : Sp := if last then spanLines L 1 [n.line] else { sl := L, sc := 1, el := L + 1, ec := 0 }
  have hSsl : S.sl = L := by simp only [S]; split <;> rfl
  have hSsc : S.sc = 1 := by simp only [S]; split <;> rfl
  have hval : Valid G S := by
    cases hq : last
    · obtain ⟨e1, e2, e3⟩ := hnl hq
      simp only [S, hq, Bool.false_eq_true, if_false]
      refine ⟨hL1, by simp, by simpa using e2, by simp, ?_, Or.inr ⟨rfl, ?_⟩, Or.inl (by simp)⟩
      · simp
      · simp only [lenAt, Nat.add_sub_cancel, e1, List.length_nil]
    · simp only [S, hq, if_true]
      exact (span_single G hG n.line L 1 1 ⟨fun _ => ⟨hL1, hLle, [], by simpa using hline, rfl⟩, trivial⟩ (note_line_ne n)).1
  have hnest : spNested D S = true := by
    simp only [spNested, Bool.and_eq_true, hSsl, hSsc]
    refine ⟨hD1, ?_⟩
    cases hq : last
    · simp only [S, hq, Bool.false_eq_true, if_false]; exact (hnl hq).2.2
    · simp only [S, hq, if_true, spanLines]; simpa using hlast hq
  -- the paragraph
  let S' : Sp := spanOf 0 (L, n.name.length + 6) n.body.src
  have hval' := valid_of_reg hreg hbne
  have hnest' : spNested S S' = true := by
    simp only [spNested, S', spanOf, adv_nlFree 0 _ _ hd, Bool.and_eq_true, hSsl, hSsc]
    refine ⟨by simp [posLe], ?_⟩
    cases hq : last
    · simp only [S, hq, Bool.false_eq_true, if_false, posLe, Bool.or_eq_true, Bool.and_eq_true, decide_eq_true_eq]
      left; omega
    · simp only [S, hq, if_true, spanLines, posLe, List.getLastD_cons, List.getLastD_nil, hlinelen, List.length_dropLast,
        Bool.or_eq_true, Bool.and_eq_true, decide_eq_true_eq, List.length_singleton]
      right; exact ⟨by omega, by omega⟩
  obtain ⟨k1, k2⟩ := kids_good G hG n.body 0 (L, n.name.length + 6) S' hreg hbph (by simp [S', spanOf, posLe])
    (fun _ => by simp only [S', spanOf]; exact posLe_refl _ _)
  have hpara : claimCheckT LT (some S) (.node .paragraph S' (n.body.toForestP 0 (L, n.name.length + 6))) = none ∧
      sliceCheckT LT SRC (.node .paragraph S' (n.body.toForestP 0 (L, n.name.length + 6))) = none :=
    ⟨claim_node _ _ _ _ S rfl (span_sl_ne G hreg) (range_of_valid G hG _ hval') hnest' k1,
      slice_node _ _ _ _ _ (fun s _ => ⟨rfl, rfl⟩) k2⟩
  have hkids : claimCheckF LT (some S) none (.cons (.node .paragraph S' (n.body.toForestP 0 (L, n.name.length + 6))) .nil) = none :=
    claimF_cons _ _ _ _ none (by
      have := span_sl_ne G hreg
      simp [Tree.value, Tree.sp, NodeValue.kind, Kind.spInOrder, Kind.spReliable, S', this]) (fun Q h => by cases h) hpara.1 rfl
  simp only [Note.toTreeP]
  exact ⟨claim_node _ _ _ _ D rfl (by rw [hSsl]; omega) (range_of_valid G hG _ hval) hnest hkids,
    slice_node _ _ _ _ _ (fun s _ => ⟨rfl, rfl⟩) (sliceF_cons _ _ _ _ hpara.2 rfl)⟩

theorem notes_good (D : Sp) (order : List Nat) (l0 nw : Nat) : ∀ (notes : List Note) (i : Nat),
    (∀ k (hk : k < notes.length), GoodT G (some D) ((notes.getD k ⟨[], 0, .nil⟩).toTreeP (l0 + 2 * order.idxOf (i + k)) (order.idxOf (i + k) + 1 == nw))) →
    (∀ pv, claimCheckF LT (some D) pv (notesForestP order l0 nw i notes) = none) ∧
      sliceCheckF LT SRC (notesForestP order l0 nw i notes) = none
  | [], _, _ => ⟨fun _ => rfl, rfl⟩
  | n :: r, i, h => by
    have h0 := h 0 (by simp)
    simp only [Nat.add_zero, List.getD_cons_zero] at h0
    obtain ⟨i1, i2⟩ := notes_good D order l0 nw r (i + 1) (fun k hk => by
      have := h (k + 1) (by simpa using hk)
      simp only [List.getD_cons_succ] at this
      have e : i + (k + 1) = i + 1 + k := by omega
      rw [e] at this
      exact this)
    simp only [notesForestP]
    refine ⟨fun pv => ?_, sliceF_cons _ _ _ _ h0.2 i2⟩
    refine claimF_cons_skip _ _ _ _ pv ?_ h0.1 (i1 pv)
    simp [Note.toTreeP, Tree.value, NodeValue.kind, Kind.spInOrder]

end doc

end Comrak.Canon
