/-
The CommonMark writer on canonical documents, layer C: blocks.  What the writer model produces
for a block whose lines (`Blk.lines`) are written in a container with prefix `P`.
-/
import Comrak.Lemmas.CmCanonB
namespace Comrak.CmCanon
open Comrak Bytes Comrak.Cm Comrak.Canon

/-! ### Lines -/

theorem Tx_single (P x : Bytes) : Tx P [x] = x := by simp [Tx]

theorem Tx_append (P : Bytes) (A B : List Bytes) (hA : A ≠ []) :
    Tx P (A ++ B) = Tx P A ++ B.flatMap (fun q => 0x0A :: (P ++ q)) := by
  cases A with
  | nil => exact absurd rfl hA
  | cons a t => simp [Tx, List.flatMap_append]

theorem flat_cons (P p : Bytes) (t : List Bytes) :
    (p :: t).flatMap (fun q => 0x0A :: (P ++ q)) = 0x0A :: (P ++ Tx P (p :: t)) := by
  simp [Tx]

/-- Lines behind a marker: the content lines are written behind the longer prefix. -/
theorem Tx_prefixed (P pre : Bytes) (f : Bytes → Bytes) (hf : ∀ x, x ≠ [] → f x = pre ++ x) :
    ∀ (t : List Bytes), allNonempty t = true →
      (t.map f).flatMap (fun q => 0x0A :: (P ++ q)) = t.flatMap (fun q => 0x0A :: ((P ++ pre) ++ q))
  | [], _ => rfl
  | x :: t, h => by
    simp only [allNonempty, List.all_cons, Bool.and_eq_true, Bool.not_eq_true', List.isEmpty_eq_false_iff] at h
    have ih := Tx_prefixed P pre f hf t (by simpa [allNonempty] using h.2)
    simp only [List.map_cons, List.flatMap_cons, ih, hf x h.1, List.append_assoc]

theorem joinLines_Tx : ∀ (L : List Bytes), L ≠ [] → Canon.joinLines L = Tx [] L ++ [0x0A]
  | [], h => absurd rfl h
  | [x], _ => by simp [Canon.joinLines, Tx]
  | x :: y :: t, _ => by
    have ih := joinLines_Tx (y :: t) (by simp)
    simp only [Canon.joinLines, List.flatMap_cons] at ih ⊢
    rw [ih]
    simp [Tx]

theorem Tx_last (P : Bytes) : ∀ (L : List Bytes), L ≠ [] → ∃ pre, Tx P L = pre ++ L.getLastD []
  | [], h => absurd rfl h
  | [x], _ => ⟨[], by simp [Tx]⟩
  | x :: y :: t, _ => by
    obtain ⟨pre, ih⟩ := Tx_last P (y :: t) (by simp)
    refine ⟨x ++ 0x0A :: (P ++ pre), ?_⟩
    have : Tx P (x :: y :: t) = x ++ 0x0A :: (P ++ Tx P (y :: t)) := by simp [Tx]
    rw [this, ih]
    simp

/-! ### The class -/

def _root_.Comrak.Canon.Blk.isHr : Blk → Bool | .hr .. => true | _ => false
def _root_.Comrak.Canon.Blk.isList : Blk → Bool | .list .. => true | _ => false
def _root_.Comrak.Canon.Blks.headIsList : Blks → Bool | .cons b _ => b.isList | .nil => false

mutual
/-- Blocks the writer spells exactly as `Blk.lines` does. Spelling: thematic break `-----`, bullet
    `-`, `*` delimiters, backslash hard breaks (see `Inl.cmOk`). Class: paragraphs, ATX headings,
    thematic breaks (not right behind a list marker or `>`, where the writer starts a new line),
    block quotes holding one block (a list only where no tight list item encloses the quote:
    `T`, the tightness the writer is in, must be off), bullet (`-`) and ordered lists (any start
    number, `.` or `)`), with or without task markers, whose items' lines are all non-empty (no blank line inside an item: the writer puts the
    container prefix on blank lines, `Doc.write` does not), never two lists in a row (the writer
    puts `<!-- end list -->` between them). Excluded: setext headings, code blocks, HTML blocks,
    tables. -/
def _root_.Comrak.Canon.Blk.cmOk (T : Bool) : Blk → Bool
  | .para is => !is.src.isEmpty && is.cmOk true false false && allNonempty (splitNl is.src)
  | .heading lv is => decide (1 ≤ lv) && !is.src.isEmpty && is.cmOk false false false && nlFree is.src
  | .hr c n => c == 0x2D && n == 5
  | .quote bs => bs.length == 1 && (!T || !bs.headIsList) && bs.cmOk T true && allNonempty (bs.lines false)
  | .list m items => (m.ordered || m.bullet == 0x2D) && !items.isNil && items.cmOk m
  | _ => false
def _root_.Comrak.Canon.Blks.cmOk (T first : Bool) : Blks → Bool
  | .nil => true
  | .cons b r => !(first && b.isHr) && b.cmOk T && !(b.isList && r.headIsList) && r.cmOk T false
def _root_.Comrak.Canon.Items.cmOk (m : Marker) : Items → Bool
  | .nil => true
  | .cons t bs r => nlFree t.src && !bs.isNil && bs.cmOk m.tight true && allNonempty (bs.lines m.tight) && r.cmOk m
end

/-! ### Core-level facts about the state updates of `enter` / `exit` -/

/-- The state `enter` works on: a child of a list item takes over the tightness of the list. -/
def tightened (cx : Ctx) (s : Cm.St) : Cm.St :=
  if isItemV cx.parent then { s with inTight := grandTight cx } else s

theorem core_tightened (cx : Ctx) (s : Cm.St) (T : Bool) (h1 : isItemV cx.parent = true → grandTight cx = T)
    (h2 : isItemV cx.parent = false → s.inTight = T) : core (tightened cx s) = { core s with tight := T } := by
  unfold tightened
  cases hi : isItemV cx.parent
  · have := h2 hi
    simp [core, ← this]
  · have := h1 hi
    simp [core, this]

/-- What a block writes: its lines behind the lead, then two line ends pending. -/
def blkOut (a : Core) (T : Bool) (L : List Bytes) : Core :=
  { a with rv := (Tx a.pfx L).reverse ++ ({ a with tight := T } : Core).lead.reverse ++ a.rv, need := 2, bol := false, tight := T }

theorem good_tight (a : Core) (T : Bool) (g : Good a) : Good { a with tight := T } := ⟨g.ce, g.nc, g.hd⟩

theorem good_blkOut (a : Core) (T : Bool) (L : List Bytes) (g : Good a) (hL : L ≠ []) (hl : L.getLastD [] ≠ []) (hn : L.all nlFree = true) :
    Good (blkOut a T L) := by
  refine ⟨g.ce, by simp [blkOut], ?_⟩
  -- the last byte written is the last byte of the last line
  have hlast : ∃ pre b, Tx a.pfx L = pre ++ [b] ∧ b ≠ 0x0A := by
    obtain ⟨pre, hp⟩ := Tx_last a.pfx L hL
    obtain ⟨b, hb⟩ := dropLast_append_last _ hl
    have hmem : L.getLastD [] ∈ L := by
      cases L with
      | nil => exact absurd rfl hL
      | cons p t =>
        rw [List.getLastD_cons, List.getLastD_eq_getLast?]
        cases ht : t.getLast? with
        | none => simp
        | some q => simp [List.mem_of_getLast? ht]
    have hqn : nlFree (L.getLastD []) = true := List.all_eq_true.mp hn _ hmem
    rw [hb, nlFree_append] at hqn
    simp only [Bool.and_eq_true, nlFree, List.all_cons, List.all_nil, Bool.and_true, bne_iff_ne, ne_eq] at hqn
    refine ⟨pre ++ (L.getLastD []).dropLast, b, ?_, hqn.2⟩
    rw [hp]
    conv => lhs; rw [hb]
    simp
  obtain ⟨pre, b, hpb, hb⟩ := hlast
  simp only [blkOut]
  rw [hpb]
  simp [hb]


/-! ### `enter` / `exit` on the block kinds -/

theorem tightened_ce (cx : Ctx) (s : Cm.St) : (tightened cx s).customEscape = s.customEscape := by
  unfold tightened; split <;> rfl

theorem enter_para (cx : Ctx) (s : Cm.St) (cs : Forest) : enter {} cx .paragraph cs s = (tightened cx s, true) := rfl
theorem exit_para (cx : Ctx) (s : Cm.St) : exit {} cx .paragraph s = s.blankline := rfl
theorem enter_doc (cx : Ctx) (s : Cm.St) (cs : Forest) : enter {} cx .document cs s = (tightened cx s, true) := rfl
theorem exit_doc (cx : Ctx) (s : Cm.St) : exit {} cx .document s = s := rfl

theorem enter_heading (cx : Ctx) (s : Cm.St) (cs : Forest) (lv : Nat) (se : Bool) (hce : s.customEscape = false) :
    enter {} cx (.heading lv se) cs s =
      ({ wr {} false [0x20] (wr {} false (List.replicate lv 0x23) (tightened cx s)) with beginContent := true, noLinebreaks := true }, true) := by
  have h := tightened_ce cx s
  rw [hce] at h
  show ({ wr {} ((tightened cx s).customEscape && !false) [0x20] (wr {} ((tightened cx s).customEscape && !false) (List.replicate lv 0x23) (tightened cx s)) with beginContent := true, noLinebreaks := true }, true) = _
  rw [h]; rfl
theorem exit_heading (cx : Ctx) (s : Cm.St) (lv : Nat) (se : Bool) :
    exit {} cx (.heading lv se) s = ({ s with noLinebreaks := false } : Cm.St).blankline := rfl

theorem enter_hr (cx : Ctx) (s : Cm.St) (cs : Forest) (hce : s.customEscape = false) :
    enter {} cx .thematicBreak cs s = ((wr {} false [0x2D, 0x2D, 0x2D, 0x2D, 0x2D] (tightened cx s).blankline).blankline, true) := by
  have h := tightened_ce cx s
  rw [hce] at h
  show ((wr {} ((tightened cx s).customEscape && !false) [0x2D, 0x2D, 0x2D, 0x2D, 0x2D] (tightened cx s).blankline).blankline, true) = _
  rw [h]; rfl

def quoteOpen (t : Cm.St) : Cm.St := { t with beginContent := true, prefix_ := t.prefix_ ++ [0x3E, 0x20] }
theorem enter_quote (cx : Ctx) (s : Cm.St) (cs : Forest) (hce : s.customEscape = false) :
    enter {} cx .blockQuote cs s = (quoteOpen (wr {} false [0x3E, 0x20] (tightened cx s)), true) := by
  have h := tightened_ce cx s
  rw [hce] at h
  show (quoteOpen (wr {} ((tightened cx s).customEscape && !false) [0x3E, 0x20] (tightened cx s)), true) = _
  rw [h]; rfl
theorem exit_hr (cx : Ctx) (s : Cm.St) : exit {} cx .thematicBreak s = s := rfl
theorem exit_quote (cx : Ctx) (s : Cm.St) : exit {} cx .blockQuote s = (truncPrefix s 2).blankline := rfl


/-! ### Leaf blocks -/

/-- A generalisation of `blkOut`: tightness `T0` decides the lead, `T1` is left behind. -/
def blkOut2 (a : Core) (T0 T1 : Bool) (L : List Bytes) : Core :=
  { a with rv := (Tx a.pfx L).reverse ++ ({ a with tight := T0 } : Core).lead.reverse ++ a.rv, need := 2, bol := false, tight := T1 }

theorem blkOut_eq (a : Core) (T : Bool) (L : List Bytes) : blkOut a T L = blkOut2 a T T L := rfl

/-- The state after a block. -/
structure Done (a : Core) : Prop where
  good : Good a
  ne : a.rv ≠ []

theorem core_blank' (s : Cm.St) : core s.blankline = aBlank (core s) := rfl

theorem para_sim (is : Inls) (T : Bool) (h : (Blk.para is).cmOk T = true) (cx : Ctx) (s : Cm.St) (g : Good (core s))
    (hnl : s.noLinebreaks = false) (h1 : isItemV cx.parent = true → grandTight cx = T)
    (h2 : isItemV cx.parent = false → s.inTight = T) :
    core (renderT {} cx (Blk.para is).toTree s) = blkOut (core s) T (Blk.para is).lines ∧ Done (blkOut (core s) T (Blk.para is).lines) := by
  simp only [Blk.cmOk, Bool.and_eq_true, Bool.not_eq_true', List.isEmpty_eq_false_iff] at h
  obtain ⟨⟨h0, hok⟩, hall⟩ := h
  have ht := core_tightened cx s T h1 h2
  have gt : Good (core (tightened cx s)) := by rw [ht]; exact good_tight _ _ g
  have hnl' : (tightened cx s).noLinebreaks = false := by rw [← core_nolb, ht]; exact hnl
  have hsim := inls_sim is true false false hok .paragraph cx.parent false (tightened cx s) gt (fun _ => hnl') rfl
    (fun e => by cases e) (fun e => by cases e)
  have hcore : core (renderT {} cx (Blk.para is).toTree s) = aBlank (feedA is.src (core (tightened cx s))) := by
    simp only [Blk.toTree]
    rw [renderT_eq, enter_para]
    simp only [if_true]
    rw [exit_para, core_blank', hsim]
  have hcl := feedA_closed is.src _ gt h0 hall
  have heq : aBlank (feedA is.src (core (tightened cx s))) = blkOut (core s) T (Blk.para is).lines := by
    rw [hcl, ht]
    simp [aBlank, blkOut, Blk.lines]
  refine ⟨hcore.trans heq, ?_⟩
  rw [← heq]
  refine ⟨good_aBlank _ (good_feedA _ _ gt), ?_⟩
  rw [hcl]
  have : Tx (core (tightened cx s)).pfx (splitNl is.src) ≠ [] := by
    cases hs : splitNl is.src with
    | nil => exact absurd hs (splitNl_ne_nil _)
    | cons p t =>
      rw [hs] at hall
      simp only [allNonempty, List.all_cons, Bool.and_eq_true, Bool.not_eq_true', List.isEmpty_eq_false_iff] at hall
      simp [Tx, hall.1]
  simp [aBlank, this]


theorem heading_core (a : Core) (T : Bool) (x y : Bytes) (hn : a.nolb = false) :
    aBlank { aW y { aW [0x20] (aW x { a with tight := T }) with nolb := true } with nolb := false } =
      blkOut a T [x ++ [0x20] ++ y] := by
  obtain ⟨rv, pfx, need, bol, tight, nolb, ce, ol⟩ := a
  simp only at hn
  subst hn
  have h1 : (aW [0x20] (aW x ⟨rv, pfx, need, bol, T, false, ce, ol⟩)) = aW (x ++ [0x20]) ⟨rv, pfx, need, bol, T, false, ce, ol⟩ := aW_aW _ _ _
  rw [h1]
  have h2 : ({ aW (x ++ [0x20]) ⟨rv, pfx, need, bol, T, false, ce, ol⟩ with nolb := true } : Core).lead = [] :=
    lead_mid _ ⟨rfl, rfl⟩
  simp only [aW, aBlank, blkOut, Tx_single] at h2 ⊢
  rw [h2]
  simp

theorem heading_sim (lv : Nat) (is : Inls) (T : Bool) (h : (Blk.heading lv is).cmOk T = true) (cx : Ctx) (s : Cm.St) (g : Good (core s))
    (hnl : s.noLinebreaks = false) (h1 : isItemV cx.parent = true → grandTight cx = T)
    (h2 : isItemV cx.parent = false → s.inTight = T) :
    core (renderT {} cx (Blk.heading lv is).toTree s) = blkOut (core s) T (Blk.heading lv is).lines ∧
      Done (blkOut (core s) T (Blk.heading lv is).lines) := by
  simp only [Blk.cmOk, Bool.and_eq_true, Bool.not_eq_true', List.isEmpty_eq_false_iff, decide_eq_true_eq] at h
  obtain ⟨⟨⟨hlv, h0⟩, hok⟩, hnf⟩ := h
  have ht := core_tightened cx s T h1 h2
  have gt : Good (core (tightened cx s)) := by rw [ht]; exact good_tight _ _ g
  have hce : s.customEscape = false := g.ce
  have hh0 : List.replicate lv (0x23 : UInt8) ≠ [] := by
    cases lv with
    | zero => omega
    | succ n => simp [List.replicate_succ]
  have hhn : nlFree (List.replicate lv (0x23 : UInt8)) = true := by
    simp only [nlFree, List.all_eq_true, bne_iff_ne, ne_eq]
    intro b hb
    rw [List.eq_of_mem_replicate hb]; decide
  have c1 := core_wr (tightened cx s) gt _ hh0 hhn
  have g1 : Good (core (wr {} false (List.replicate lv 0x23) (tightened cx s))) := by rw [c1]; exact good_aW _ _ gt hh0 hhn
  have c2 := core_wr _ g1 [0x20] (by simp) (by decide)
  have g2 : Good (core (wr {} false [0x20] (wr {} false (List.replicate lv 0x23) (tightened cx s)))) := by
    rw [c2]; exact good_aW _ _ g1 (by simp) (by decide)
  generalize hs2 : wr {} false [0x20] (wr {} false (List.replicate lv 0x23) (tightened cx s)) = s2 at c2 g2
  have g3 : Good (core ({ s2 with beginContent := true, noLinebreaks := true } : Cm.St)) := ⟨g2.ce, g2.nc, g2.hd⟩
  have hsim := inls_sim is false false false hok (.heading lv false) cx.parent false _ g3 (fun e => by cases e) rfl
    (fun e => by cases e) (fun e => by cases e)
  have hcore : core (renderT {} cx (Blk.heading lv is).toTree s) =
      aBlank { aW is.src { aW [0x20] (aW (List.replicate lv 0x23) { core s with tight := T }) with nolb := true } with nolb := false } := by
    simp only [Blk.toTree]
    rw [renderT_eq, enter_heading _ _ _ _ _ hce]
    simp only [if_true]
    rw [exit_heading, hs2, core_blank']
    show aBlank { core (renderF {} _ _ false is.toForest _) with nolb := false } = _
    rw [hsim, feedA_nlFree _ _ h0 hnf]
    show aBlank { aW is.src { core s2 with nolb := true } with nolb := false } = _
    rw [c2, c1, ht]
  have heq := heading_core (core s) T (List.replicate lv 0x23) is.src hnl
  refine ⟨hcore.trans (by rw [heq]; rfl), ?_⟩
  have : blkOut (core s) T (Blk.heading lv is).lines = blkOut (core s) T [List.replicate lv 0x23 ++ [0x20] ++ is.src] := rfl
  rw [this, ← heq]
  refine ⟨good_aBlank _ ⟨?_, ?_, ?_⟩, ?_⟩
  · exact g.ce
  · simp [aW]
  · have := (good_aW is.src ({ aW [0x20] (aW (List.replicate lv 0x23) { core s with tight := T }) with nolb := true }) ⟨g.ce, by simp [aW], by
        have := (good_aW [0x20] (aW (List.replicate lv 0x23) { core s with tight := T }) (good_aW _ _ (good_tight _ _ g) hh0 hhn) (by simp) (by decide)).hd
        exact this⟩ h0 hnf).hd
    exact this
  · cases hsrc : is.src with
    | nil => exact absurd hsrc h0
    | cons b r => simp [aBlank, aW]

theorem hr_core (a : Core) (T : Bool) (x : Bytes) (g : Good a) (hp : a.need = 2 ∨ (a.rv = [] ∧ a.bol = true)) :
    aBlank (aW x (aBlank { a with tight := T })) = blkOut a T [x] := by
  obtain ⟨rv, pfx, need, bol, tight, nolb, ce, ol⟩ := a
  simp only at hp
  rcases hp with hp | ⟨hp1, hp2⟩
  · subst hp
    simp [aW, aBlank, blkOut, Tx_single]
  · subst hp1; subst hp2
    have := g.nc
    simp only at this
    simp [aW, aBlank, blkOut, Tx_single, Core.lead, Core.n]

theorem hr_sim (c : UInt8) (n : Nat) (T : Bool) (h : (Blk.hr c n).cmOk T = true) (cx : Ctx) (s : Cm.St) (g : Good (core s))
    (h1 : isItemV cx.parent = true → grandTight cx = T) (h2 : isItemV cx.parent = false → s.inTight = T)
    (hp : (core s).need = 2 ∨ ((core s).rv = [] ∧ (core s).bol = true)) :
    core (renderT {} cx (Blk.hr c n).toTree s) = blkOut (core s) T (Blk.hr c n).lines ∧ Done (blkOut (core s) T (Blk.hr c n).lines) := by
  simp only [Blk.cmOk, Bool.and_eq_true, beq_iff_eq] at h
  obtain ⟨hc, hn⟩ := h
  subst hc; subst hn
  have ht := core_tightened cx s T h1 h2
  have gt : Good (core (tightened cx s)) := by rw [ht]; exact good_tight _ _ g
  have gb : Good (core (tightened cx s).blankline) := by rw [core_blank']; exact good_aBlank _ gt
  have c1 := core_wr _ gb [0x2D, 0x2D, 0x2D, 0x2D, 0x2D] (by simp) (by decide)
  have hcore : core (renderT {} cx (Blk.hr 0x2D 5).toTree s) = aBlank (aW [0x2D, 0x2D, 0x2D, 0x2D, 0x2D] (aBlank { core s with tight := T })) := by
    simp only [Blk.toTree, leaf]
    rw [renderT_eq, enter_hr _ _ _ g.ce]
    simp only [if_true, renderF]
    rw [exit_hr, core_blank', c1, core_blank', ht]
  have heq := hr_core (core s) T [0x2D, 0x2D, 0x2D, 0x2D, 0x2D] g hp
  have hl : (Blk.hr 0x2D 5).lines = [[0x2D, 0x2D, 0x2D, 0x2D, 0x2D]] := rfl
  rw [hl]
  refine ⟨hcore.trans heq, ?_⟩
  rw [← heq]
  exact ⟨good_aBlank _ (good_aW _ _ (good_aBlank _ (good_tight _ _ g)) (by simp) (by decide)), by simp [aBlank, aW]⟩


/-! ### Sequences and containers, on the small machine -/

theorem lead_after (rv pfx : Bytes) (T nolb ce : Bool) (ol : List Nat) (h : rv ≠ []) :
    (⟨rv, pfx, 2, false, T, nolb, ce, ol⟩ : Core).lead = (if T then [0x0A] ++ pfx else [0x0A] ++ pfx ++ [0x0A] ++ pfx) := by
  have : rv.isEmpty = false := by cases rv <;> simp_all
  cases T <;> simp [Core.lead, Core.n, nls, this]

theorem blkOut2_seq (a : Core) (T0 T1 T2 : Bool) (L1 L2 : List Bytes) (h1 : L1 ≠ []) (h2 : L2 ≠ [])
    (hne : (blkOut2 a T0 T1 L1).rv ≠ []) :
    blkOut2 (blkOut2 a T0 T1 L1) T1 T2 L2 = blkOut2 a T0 T2 (L1 ++ (if T1 then [] else [[]]) ++ L2) := by
  obtain ⟨rv, pfx, need, bol, tight, nolb, ce, ol⟩ := a
  simp only [blkOut2] at hne ⊢
  rw [lead_after _ _ _ _ _ _ hne]
  cases L2 with
  | nil => exact absurd rfl h2
  | cons p t =>
    have hT : Tx pfx ((L1 ++ if T1 = true then [] else [[]]) ++ p :: t) =
        Tx pfx L1 ++ (if T1 = true then [] else [0x0A] ++ pfx) ++ (0x0A :: (pfx ++ Tx pfx (p :: t))) := by
      rw [List.append_assoc, Tx_append _ _ _ h1, List.flatMap_append, flat_cons]
      cases T1 <;> simp
    rw [hT]
    cases T1 <;> simp

theorem quote_core (a : Core) (T : Bool) (L : List Bytes) (h0 : L ≠ []) (hall : allNonempty L = true) :
    aBlank { blkOut { aW [0x3E, 0x20] { a with tight := T } with pfx := a.pfx ++ [0x3E, 0x20] } T L with pfx := a.pfx } =
      blkOut a T (L.map quoteLine) := by
  obtain ⟨rv, pfx, need, bol, tight, nolb, ce, ol⟩ := a
  cases L with
  | nil => exact absurd rfl h0
  | cons p t =>
    simp only [allNonempty, List.all_cons, Bool.and_eq_true, Bool.not_eq_true', List.isEmpty_eq_false_iff] at hall
    have hq : ∀ x : Bytes, x ≠ [] → quoteLine x = [0x3E, 0x20] ++ x := by
      intro x hx
      have : x.isEmpty = false := by cases x <;> simp_all
      simp [quoteLine, this]
    have ht := Tx_prefixed pfx [0x3E, 0x20] quoteLine hq t (by simpa [allNonempty] using hall.2)
    have hl : ({ aW [0x3E, 0x20] ⟨rv, pfx, need, bol, T, nolb, ce, ol⟩ with pfx := pfx ++ [0x3E, 0x20] } : Core).lead = [] :=
      lead_mid _ ⟨rfl, rfl⟩
    have hl2 : ({ ({ aW [0x3E, 0x20] ⟨rv, pfx, need, bol, T, nolb, ce, ol⟩ with pfx := pfx ++ [0x3E, 0x20] } : Core) with tight := T } : Core).lead = [] :=
      lead_mid _ ⟨rfl, rfl⟩
    simp only [aW, aBlank, blkOut, Tx, List.map_cons, hq p hall.1] at hl hl2 ⊢
    rw [hl2, ht]
    simp

/-- The same state with another ordered-list stack. -/
def setOl (a : Core) (o : List Nat) : Core := { a with ol := o }

theorem item_core (a : Core) (Tc : Bool) (mk : Bytes) (t : Task) (L : List Bytes) (o : List Nat) (h0 : L ≠ [])
    (hall : allNonempty L = true) :
    aCr { blkOut { aW (mk ++ [0x20] ++ t.src) a with pfx := a.pfx ++ spaces (mk.length + 1), ol := o } Tc L with pfx := a.pfx } =
      setOl (blkOut2 a a.tight Tc (itemLines mk (t.mark L))) o := by
  obtain ⟨rv, pfx, need, bol, tight, nolb, ce, ol⟩ := a
  cases L with
  | nil => exact absurd rfl h0
  | cons p t' =>
    simp only [allNonempty, List.all_cons, Bool.and_eq_true, Bool.not_eq_true', List.isEmpty_eq_false_iff] at hall
    have hq : ∀ x : Bytes, x ≠ [] → (fun l : Bytes => if l.isEmpty then [] else rep (mk.length + 1) 0x20 ++ l) x = spaces (mk.length + 1) ++ x := by
      intro x hx
      have : x.isEmpty = false := by cases x <;> simp_all
      simp [this, rep, spaces]
    have ht := Tx_prefixed pfx (spaces (mk.length + 1)) _ hq t' (by simpa [allNonempty] using hall.2)
    have hl2 : ({ ({ aW (mk ++ [0x20] ++ t.src) ⟨rv, pfx, need, bol, tight, nolb, ce, ol⟩ with pfx := pfx ++ spaces (mk.length + 1), ol := o } : Core) with tight := Tc } : Core).lead = [] :=
      lead_mid _ ⟨rfl, rfl⟩
    simp only [aW, aCr, blkOut, blkOut2, Tx, itemLines, setOl, Task.mark] at hl2 ⊢
    rw [hl2, ht]
    simp

/-! ### Containers: `enter` / `exit` -/

theorem core_trunc (s : Cm.St) (P X : Bytes) (h : s.prefix_ = P ++ X) :
    core (truncPrefix s X.length) = { core s with pfx := P } := by
  unfold truncPrefix
  rw [h]
  simp [core]

def endsList : Option NodeValue → Bool
  | some (.codeBlock ..) | some (.list _) => true
  | _ => false

theorem enter_list (cx : Ctx) (s : Cm.St) (cs : Forest) (l : NList) :
    enter {} cx (.list l) cs s =
      ((if l.ty == .ordered then { tightened cx s with olStack := l.start :: (tightened cx s).olStack } else tightened cx s), true) := rfl

theorem exit_list (cx : Ctx) (s : Cm.St) (l : NList) (hn : endsList cx.next = false) :
    exit {} cx (.list l) s =
      (if l.ty == .ordered then { s with inTight := isItemV cx.parent && grandTight cx, olStack := s.olStack.drop 1 }
       else { s with inTight := isItemV cx.parent && grandTight cx }) := by
  obtain ⟨par, gr, hpv, nx⟩ := cx
  simp only at hn
  cases nx with
  | none => cases hl : l.ty <;> simp only [exit, hl] <;> rfl
  | some v => cases v <;> first | (simp [endsList] at hn; done) | (cases hl : l.ty <;> simp only [exit, hl] <;> rfl)

/-! ### List items -/

theorem digitChar_byte : ∀ d : Fin 10, UInt8.ofNat (Nat.digitChar d.val).toNat = UInt8.ofNat (48 + d.val) := by decide

theorem ofNatDecAux_eq : ∀ (fuel n : Nat) (acc : Bytes) (cs : List Char), acc = cs.map (fun c => UInt8.ofNat c.toNat) →
    ofNatDecAux fuel n acc = (Nat.toDigitsCore 10 fuel n cs).map (fun c => UInt8.ofNat c.toNat)
  | 0, _, _, _, h => by simp [ofNatDecAux, Nat.toDigitsCore, h]
  | fuel + 1, n, acc, cs, h => by
    have hd := digitChar_byte ⟨n % 10, Nat.mod_lt _ (by decide)⟩
    simp only at hd
    simp only [ofNatDecAux, Nat.toDigitsCore]
    by_cases hn : n < 10
    · have : n / 10 = 0 := by omega
      simp [hn, this, h, hd]
    · have : ¬ n / 10 = 0 := by omega
      simp only [hn, this, if_false]
      exact ofNatDecAux_eq fuel (n / 10) _ _ (by simp [h, hd])

/-- The writer's decimal spelling is the one `Doc.write` uses. -/
theorem ofNatDec_eq (n : Nat) : ofNatDec n = decBytes n := by
  simp only [ofNatDec, decBytes, Nat.toDigits]
  exact ofNatDecAux_eq _ _ _ _ rfl

theorem ofNatDec_nlFree (n : Nat) : nlFree (ofNatDec n) = true := by
  simp only [nlFree, List.all_eq_true, bne_iff_ne, ne_eq]
  intro c hc
  have := ofNatDecAux_digits (n + 1) n [] (by simp) c hc
  intro e; subst e; revert this; decide

/-- The marker of item number `k` of a list, without the space after it. -/
def mkOf (pl : NList) (k : Nat) : Bytes :=
  if pl.ty == .bullet then [0x2D] else ofNatDec k ++ [if pl.delim == .paren then 0x29 else 0x2E]

/-- The number on top of the ordered-list stack moves on by `n`. -/
def bump (ord : Bool) (n : Nat) (ol : List Nat) : List Nat :=
  if ord then (match ol with | x :: r => (x + n) :: r | [] => []) else ol

theorem mkOf_ok (pl : NList) (k : Nat) : mkOf pl k ++ [0x20] ≠ [] ∧ nlFree (mkOf pl k ++ [0x20]) = true := by
  refine ⟨by simp, ?_⟩
  rw [nlFree_append]
  simp only [mkOf]
  split
  · decide
  · rw [nlFree_append, ofNatDec_nlFree]
    split <;> decide

theorem olMarker_eq (k : Nat) (dl : ListDelim) :
    olMarker {} k dl = (ofNatDec k ++ [if dl == .paren then 0x29 else 0x2E]) ++ [0x20] := by
  simp [olMarker, spaces]

theorem enter_item_eq (cx : Ctx) (s : Cm.St) (cs : Forest) (l pl : NList) (hp : cx.parent = some (.list pl))
    (hce : s.customEscape = false) :
    enter {} cx (.item l) cs s = (fmtItem {} false pl l.start true s, true) := by
  obtain ⟨par, gr, hpv, nx⟩ := cx
  simp only at hp
  subst hp
  show (fmtItem {} (s.customEscape && !false) _ l.start true s, true) = _
  rw [hce]
  rfl

theorem exit_item_eq (cx : Ctx) (s : Cm.St) (l pl : NList) (hp : cx.parent = some (.list pl))
    (hce : s.customEscape = false) :
    exit {} cx (.item l) s = fmtItem {} false pl l.start false s := by
  obtain ⟨par, gr, hpv, nx⟩ := cx
  simp only at hp
  subst hp
  show fmtItem {} (s.customEscape && !false) _ l.start false s = _
  rw [hce]
  rfl

theorem core_fmtItem_enter (pl : NList) (own : Nat) (s : Cm.St) (k : Nat) (g : Good (core s))
    (hk : pl.ty = .ordered → ∃ r, s.olStack = k :: r) :
    core (fmtItem {} false pl own true s) =
      { aW (mkOf pl k ++ [0x20]) (core s) with pfx := (core s).pfx ++ spaces ((mkOf pl k).length + 1), ol := bump (pl.ty == .ordered) 1 (core s).ol } := by
  obtain ⟨ty, mo, pad, st, dl, bc, tg, tl⟩ := pl
  cases ty with
  | bullet =>
    have c1 := core_wr s g [0x2D, 0x20] (by simp) (by decide)
    show ({ core (wr {} false [0x2D, 0x20] s) with pfx := (core (wr {} false [0x2D, 0x20] s)).pfx ++ spaces 2 } : Core) = _
    rw [c1]
    rfl
  | ordered =>
    obtain ⟨r, hr⟩ := hk rfl
    obtain ⟨rv, pf, col, nc, lb, bl, bcn, nolb, it, ce, ol⟩ := s
    simp only at hr
    subst hr
    have g' : Good (core ⟨rv, pf, col, nc, lb, bl, bcn, nolb, it, ce, (k + 1) :: r⟩) := ⟨g.ce, g.nc, g.hd⟩
    have hm := olMarker_eq k dl
    have c1 := core_wr _ g' (olMarker {} k dl) (by rw [hm]; simp) (by rw [hm]; exact (mkOf_ok ⟨.ordered, mo, pad, st, dl, bc, tg, tl⟩ k).2)
    show ({ core (wr {} false (olMarker {} k dl) ⟨rv, pf, col, nc, lb, bl, bcn, nolb, it, ce, (k + 1) :: r⟩) with
            pfx := (core (wr {} false (olMarker {} k dl) ⟨rv, pf, col, nc, lb, bl, bcn, nolb, it, ce, (k + 1) :: r⟩)).pfx ++
              spaces (olMarker {} k dl).length } : Core) = _
    rw [c1, hm]
    simp [mkOf, bump, aW, core, Core.lead, Core.n]

theorem take_trunc (P : Bytes) (n : Nat) :
    (P ++ spaces n).take (if (P ++ spaces n).length > n then (P ++ spaces n).length - n else 0) = P := by
  have hl : (P ++ spaces n).length = P.length + n := by simp [spaces]
  rw [hl]
  split
  · rw [show P.length + n - n = P.length by omega]; simp
  · have : P.length = 0 := by omega
    simp [List.length_eq_zero_iff.mp this]

theorem core_fmtItem_exit (pl : NList) (own : Nat) (s : Cm.St) (k : Nat) (P : Bytes)
    (hpf : s.prefix_ = P ++ spaces ((mkOf pl k).length + 1))
    (hk : pl.ty = .ordered → ∃ r, s.olStack = (k + 1) :: r) :
    core (fmtItem {} false pl own false s) = aCr { core s with pfx := P } := by
  obtain ⟨ty, mo, pad, st, dl, bc, tg, tl⟩ := pl
  obtain ⟨rv, pf, col, nc, lb, bl, bcn, nolb, it, ce, ol⟩ := s
  simp only at hpf
  subst hpf
  cases ty with
  | bullet =>
    have := take_trunc P 2
    show aCr ({ core _ with pfx := List.take (if (P ++ spaces 2).length > 2 then (P ++ spaces 2).length - 2 else 0) (P ++ spaces 2) } : Core) = _
    rw [this]
    rfl
  | ordered =>
    obtain ⟨r, hr⟩ := hk rfl
    simp only at hr
    subst hr
    have hm := olMarker_eq k dl
    have hlen : (olMarker {} k dl).length = (mkOf ⟨.ordered, mo, pad, st, dl, bc, tg, tl⟩ k).length + 1 := by
      rw [hm]; simp [mkOf]
    have := take_trunc P ((mkOf ⟨.ordered, mo, pad, st, dl, bc, tg, tl⟩ k).length + 1)
    generalize hS : (⟨rv, P ++ spaces ((mkOf ⟨.ordered, mo, pad, st, dl, bc, tg, tl⟩ k).length + 1), col, nc, lb, bl, bcn, nolb, it, ce, (k + 1) :: r⟩ : Cm.St) = S
    have hform : fmtItem {} false ⟨.ordered, mo, pad, st, dl, bc, tg, tl⟩ own false S =
        ({ S with prefix_ := S.prefix_.take (if S.prefix_.length > (olMarker {} (k + 1 - 1) dl).length
            then S.prefix_.length - (olMarker {} (k + 1 - 1) dl).length else 0) } : Cm.St).cr := by
      subst hS; rfl
    rw [hform]
    subst hS
    dsimp only
    rw [Nat.add_sub_cancel, hlen, this]
    rfl

theorem enter_task_eq (cx : Ctx) (s : Cm.St) (cs : Forest) (sym : Option Bytes) (pl : NList) (hp : cx.parent = some (.list pl))
    (hce : s.customEscape = false) :
    enter {} cx (.taskItem sym) cs s =
      (wr {} false ([0x5B] ++ (sym.getD [0x20]) ++ [0x5D, 0x20]) (fmtItem {} false pl pl.start true s), true) := by
  obtain ⟨par, gr, hpv, nx⟩ := cx
  simp only at hp
  subst hp
  show (wr {} (s.customEscape && !false) ([0x5B] ++ (sym.getD [0x20]) ++ [0x5D, 0x20]) (fmtItem {} (s.customEscape && !false) _ pl.start true s), true) = _
  rw [hce]
  rfl

theorem exit_task_eq (cx : Ctx) (s : Cm.St) (sym : Option Bytes) (pl : NList) (hp : cx.parent = some (.list pl))
    (hce : s.customEscape = false) :
    exit {} cx (.taskItem sym) s = fmtItem {} false pl pl.start false s := by
  obtain ⟨par, gr, hpv, nx⟩ := cx
  simp only at hp
  subst hp
  show fmtItem {} (s.customEscape && !false) _ pl.start false s = _
  rw [hce]
  rfl

/-- Entering the node of a list item (plain or task): the marker, a space, the task marker. -/
theorem core_enter_itemT (t : Task) (l pl : NList) (cx : Ctx) (cs : Forest) (s : Cm.St) (k : Nat) (hp : cx.parent = some (.list pl))
    (g : Good (core s)) (hk : pl.ty = .ordered → ∃ r, s.olStack = k :: r) (hts : nlFree t.src = true) :
    ∃ s1, enter {} cx (t.value l) cs s = (s1, true) ∧
      core s1 = { aW (mkOf pl k ++ [0x20] ++ t.src) (core s) with pfx := (core s).pfx ++ spaces ((mkOf pl k).length + 1), ol := bump (pl.ty == .ordered) 1 (core s).ol } := by
  have hmid : ∀ (x : Bytes) (a : Core) (P : Bytes) (o : List Nat),
      aW x ({ aW (mkOf pl k ++ [0x20]) a with pfx := P, ol := o } : Core) =
        ({ aW (mkOf pl k ++ [0x20] ++ x) a with pfx := P, ol := o } : Core) := by
    intro x a P o
    have hl : ({ aW (mkOf pl k ++ [0x20]) a with pfx := P, ol := o } : Core).lead = [] := lead_mid _ ⟨rfl, rfl⟩
    show ({ ({ aW (mkOf pl k ++ [0x20]) a with pfx := P, ol := o } : Core) with
        rv := x.reverse ++ ({ aW (mkOf pl k ++ [0x20]) a with pfx := P, ol := o } : Core).lead.reverse ++ ({ aW (mkOf pl k ++ [0x20]) a with pfx := P, ol := o } : Core).rv,
        need := 0, bol := false } : Core) = _
    rw [hl]
    simp [aW]
  have c0 := core_fmtItem_enter pl pl.start s k g hk
  have g0 : Good (core (fmtItem {} false pl pl.start true s)) := by
    rw [c0]
    have := good_aW (mkOf pl k ++ [0x20]) _ g (mkOf_ok pl k).1 (mkOf_ok pl k).2
    exact ⟨this.ce, this.nc, this.hd⟩
  cases t with
  | no =>
    simp only [Task.value, Task.src, List.append_nil]
    rw [enter_item_eq cx s cs l pl hp g.ce]
    exact ⟨_, rfl, core_fmtItem_enter pl _ s k g hk⟩
  | unchecked =>
    simp only [Task.value]
    rw [enter_task_eq cx s cs none pl hp g.ce]
    refine ⟨_, rfl, ?_⟩
    rw [core_wr _ g0 _ (by simp) (by decide), c0]
    exact hmid _ _ _ _
  | checked c =>
    simp only [Task.value]
    rw [enter_task_eq cx s cs (some [c]) pl hp g.ce]
    refine ⟨_, rfl, ?_⟩
    have hsrc : ([0x5B] ++ ((some [c] : Option Bytes).getD [0x20]) ++ [0x5D, 0x20] : Bytes) = (Task.checked c).src := rfl
    rw [hsrc, core_wr _ g0 _ (by simp [Task.src]) hts, c0]
    exact hmid _ _ _ _

theorem exit_itemT (t : Task) (l pl : NList) (cx : Ctx) (s : Cm.St) (hp : cx.parent = some (.list pl))
    (hce : s.customEscape = false) : ∃ own, exit {} cx (t.value l) s = fmtItem {} false pl own false s := by
  cases t with
  | no => exact ⟨_, exit_item_eq cx s l pl hp hce⟩
  | unchecked => exact ⟨_, exit_task_eq cx s none pl hp hce⟩
  | checked c => exact ⟨_, exit_task_eq cx s (some [c]) pl hp hce⟩

theorem isItemV_task (t : Task) (l : NList) : isItemV (some (t.value l)) = true := by cases t <;> rfl

theorem take_item (P : Bytes) :
    (P ++ spaces 2).take (if (P ++ spaces 2).length > 2 then (P ++ spaces 2).length - 2 else 0) = P := by
  have hl : (P ++ spaces 2).length = P.length + 2 := by simp [spaces]
  rw [hl]
  split
  · rw [show P.length + 2 - 2 = P.length by omega]; simp
  · have : P.length = 0 := by omega
    simp [List.length_eq_zero_iff.mp this]

theorem endsList_next (r : Blks) (T f : Bool) (h : r.cmOk T f = true) (hl : r.headIsList = false) :
    endsList (nextOf r.toForest) = false := by
  cases r with
  | nil => rfl
  | cons b r' =>
    simp only [Blks.cmOk, Bool.and_eq_true] at h
    cases b <;> simp_all [Blks.headIsList, Blk.isList, Blks.toForest, Blk.toTree, nextOf, endsList, Tree.value, leaf, Blk.cmOk]

theorem list_core (a : Core) (T Tm : Bool) (L : List Bytes) :
    ({ blkOut2 { a with tight := T } T Tm L with tight := T } : Core) = blkOut a T L := rfl

theorem bump_bump (ord : Bool) (n : Nat) (ol : List Nat) : bump ord n (bump ord 1 ol) = bump ord (n + 1) ol := by
  cases ord
  · rfl
  · cases ol with
    | nil => rfl
    | cons x r => simp [bump]; omega

theorem done_setOl (a : Core) (o : List Nat) (d : Done a) : Done (setOl a o) := ⟨⟨d.good.ce, d.good.nc, d.good.hd⟩, d.ne⟩

theorem mkOf_src (m : Marker) (k : Nat) (pl : NList) (hob : m.ordered = true ∨ m.bullet = 0x2D)
    (hty : pl.ty = if m.ordered then .ordered else .bullet)
    (hdl : pl.delim = if m.ordered && m.paren then .paren else .period) : mkOf pl k = m.src k := by
  cases ho : m.ordered
  · rcases hob with hob | hob
    · rw [ho] at hob; cases hob
    · simp [mkOf, Marker.src, hty, ho, hob]
  · cases hpn : m.paren <;> simp [mkOf, Marker.src, hty, hdl, ho, hpn, ofNatDec_eq]

/-- A list, given what its items write. -/
theorem list_step (m : Marker) (items : Items) (cx : Ctx) (s : Cm.St) (T : Bool) (g : Good (core s))
    (hnl : s.noLinebreaks = false) (h1 : isItemV cx.parent = true → grandTight cx = T)
    (h2 : isItemV cx.parent = false → s.inTight = T) (hen : endsList cx.next = false)
    (hT0 : isItemV cx.parent = false → T = false)
    (ih : ∀ s1 : Cm.St, Good (core s1) → s1.noLinebreaks = false → (m.ordered = true → ∃ r, s1.olStack = m.start :: r) →
      core (renderF {} (some (.list { m.nlist m.start m.tight with isTaskList := items.anyTask })) cx.parent false
          (items.toForest m m.start) s1) =
        setOl (blkOut2 (core s1) (core s1).tight m.tight (items.lines m m.start)) (bump m.ordered items.length (core s1).ol) ∧
      Done (setOl (blkOut2 (core s1) (core s1).tight m.tight (items.lines m m.start)) (bump m.ordered items.length (core s1).ol)) ∧
      items.lines m m.start ≠ []) :
    core (renderT {} cx (Blk.list m items).toTree s) = blkOut (core s) T (Blk.list m items).lines ∧
      Done (blkOut (core s) T (Blk.list m items).lines) ∧ (Blk.list m items).lines ≠ [] := by
  have ht := core_tightened cx s T h1 h2
  have gt : Good (core (tightened cx s)) := by rw [ht]; exact good_tight _ _ g
  have hTT : (isItemV cx.parent && grandTight cx) = T := by
    cases hi : isItemV cx.parent
    · simp [hT0 hi]
    · simp [h1 hi]
  have hlines : (Blk.list m items).lines = items.lines m m.start := rfl
  rw [hlines]
  cases ho : m.ordered with
  | false =>
    have hty : (({ m.nlist m.start m.tight with isTaskList := items.anyTask } : NList).ty == .ordered) = false := by
      simp [Marker.nlist, ho]
    obtain ⟨e1, d1, n1⟩ := ih (tightened cx s) gt (by show (core (tightened cx s)).nolb = false; rw [ht]; exact hnl)
      (fun e => by rw [ho] at e; cases e)
    generalize hs2 : renderF {} _ cx.parent false (items.toForest m m.start) (tightened cx s) = s2 at e1
    have hcore : core (renderT {} cx (Blk.list m items).toTree s) = blkOut (core s) T (items.lines m m.start) := by
      simp only [Blk.toTree]
      rw [renderT_eq, enter_list]
      simp only [hty, Bool.false_eq_true, if_false, if_true]
      rw [hs2, exit_list _ _ _ hen]
      simp only [hty, Bool.false_eq_true, if_false]
      show ({ core s2 with tight := isItemV cx.parent && grandTight cx } : Core) = _
      rw [hTT, e1, ht, ho]
      rfl
    refine ⟨hcore, ?_, n1⟩
    rw [ht, ho] at d1
    exact ⟨⟨d1.good.ce, d1.good.nc, d1.good.hd⟩, d1.ne⟩
  | true =>
    have hty : (({ m.nlist m.start m.tight with isTaskList := items.anyTask } : NList).ty == .ordered) = true := by
      simp [Marker.nlist, ho]
    have hst : ({ m.nlist m.start m.tight with isTaskList := items.anyTask } : NList).start = m.start := by
      simp [Marker.nlist, ho]
    have hst' : (m.nlist m.start m.tight).start = m.start := by simp [Marker.nlist, ho]
    have henter : enter {} cx (.list { m.nlist m.start m.tight with isTaskList := items.anyTask }) (items.toForest m m.start) s =
        (({ tightened cx s with olStack := m.start :: (tightened cx s).olStack } : Cm.St), true) := by
      rw [enter_list]
      simp only [hty, if_true, hst']
    generalize hs1 : ({ tightened cx s with olStack := m.start :: (tightened cx s).olStack } : Cm.St) = s1
    have cs1 : core s1 = setOl { core s with tight := T } (m.start :: (core s).ol) := by
      rw [← hs1]
      show setOl (core (tightened cx s)) (m.start :: (core (tightened cx s)).ol) = _
      rw [ht]
    have gs1 : Good (core s1) := by rw [cs1]; exact ⟨g.ce, g.nc, g.hd⟩
    obtain ⟨e1, d1, n1⟩ := ih s1 gs1 (by show (core s1).nolb = false; rw [cs1]; exact hnl)
      (fun _ => ⟨(tightened cx s).olStack, by rw [← hs1]⟩)
    generalize hs2 : renderF {} _ cx.parent false (items.toForest m m.start) s1 = s2 at e1
    have hcore : core (renderT {} cx (Blk.list m items).toTree s) = blkOut (core s) T (items.lines m m.start) := by
      simp only [Blk.toTree]
      rw [renderT_eq, henter]
      simp only [if_true]
      rw [hs1, hs2, exit_list _ _ _ hen]
      simp only [hty, if_true]
      show ({ core s2 with tight := isItemV cx.parent && grandTight cx, ol := (core s2).ol.drop 1 } : Core) = _
      rw [hTT, e1, cs1, ho]
      simp [setOl, bump, blkOut, blkOut2]
      rfl
    refine ⟨hcore, ?_, n1⟩
    rw [cs1, ho] at d1
    exact ⟨⟨d1.good.ce, d1.good.nc, d1.good.hd⟩, d1.ne⟩

/-! ### Blocks -/

mutual
theorem blk_sim : ∀ (b : Blk) (T : Bool), b.cmOk T = true → ∀ (cx : Ctx) (s : Cm.St), Good (core s) → s.noLinebreaks = false →
    (isItemV cx.parent = true → grandTight cx = T) → (isItemV cx.parent = false → s.inTight = T) →
    (b.isHr = true → (core s).need = 2 ∨ ((core s).rv = [] ∧ (core s).bol = true)) →
    (b.isList = true → endsList cx.next = false ∧ (isItemV cx.parent = false → T = false)) →
    core (renderT {} cx b.toTree s) = blkOut (core s) T b.lines ∧ Done (blkOut (core s) T b.lines) ∧ b.lines ≠ []
  | .para is, T, h, cx, s, g, hnl, h1, h2, _, _ =>
    ⟨(para_sim is T h cx s g hnl h1 h2).1, (para_sim is T h cx s g hnl h1 h2).2, splitNl_ne_nil _⟩
  | .heading lv is, T, h, cx, s, g, hnl, h1, h2, _, _ =>
    ⟨(heading_sim lv is T h cx s g hnl h1 h2).1, (heading_sim lv is T h cx s g hnl h1 h2).2, by simp [Blk.lines]⟩
  | .hr c n, T, h, cx, s, g, _, h1, h2, hp, _ =>
    ⟨(hr_sim c n T h cx s g h1 h2 (hp rfl)).1, (hr_sim c n T h cx s g h1 h2 (hp rfl)).2, by simp [Blk.lines]⟩
  | .quote bs, T, h, cx, s, g, hnl, h1, h2, _, _ => by
    cases bs with
    | nil => simp [Blk.cmOk, Blks.length] at h
    | cons b r =>
      cases r with
      | cons b2 r2 => simp [Blk.cmOk, Blks.length] at h
      | nil =>
        simp only [Blk.cmOk, Blks.length, Blks.headIsList, Blks.cmOk, Blks.lines, Blks.isNil, Bool.and_eq_true, Bool.not_eq_true',
          Bool.true_and, Bool.or_true, if_true, List.append_nil, Bool.and_true, Bool.and_false, Bool.not_false] at h
        obtain ⟨⟨⟨_, hTl⟩, hhr, hb⟩, hall⟩ := h
        have ht := core_tightened cx s T h1 h2
        have gt : Good (core (tightened cx s)) := by rw [ht]; exact good_tight _ _ g
        have c1 := core_wr (tightened cx s) gt [0x3E, 0x20] (by simp) (by decide)
        have g1 := good_aW [0x3E, 0x20] _ gt (by simp) (by decide)
        generalize hs1 : quoteOpen (wr {} false [0x3E, 0x20] (tightened cx s)) = s1
        have cs1 : core s1 = { aW [0x3E, 0x20] { core s with tight := T } with pfx := (core s).pfx ++ [0x3E, 0x20] } := by
          rw [← hs1]
          show ({ core (wr {} false [0x3E, 0x20] (tightened cx s)) with pfx := (core (wr {} false [0x3E, 0x20] (tightened cx s))).pfx ++ [0x3E, 0x20] } : Core) = _
          rw [c1, ht]; rfl
        have gs1 : Good (core s1) := by rw [cs1, ← ht]; exact ⟨g1.ce, g1.nc, g1.hd⟩
        have ih := blk_sim b T hb ⟨some .blockQuote, cx.parent, false, none⟩ s1 gs1
          (by show (core s1).nolb = false; rw [cs1]; exact hnl) (fun e => by cases e)
          (fun _ => by show (core s1).tight = T; rw [cs1]; rfl) (fun e => by rw [hhr] at e; cases e)
          (fun e => ⟨rfl, fun _ => by
            rw [e] at hTl
            cases T
            · rfl
            · simp at hTl⟩)
        obtain ⟨e1, d1, n1⟩ := ih
        generalize hs2 : renderT {} ⟨some .blockQuote, cx.parent, false, none⟩ b.toTree s1 = s2 at e1
        have hpf : s2.prefix_ = (core s).pfx ++ [0x3E, 0x20] := by
          show (core s2).pfx = _
          rw [e1, cs1]; rfl
        have hcore : core (renderT {} cx (Blk.quote (.cons b .nil)).toTree s) =
            aBlank { blkOut { aW [0x3E, 0x20] { core s with tight := T } with pfx := (core s).pfx ++ [0x3E, 0x20] } T b.lines with pfx := (core s).pfx } := by
          simp only [Blk.toTree, Blks.toForest]
          rw [renderT_eq, enter_quote _ _ _ g.ce]
          simp only [if_true]
          rw [hs1, renderF_cons]
          simp only [renderF, nextOf]
          rw [hs2, exit_quote, core_blank']
          have := core_trunc s2 _ [0x3E, 0x20] hpf
          simp only [List.length_cons, List.length_nil] at this
          rw [this, e1, cs1]
        have heq := quote_core (core s) T b.lines n1 hall
        have hl : (Blk.quote (.cons b .nil)).lines = b.lines.map quoteLine := by
          simp [Blk.lines, Blks.lines, Blks.isNil]
        rw [hl]
        refine ⟨hcore.trans heq, ?_, by simpa using n1⟩
        rw [← heq, ← cs1]
        exact ⟨good_aBlank _ ⟨d1.good.ce, d1.good.nc, d1.good.hd⟩, d1.ne⟩
  | .list m items, T, h, cx, s, g, hnl, h1, h2, _, hl => by
    simp only [Blk.cmOk, Bool.and_eq_true, Bool.not_eq_true', Bool.or_eq_true, beq_iff_eq] at h
    obtain ⟨⟨hob, hnil⟩, hok⟩ := h
    obtain ⟨hen, hT0⟩ := hl rfl
    exact list_step m items cx s T g hnl h1 h2 hen hT0 (fun s1 g1 hn1 hk1 =>
      items_sim items m m.start hok hnil hob { m.nlist m.start m.tight with isTaskList := items.anyTask } cx.parent false s1
        rfl rfl rfl g1 hn1 hk1)
  | .setext .., _, h, _, _, _, _, _, _, _, _ => by simp [Blk.cmOk] at h
  | .fence .., _, h, _, _, _, _, _, _, _, _ => by simp [Blk.cmOk] at h
  | .icode .., _, h, _, _, _, _, _, _, _, _ => by simp [Blk.cmOk] at h
  | .table .., _, h, _, _, _, _, _, _, _, _ => by simp [Blk.cmOk] at h
  | .htmlb .., _, h, _, _, _, _, _, _, _, _ => by simp [Blk.cmOk] at h
theorem blks_sim : ∀ (bs : Blks) (T first : Bool), bs.cmOk T first = true → bs.isNil = false →
    ∀ (pv : NodeValue) (gr : Option NodeValue) (hp : Bool) (s : Cm.St), Good (core s) → s.noLinebreaks = false →
    (isItemV (some pv) = true → grandTight ⟨some pv, gr, false, none⟩ = T) → (isItemV (some pv) = false → s.inTight = T) →
    (isItemV (some pv) = false → T = false) →
    (first = false → (core s).need = 2 ∨ ((core s).rv = [] ∧ (core s).bol = true)) →
    core (renderF {} (some pv) gr hp bs.toForest s) = blkOut (core s) T (bs.lines T) ∧ Done (blkOut (core s) T (bs.lines T)) ∧
      bs.lines T ≠ []
  | .nil, _, _, _, h0, _, _, _, _, _, _, _, _, _, _ => by simp [Blks.isNil] at h0
  | .cons b r, T, first, h, _, pv, gr, hp, s, g, hnl, h1, h2, h3, h4 => by
    simp only [Blks.cmOk, Bool.and_eq_true, Bool.not_eq_true', Bool.and_eq_false_iff] at h
    obtain ⟨⟨⟨hf, hb⟩, hll⟩, hr⟩ := h
    have ib := blk_sim b T hb ⟨some pv, gr, hp, nextOf r.toForest⟩ s g hnl h1 h2
      (fun hhr => h4 (by rcases hf with hf | hf; exact hf; rw [hhr] at hf; cases hf))
      (fun hli => ⟨endsList_next r T false hr (by rcases hll with hll | hll; rw [hli] at hll; cases hll; exact hll), h3⟩)
    obtain ⟨e1, d1, n1⟩ := ib
    simp only [Blks.toForest]
    rw [renderF_cons]
    cases r with
    | nil =>
      simp only [Blks.toForest, renderF, Blks.lines, Blks.isNil, Bool.or_true, if_true, List.append_nil]
      exact ⟨e1, d1, n1⟩
    | cons b2 r2 =>
      generalize hs1 : renderT {} ⟨some pv, gr, hp, nextOf (Blks.cons b2 r2).toForest⟩ b.toTree s = s1 at e1
      have g1 : Good (core s1) := by rw [e1]; exact d1.good
      have ih := blks_sim (.cons b2 r2) T false hr rfl pv gr true s1 g1
        (by show (core s1).nolb = false; rw [e1]; exact hnl) h1
        (fun _ => by show (core s1).tight = T; rw [e1]; rfl) h3 (fun _ => Or.inl (by rw [e1]; rfl))
      obtain ⟨e2, d2, n2⟩ := ih
      rw [e1, blkOut_eq, blkOut_eq, blkOut2_seq _ _ _ _ _ _ n1 n2 d1.ne] at e2 d2
      have hl : (Blks.cons b (.cons b2 r2)).lines T = b.lines ++ (if T = true then [] else [[]]) ++ (Blks.cons b2 r2).lines T := by
        simp [Blks.lines, Blks.isNil]
      rw [hl]
      exact ⟨e2, d2, by simp [n1]⟩
theorem items_sim : ∀ (items : Items) (m : Marker) (k : Nat), items.cmOk m = true → items.isNil = false →
    (m.ordered = true ∨ m.bullet = 0x2D) →
    ∀ (pl : NList) (gr : Option NodeValue) (hp : Bool) (s : Cm.St),
    pl.ty = (if m.ordered then .ordered else .bullet) → pl.delim = (if m.ordered && m.paren then .paren else .period) →
    pl.tight = m.tight → Good (core s) → s.noLinebreaks = false → (m.ordered = true → ∃ r, s.olStack = k :: r) →
    core (renderF {} (some (.list pl)) gr hp (items.toForest m k) s) =
        setOl (blkOut2 (core s) (core s).tight m.tight (items.lines m k)) (bump m.ordered items.length (core s).ol) ∧
      Done (setOl (blkOut2 (core s) (core s).tight m.tight (items.lines m k)) (bump m.ordered items.length (core s).ol)) ∧
      items.lines m k ≠ []
  | .nil, _, _, _, h0, _, _, _, _, _, _, _, _, _, _, _ => by simp [Items.isNil] at h0
  | .cons t bs r, m, k, h, _, hob, pl, gr, hp, s, hty, hdl, htg, g, hnl, hk => by
    simp only [Items.cmOk, Bool.and_eq_true, Bool.not_eq_true'] at h
    obtain ⟨⟨⟨⟨ht, hnil⟩, hbs⟩, hall⟩, hr⟩ := h
    have hord : (pl.ty == .ordered) = m.ordered := by rw [hty]; cases m.ordered <;> rfl
    have hkk : pl.ty = .ordered → ∃ r, s.olStack = k :: r := fun e => hk (by rw [← hord, e]; rfl)
    have hmk : mkOf pl k = m.src k := mkOf_src m k pl hob hty hdl
    obtain ⟨s1, hent2, hent⟩ := core_enter_itemT t (m.nlist k false) pl ⟨some (.list pl), gr, hp, nextOf (r.toForest m (k + 1))⟩
      bs.toForest s k rfl g hkk ht
    have cs1 : core s1 = { aW (m.src k ++ [0x20] ++ t.src) (core s) with pfx := (core s).pfx ++ spaces ((m.src k).length + 1), ol := bump m.ordered 1 (core s).ol } := by
      rw [hent, hmk, hord]
    have g1 := good_aW (m.src k ++ [0x20] ++ t.src) _ g (by simp) (by
      rw [nlFree_append, ht, ← hmk, (mkOf_ok pl k).2]; rfl)
    have gs1 : Good (core s1) := by rw [cs1]; exact ⟨g1.ce, g1.nc, g1.hd⟩
    have ic := blks_sim bs m.tight true hbs hnil (t.value (m.nlist k false)) (some (.list pl)) false s1 gs1
      (by show (core s1).nolb = false; rw [cs1]; exact hnl) (fun _ => htg)
      (fun e => by rw [isItemV_task] at e; cases e) (fun e => by rw [isItemV_task] at e; cases e)
      (fun e => by cases e)
    obtain ⟨e1, d1, n1⟩ := ic
    generalize hs2 : renderF {} (some (t.value (m.nlist k false))) (some (.list pl)) false bs.toForest s1 = s2 at e1
    have hpf : s2.prefix_ = (core s).pfx ++ spaces ((mkOf pl k).length + 1) := by
      show (core s2).pfx = _
      rw [e1, cs1, hmk]; rfl
    have hol2 : pl.ty = .ordered → ∃ r, s2.olStack = (k + 1) :: r := by
      intro e
      obtain ⟨r0, hr0⟩ := hkk e
      refine ⟨r0, ?_⟩
      show (core s2).ol = _
      have hmo : m.ordered = true := by rw [← hord, e]; rfl
      have : (core s).ol = k :: r0 := hr0
      rw [e1, cs1]
      show bump m.ordered 1 (core s).ol = _
      rw [this, hmo]; rfl
    have hce2 : s2.customEscape = false := by
      show (core s2).ce = false
      rw [e1]; exact d1.good.ce
    have hic := item_core (core s) m.tight (m.src k) t _ (bump m.ordered 1 (core s).ol) n1 hall
    have hitem : core (renderT {} ⟨some (.list pl), gr, hp, nextOf (r.toForest m (k + 1))⟩
        (.node (t.value (m.nlist k false)) {} bs.toForest) s) =
        setOl (blkOut2 (core s) (core s).tight m.tight (itemLines (m.src k) (t.mark (bs.lines m.tight))))
          (bump m.ordered 1 (core s).ol) := by
      rw [← hic, renderT_eq, hent2]
      simp only [if_true]
      rw [hs2]
      obtain ⟨own, hex⟩ := exit_itemT t (m.nlist k false) pl ⟨some (.list pl), gr, hp, nextOf (r.toForest m (k + 1))⟩ s2 rfl hce2
      rw [hex, core_fmtItem_exit pl own s2 k (core s).pfx hpf hol2, e1, cs1]
    have ditem : Done (setOl (blkOut2 (core s) (core s).tight m.tight (itemLines (m.src k) (t.mark (bs.lines m.tight))))
        (bump m.ordered 1 (core s).ol)) := by
      rw [← hic, ← cs1]
      exact ⟨good_aCr _ ⟨d1.good.ce, d1.good.nc, d1.good.hd⟩, d1.ne⟩
    have nitem := itemLines_ne_nil (m.src k) (t.mark (bs.lines m.tight))
    simp only [Items.toForest]
    rw [renderF_cons]
    cases r with
    | nil =>
      simp only [Items.toForest, renderF, Items.lines, Items.isNil, Bool.or_true, if_true, List.append_nil, Items.length]
      exact ⟨hitem, ditem, nitem⟩
    | cons t2 b2 r2 =>
      generalize hs3 : renderT {} ⟨some (.list pl), gr, hp, nextOf ((Items.cons t2 b2 r2).toForest m (k + 1))⟩
        (.node (t.value (m.nlist k false)) {} bs.toForest) s = s3 at hitem
      have g3 : Good (core s3) := by rw [hitem]; exact ditem.good
      have hk3 : m.ordered = true → ∃ r, s3.olStack = (k + 1) :: r := by
        intro hmo
        obtain ⟨r0, hr0⟩ := hk hmo
        refine ⟨r0, ?_⟩
        show (core s3).ol = _
        have : (core s).ol = k :: r0 := hr0
        rw [hitem]
        show bump m.ordered 1 (core s).ol = _
        rw [this, hmo]; rfl
      have ih := items_sim (.cons t2 b2 r2) m (k + 1) hr rfl hob pl gr true s3 hty hdl htg g3
        (by show (core s3).nolb = false; rw [hitem]; exact hnl) hk3
      obtain ⟨e2, d2, n2⟩ := ih
      have htt : (core s3).tight = m.tight := by rw [hitem]; rfl
      have hol3 : (core s3).ol = bump m.ordered 1 (core s).ol := by rw [hitem]; rfl
      have hseq : setOl (blkOut2 (core s3) (core s3).tight m.tight ((Items.cons t2 b2 r2).lines m (k + 1)))
            (bump m.ordered (Items.cons t2 b2 r2).length (core s3).ol) =
          setOl (blkOut2 (core s) (core s).tight m.tight ((Items.cons t bs (.cons t2 b2 r2)).lines m k))
            (bump m.ordered (Items.cons t bs (.cons t2 b2 r2)).length (core s).ol) := by
        have hl : (Items.cons t bs (.cons t2 b2 r2)).lines m k =
            itemLines (m.src k) (t.mark (bs.lines m.tight)) ++ (if m.tight = true then [] else [[]]) ++ (Items.cons t2 b2 r2).lines m (k + 1) := by
          simp [Items.lines, Items.isNil]
        have hdn : (blkOut2 (core s) (core s).tight m.tight (itemLines (m.src k) (t.mark (bs.lines m.tight)))).rv ≠ [] := ditem.ne
        rw [htt, hol3, bump_bump, hl, ← blkOut2_seq _ _ _ _ _ _ nitem n2 hdn, hitem]
        rfl
      rw [hseq] at e2 d2
      exact ⟨e2, d2, by rw [Items.lines]; simp [nitem]⟩
end


/-! ### Documents -/

/-- Documents of the class: blocks as in `Blk.cmOk`, no reference definitions, no footnotes. -/
def _root_.Comrak.Canon.Doc.cmOk (d : Doc) : Bool :=
  d.blocks.cmOk false false && d.blocks.defs.isEmpty && d.shadow.isEmpty && d.notes.isEmpty && d.unused.isEmpty

theorem toForestThen_nil : ∀ bs : Blks, bs.toForestThen .nil = bs.toForest
  | .nil => rfl
  | .cons b r => by simp [Blks.toForestThen, Blks.toForest, toForestThen_nil r]

theorem write_plain (d : Doc) (h : d.cmOk = true) : d.write = Canon.joinLines (d.blocks.lines false) := by
  simp only [Doc.cmOk, Bool.and_eq_true, List.isEmpty_iff] at h
  obtain ⟨⟨⟨⟨_, hd⟩, hs⟩, hn⟩, hu⟩ := h
  have hw : d.writtenNotes = [] := by simp [Doc.writtenNotes, hn, hu]
  have hds : d.useDefs = [] := by simp [Doc.useDefs, hd, hw]
  simp only [Doc.write, hds, hw, hs, List.filter_nil, List.map_nil, List.append_nil]
  cases hL : (d.blocks.lines false).isEmpty <;> simp_all [joinGroups]

theorem good_init : Good (core ({} : Cm.St)) := ⟨rfl, by decide, by decide⟩

theorem cm_fixed (d : Doc) (h : d.cmOk = true) : renderCm {} d.toTree = d.write := by
  rw [write_plain d h]
  simp only [Doc.cmOk, Bool.and_eq_true, List.isEmpty_iff] at h
  obtain ⟨⟨⟨⟨hb, _⟩, _⟩, hn⟩, _⟩ := h
  have htree : renderT {} {} d.toTree {} = renderF {} (some .document) none false d.blocks.toForest {} := by
    simp only [Doc.toTree, hn, notesForest, toForestThen_nil]
    rw [renderT_eq, enter_doc]
    simp only [if_true]
    rw [exit_doc]
    rfl
  cases hbs : d.blocks with
  | nil =>
    simp only [renderCm, htree, hbs, Blks.toForest, renderF, Blks.lines, Canon.joinLines]
    rfl
  | cons b r =>
    rw [hbs] at hb htree
    have := blks_sim (.cons b r) false false hb rfl .document none false {} good_init rfl (fun e => by cases e) (fun _ => rfl)
      (fun _ => rfl) (fun _ => Or.inr ⟨rfl, rfl⟩)
    obtain ⟨e1, d1, n1⟩ := this
    rw [← htree] at e1
    have hrv : (renderT {} {} d.toTree {}).rv = (Tx [] ((Blks.cons b r).lines false)).reverse := by
      show (core (renderT {} {} d.toTree {})).rv = _
      rw [e1]
      simp [blkOut, core, Core.lead, Core.n]
    have hhd := d1.good.hd
    have hne := d1.ne
    rw [← e1] at hhd hne
    change (renderT {} {} d.toTree {}).rv.head? ≠ some 0x0A at hhd
    change (renderT {} {} d.toTree {}).rv ≠ [] at hne
    rw [joinLines_Tx _ n1]
    simp only [renderCm]
    cases hr : (renderT {} {} d.toTree {}).rv with
    | nil => exact absurd hr hne
    | cons c t =>
      rw [hr] at hhd hrv
      have hc : (c == 0x0A) = false := by
        simp only [List.head?_cons, ne_eq, Option.some.injEq] at hhd
        simpa using hhd
      simp only [hc, Bool.false_eq_true, if_false, List.reverse_cons]
      have : (Tx [] ((Blks.cons b r).lines false)) = (c :: t).reverse := by rw [hrv]; simp
      rw [this]
      simp

end Comrak.CmCanon
