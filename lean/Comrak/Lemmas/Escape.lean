import Comrak.Escape
namespace Comrak
open Bytes

/-- Every `UInt8` is `UInt8.ofNat` of a `Fin 256`; lifts `decide +kernel` tables to all bytes. -/
theorem forall_uint8_of_fin {P : UInt8 → Prop} (h : ∀ n : Fin 256, P (UInt8.ofNat n.val)) :
    ∀ b : UInt8, P b := by
  intro b
  have := h ⟨b.toNat, b.toNat_lt⟩
  simpa using this

/-! ### Loop forms equal specification forms -/

theorem escape_nil : escape [] = [] := rfl
theorem escape_cons (b : UInt8) (r : Bytes) : escape (b :: r) = escByte b ++ escape r := by
  simp [escape]
theorem escapeHref_nil : escapeHref [] = [] := rfl
theorem escapeHref_cons (b : UInt8) (r : Bytes) : escapeHref (b :: r) = hrefByte b ++ escapeHref r := by
  simp [escapeHref]

theorem escByte_safe (b : UInt8) (h : htmlUnsafe b = false) : escByte b = [b] := by
  simp only [htmlUnsafe, Bool.or_eq_false_iff, beq_eq_false_iff_ne] at h
  simp [escByte, h]

theorem escapeLoop_eq (p bs : Bytes) : escapeLoop p bs = p ++ escape bs := by
  induction bs generalizing p with
  | nil => simp [escapeLoop, escape]
  | cons b r ih =>
    simp only [escapeLoop, escape_cons]
    split
    · rw [ih]; simp
    · rename_i h
      rw [ih, escByte_safe b (by simpa using h)]; simp

theorem hrefByte_safe (b : UInt8) (h : hrefSafe b = true) : hrefByte b = [b] := by
  simp [hrefByte, h]

theorem escapeHrefLoop_eq (p bs : Bytes) : escapeHrefLoop p bs = p ++ escapeHref bs := by
  induction bs generalizing p with
  | nil => simp [escapeHrefLoop, escapeHref]
  | cons b r ih =>
    simp only [escapeHrefLoop, escapeHref_cons]
    split
    · rename_i h; rw [ih, hrefByte_safe b h]; simp
    · rw [ih]; simp

/-! ### No active character -/

theorem noActive_append (x y : Bytes) (hx : noActive x = true) (hy : noActive y = true) :
    noActive (x ++ y) = true := by
  induction x with
  | nil => simpa using hy
  | cons b r ih =>
    simp only [noActive, Bool.and_eq_true, List.cons_append] at hx ⊢
    refine ⟨?_, ih hx.2⟩
    have h1 := hx.1
    by_cases hb : b = 0x26
    · subst hb
      simp only [↓reduceIte, Bool.or_eq_true] at h1 ⊢
      have := @isPrefixB_append
      rcases h1 with ((h | h) | h) | h
      · exact Or.inl (Or.inl (Or.inl (by simpa using this _ _ y h)))
      · exact Or.inl (Or.inl (Or.inr (by simpa using this _ _ y h)))
      · exact Or.inl (Or.inr (by simpa using this _ _ y h))
      · exact Or.inr (by simpa using this _ _ y h)
    · simp only [hb, ↓reduceIte] at h1 ⊢
      exact h1

theorem noActive_escByte (b : UInt8) : noActive (escByte b) = true := by
  unfold escByte
  split
  · decide
  · split
    · decide
    · split
      · decide
      · split
        · decide
        · rename_i h1 h2 h3 h4
          simp [noActive, h1, h2, h3, h4]

/-! ### Text decoder -/

theorem unescapeTextAux_escByte (b : UInt8) (rest : Bytes) :
    unescapeTextAux 0 (escByte b ++ rest) = (unescapeTextAux 0 rest).map (b :: ·) := by
  unfold escByte
  split
  · rename_i h; subst h
    simp [entQuot, unescapeTextAux, isPrefixB]
  · split
    · rename_i h; subst h
      simp [entAmp, entQuot, unescapeTextAux, isPrefixB]
    · split
      · rename_i h; subst h
        simp [entLt, entAmp, entQuot, unescapeTextAux, isPrefixB]
      · split
        · rename_i h; subst h
          simp [entGt, entLt, entAmp, entQuot, unescapeTextAux, isPrefixB]
        · rename_i h1 h2 h3 h4
          simp [unescapeTextAux, h1, h2, h3, h4]

/-! ### Href alphabet -/

theorem hrefAlphabet_append (x y : Bytes) (hx : hrefAlphabet x = true) (hy : hrefAlphabet y = true) :
    hrefAlphabet (x ++ y) = true := by
  induction x with
  | nil => simpa using hy
  | cons b r ih =>
    simp only [hrefAlphabet, Bool.and_eq_true, List.cons_append] at hx ⊢
    refine ⟨?_, ih hx.2⟩
    have h1 := hx.1
    simp only [Bool.or_eq_true, Bool.and_eq_true] at h1 ⊢
    rcases h1 with h | ⟨hb, h | h⟩
    · exact Or.inl h
    · exact Or.inr ⟨hb, Or.inl (by simpa using isPrefixB_append _ _ y h)⟩
    · exact Or.inr ⟨hb, Or.inr (by simpa using isPrefixB_append _ _ y h)⟩

theorem hrefAlphabet_hrefByte : ∀ b : UInt8, hrefAlphabet (hrefByte b) = true :=
  forall_uint8_of_fin (by decide +kernel)

/-! ### Href decoder -/

/-- One-pass decoder for `escape_href` output: `&amp;`, `&#x27;`, `%XY`. -/
def hrefDecodeAux (skip : Nat) : Bytes → Bytes
  | [] => []
  | b :: r =>
    match skip with
    | k + 1 => hrefDecodeAux k r
    | 0 =>
      if isPrefixB entAmp (b :: r) then 0x26 :: hrefDecodeAux 4 r
      else if isPrefixB entApos (b :: r) then 0x27 :: hrefDecodeAux 5 r
      else if b = 0x25 then
        match r with
        | h :: l :: _ =>
          match hexVal? h, hexVal? l with
          | some x, some y => (x <<< 4 ||| y) :: hrefDecodeAux 2 r
          | _, _ => b :: hrefDecodeAux 0 r
        | _ => b :: hrefDecodeAux 0 r
      else b :: hrefDecodeAux 0 r

def hrefDecode (bs : Bytes) : Bytes := hrefDecodeAux 0 bs

theorem hex_roundtrip : ∀ b : UInt8,
    hexVal? (hexDigit (b >>> 4)) = some (b >>> 4) ∧
    hexVal? (hexDigit (b &&& 0xF)) = some (b &&& 0xF) ∧
    ((b >>> 4) <<< 4 ||| (b &&& 0xF)) = b :=
  forall_uint8_of_fin (by decide +kernel)

theorem hrefSafe_ne_amp : ∀ b : UInt8, hrefSafe b = true → b ≠ 0x26 :=
  forall_uint8_of_fin (by decide +kernel)

theorem hrefDecodeAux_hrefByte (b : UInt8) (hb : b ≠ 0x25) (rest : Bytes) :
    hrefDecodeAux 0 (hrefByte b ++ rest) = b :: hrefDecodeAux 0 rest := by
  unfold hrefByte
  split
  · rename_i hs
    have := (hrefSafe_ne_amp b hs).symm
    simp [hrefDecodeAux, isPrefixB, entAmp, entApos, this, hb]
  · split
    · rename_i h; subst h
      simp [entAmp, hrefDecodeAux, isPrefixB]
    · split
      · rename_i h; subst h
        simp [entApos, entAmp, hrefDecodeAux, isPrefixB]
      · obtain ⟨h1, h2, h3⟩ := hex_roundtrip b
        simp [pctByte, hrefDecodeAux, isPrefixB, entAmp, entApos, h1, h2, h3]

/-! ### Href decoder on inputs that contain `%` (but no text reading as a percent escape) -/

/-- The next two bytes exist and are both hex digits (either case). -/
def twoHexPrefix : Bytes → Bool
  | h :: l :: _ => (hexVal? h).isSome && (hexVal? l).isSome
  | _ => false

/-- No `%` of the input is followed by two hex digits: the input holds no text that already
    reads as a percent escape. -/
def noPctEscape : Bytes → Bool
  | [] => true
  | b :: r => !(b == 0x25 && twoHexPrefix r) && noPctEscape r

theorem hrefByte_hex : ∀ b : UInt8, (hexVal? b).isSome = true → hrefByte b = [b] :=
  forall_uint8_of_fin (by decide +kernel)

theorem hrefByte_head_hex' : ∀ b : UInt8,
    hrefByte b = (hrefByte b).headD 0 :: (hrefByte b).tail ∧
    (hexVal? ((hrefByte b).headD 0)).isSome = (hexVal? b).isSome :=
  forall_uint8_of_fin (by decide +kernel)

theorem hrefByte_head_hex (b : UInt8) :
    ∃ h t, hrefByte b = h :: t ∧ (hexVal? h).isSome = (hexVal? b).isSome :=
  ⟨_, _, (hrefByte_head_hex' b).1, (hrefByte_head_hex' b).2⟩

theorem hrefByte_pct : hrefByte 0x25 = [0x25] := by decide

theorem twoHexPrefix_escapeHref (r : Bytes) : twoHexPrefix (escapeHref r) = twoHexPrefix r := by
  match r with
  | [] => rfl
  | [c] =>
    obtain ⟨h, t, e, hh⟩ := hrefByte_head_hex c
    by_cases hc : (hexVal? c).isSome = true
    · simp [escapeHref, hrefByte_hex c hc, twoHexPrefix]
    · simp only [escapeHref_cons, e, twoHexPrefix]
      cases t <;> simp_all [escapeHref]
  | c :: c2 :: r' =>
    obtain ⟨h2, t2, e2, hh2⟩ := hrefByte_head_hex c2
    by_cases hc : (hexVal? c).isSome = true
    · rw [escapeHref_cons, hrefByte_hex c hc, escapeHref_cons, e2]
      simp [twoHexPrefix, hh2]
    · obtain ⟨h, t, e, hh⟩ := hrefByte_head_hex c
      rw [escapeHref_cons, e]
      have : (hexVal? h).isSome = false := by simp_all
      cases t with
      | nil =>
        rw [escapeHref_cons, e2]; simp_all [twoHexPrefix]
      | cons x xs => simp_all [twoHexPrefix]

theorem hrefDecodeAux_pct_literal (rest : Bytes) (h : twoHexPrefix rest = false) :
    hrefDecodeAux 0 (0x25 :: rest) = 0x25 :: hrefDecodeAux 0 rest := by
  match rest with
  | [] => simp [hrefDecodeAux, isPrefixB, entAmp, entApos]
  | [x] => simp [hrefDecodeAux, isPrefixB, entAmp, entApos]
  | x :: y :: r =>
    cases hx : hexVal? x <;> cases hy : hexVal? y <;>
      simp [twoHexPrefix, hx, hy] at h <;>
      simp [hrefDecodeAux, isPrefixB, entAmp, entApos, hx, hy]

end Comrak
