/-
Helper lemmas for C09: the XML escaper equals the HTML one, decimal digits, per-constant
facts (generated list), per-kind facts about `xmlKindAttrs`/`xmlName`, and a generic
"every token satisfies P" induction over `renderXmlT`/`renderXmlF`.
-/
import Comrak.XmlLang
import Comrak.Lemmas.Escape
namespace Comrak
open Bytes

/-! ### The escaper -/

theorem xmlUnsafe_eq_htmlUnsafe : ∀ b : UInt8, xmlUnsafe b = htmlUnsafe b :=
  forall_uint8_of_fin (by decide +kernel)

theorem xmlEsc_eq_escByte : ∀ b : UInt8, xmlUnsafe b = true → xmlEsc b = escByte b :=
  forall_uint8_of_fin (by decide +kernel)

theorem escByte_of_xmlSafe : ∀ b : UInt8, xmlUnsafe b = false → escByte b = [b] :=
  forall_uint8_of_fin (by decide +kernel)

theorem xmlEscapeLoop_eq (p bs : Bytes) : xmlEscapeLoop p bs = p ++ escape bs := by
  induction bs generalizing p with
  | nil => simp [xmlEscapeLoop, escape]
  | cons b r ih =>
    simp only [xmlEscapeLoop, escape_cons]
    split
    · rename_i h; rw [ih, xmlEsc_eq_escByte b h]; simp
    · rename_i h; rw [ih, escByte_of_xmlSafe b (by simpa using h)]; simp

theorem xmlEscape_eq (bs : Bytes) : xmlEscape bs = escape bs := by
  simpa [xmlEscape] using xmlEscapeLoop_eq [] bs

/-! ### Bytes without any of `& < > "` -/

/-- No byte of `v` is one of the four characters the escaper rewrites. -/
def safeB (v : Bytes) : Bool := v.all fun b => !xmlUnsafe b

theorem safeB_append (x y : Bytes) : safeB (x ++ y) = (safeB x && safeB y) := by
  simp [safeB, List.all_append]

theorem escape_of_safeB (v : Bytes) (h : safeB v = true) : escape v = v := by
  induction v with
  | nil => rfl
  | cons b r ih =>
    simp only [safeB, List.all_cons, Bool.and_eq_true, Bool.not_eq_true'] at h
    rw [escape_cons, escByte_of_xmlSafe b h.1, ih (by simpa [safeB] using h.2)]; rfl

theorem digit_safe : ∀ b : UInt8, isAsciiDigit b = true → xmlUnsafe b = false :=
  forall_uint8_of_fin (by decide +kernel)

theorem digit_of_lt10 : ∀ k : Fin 10, isAsciiDigit (UInt8.ofNat (48 + k.val)) = true := by decide

theorem natDecAux_digits (fuel n : Nat) (acc : Bytes) (h : acc.all isAsciiDigit = true) :
    (natDecAux fuel n acc).all isAsciiDigit = true := by
  induction fuel generalizing n acc with
  | zero => simpa [natDecAux] using h
  | succ f ih =>
    have hd : isAsciiDigit (UInt8.ofNat (48 + n % 10)) = true :=
      digit_of_lt10 ⟨n % 10, Nat.mod_lt _ (by decide)⟩
    simp only [natDecAux]
    split
    · simp only [List.all_cons, Bool.and_eq_true]; exact ⟨hd, h⟩
    · exact ih _ _ (by simp only [List.all_cons, Bool.and_eq_true]; exact ⟨hd, h⟩)

theorem natDec_digits (n : Nat) : (natDec n).all isAsciiDigit = true :=
  natDecAux_digits _ _ _ (by simp)

@[simp] theorem safe_natDec (n : Nat) : safeB (natDec n) = true := by
  have h := natDec_digits n
  simp only [safeB, List.all_eq_true] at h ⊢
  intro b hb
  simp [digit_safe b (h b hb)]

@[simp] theorem safe_xmlSpBytes (sp : Sp) : safeB (xmlSpBytes sp) = true := by
  have h1 : safeB [0x3A] = true := by decide
  have h2 : safeB [0x2D] = true := by decide
  simp only [xmlSpBytes, safeB_append, safe_natDec, h1, h2, Bool.and_self]

/-! ### Per-constant facts (generated from XmlNames.lean) -/
@[simp] theorem safe_v_xmlns : safeB XS.v_xmlns = true := by decide
@[simp] theorem safe_v_preserve : safeB XS.v_preserve = true := by decide
@[simp] theorem safe_v_bullet : safeB XS.v_bullet = true := by decide
@[simp] theorem safe_v_ordered : safeB XS.v_ordered = true := by decide
@[simp] theorem safe_v_period : safeB XS.v_period = true := by decide
@[simp] theorem safe_v_paren : safeB XS.v_paren = true := by decide
@[simp] theorem safe_v_true : safeB XS.v_true = true := by decide
@[simp] theorem safe_v_false : safeB XS.v_false = true := by decide
@[simp] theorem safe_v_display : safeB XS.v_display = true := by decide
@[simp] theorem safe_v_inline : safeB XS.v_inline = true := by decide
@[simp] theorem safe_v_left : safeB XS.v_left = true := by decide
@[simp] theorem safe_v_center : safeB XS.v_center = true := by decide
@[simp] theorem safe_v_right : safeB XS.v_right = true := by decide
@[simp] theorem safe_v_note : safeB XS.v_note = true := by decide
@[simp] theorem safe_v_tip : safeB XS.v_tip = true := by decide
@[simp] theorem safe_v_important : safeB XS.v_important = true := by decide
@[simp] theorem safe_v_warning : safeB XS.v_warning = true := by decide
@[simp] theorem safe_v_caution : safeB XS.v_caution = true := by decide
@[simp] theorem safe_v_math : safeB XS.v_math = true := by decide
@[simp] theorem legal_e_document : xmlLegalName XS.e_document = true := by decide
@[simp] theorem legal_e_block_quote : xmlLegalName XS.e_block_quote = true := by decide
@[simp] theorem legal_e_footnote_definition : xmlLegalName XS.e_footnote_definition = true := by decide
@[simp] theorem legal_e_list : xmlLegalName XS.e_list = true := by decide
@[simp] theorem legal_e_description_list : xmlLegalName XS.e_description_list = true := by decide
@[simp] theorem legal_e_description_item : xmlLegalName XS.e_description_item = true := by decide
@[simp] theorem legal_e_description_term : xmlLegalName XS.e_description_term = true := by decide
@[simp] theorem legal_e_description_details : xmlLegalName XS.e_description_details = true := by decide
@[simp] theorem legal_e_item : xmlLegalName XS.e_item = true := by decide
@[simp] theorem legal_e_code_block : xmlLegalName XS.e_code_block = true := by decide
@[simp] theorem legal_e_html_block : xmlLegalName XS.e_html_block = true := by decide
@[simp] theorem legal_e_paragraph : xmlLegalName XS.e_paragraph = true := by decide
@[simp] theorem legal_e_heading : xmlLegalName XS.e_heading = true := by decide
@[simp] theorem legal_e_thematic_break : xmlLegalName XS.e_thematic_break = true := by decide
@[simp] theorem legal_e_table : xmlLegalName XS.e_table = true := by decide
@[simp] theorem legal_e_table_row : xmlLegalName XS.e_table_row = true := by decide
@[simp] theorem legal_e_table_cell : xmlLegalName XS.e_table_cell = true := by decide
@[simp] theorem legal_e_text : xmlLegalName XS.e_text = true := by decide
@[simp] theorem legal_e_softbreak : xmlLegalName XS.e_softbreak = true := by decide
@[simp] theorem legal_e_linebreak : xmlLegalName XS.e_linebreak = true := by decide
@[simp] theorem legal_e_image : xmlLegalName XS.e_image = true := by decide
@[simp] theorem legal_e_link : xmlLegalName XS.e_link = true := by decide
@[simp] theorem legal_e_emph : xmlLegalName XS.e_emph = true := by decide
@[simp] theorem legal_e_strong : xmlLegalName XS.e_strong = true := by decide
@[simp] theorem legal_e_code : xmlLegalName XS.e_code = true := by decide
@[simp] theorem legal_e_html_inline : xmlLegalName XS.e_html_inline = true := by decide
@[simp] theorem legal_e_raw : xmlLegalName XS.e_raw = true := by decide
@[simp] theorem legal_e_strikethrough : xmlLegalName XS.e_strikethrough = true := by decide
@[simp] theorem legal_e_frontmatter : xmlLegalName XS.e_frontmatter = true := by decide
@[simp] theorem legal_e_taskitem : xmlLegalName XS.e_taskitem = true := by decide
@[simp] theorem legal_e_superscript : xmlLegalName XS.e_superscript = true := by decide
@[simp] theorem legal_e_footnote_reference : xmlLegalName XS.e_footnote_reference = true := by decide
@[simp] theorem legal_e_multiline_block_quote : xmlLegalName XS.e_multiline_block_quote = true := by decide
@[simp] theorem legal_e_escaped : xmlLegalName XS.e_escaped = true := by decide
@[simp] theorem legal_e_math : xmlLegalName XS.e_math = true := by decide
@[simp] theorem legal_e_wikilink : xmlLegalName XS.e_wikilink = true := by decide
@[simp] theorem legal_e_underline : xmlLegalName XS.e_underline = true := by decide
@[simp] theorem legal_e_subscript : xmlLegalName XS.e_subscript = true := by decide
@[simp] theorem legal_e_spoiler : xmlLegalName XS.e_spoiler = true := by decide
@[simp] theorem legal_e_escaped_tag : xmlLegalName XS.e_escaped_tag = true := by decide
@[simp] theorem legal_e_alert : xmlLegalName XS.e_alert = true := by decide
@[simp] theorem legal_a_xmlns : xmlLegalName XS.a_xmlns = true := by decide
@[simp] theorem legal_a_xml_space : xmlLegalName XS.a_xml_space = true := by decide
@[simp] theorem legal_a_sourcepos : xmlLegalName XS.a_sourcepos = true := by decide
@[simp] theorem legal_a_type : xmlLegalName XS.a_type = true := by decide
@[simp] theorem legal_a_start : xmlLegalName XS.a_start = true := by decide
@[simp] theorem legal_a_delim : xmlLegalName XS.a_delim = true := by decide
@[simp] theorem legal_a_tasklist : xmlLegalName XS.a_tasklist = true := by decide
@[simp] theorem legal_a_tight : xmlLegalName XS.a_tight = true := by decide
@[simp] theorem legal_a_level : xmlLegalName XS.a_level = true := by decide
@[simp] theorem legal_a_info : xmlLegalName XS.a_info = true := by decide
@[simp] theorem legal_a_math_style : xmlLegalName XS.a_math_style = true := by decide
@[simp] theorem legal_a_destination : xmlLegalName XS.a_destination = true := by decide
@[simp] theorem legal_a_title : xmlLegalName XS.a_title = true := by decide
@[simp] theorem legal_a_align : xmlLegalName XS.a_align = true := by decide
@[simp] theorem legal_a_label : xmlLegalName XS.a_label = true := by decide
@[simp] theorem legal_a_completed : xmlLegalName XS.a_completed = true := by decide
@[simp] theorem legal_a_multiline : xmlLegalName XS.a_multiline = true := by decide
@[simp] theorem legal_a_tag : xmlLegalName XS.a_tag = true := by decide

@[simp] theorem safe_boolBytes (b : Bool) : safeB (boolBytes b) = true := by cases b <;> decide
@[simp] theorem safe_alertXmlType (a : AlertType) : safeB (alertXmlType a) = true := by cases a <;> decide

/-! ### What is checked of every token -/

/-- An attribute value is either document data sent through `escape`, or comrak's own text
    free of `& < > "`. -/
def valOk : XVal → Bool
  | .esc _ => true
  | .lit v => safeB v

def attrValOk : XAttr → Bool
  | .mk _ v => valOk v

def attrNameOk : XAttr → Bool
  | .mk n _ => xmlLegalName n

def tokValsOk (t : XTok) : Bool := t.attrs.all attrValOk
def tokNamesOk (t : XTok) : Bool := xmlLegalName t.name && t.attrs.all attrNameOk

theorem alignXmlAttr_vals (a : Align) : (alignXmlAttr a).all attrValOk = true := by
  cases a <;> simp [alignXmlAttr, xAttr, attrValOk, valOk]
theorem alignXmlAttr_names (a : Align) : (alignXmlAttr a).all attrNameOk = true := by
  cases a <;> simp [alignXmlAttr, xAttr, attrNameOk]

theorem xmlSpAttr_vals (o : XmlOpts) (sp : Sp) : (xmlSpAttr o sp).all attrValOk = true := by
  unfold xmlSpAttr; split <;> simp [xAttr, attrValOk, valOk]
theorem xmlSpAttr_names (o : XmlOpts) (sp : Sp) : (xmlSpAttr o sp).all attrNameOk = true := by
  unfold xmlSpAttr; split <;> simp [xAttr, attrNameOk]

theorem xmlKindAttrs_vals (cx : XCtx) (v : NodeValue) : (xmlKindAttrs cx v).all attrValOk = true := by
  cases v
  case tableCell =>
    simp only [xmlKindAttrs]
    split <;> simp [alignXmlAttr_vals]
  case codeBlock f fc fl fo info lit =>
    simp only [xmlKindAttrs]
    by_cases h1 : info.isEmpty = true <;> by_cases h2 : (info == XS.v_math) = true <;>
      simp [h1, h2, xAttr, xAttrE, preserveAttr, attrValOk, valOk]
  all_goals simp [xmlKindAttrs, xAttr, xAttrE, preserveAttr, attrValOk, valOk, List.all_append]
  all_goals (repeat' split)
  all_goals (try simp_all [xAttr, xAttrE, attrValOk, valOk])

theorem xmlKindAttrs_names (cx : XCtx) (v : NodeValue) :
    (xmlKindAttrs cx v).all attrNameOk = true := by
  cases v
  case tableCell =>
    simp only [xmlKindAttrs]
    split <;> simp [alignXmlAttr_names]
  case codeBlock f fc fl fo info lit =>
    simp only [xmlKindAttrs]
    by_cases h1 : info.isEmpty = true <;> by_cases h2 : (info == XS.v_math) = true <;>
      simp [h1, h2, xAttr, xAttrE, preserveAttr, attrNameOk]
  all_goals simp [xmlKindAttrs, xAttr, xAttrE, preserveAttr, attrNameOk, List.all_append]
  all_goals (repeat' split)
  all_goals (try simp_all [xAttr, xAttrE, attrNameOk])

theorem xmlName_legal (v : NodeValue) : xmlLegalName (xmlName v) = true := by
  cases v <;> simp [xmlName]

theorem xmlAttrs_vals (o : XmlOpts) (cx : XCtx) (v : NodeValue) (sp : Sp) :
    (xmlAttrs o cx v sp).all attrValOk = true := by
  simp [xmlAttrs, List.all_append, xmlSpAttr_vals, xmlKindAttrs_vals]

theorem xmlAttrs_names (o : XmlOpts) (cx : XCtx) (v : NodeValue) (sp : Sp) :
    (xmlAttrs o cx v sp).all attrNameOk = true := by
  simp [xmlAttrs, List.all_append, xmlSpAttr_names, xmlKindAttrs_names cx v]

/-! ### Generic induction: every token of a rendering satisfies `P` -/

/-- What `P` has to satisfy at one node whose value passes `q`. -/
def NodeOk (o : XmlOpts) (P : XTok → Bool) (q : NodeValue → Bool) : Prop :=
  ∀ (ind : Nat) (cx : XCtx) (v : NodeValue) (sp : Sp) (l : Bytes), q v = true →
    P (.opn ind (xmlName v) (xmlAttrs o cx v sp)) = true ∧
    P (.leaf ind (xmlName v) (xmlAttrs o cx v sp) l) = true ∧
    P (.empty ind (xmlName v) (xmlAttrs o cx v sp)) = true ∧
    P (.close ind (xmlName v)) = true

mutual
theorem renderXmlT_all (o : XmlOpts) (P : XTok → Bool) (q : NodeValue → Bool) (h : NodeOk o P q) :
    ∀ (t : Tree) (ind : Nat) (cx : XCtx), t.allV q = true → (renderXmlT o ind cx t).all P = true
  | .node v sp cs, ind, cx, hq => by
    simp only [Tree.allV, Bool.and_eq_true] at hq
    have hF := renderXmlF_all o P q h cs (ind + 2) (some v) cx.parent 0 hq.2
    simp only [renderXmlT]
    split
    · rename_i l _
      obtain ⟨_, h2, _, h4⟩ := h ind cx v sp l hq.1
      split <;> simp [List.all_append, hF, h2, h4]
    · obtain ⟨h1, _, h3, h4⟩ := h ind cx v sp [] hq.1
      split <;> simp [List.all_append, hF, h1, h3, h4]
theorem renderXmlF_all (o : XmlOpts) (P : XTok → Bool) (q : NodeValue → Bool) (h : NodeOk o P q) :
    ∀ (f : Forest) (ind : Nat) (parent grand : Option NodeValue) (idx : Nat),
      f.allV q = true → (renderXmlF o ind parent grand idx f).all P = true
  | .nil, _, _, _, _, _ => by simp [renderXmlF]
  | .cons t ts, ind, parent, grand, idx, hq => by
    simp only [Forest.allV, Bool.and_eq_true] at hq
    simp only [renderXmlF, List.all_append, Bool.and_eq_true]
    exact ⟨renderXmlT_all o P q h t ind _ hq.1, renderXmlF_all o P q h ts ind parent grand (idx + 1) hq.2⟩
end

mutual
theorem Tree.allV_true : ∀ t : Tree, t.allV (fun _ => true) = true
  | .node _ _ cs => by simp [Tree.allV, Forest.allV_true cs]
theorem Forest.allV_true : ∀ f : Forest, f.allV (fun _ => true) = true
  | .nil => rfl
  | .cons t ts => by simp [Forest.allV, Tree.allV_true t, Forest.allV_true ts]
end

/-! ### Balance -/

theorem xrun_append (s : List Bytes) (a b : List XTok) :
    xrun s (a ++ b) = (xrun s a).bind fun s' => xrun s' b := by
  induction a generalizing s with
  | nil => simp [xrun]
  | cons t r ih =>
    cases t with
    | opn i n as => simp [xrun, ih]
    | leaf i n as l => simp [xrun, ih]
    | empty i n as => simp [xrun, ih]
    | close i n =>
      cases s with
      | nil => simp [xrun]
      | cons top st =>
        simp only [List.cons_append, xrun]
        split <;> simp [ih]

theorem xrun_append_some {s s' : List Bytes} {a : List XTok} (b : List XTok) (h : xrun s a = some s') :
    xrun s (a ++ b) = xrun s' b := by
  rw [xrun_append, h]; rfl

mutual
theorem xrun_renderXmlT (o : XmlOpts) :
    ∀ (t : Tree) (ind : Nat) (cx : XCtx) (s : List Bytes), litLeafT t = true →
      xrun s (renderXmlT o ind cx t) = some s
  | .node v sp cs, ind, cx, s, h => by
    simp only [litLeafT, Bool.and_eq_true, Bool.or_eq_true] at h
    have hF := fun s => xrun_renderXmlF o cs (ind + 2) (some v) cx.parent 0 s h.2
    simp only [renderXmlT]
    split
    · rename_i l hl
      have hnil : cs.isNil = true := by
        rcases h.1 with h1 | h1
        · simp [hl] at h1
        · exact h1
      simp [hnil, xrun]
    · split
      · simp [xrun]
      · simp only [xrun]
        rw [xrun_append_some _ (hF _)]
        simp [xrun]
theorem xrun_renderXmlF (o : XmlOpts) :
    ∀ (f : Forest) (ind : Nat) (parent grand : Option NodeValue) (idx : Nat) (s : List Bytes),
      litLeafF f = true → xrun s (renderXmlF o ind parent grand idx f) = some s
  | .nil, _, _, _, _, s, _ => by simp [renderXmlF, xrun]
  | .cons t ts, ind, parent, grand, idx, s, h => by
    simp only [litLeafF, Bool.and_eq_true] at h
    simp only [renderXmlF]
    rw [xrun_append_some _ (xrun_renderXmlT o t ind _ s h.1)]
    exact xrun_renderXmlF o ts ind parent grand (idx + 1) s h.2
end

end Comrak
