/-
C18 helper lemmas: erasing the `data-sourcepos` attribute from model tokens.
-/
import Comrak.Lemmas.Html
namespace Comrak
open Bytes

def isSpAttr (a : Attr) : Bool := a.name == S.a_data_sourcepos

/-- Remove `data-sourcepos` from comrak's own start tags. -/
def eraseSpTok : Tok → Tok
  | .op n as => .op n (as.filter fun a => !isSpAttr a)
  | .vd n as => .vd n (as.filter fun a => !isSpAttr a)
  | t => t

def eraseSp (ts : List Tok) : List Tok := ts.map eraseSpTok

@[simp] theorem ne_a_href : (S.a_href == S.a_data_sourcepos) = false := by decide
@[simp] theorem ne_a_src : (S.a_src == S.a_data_sourcepos) = false := by decide
@[simp] theorem ne_a_alt : (S.a_alt == S.a_data_sourcepos) = false := by decide
@[simp] theorem ne_a_title : (S.a_title == S.a_data_sourcepos) = false := by decide
@[simp] theorem ne_a_class : (S.a_class == S.a_data_sourcepos) = false := by decide
@[simp] theorem ne_a_start : (S.a_start == S.a_data_sourcepos) = false := by decide
@[simp] theorem ne_a_id : (S.a_id == S.a_data_sourcepos) = false := by decide
@[simp] theorem ne_a_data_footnotes : (S.a_data_footnotes == S.a_data_sourcepos) = false := by decide
@[simp] theorem ne_a_data_footnote_ref : (S.a_data_footnote_ref == S.a_data_sourcepos) = false := by decide
@[simp] theorem ne_a_data_footnote_backref : (S.a_data_footnote_backref == S.a_data_sourcepos) = false := by decide
@[simp] theorem ne_a_data_footnote_backref_idx : (S.a_data_footnote_backref_idx == S.a_data_sourcepos) = false := by decide
@[simp] theorem ne_a_aria_label : (S.a_aria_label == S.a_data_sourcepos) = false := by decide
@[simp] theorem ne_a_aria_hidden : (S.a_aria_hidden == S.a_data_sourcepos) = false := by decide
@[simp] theorem ne_a_align : (S.a_align == S.a_data_sourcepos) = false := by decide
@[simp] theorem ne_a_type : (S.a_type == S.a_data_sourcepos) = false := by decide
@[simp] theorem ne_a_checked : (S.a_checked == S.a_data_sourcepos) = false := by decide
@[simp] theorem ne_a_disabled : (S.a_disabled == S.a_data_sourcepos) = false := by decide
@[simp] theorem ne_a_lang : (S.a_lang == S.a_data_sourcepos) = false := by decide
@[simp] theorem ne_a_data_meta : (S.a_data_meta == S.a_data_sourcepos) = false := by decide
@[simp] theorem ne_a_data_math_style : (S.a_data_math_style == S.a_data_sourcepos) = false := by decide
@[simp] theorem ne_a_data_wikilink : (S.a_data_wikilink == S.a_data_sourcepos) = false := by decide
@[simp] theorem ne_a_data_escaped_char : (S.a_data_escaped_char == S.a_data_sourcepos) = false := by decide
@[simp] theorem ne_a_xmlns : (S.a_xmlns == S.a_data_sourcepos) = false := by decide
@[simp] theorem ne_a_xml_space : (S.a_xml_space == S.a_data_sourcepos) = false := by decide
@[simp] theorem ne_a_sourcepos : (S.a_sourcepos == S.a_data_sourcepos) = false := by decide
@[simp] theorem ne_a_info : (S.a_info == S.a_data_sourcepos) = false := by decide
@[simp] theorem ne_a_level : (S.a_level == S.a_data_sourcepos) = false := by decide
@[simp] theorem ne_a_destination : (S.a_destination == S.a_data_sourcepos) = false := by decide
@[simp] theorem ne_a_tight : (S.a_tight == S.a_data_sourcepos) = false := by decide
@[simp] theorem ne_a_delimiter : (S.a_delimiter == S.a_data_sourcepos) = false := by decide
@[simp] theorem ne_a_label : (S.a_label == S.a_data_sourcepos) = false := by decide
@[simp] theorem ne_a_alert_type : (S.a_alert_type == S.a_data_sourcepos) = false := by decide
@[simp] theorem ne_a_multiline : (S.a_multiline == S.a_data_sourcepos) = false := by decide
@[simp] theorem ne_a_fence_length : (S.a_fence_length == S.a_data_sourcepos) = false := by decide
@[simp] theorem ne_a_fence_offset : (S.a_fence_offset == S.a_data_sourcepos) = false := by decide
@[simp] theorem ne_a_completed : (S.a_completed == S.a_data_sourcepos) = false := by decide
@[simp] theorem ne_a_symbol : (S.a_symbol == S.a_data_sourcepos) = false := by decide
@[simp] theorem ne_a_math_style : (S.a_math_style == S.a_data_sourcepos) = false := by decide
@[simp] theorem ne_a_display : (S.a_display == S.a_data_sourcepos) = false := by decide
@[simp] theorem ne_a_inline : (S.a_inline == S.a_data_sourcepos) = false := by decide
@[simp] theorem ne_a_literal : (S.a_literal == S.a_data_sourcepos) = false := by decide
@[simp] theorem ne_a_bullet : (S.a_bullet == S.a_data_sourcepos) = false := by decide
@[simp] theorem ne_a_ordered : (S.a_ordered == S.a_data_sourcepos) = false := by decide
@[simp] theorem ne_a_period : (S.a_period == S.a_data_sourcepos) = false := by decide
@[simp] theorem ne_a_paren : (S.a_paren == S.a_data_sourcepos) = false := by decide
@[simp] theorem ne_a_name : (S.a_name == S.a_data_sourcepos) = false := by decide
@[simp] theorem eq_a_data_sourcepos : (S.a_data_sourcepos == S.a_data_sourcepos) = true := by decide

def withSp (o : HtmlOpts) (b : Bool) : HtmlOpts := { o with sourcepos := b }

@[simp] theorem spAttr_off (o : HtmlOpts) (sp : Sp) : spAttr (withSp o false) sp = [] := by
  simp [spAttr, withSp]

theorem filter_spAttr (o : HtmlOpts) (sp : Sp) :
    (spAttr (withSp o true) sp).filter (fun a => !isSpAttr a) = [] := by
  simp only [spAttr, withSp]
  by_cases h : sp.sl > 0 <;> simp [h, isSpAttr]

@[simp] theorem isSpAttr_mk (n : Bytes) (v : Option (List APart)) :
    isSpAttr ⟨n, v⟩ = (n == S.a_data_sourcepos) := rfl

attribute [simp] filter_spAttr

@[simp] theorem mem_spAttr (o : HtmlOpts) (sp : Sp) (a : Attr) (h : a ∈ spAttr (withSp o true) sp) :
    isSpAttr a = true := by
  simp only [spAttr, withSp] at h
  by_cases hs : sp.sl > 0 <;> simp [hs] at h
  subst h; simp

@[simp] theorem map_erase_cr (st : St) : List.map eraseSpTok (W.cr st).1 = (W.cr st).1 := by
  unfold W.cr; split <;> simp [eraseSpTok]

@[simp] theorem withSp_fields (o : HtmlOpts) (b : Bool) :
    (withSp o b).githubPreLang = o.githubPreLang ∧ (withSp o b).fullInfoString = o.fullInfoString ∧
    (withSp o b).escape = o.escape ∧ (withSp o b).unsafe_ = o.unsafe_ ∧ (withSp o b).hardbreaks = o.hardbreaks ∧
    (withSp o b).tasklistClasses = o.tasklistClasses ∧ (withSp o b).figureWithCaption = o.figureWithCaption ∧
    (withSp o b).gfmQuirks = o.gfmQuirks ∧ (withSp o b).escapedCharSpans = o.escapedCharSpans ∧
    (withSp o b).relaxedAutolinks = o.relaxedAutolinks ∧ (withSp o b).tagfilter = o.tagfilter ∧
    (withSp o b).headerIds = o.headerIds ∧ (withSp o b).sourcepos = b := by
  simp [withSp]

theorem map_erase_id (ts : List Tok) (h : ∀ t ∈ ts, eraseSpTok t = t) : List.map eraseSpTok ts = ts := by
  induction ts with
  | nil => rfl
  | cons t r ih => simp [h t (by simp), ih (fun x hx => h x (by simp [hx]))]

@[simp] theorem htmlBlockToks_withSp (o : HtmlOpts) (b : Bool) (l : Bytes) :
    htmlBlockToks (withSp o b) l = htmlBlockToks o l := rfl
@[simp] theorem htmlInlineToks_withSp (o : HtmlOpts) (b : Bool) (l : Bytes) :
    htmlInlineToks (withSp o b) l = htmlInlineToks o l := rfl

@[simp] theorem erase_htmlBlockToks (o : HtmlOpts) (l : Bytes) :
    List.map eraseSpTok (htmlBlockToks o l) = htmlBlockToks o l := by
  unfold htmlBlockToks; (repeat' split) <;> rfl

@[simp] theorem erase_htmlInlineToks (o : HtmlOpts) (l : Bytes) :
    List.map eraseSpTok (htmlInlineToks o l) = htmlInlineToks o l := by
  unfold htmlInlineToks; (repeat' split) <;> rfl

@[simp] theorem urlVal_withSp (o : HtmlOpts) (b : Bool) (u : Bytes) : urlVal (withSp o b) u = urlVal o u := rfl

@[simp] theorem alignAttr_notSp (al : Align) (a : Attr) (h : a ∈ alignAttr al) : isSpAttr a = false := by
  cases al <;> simp [alignAttr, litAttr] at h <;> subst h <;> simp

@[simp] theorem erase_rowSectionToks (h : Bool) (prev : Option NodeValue) :
    List.map eraseSpTok (rowSectionToks h prev) = rowSectionToks h prev := by
  unfold rowSectionToks; (repeat' split) <;> simp [eraseSpTok, nl]

@[simp] theorem erase_mathCodeBlockToks (o : HtmlOpts) (sp : Sp) (l : Bytes) :
    List.map eraseSpTok (mathCodeBlockToks (withSp o true) sp l) = mathCodeBlockToks (withSp o false) sp l := by
  simp only [mathCodeBlockToks, withSp]
  by_cases h : o.githubPreLang = true <;> simp [h, eraseSpTok, nl, List.filter_append]

@[simp] theorem filter_codeBlockAttrs (o : HtmlOpts) (info : Bytes) (sp : Sp) :
    List.filter (fun a => !isSpAttr a) (codeBlockAttrs (withSp o true) info sp).1 = (codeBlockAttrs (withSp o false) info sp).1 ∧
    List.filter (fun a => !isSpAttr a) (codeBlockAttrs (withSp o true) info sp).2 = (codeBlockAttrs (withSp o false) info sp).2 := by
  simp only [codeBlockAttrs, withSp]
  (repeat' split) <;> simp_all [List.filter_append]
  all_goals (refine ⟨?_, ?_⟩ <;> intro a _ ha <;> rcases ha with rfl | ⟨_, rfl⟩ <;> simp)

/-- Per node, every kind and option vector: the tokens `enter` emits with `sourcepos` on,
    with the attribute erased, are the tokens it emits with `sourcepos` off (same state). -/
theorem enter_eraseSp (o : HtmlOpts) (nt : NormTable) (cx : Ctx) (v : NodeValue) (sp : Sp) (cs : Forest) (st : St) :
    eraseSp (enter (withSp o true) nt cx v sp cs st).1 = (enter (withSp o false) nt cx v sp cs st).1 := by
  cases v
  case htmlBlock bt l => simp [enter, eraseSp]
  case htmlInline l => simp [enter, eraseSp]
  case list l => cases hl : l.ty <;> simp [enter, eraseSp, eraseSpTok, litAttr, nl, List.filter_append, hl] <;> (repeat' split) <;> simp_all
  case heading level setext => cases h : o.headerIds <;> simp [enter, eraseSp, eraseSpTok, litAttr, nl, h]
  case alert ty title m fl fo => cases title <;> simp [enter, eraseSp, eraseSpTok, litAttr, nl, List.filter_append]
  all_goals simp [enter, eraseSp, eraseSpTok, litAttr, nl, List.filter_append]
  all_goals (repeat' split)
  all_goals (try simp_all [eraseSpTok, List.filter_append])
  all_goals (intro a ha; exact alignAttr_notSp _ a ha)

@[simp] theorem erase_backrefToks (name : Bytes) (ix k n : Nat) :
    List.map eraseSpTok (backrefToks name ix k n) = backrefToks name ix k n := by
  induction k generalizing n with
  | zero => simp [backrefToks]
  | succ k ih =>
    simp only [backrefToks, List.map_append, ih]
    split <;> simp [eraseSpTok, litAttr]

@[simp] theorem erase_putBackref (name : Bytes) (total : Nat) (st : St) :
    List.map eraseSpTok (putBackref name total st).1.1 = (putBackref name total st).1.1 := by
  unfold putBackref; split <;> simp

theorem exit_withSp (o : HtmlOpts) (b : Bool) (cx : Ctx) (v : NodeValue) (cs : Forest) :
    exit (withSp o b) cx v cs = exit o cx v cs := by
  cases v <;> rfl

/-- `exit` never writes a position attribute. -/
theorem exit_eraseSp (o : HtmlOpts) (cx : Ctx) (v : NodeValue) (cs : Forest) (st : St) :
    eraseSp (exit (withSp o true) cx v cs st).1 = (exit (withSp o false) cx v cs st).1 := by
  rw [exit_withSp, exit_withSp]
  cases v
  case paragraph =>
    simp only [exit, eraseSp]
    split
    · simp
    · cases hp : cx.parent with
      | none => simp [eraseSpTok, nl]
      | some pv =>
        cases pv <;> simp [eraseSpTok, nl]
        split <;> simp [eraseSpTok]
  case footnoteDefinition name total =>
    simp only [exit, eraseSp]
    simp [eraseSpTok, nl]
    split <;> simp [eraseSpTok, nl]
  case list l => cases hl : l.ty <;> simp [exit, eraseSp, eraseSpTok, nl, hl]
  all_goals simp [exit, eraseSp, eraseSpTok, nl]
  all_goals (repeat' split)
  all_goals (try simp_all [eraseSpTok])

end Comrak
