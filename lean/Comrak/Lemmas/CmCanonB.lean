/-
The CommonMark writer on canonical documents, layer B: what feeding line-structured inline source
writes, and the writer on inline content.
-/
import Comrak.Lemmas.CmCanonA
namespace Comrak.CmCanon
open Comrak Bytes Comrak.Cm Comrak.Canon

/-- Lines written in a container whose prefix is `P`: the first one continues the current line, every
    other one starts a new line behind the prefix. -/
def Tx (P : Bytes) : List Bytes → Bytes
  | [] => []
  | p :: t => p ++ t.flatMap (fun q => 0x0A :: (P ++ q))

theorem Tx_nil_cons (P : Bytes) (p : Bytes) (t : List Bytes) : Tx P ([] :: p :: t) = 0x0A :: (P ++ Tx P (p :: t)) := by
  simp [Tx]

theorem feed_both : ∀ (x : Bytes),
    (∀ a : Core, Good a → a.mid → a.rv ≠ [] → allNonempty (splitNl x).tail = true →
      feedA x a = { a with rv := (Tx a.pfx (splitNl x)).reverse ++ a.rv }) ∧
    (∀ a : Core, Good a → a.need = 1 → a.bol = false → a.rv ≠ [] → allNonempty (splitNl x) = true →
      feedA x a = { a with rv := (Tx a.pfx (splitNl x)).reverse ++ (a.pfx.reverse ++ 0x0A :: a.rv), need := 0 })
  | [] => by
    refine ⟨fun a _ hm _ _ => ?_, fun a _ _ _ _ h => ?_⟩
    · simp [feedA_nil, splitNl, Tx]
    · simp [splitNl, allNonempty] at h
  | b :: r => by
    obtain ⟨ihG, ihH⟩ := feed_both r
    have hne := splitNl_ne_nil r
    refine ⟨fun a g hm hr ht => ?_, fun a g hn hb hr ht => ?_⟩
    · obtain ⟨rv, pfx, need, bol, tight, nolb, ce, ol⟩ := a
      obtain ⟨h1, h2⟩ := hm
      simp only at h1 h2 hr
      subst h1; subst h2
      by_cases hb : b = 0x0A
      · subst hb
        rw [splitNl_nl] at ht ⊢
        simp only [List.tail_cons] at ht
        have hc : aCr ⟨rv, pfx, 0, false, tight, nolb, ce, ol⟩ = ⟨rv, pfx, 1, false, tight, nolb, ce, ol⟩ := by simp [aCr]
        rw [feedA_cons, if_pos rfl, hc,
          ihH ⟨rv, pfx, 1, false, tight, nolb, ce, ol⟩ ⟨g.ce, by simp, g.hd⟩ rfl rfl hr ht]
        cases hs : splitNl r with
        | nil => exact absurd hs hne
        | cons p t => rw [Tx_nil_cons]; simp
      · rw [splitNl_other b r hb] at ht ⊢
        simp only [List.tail_cons] at ht
        have hw : aW [b] ⟨rv, pfx, 0, false, tight, nolb, ce, ol⟩ = ⟨b :: rv, pfx, 0, false, tight, nolb, ce, ol⟩ := by
          simp [aW, Core.lead, Core.n, nls]
        rw [feedA_cons, if_neg hb, hw,
          ihG ⟨b :: rv, pfx, 0, false, tight, nolb, ce, ol⟩ ⟨g.ce, by simp, by simp [hb]⟩ ⟨rfl, rfl⟩ (by simp) ht]
        cases hs : splitNl r with
        | nil => exact absurd hs hne
        | cons p t => simp [Tx]
    · obtain ⟨rv, pfx, need, bol, tight, nolb, ce, ol⟩ := a
      simp only at hn hb hr
      subst hn; subst hb
      have hb0 : b ≠ 0x0A := by
        intro e
        subst e
        rw [splitNl_nl] at ht
        simp [allNonempty] at ht
      rw [splitNl_other b r hb0] at ht ⊢
      have hre : rv.isEmpty = false := by cases rv <;> simp_all
      have hw : aW [b] ⟨rv, pfx, 1, false, tight, nolb, ce, ol⟩ = ⟨b :: (pfx.reverse ++ 0x0A :: rv), pfx, 0, false, tight, nolb, ce, ol⟩ := by
        simp [aW, Core.lead, Core.n, nls, hre]
      have ht2 : allNonempty (splitNl r).tail = true := by
        simp only [allNonempty, List.all_cons, Bool.and_eq_true] at ht
        simpa [allNonempty] using ht.2
      rw [feedA_cons, if_neg hb0, hw,
        ihG ⟨b :: (pfx.reverse ++ 0x0A :: rv), pfx, 0, false, tight, nolb, ce, ol⟩ ⟨g.ce, by simp, by simp [hb0]⟩ ⟨rfl, rfl⟩ (by simp) ht2]
      cases hs : splitNl r with
      | nil => exact absurd hs hne
      | cons p t => simp [Tx]

/-- Inline source with no empty line, fed from any state. -/
theorem feedA_closed (x : Bytes) (a : Core) (g : Good a) (hx : x ≠ []) (hall : allNonempty (splitNl x) = true) :
    feedA x a = { a with rv := (Tx a.pfx (splitNl x)).reverse ++ a.lead.reverse ++ a.rv, need := 0, bol := false } := by
  cases x with
  | nil => exact absurd rfl hx
  | cons b r =>
    have hne := splitNl_ne_nil r
    have hb0 : b ≠ 0x0A := by
      intro e
      subst e
      rw [splitNl_nl] at hall
      simp [allNonempty] at hall
    rw [splitNl_other b r hb0] at hall ⊢
    have ht2 : allNonempty (splitNl r).tail = true := by
      simp only [allNonempty, List.all_cons, Bool.and_eq_true] at hall
      simpa [allNonempty] using hall.2
    have hg := good_aW [b] a g (by simp) (by simp [nlFree, hb0])
    have := (feed_both r).1 (aW [b] a) hg (aW_mid _ _) (by simp [aW]) ht2
    rw [feedA_cons, if_neg hb0, this]
    cases hs : splitNl r with
    | nil => exact absurd hs hne
    | cons p t => simp [Tx, aW]

/-! ### The class of inline content -/

/-- Punctuation the writer escapes with a backslash wherever it stands: `* _ [ ] # < > \ ` !`. -/
def escAlways (c : UInt8) : Bool := [0x2A, 0x5F, 0x5B, 0x5D, 0x23, 0x3C, 0x3E, 0x5C, 0x60, 0x21].contains c

/-- What the writer writes for a text byte of the class. -/
def encB (c : UInt8) : Bytes := if escAlways c then [0x5C, c] else [c]

def txtOk (c : UInt8) : Bool := plainOk c || escAlways c

theorem escAlways_facts : ∀ c : UInt8, escAlways c = true →
    decide (c < 0x80) = true ∧
      (decide (c < 0x20) || c == 0x2A || c == 0x5F || c == 0x5B || c == 0x5D || c == 0x23 || c == 0x3C || c == 0x3E
          || c == 0x5C || c == 0x60 || c == 0x21) = true ∧ Cm.isPunct c = true ∧ c ≠ 0x0A ∧ plainOk c = false :=
  forall_uint8_of_fin (by decide +kernel)

theorem plainOk_notEsc : ∀ c : UInt8, plainOk c = true → escAlways c = false := forall_uint8_of_fin (by decide +kernel)

theorem escAlways_needs (c : UInt8) (h : escAlways c = true) (bc fd : Bool) (nx : UInt8) :
    needsEscape c .normal bc fd nx = true := by
  obtain ⟨h1, h2, _, _, _⟩ := escAlways_facts c h
  have h3 : (Esc.normal != Esc.literal) = true := rfl
  have h4 : (Esc.normal == Esc.normal) = true := rfl
  simp only [needsEscape, h1, h2, h3, h4, Bool.true_and, Bool.true_or]

theorem core_escStep (s : Cm.St) (c : UInt8) (hc : escAlways c = true) (nx : Option UInt8) :
    core (let st2 := outc {} false (pre false s c) c .normal nx
          { st2 with beginLine := false, beginContent := st2.beginContent && isAsciiDigit c }) =
      aByte c (aByte 0x5C (core s)) := by
  obtain ⟨rv, pf, col, nc, lb, bl, bc, nolb, it, ce, ol⟩ := s
  have hp := (escAlways_facts c hc).2.2.1
  have hu : (Esc.normal == Esc.url) = false := rfl
  simp only [outc, escAlways_needs c hc, if_true, hu, Bool.false_and, Bool.false_eq_true, if_false, hp, pre, core, aByte]
  cases bl <;> simp

theorem core_outLoop_txt : ∀ (bs : Bytes) (f : Nat) (s : Cm.St), bs.length < f → bs.all txtOk = true →
    core (outLoop {} false false .normal f s bs) = (bs.flatMap encB).foldl (fun a c => aByte c a) (core s)
  | [], f, s, _, _ => by cases f <;> simp [outLoop]
  | c :: r, 0, s, h, _ => by simp at h
  | c :: r, f + 1, s, h, hn => by
    simp only [List.all_cons, Bool.and_eq_true] at hn
    have hsp : (c == 0x20 && false) = false := by simp
    have he : (Esc.normal == Esc.literal) = false := rfl
    simp only [outLoop, hsp, Bool.false_eq_true, if_false, wrapCheck_zero, List.flatMap_cons, List.foldl_append, he]
    rw [core_outLoop_txt r f _ (by simpa using h) hn.2]
    congr 1
    cases hp : plainOk c with
    | true =>
      simp only [encB, plainOk_notEsc c hp, Bool.false_eq_true, if_false, List.foldl_cons, List.foldl_nil]
      exact core_normStep s c hp r.head?
    | false =>
      have hc : escAlways c = true := by simpa [txtOk, hp] using hn.1
      simp only [encB, hc, if_true, List.foldl_cons, List.foldl_nil]
      exact core_escStep s c hc r.head?

theorem encB_ne (c : UInt8) : encB c ≠ [] := by unfold encB; split <;> simp

/-- A text node of the class: plain bytes as they are, the always-escaped ones behind a backslash. -/
theorem core_outTxt (s : Cm.St) (g : Good (core s)) (bs : Bytes) (h0 : bs ≠ []) (hp : bs.all txtOk = true) :
    core (output {} false s bs false .normal) = aW (bs.flatMap encB) (core s) := by
  have hne : bs.flatMap encB ≠ [] := by
    cases bs with
    | nil => exact absurd rfl h0
    | cons c r => simp [List.flatMap_cons, encB_ne c]
  simp only [output, Bool.false_and]
  rw [core_outLoop_txt bs _ _ (by omega) hp, core_crFlush s g, foldl_aByte _ _ hne, aW_eq_flush _ _ g]

/-! ### Destinations and titles -/

theorem core_step_noesc (s : Cm.St) (c : UInt8) (esc : Esc) (hc : c ≠ 0x0A)
    (hne : ∀ bc fd nx, needsEscape c esc bc fd nx = false) (nx : Option UInt8) :
    core (let st2 := outc {} false (pre false s c) c esc nx
          { st2 with beginLine := false, beginContent := st2.beginContent && isAsciiDigit c }) = aByte c (core s) := by
  obtain ⟨rv, pf, col, nc, lb, bl, bc, nolb, it, ce, ol⟩ := s
  simp only [outc, hne, Bool.false_eq_true, if_false, pre, Bool.false_and, core, aByte]
  cases bl <;> simp

theorem core_outLoop_noesc (esc : Esc) (he : (esc == Esc.literal) = false) : ∀ (bs : Bytes) (f : Nat) (s : Cm.St), bs.length < f →
    (∀ c ∈ bs, c ≠ 0x0A ∧ ∀ bc fd nx, needsEscape c esc bc fd nx = false) →
    core (outLoop {} false false esc f s bs) = bs.foldl (fun a c => aByte c a) (core s)
  | [], f, s, _, _ => by cases f <;> simp [outLoop]
  | c :: r, 0, s, h, _ => by simp at h
  | c :: r, f + 1, s, h, hn => by
    have hsp : (c == 0x20 && false) = false := by simp
    simp only [outLoop, hsp, Bool.false_eq_true, if_false, wrapCheck_zero, List.foldl_cons, he]
    rw [core_outLoop_noesc esc he r f _ (by simpa using h) (fun d hd => hn d (List.mem_cons_of_mem _ hd))]
    congr 1
    exact core_step_noesc s c esc (hn c (List.mem_cons_self)).1 (hn c (List.mem_cons_self)).2 r.head?

theorem core_outNoesc (esc : Esc) (he : (esc == Esc.literal) = false) (s : Cm.St) (g : Good (core s)) (bs : Bytes) (h0 : bs ≠ [])
    (hn : ∀ c ∈ bs, c ≠ 0x0A ∧ ∀ bc fd nx, needsEscape c esc bc fd nx = false) :
    core (output {} false s bs false esc) = aW bs (core s) := by
  simp only [output, Bool.false_and]
  rw [core_outLoop_noesc esc he bs _ _ (by omega) hn, core_crFlush s g, foldl_aByte _ _ h0, aW_eq_flush _ _ g]

/-- Destination bytes the writer leaves alone. -/
def urlOk (c : UInt8) : Bool := !(c == 0x60 || c == 0x3C || c == 0x3E || isSpace c || c == 0x5C || c == 0x29 || c == 0x28)
/-- Title bytes the writer leaves alone. -/
def titleOk (c : UInt8) : Bool := !(c == 0x60 || c == 0x3C || c == 0x3E || c == 0x22 || c == 0x5C || c == 0x0A)

theorem urlOk_noesc (c : UInt8) (h : urlOk c = true) : c ≠ 0x0A ∧ ∀ bc fd nx, needsEscape c .url bc fd nx = false := by
  simp only [urlOk, Bool.not_eq_true'] at h
  refine ⟨?_, fun bc fd nx => ?_⟩
  · intro e; subst e; revert h; decide
  · have h1 : (Esc.url == Esc.normal) = false := rfl
    have h2 : (Esc.url == Esc.title) = false := rfl
    have h3 : (Esc.url == Esc.url) = true := rfl
    simp only [needsEscape, h1, h2, h3, h, Bool.false_and, Bool.and_false, Bool.or_false, Bool.false_or, Bool.true_and]

theorem titleOk_noesc (c : UInt8) (h : titleOk c = true) : c ≠ 0x0A ∧ ∀ bc fd nx, needsEscape c .title bc fd nx = false := by
  simp only [titleOk, Bool.not_eq_true', Bool.or_eq_false_iff] at h
  obtain ⟨h5, hnl⟩ := h
  refine ⟨by simpa using hnl, fun bc fd nx => ?_⟩
  have h1 : (Esc.title == Esc.normal) = false := rfl
  have h2 : (Esc.title == Esc.url) = false := rfl
  have h3 : (Esc.title == Esc.title) = true := rfl
  have h5' : (c == 0x60 || c == 0x3C || c == 0x3E || c == 0x22 || c == 0x5C) = false := by
    simp only [Bool.or_eq_false_iff]; exact h5
  simp only [needsEscape, h1, h2, h3, h5', Bool.false_and, Bool.and_false, Bool.or_false, Bool.false_or, Bool.true_and]

theorem nlFree_of_all (p : UInt8 → Bool) (hp : ∀ c, p c = true → c ≠ 0x0A) (x : Bytes) (h : x.all p = true) : nlFree x = true := by
  simp only [nlFree, List.all_eq_true, bne_iff_ne, ne_eq] at h ⊢
  exact fun b hb => hp b (h b hb)

def atomPlain : Atom → Bool
  | .ch c => plainOk c
  | .uni i => decide (i < uniTable.length)
  | .esc c => escAlways c
  | _ => false

def _root_.Comrak.Canon.Inl.isEmph : Inl → Bool | .emph .. => true | _ => false
def _root_.Comrak.Canon.Inl.isHard : Inl → Bool | .hard _ => true | _ => false

mutual
/-- Inline content the writer spells exactly as `Inl.src` does.  `brk`: line breaks allowed;
    `inStrong`: directly inside strong emphasis (the writer drops the delimiters of a strong
    emphasis nested directly in another); `fe`: first child of an emphasis (a lone emphasis nested
    directly in an emphasis is written with `_`). Text is made of characters the writer never
    escapes and backslash escapes of `* _ [ ] # < > \ ` !`; delimiters are `*`; a code span has the shortest unused backtick run and no padding;
    strikethrough is `~~..~~`; a hard break is written as a backslash; a backslash escape stands before exactly the
    punctuation the writer escapes everywhere (`escAlways`); links and images are spelled inline,
    `[text](dest)` or `[text](dest "title")`, with a non-empty destination without `<..>` made of
    bytes the writer does not escape there (`urlOk`), a title of such bytes (`titleOk`), and a link
    must not be one the writer turns into an autolink (`isAutolink`). Excluded: other escapes,
    character references, reference-style links, `mailto:` autolinks (the writer drops the scheme),
    footnote references. -/
def _root_.Comrak.Canon.Inl.cmOk (brk inStrong : Bool) : Inl → Bool
  | .text as => !as.isEmpty && as.all atomPlain
  | .code n s => decide (1 ≤ n) && n == shortestUnusedSequence s 0x60 && !codePad s && !s.isEmpty && nlFree s
  | .emph us cs => !us && cs.cmOk brk false true
  | .strong us cs => !us && !inStrong && cs.cmOk brk true false
  | .hard b => b && brk
  | .soft => brk
  | .strike cs => cs.cmOk brk false false
  | .link url title angle sp cs =>
    !angle && (match sp with | .inline => true | _ => false) && !url.isEmpty && url.all urlOk && title.all titleOk &&
      !isAutolink url title cs.toForest && cs.cmOk brk false false
  | .image url title angle cs =>
    !angle && !url.isEmpty && url.all urlOk && title.all titleOk && cs.cmOk brk false false
  | .autolink sc r =>
    isAutolink (autolinkUrl sc r) [] (.cons (leaf (.text (autolinkUrl sc r))) .nil) &&
      trimMailto (autolinkUrl sc r) == autolinkUrl sc r && nlFree (autolinkUrl sc r)
  | _ => false
def _root_.Comrak.Canon.Inls.cmOk (brk inStrong fe : Bool) : Inls → Bool
  | .nil => true
  | .cons i r => !(fe && i.isEmph) && !(i.isHard && r.isNil) && i.cmOk brk inStrong && r.cmOk brk inStrong false
end

theorem uni_plain : (List.range uniTable.length).all (fun i => (uniTable.getD i []).all plainOk && !(uniTable.getD i []).isEmpty) = true := by
  decide +kernel

theorem flatMap_encB_plain : ∀ (x : Bytes), x.all plainOk = true → x.flatMap encB = x
  | [], _ => rfl
  | c :: r, h => by
    simp only [List.all_cons, Bool.and_eq_true] at h
    simp [List.flatMap_cons, encB, plainOk_notEsc c h.1, flatMap_encB_plain r h.2]

theorem all_txtOk_plain (x : Bytes) (h : x.all plainOk = true) : x.all txtOk = true := by
  simp only [List.all_eq_true] at h ⊢
  intro c hc; simp [txtOk, h c hc]

theorem atom_plain (a : Atom) (h : atomPlain a = true) :
    a.val.all txtOk = true ∧ a.val.flatMap encB = a.src ∧ a.src ≠ [] ∧ nlFree a.src = true := by
  cases a with
  | ch c =>
    have hp : plainOk c = true := by simpa [atomPlain] using h
    refine ⟨by simp [Atom.val, txtOk, hp], by simp [Atom.val, Atom.src, encB, plainOk_notEsc c hp], by simp [Atom.src], ?_⟩
    simp [Atom.src, nlFree, plainOk_ne_nl c hp]
  | uni i =>
    simp only [atomPlain, decide_eq_true_eq] at h
    have := List.all_eq_true.mp uni_plain i (List.mem_range.mpr h)
    simp only [Bool.and_eq_true, Bool.not_eq_true', List.isEmpty_eq_false_iff] at this
    refine ⟨all_txtOk_plain _ this.1, flatMap_encB_plain _ this.1, this.2, ?_⟩
    simp only [nlFree, List.all_eq_true, bne_iff_ne, ne_eq]
    intro b hb
    exact plainOk_ne_nl b (List.all_eq_true.mp this.1 b hb)
  | esc c =>
    have hc : escAlways c = true := by simpa [atomPlain] using h
    obtain ⟨_, _, _, hnl, _⟩ := escAlways_facts c hc
    refine ⟨by simp [Atom.val, txtOk, hc], by simp [Atom.val, Atom.src, encB, hc], by simp [Atom.src], ?_⟩
    simp [Atom.src, nlFree, hnl]
  | ent i => simp [atomPlain] at h
  | num c x => simp [atomPlain] at h

theorem atoms_plain' : ∀ (as : List Atom), as.all atomPlain = true →
    (atomsVal as).all txtOk = true ∧ (atomsVal as).flatMap encB = atomsSrc as ∧ nlFree (atomsSrc as) = true
  | [], _ => ⟨rfl, rfl, rfl⟩
  | a :: r, h => by
    simp only [List.all_cons, Bool.and_eq_true] at h
    obtain ⟨h1, h2, _, h4⟩ := atom_plain a h.1
    obtain ⟨i1, i2, i3⟩ := atoms_plain' r h.2
    simp only [atomsVal, atomsSrc, List.flatMap_cons, List.flatMap_append, List.all_append, Bool.and_eq_true] at i1 i2 i3 ⊢
    exact ⟨⟨h1, i1⟩, by rw [h2, i2], by rw [nlFree_append, h4, i3]; rfl⟩

theorem atoms_src_ne (as : List Atom) (h0 : as ≠ []) (h : as.all atomPlain = true) : atomsSrc as ≠ [] := by
  cases as with
  | nil => exact absurd rfl h0
  | cons a r =>
    simp only [List.all_cons, Bool.and_eq_true] at h
    obtain ⟨_, _, h3, _⟩ := atom_plain a h.1
    simp only [atomsSrc, List.flatMap_cons]
    intro e
    exact h3 (List.append_eq_nil_iff.mp e).1

theorem plain_nlFree (s : Bytes) (h : s.all plainOk = true) : nlFree s = true := by
  simp only [nlFree, List.all_eq_true, bne_iff_ne, ne_eq] at h ⊢
  exact fun b hb => plainOk_ne_nl b (h b hb)

/-! ### The writer on inline content -/

theorem isBlock_inl (i : Inl) : isBlockV i.toTree.value = false := by cases i <;> rfl

def inlParent : NodeValue → Bool
  | .paragraph | .heading .. | .emph | .strong | .strikethrough | .link .. | .image .. => true
  | _ => false

theorem inlParent_notItem (pv : NodeValue) (h : inlParent pv = true) : isItemV (some pv) = false := by
  cases pv <;> simp_all [inlParent, isItemV]

theorem core_nolb (s : Cm.St) : (core s).nolb = s.noLinebreaks := rfl
theorem core_ce (s : Cm.St) : (core s).ce = s.customEscape := rfl

def nextOf : Forest → Option NodeValue
  | .cons n _ => some n.value
  | .nil => none

theorem renderF_cons (p g : Option NodeValue) (hp : Bool) (t : Tree) (ts : Forest) (s : Cm.St) :
    renderF {} p g hp (.cons t ts) s = renderF {} p g true ts (renderT {} ⟨p, g, hp, nextOf ts⟩ t s) := by
  simp only [renderF]
  cases ts <;> rfl

theorem renderT_eq (cx : Ctx) (v : NodeValue) (sp : Sp) (cs : Forest) (s : Cm.St) :
    renderT {} cx (.node v sp cs) s =
      (if (enter {} cx v cs s).2 then exit {} cx v (renderF {} (some v) cx.parent false cs (enter {} cx v cs s).1)
       else (enter {} cx v cs s).1) := rfl

section enterExit
variable (cx : Ctx) (s : Cm.St) (cs : Forest) (hce : s.customEscape = false) (hip : isItemV cx.parent = false)
include hce hip

theorem enter_text (lit : Bytes) : enter {} cx (.text lit) cs s = (output {} false s lit false .normal, true) := by
  simp [enter, hce, hip]

theorem enter_code (n : Nat) (lit : Bytes) (hpad : codePad lit = false) :
    enter {} cx (.code n lit) cs s =
      (wr {} false (List.replicate (shortestUnusedSequence lit 0x60) 0x60)
        (output {} false (wr {} false (List.replicate (shortestUnusedSequence lit 0x60) 0x60) s) lit false .literal), true) := by
  simp [enter, hce, hip, hpad]

theorem enter_emph (hd : ¬ (cx.parent = some .emph ∧ cx.next = none ∧ cx.hasPrev = false)) :
    enter {} cx .emph cs s = (wr {} false [0x2A] s, true) := by
  simp only [enter, hce, hip, Bool.false_and, Bool.false_eq_true, if_false]
  split
  · rename_i hpar
    have : (cx.next.isNone && !cx.hasPrev) = false := by
      cases hn : cx.next <;> cases hh : cx.hasPrev <;> simp_all
    simp [this]
  · simp

theorem enter_strong (hns : cx.parent ≠ some .strong) : enter {} cx .strong cs s = (wr {} false [0x2A, 0x2A] s, true) := by
  simp only [enter, hce, hip, Bool.false_and, Bool.false_eq_true, if_false]
  try (split <;> (first | rfl | (rename_i h; exact absurd h hns)))

theorem enter_hard (n : NodeValue) (hn : cx.next = some n) (hnb : isBlockV n = false) :
    enter {} cx .lineBreak cs s = ((wr {} false [0x5C] s).cr, true) := by
  simp [enter, hce, hip, hn, hnb]

theorem enter_soft (hnl : s.noLinebreaks = false) : enter {} cx .softBreak cs s = (s.cr, true) := by
  simp [enter, hce, hip, hnl]

theorem enter_strike : enter {} cx .strikethrough cs s = (wr {} false [0x7E, 0x7E] s, true) := by
  simp [enter, hce, hip]

theorem enter_link (url title : Bytes) (ha : isAutolink url title cs = false) :
    enter {} cx (.link url title) cs s = (wr {} false [0x5B] s, true) := by
  simp [enter, hce, hip, ha]

theorem enter_autolink (url : Bytes) (ha : isAutolink url [] cs = true) :
    enter {} cx (.link url []) cs s = (wr {} false [0x3E] (wr {} false (trimMailto url) (wr {} false [0x3C] s)), false) := by
  simp [enter, hce, hip, ha]

theorem enter_image (url title : Bytes) : enter {} cx (.image url title) cs s = (wr {} false [0x21, 0x5B] s, true) := by
  simp [enter, hce, hip]

end enterExit

theorem exit_strike (cx : Ctx) (s : Cm.St) (hce : s.customEscape = false) :
    exit {} cx .strikethrough s = wr {} false [0x7E, 0x7E] s := by
  simp only [exit, hce, Bool.false_and]

/-- The tail of an inline link or image: `](dest "title")`. -/
def linkTail (s : Cm.St) (url title : Bytes) : Cm.St :=
  wr {} false [0x29]
    (if title.isEmpty then output {} false (wr {} false [0x5D, 0x28] s) url false .url
     else wr {} false [0x22] (output {} false (wr {} false [0x20, 0x22] (output {} false (wr {} false [0x5D, 0x28] s) url false .url))
        title false .title))

theorem exit_link (cx : Ctx) (s : Cm.St) (url title : Bytes) (hce : s.customEscape = false) :
    exit {} cx (.link url title) s = linkTail s url title := by
  simp only [exit, hce, Bool.false_and, linkTail]
  try (split <;> rfl)

theorem exit_image (cx : Ctx) (s : Cm.St) (url title : Bytes) (hce : s.customEscape = false) :
    exit {} cx (.image url title) s = linkTail s url title := by
  simp only [exit, hce, Bool.false_and, linkTail]
  try (split <;> rfl)

theorem core_linkTail (s : Cm.St) (g : Good (core s)) (url title : Bytes) (hu0 : url ≠ []) (hu : url.all urlOk = true)
    (ht : title.all titleOk = true) :
    core (linkTail s url title) = aW ([0x5D, 0x28] ++ destSrc url false ++ titleSrc title ++ [0x29]) (core s) ∧
      nlFree ([0x5D, 0x28] ++ destSrc url false ++ titleSrc title ++ [0x29]) = true := by
  have hun : ∀ c ∈ url, c ≠ 0x0A ∧ ∀ bc fd nx, needsEscape c .url bc fd nx = false :=
    fun c hc => urlOk_noesc c (List.all_eq_true.mp hu c hc)
  have htn : ∀ c ∈ title, c ≠ 0x0A ∧ ∀ bc fd nx, needsEscape c .title bc fd nx = false :=
    fun c hc => titleOk_noesc c (List.all_eq_true.mp ht c hc)
  have nu : nlFree url = true := nlFree_of_all urlOk (fun c h => (urlOk_noesc c h).1) url hu
  have nt : nlFree title = true := nlFree_of_all titleOk (fun c h => (titleOk_noesc c h).1) title ht
  have c1 := core_wr s g [0x5D, 0x28] (by simp) (by decide)
  have g1 : Good (core (wr {} false [0x5D, 0x28] s)) := by rw [c1]; exact good_aW _ _ g (by simp) (by decide)
  have c2 := core_outNoesc .url rfl _ g1 url hu0 hun
  have g2 : Good (core (output {} false (wr {} false [0x5D, 0x28] s) url false .url)) := by
    rw [c2]; exact good_aW _ _ g1 hu0 nu
  simp only [linkTail, destSrc, Bool.false_eq_true, if_false, titleSrc]
  cases ht0 : title.isEmpty with
  | true =>
    simp only [if_true]
    rw [core_wr _ g2 [0x29] (by simp) (by decide), c2, c1, aW_aW, aW_aW]
    refine ⟨by simp, ?_⟩
    have nu' : url.all (fun b => b != 0x0A) = true := nu
    simp [nlFree, List.all_append, nu']
  | false =>
    have ht1 : title ≠ [] := by intro e; rw [e] at ht0; cases ht0
    simp only [Bool.false_eq_true, if_false]
    have c3 := core_wr _ g2 [0x20, 0x22] (by simp) (by decide)
    have g3 : Good (core (wr {} false [0x20, 0x22] (output {} false (wr {} false [0x5D, 0x28] s) url false .url))) := by
      rw [c3]; exact good_aW _ _ g2 (by simp) (by decide)
    have c4 := core_outNoesc .title rfl _ g3 title ht1 htn
    have g4 : Good (core (output {} false (wr {} false [0x20, 0x22] (output {} false (wr {} false [0x5D, 0x28] s) url false .url)) title false .title)) := by
      rw [c4]; exact good_aW _ _ g3 ht1 nt
    have c5 := core_wr _ g4 [0x22] (by simp) (by decide)
    have g5 : Good (core (wr {} false [0x22] (output {} false (wr {} false [0x20, 0x22] (output {} false (wr {} false [0x5D, 0x28] s) url false .url)) title false .title))) := by
      rw [c5]; exact good_aW _ _ g4 (by simp) (by decide)
    rw [core_wr _ g5 [0x29] (by simp) (by decide), c5, c4, c3, c2, c1, aW_aW, aW_aW, aW_aW, aW_aW, aW_aW]
    refine ⟨by simp, ?_⟩
    have nu' : url.all (fun b => b != 0x0A) = true := nu
    have nt' : title.all (fun b => b != 0x0A) = true := nt
    simp [nlFree, List.all_append, nu', nt']

theorem exit_emph (cx : Ctx) (s : Cm.St) (hce : s.customEscape = false)
    (hd : ¬ (cx.parent = some .emph ∧ cx.next = none ∧ cx.hasPrev = false)) :
    exit {} cx .emph s = wr {} false [0x2A] s := by
  simp only [exit, hce, Bool.false_and]
  split
  · rename_i hpar
    have : (cx.next.isNone && !cx.hasPrev) = false := by
      cases hn : cx.next <;> cases hh : cx.hasPrev <;> simp_all
    simp [this]
  · simp

theorem exit_strong (cx : Ctx) (s : Cm.St) (hce : s.customEscape = false) (hns : cx.parent ≠ some .strong) :
    exit {} cx .strong s = wr {} false [0x2A, 0x2A] s := by
  simp only [exit, hce, Bool.false_and]
  try (split <;> (first | rfl | (rename_i h; exact absurd h hns)))

mutual
theorem inl_sim : ∀ (i : Inl) (brk inStrong : Bool), i.cmOk brk inStrong = true →
    ∀ (cx : Ctx) (s : Cm.St) (pv : NodeValue), Good (core s) → (brk = true → s.noLinebreaks = false) →
      cx.parent = some pv → inlParent pv = true → (pv = .strong → inStrong = true) →
      (i.isEmph = true → ¬ (pv = .emph ∧ cx.next = none ∧ cx.hasPrev = false)) →
      (i.isHard = true → ∃ n, cx.next = some n ∧ isBlockV n = false) →
      core (renderT {} cx i.toTree s) = feedA i.src (core s)
  | .text as, _, _, h, cx, s, pv, g, _, hp, hpv, _, _, _ => by
    simp only [Inl.cmOk, Bool.and_eq_true, Bool.not_eq_true', List.isEmpty_eq_false_iff] at h
    obtain ⟨hv, henc, hnf⟩ := atoms_plain' as h.2
    have hne := atoms_src_ne as h.1 h.2
    have hip : isItemV cx.parent = false := by rw [hp]; exact inlParent_notItem pv hpv
    have hv0 : atomsVal as ≠ [] := by
      intro e; rw [e] at henc; exact hne henc.symm
    simp only [Inl.toTree, leaf, renderT_eq, enter_text cx s .nil g.ce hip, if_true, renderF]
    rw [Inl.src, feedA_nlFree _ _ hne hnf, ← henc]
    exact core_outTxt s g _ hv0 hv
  | .code n lit, _, _, h, cx, s, pv, g, _, hp, hpv, _, _, _ => by
    simp only [Inl.cmOk, Bool.and_eq_true, Bool.not_eq_true', List.isEmpty_eq_false_iff, decide_eq_true_eq, beq_iff_eq] at h
    obtain ⟨⟨⟨⟨hn1, hn⟩, hpad⟩, hl0⟩, hnl⟩ := h
    have hip : isItemV cx.parent = false := by rw [hp]; exact inlParent_notItem pv hpv
    have ht0 : List.replicate n (0x60 : UInt8) ≠ [] := by
      obtain ⟨m, rfl⟩ : ∃ m, n = m + 1 := ⟨n - 1, by omega⟩
      simp [List.replicate_succ]
    have htn : nlFree (List.replicate n (0x60 : UInt8)) = true := by simp [nlFree, List.all_replicate]
    simp only [Inl.toTree, leaf, renderT_eq, enter_code cx s .nil g.ce hip n lit hpad, if_true, renderF, ← hn]
    have g1 := good_aW _ _ g ht0 htn
    have e1 := core_wr s g _ ht0 htn
    have e2 := core_outLit (wr {} false (List.replicate n 0x60) s) (by rw [e1]; exact g1) lit hl0 hnl
    have g2 : Good (core (output {} false (wr {} false (List.replicate n 0x60) s) lit false .literal)) := by
      rw [e2, e1]; exact good_aW _ _ g1 hl0 hnl
    have hex : ∀ x, exit {} cx (.code n lit) x = x := fun _ => rfl
    rw [hex, core_wr _ g2 _ ht0 htn, e2, e1, aW_aW, aW_aW, ← List.append_assoc]
    simp only [Inl.src, rep]
    rw [feedA_nlFree _ _ (by simp [ht0]) (by simp [nlFree_append, htn, hnl])]
  | .emph us cs, brk, _, h, cx, s, pv, g, hb, hp, hpv, _, hem, _ => by
    simp only [Inl.cmOk, Bool.and_eq_true, Bool.not_eq_true'] at h
    obtain ⟨hus, hcs⟩ := h
    subst hus
    have hip : isItemV cx.parent = false := by rw [hp]; exact inlParent_notItem pv hpv
    have hd : ¬ (cx.parent = some .emph ∧ cx.next = none ∧ cx.hasPrev = false) := by
      intro ⟨e1, e2, e3⟩
      rw [hp] at e1
      exact hem rfl ⟨Option.some.inj e1, e2, e3⟩
    have g1 := good_aW [0x2A] _ g (by simp) rfl
    have e1 := core_wr s g [0x2A] (by simp) rfl
    have hnl1 : brk = true → (wr {} false [0x2A] s).noLinebreaks = false := by
      intro hbk
      have := congrArg Core.nolb e1
      simp only [core_nolb] at this
      rw [this]; exact hb hbk
    have ih := inls_sim cs brk false true hcs .emph cx.parent false (wr {} false [0x2A] s) (by rw [e1]; exact g1) hnl1 rfl
      (fun h => by cases h) (fun _ _ => rfl)
    have g2 : Good (core (renderF {} (some .emph) cx.parent false cs.toForest (wr {} false [0x2A] s))) := by
      rw [ih, e1]; exact good_feedA _ _ g1
    simp only [Inl.toTree, renderT_eq, enter_emph cx s _ g.ce hip hd, if_true]
    rw [exit_emph cx _ g2.ce hd, core_wr _ g2 [0x2A] (by simp) rfl, ih, e1]
    have e : (Inl.emph false cs).src = [0x2A] ++ cs.src ++ [0x2A] := by simp [Inl.src]
    rw [e, feedA_append, feedA_append, feedA_nlFree [0x2A] _ (by simp) rfl, feedA_nlFree [0x2A] _ (by simp) rfl]
  | .strong us cs, brk, inStrong, h, cx, s, pv, g, hb, hp, hpv, hst, _, _ => by
    simp only [Inl.cmOk, Bool.and_eq_true, Bool.not_eq_true'] at h
    obtain ⟨⟨hus, his⟩, hcs⟩ := h
    subst hus
    have hip : isItemV cx.parent = false := by rw [hp]; exact inlParent_notItem pv hpv
    have hns : cx.parent ≠ some .strong := by
      rw [hp]
      intro e
      have := hst (Option.some.inj e)
      rw [this] at his
      cases his
    have g1 := good_aW [0x2A, 0x2A] _ g (by simp) rfl
    have e1 := core_wr s g [0x2A, 0x2A] (by simp) rfl
    have hnl1 : brk = true → (wr {} false [0x2A, 0x2A] s).noLinebreaks = false := by
      intro hbk
      have := congrArg Core.nolb e1
      simp only [core_nolb] at this
      rw [this]; exact hb hbk
    have ih := inls_sim cs brk true false hcs .strong cx.parent false (wr {} false [0x2A, 0x2A] s) (by rw [e1]; exact g1) hnl1 rfl
      (fun _ => rfl) (fun h => by cases h)
    have g2 : Good (core (renderF {} (some .strong) cx.parent false cs.toForest (wr {} false [0x2A, 0x2A] s))) := by
      rw [ih, e1]; exact good_feedA _ _ g1
    have e : (Inl.strong false cs).src = [0x2A, 0x2A] ++ cs.src ++ [0x2A, 0x2A] := by simp [Inl.src]
    simp only [Inl.toTree, renderT_eq, enter_strong cx s _ g.ce hip hns, if_true]
    rw [exit_strong cx _ g2.ce hns, core_wr _ g2 [0x2A, 0x2A] (by simp) rfl, ih, e1, e, feedA_append, feedA_append,
      feedA_nlFree [0x2A, 0x2A] _ (by simp) rfl, feedA_nlFree [0x2A, 0x2A] _ (by simp) rfl]
  | .hard b, brk, _, h, cx, s, pv, g, hb, hp, hpv, _, _, hh => by
    simp only [Inl.cmOk, Bool.and_eq_true] at h
    obtain ⟨hb1, hbk⟩ := h
    subst hb1
    obtain ⟨n, hn, hnb⟩ := hh rfl
    have hip : isItemV cx.parent = false := by rw [hp]; exact inlParent_notItem pv hpv
    have hex : ∀ x, exit {} cx .lineBreak x = x := fun _ => rfl
    simp only [Inl.toTree, leaf, renderT_eq, enter_hard cx s .nil g.ce hip n hn hnb, if_true, renderF, hex, core_cr]
    rw [core_wr s g [0x5C] (by simp) rfl]
    simp [Inl.src, feedA]
  | .soft, brk, _, h, cx, s, pv, g, hb, hp, hpv, _, _, _ => by
    simp only [Inl.cmOk] at h
    have hnl := hb h
    have hip : isItemV cx.parent = false := by rw [hp]; exact inlParent_notItem pv hpv
    have hex : ∀ x, exit {} cx .softBreak x = x := fun _ => rfl
    simp only [Inl.toTree, leaf, renderT_eq, enter_soft cx s .nil g.ce hip hnl, if_true, renderF, hex, core_cr]
    simp [Inl.src, feedA]
  | .strike cs, brk, _, h, cx, s, pv, g, hb, hp, hpv, _, _, _ => by
    simp only [Inl.cmOk] at h
    have hip : isItemV cx.parent = false := by rw [hp]; exact inlParent_notItem pv hpv
    have g1 := good_aW [0x7E, 0x7E] _ g (by simp) rfl
    have e1 := core_wr s g [0x7E, 0x7E] (by simp) rfl
    have hnl1 : brk = true → (wr {} false [0x7E, 0x7E] s).noLinebreaks = false := by
      intro hbk
      have := congrArg Core.nolb e1
      simp only [core_nolb] at this
      rw [this]; exact hb hbk
    have ih := inls_sim cs brk false false h .strikethrough cx.parent false (wr {} false [0x7E, 0x7E] s) (by rw [e1]; exact g1) hnl1 rfl
      (fun h => by cases h) (fun h => by cases h)
    have g2 : Good (core (renderF {} (some .strikethrough) cx.parent false cs.toForest (wr {} false [0x7E, 0x7E] s))) := by
      rw [ih, e1]; exact good_feedA _ _ g1
    have e : (Inl.strike cs).src = [0x7E, 0x7E] ++ cs.src ++ [0x7E, 0x7E] := by simp [Inl.src]
    simp only [Inl.toTree, renderT_eq, enter_strike cx s _ g.ce hip, if_true]
    rw [exit_strike cx _ g2.ce, core_wr _ g2 [0x7E, 0x7E] (by simp) rfl, ih, e1, e, feedA_append, feedA_append,
      feedA_nlFree [0x7E, 0x7E] _ (by simp) rfl, feedA_nlFree [0x7E, 0x7E] _ (by simp) rfl]
  | .link url title angle sp cs, brk, _, h, cx, s, pv, g, hb, hp, hpv, _, _, _ => by
    cases sp with
    | ref l d b => simp [Inl.cmOk] at h
    | inline =>
    simp only [Inl.cmOk, Bool.and_eq_true, Bool.not_eq_true', List.isEmpty_eq_false_iff, Bool.true_and, Bool.and_true] at h
    obtain ⟨⟨⟨⟨⟨han, hu0⟩, hu⟩, ht⟩, hau⟩, hcs⟩ := h
    subst han
    have hip : isItemV cx.parent = false := by rw [hp]; exact inlParent_notItem pv hpv
    have g1 := good_aW [0x5B] _ g (by simp) rfl
    have e1 := core_wr s g [0x5B] (by simp) rfl
    have hnl1 : brk = true → (wr {} false [0x5B] s).noLinebreaks = false := by
      intro hbk
      have := congrArg Core.nolb e1
      simp only [core_nolb] at this
      rw [this]; exact hb hbk
    have ih := inls_sim cs brk false false hcs (.link url title) cx.parent false (wr {} false [0x5B] s) (by rw [e1]; exact g1) hnl1 rfl
      (fun h => by cases h) (fun h => by cases h)
    have g2 : Good (core (renderF {} (some (.link url title)) cx.parent false cs.toForest (wr {} false [0x5B] s))) := by
      rw [ih, e1]; exact good_feedA _ _ g1
    obtain ⟨ct, nt⟩ := core_linkTail _ g2 url title hu0 hu ht
    simp only [Inl.toTree, renderT_eq, enter_link cx s _ g.ce hip url title hau, if_true]
    rw [exit_link cx _ url title g2.ce, ct, ih, e1]
    have e : (Inl.link url title false .inline cs).src = [0x5B] ++ cs.src ++ ([0x5D, 0x28] ++ destSrc url false ++ titleSrc title ++ [0x29]) := by
      simp [Inl.src]
    rw [e]
    have htl0 : ([0x5D, 0x28] ++ destSrc url false ++ titleSrc title ++ [0x29] : Bytes) ≠ [] := by simp
    generalize ([0x5D, 0x28] ++ destSrc url false ++ titleSrc title ++ [0x29] : Bytes) = tl at nt htl0 ⊢
    rw [feedA_append, feedA_append, feedA_nlFree [0x5B] _ (by simp) rfl, feedA_nlFree tl _ htl0 nt]
  | .image url title angle cs, brk, _, h, cx, s, pv, g, hb, hp, hpv, _, _, _ => by
    simp only [Inl.cmOk, Bool.and_eq_true, Bool.not_eq_true', List.isEmpty_eq_false_iff] at h
    obtain ⟨⟨⟨⟨han, hu0⟩, hu⟩, ht⟩, hcs⟩ := h
    subst han
    have hip : isItemV cx.parent = false := by rw [hp]; exact inlParent_notItem pv hpv
    have g1 := good_aW [0x21, 0x5B] _ g (by simp) rfl
    have e1 := core_wr s g [0x21, 0x5B] (by simp) rfl
    have hnl1 : brk = true → (wr {} false [0x21, 0x5B] s).noLinebreaks = false := by
      intro hbk
      have := congrArg Core.nolb e1
      simp only [core_nolb] at this
      rw [this]; exact hb hbk
    have ih := inls_sim cs brk false false hcs (.image url title) cx.parent false (wr {} false [0x21, 0x5B] s) (by rw [e1]; exact g1) hnl1 rfl
      (fun h => by cases h) (fun h => by cases h)
    have g2 : Good (core (renderF {} (some (.image url title)) cx.parent false cs.toForest (wr {} false [0x21, 0x5B] s))) := by
      rw [ih, e1]; exact good_feedA _ _ g1
    obtain ⟨ct, nt⟩ := core_linkTail _ g2 url title hu0 hu ht
    simp only [Inl.toTree, renderT_eq, enter_image cx s _ g.ce hip url title, if_true]
    rw [exit_image cx _ url title g2.ce, ct, ih, e1]
    have e : (Inl.image url title false cs).src = [0x21, 0x5B] ++ cs.src ++ ([0x5D, 0x28] ++ destSrc url false ++ titleSrc title ++ [0x29]) := by
      simp [Inl.src]
    rw [e]
    have htl0 : ([0x5D, 0x28] ++ destSrc url false ++ titleSrc title ++ [0x29] : Bytes) ≠ [] := by simp
    generalize ([0x5D, 0x28] ++ destSrc url false ++ titleSrc title ++ [0x29] : Bytes) = tl at nt htl0 ⊢
    rw [feedA_append, feedA_append, feedA_nlFree [0x21, 0x5B] _ (by simp) rfl, feedA_nlFree tl _ htl0 nt]
  | .autolink sc r, _, _, h, cx, s, pv, g, _, hp, hpv, _, _, _ => by
    simp only [Inl.cmOk, Bool.and_eq_true, beq_iff_eq] at h
    obtain ⟨⟨hau, htm⟩, hnf⟩ := h
    have hip : isItemV cx.parent = false := by rw [hp]; exact inlParent_notItem pv hpv
    have hu0 : autolinkUrl sc r ≠ [] := by
      intro e
      rw [e] at hau
      simp [isAutolink] at hau
    simp only [Inl.toTree, renderT_eq, enter_autolink cx s _ g.ce hip _ hau, Bool.false_eq_true, if_false]
    rw [htm]
    have c1 := core_wr s g [0x3C] (by simp) rfl
    have g1 : Good (core (wr {} false [0x3C] s)) := by rw [c1]; exact good_aW _ _ g (by simp) rfl
    have c2 := core_wr _ g1 (autolinkUrl sc r) hu0 hnf
    have g2 : Good (core (wr {} false (autolinkUrl sc r) (wr {} false [0x3C] s))) := by rw [c2]; exact good_aW _ _ g1 hu0 hnf
    rw [core_wr _ g2 [0x3E] (by simp) rfl, c2, c1, aW_aW, aW_aW]
    have e : (Inl.autolink sc r).src = [0x3C] ++ autolinkUrl sc r ++ [0x3E] := by simp [Inl.src]
    rw [e, feedA_nlFree _ _ (by simp) (by rw [nlFree_append, nlFree_append, hnf]; rfl), List.append_assoc]
  | .fnref .., _, _, h, _, _, _, _, _, _, _, _, _, _ => by simp [Inl.cmOk] at h
theorem inls_sim : ∀ (is : Inls) (brk inStrong fe : Bool), is.cmOk brk inStrong fe = true →
    ∀ (pv : NodeValue) (gr : Option NodeValue) (hp : Bool) (s : Cm.St), Good (core s) → (brk = true → s.noLinebreaks = false) →
      inlParent pv = true → (pv = .strong → inStrong = true) → (pv = .emph → hp = false → fe = true) →
      core (renderF {} (some pv) gr hp is.toForest s) = feedA is.src (core s)
  | .nil, _, _, _, _, _, _, _, _, _, _, _, _, _ => rfl
  | .cons i r, brk, inStrong, fe, h, pv, gr, hp, s, g, hb, hpv, hst, hfe => by
    simp only [Inls.cmOk, Bool.and_eq_true, Bool.not_eq_true', Bool.and_eq_false_iff] at h
    obtain ⟨⟨⟨hfe2, hhard⟩, hi⟩, hr⟩ := h
    simp only [Inls.toForest, renderF_cons, Inls.src, feedA_append]
    generalize hcx : (⟨some pv, gr, hp, nextOf r.toForest⟩ : Ctx) = cxi
    have hcp : cxi.parent = some pv := by rw [← hcx]
    have hch : cxi.hasPrev = hp := by rw [← hcx]
    have hcn : cxi.next = nextOf r.toForest := by rw [← hcx]
    have h1 := inl_sim i brk inStrong hi cxi s pv g hb hcp hpv hst
      (fun hie => by
        intro ⟨e1, _, e3⟩
        rw [hch] at e3
        have := hfe e1 e3
        rcases hfe2 with h' | h'
        · rw [this] at h'; cases h'
        · rw [hie] at h'; cases h')
      (fun hih => by
        rcases hhard with h' | h'
        · rw [hih] at h'; cases h'
        · cases r with
          | nil => simp [Inls.isNil] at h'
          | cons j r' => exact ⟨j.toTree.value, by rw [hcn]; simp [Inls.toForest, nextOf], isBlock_inl j⟩)
    have g1 : Good (core (renderT {} cxi i.toTree s)) := by rw [h1]; exact good_feedA _ _ g
    have hnl1 : brk = true → (renderT {} cxi i.toTree s).noLinebreaks = false := by
      intro hbk
      have := congrArg Core.nolb h1
      rw [core_nolb, (feedA_fields _ _).2.2.1, core_nolb] at this
      rw [this]; exact hb hbk
    rw [inls_sim r brk inStrong false hr pv gr true _ g1 hnl1 hpv hst (fun _ h => by cases h), h1]
end

end Comrak.CmCanon
