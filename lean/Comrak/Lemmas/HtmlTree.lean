/-
Tree-level balance of the HTML renderer: the tag events of a shape-respecting tree take any
tag stack to itself, up to the two pieces of cross-node bookkeeping (`<tbody>` opened by the
first body row and closed by the table; the footnote `<section><ol>` opened by the first
definition and closed by `finish`).
-/
import Comrak.Lemmas.HtmlBalance
import Comrak.Shape
namespace Comrak
open Bytes

def isDef : NodeValue → Bool | .footnoteDefinition .. => true | _ => false

theorem enter_fnIx (o : HtmlOpts) (nt : NormTable) (cx : Ctx) (v : NodeValue) (sp : Sp) (cs : Forest) (st : St) :
    (enter o nt cx v sp cs st).2.fnIx = if isDef v then st.fnIx + 1 else st.fnIx := by
  cases v
  case heading level setext => cases h : o.headerIds <;> simp [enter, isDef, h]
  case footnoteDefinition name total => simp [enter, isDef]; split <;> simp
  case list l => cases hl : l.ty <;> simp [enter, isDef, hl]
  all_goals simp [enter, isDef]
  all_goals (repeat' split)
  all_goals (try simp_all)

theorem putBackref_fnIx (name : Bytes) (total : Nat) (st : St) : (putBackref name total st).1.2.fnIx = st.fnIx := by
  unfold putBackref; split <;> simp

theorem exit_fnIx (o : HtmlOpts) (cx : Ctx) (v : NodeValue) (cs : Forest) (st : St) :
    (exit o cx v cs st).2.fnIx = st.fnIx := by
  cases v
  case paragraph =>
    simp only [exit]
    split
    · simp
    · cases hp : cx.parent with
      | none => simp
      | some pv =>
        cases pv <;> simp
        split <;> simp [putBackref_fnIx]
  case footnoteDefinition name total =>
    simp only [exit]
    simp [putBackref_fnIx]
    split <;> simp [putBackref_fnIx]
  case list l => cases hl : l.ty <;> simp [exit, hl]
  all_goals simp [exit]
  all_goals (repeat' split)
  all_goals (try simp_all)

theorem opened_indep (o : HtmlOpts) (cx : Ctx) (st : St) (v : NodeValue) (h : isDef v = false) :
    opened o cx st v = opened o cx {} v := by
  cases v <;> simp_all [opened, isDef]

end Comrak

namespace Comrak
open Bytes

/-- The footnote `<section><ol>` pending on the stack once a definition has been rendered. -/
def sec (st : St) : List Bytes := if st.fnIx = 0 then [] else [S.t_ol, S.t_section]

def isDoc : NodeValue → Bool | .document => true | _ => false
def isRow : NodeValue → Bool | .tableRow _ => true | _ => false
def rowHeader : NodeValue → Bool | .tableRow h => h | _ => false

/-- Net stack effect of a table's rows: `tbody` if a body row follows the header row. -/
def rowsEff (prev : Option NodeValue) : Forest → List Bytes
  | .nil => []
  | .cons t ts => rowsEff (some t.value) ts ++ rowSectionNames' prev t.value
where rowSectionNames' (prev : Option NodeValue) (v : NodeValue) : List Bytes :=
  if rowHeader v then [] else rowSectionNames false prev

def allRows : Forest → Bool
  | .nil => true
  | .cons t ts => isRow t.value && allRows ts

/-- What rendering one tree does to the tag stack and to `fnIx`, by class of node. -/
def TGoal (o : HtmlOpts) (nt : NormTable) (cx : Ctx) (t : Tree) : Prop :=
  ∀ (st : St) (s : List Bytes),
    (isDoc t.value = true →
      run (sec st ++ s) (events (renderT o nt cx t st).1) = some (sec (renderT o nt cx t st).2 ++ s)) ∧
    (isDef t.value = true →
      run s (events (renderT o nt cx t st).1) = some ((if st.fnIx = 0 then [S.t_ol, S.t_section] else []) ++ s) ∧
      0 < (renderT o nt cx t st).2.fnIx) ∧
    (isRow t.value = true →
      run s (events (renderT o nt cx t st).1) = some (rowsEff.rowSectionNames' cx.prev t.value ++ s) ∧
      (renderT o nt cx t st).2.fnIx = st.fnIx) ∧
    (isDoc t.value = false → isDef t.value = false → isRow t.value = false →
      run s (events (renderT o nt cx t st).1) = some s ∧ (renderT o nt cx t st).2.fnIx = st.fnIx)

def FGoal (o : HtmlOpts) (nt : NormTable) (parent grand prev : Option NodeValue) (idx : Nat) (f : Forest) : Prop :=
  ∀ (st : St) (s : List Bytes),
    (isTable parent = true → allRows f = true →
      run s (events (renderF o nt parent grand prev idx f st).1) = some (rowsEff prev f ++ s) ∧
      (renderF o nt parent grand prev idx f st).2.fnIx = st.fnIx) ∧
    (parent.map isDef = some true → 0 < st.fnIx →
      run s (events (renderF o nt parent grand prev idx f st).1) = some s ∧
      0 < (renderF o nt parent grand prev idx f st).2.fnIx) ∧
    (parent.map isDoc = some true →
      run (sec st ++ s) (events (renderF o nt parent grand prev idx f st).1) =
        some (sec (renderF o nt parent grand prev idx f st).2 ++ s)) ∧
    (isTable parent = false → parent.map isDef ≠ some true → parent.map isDoc ≠ some true →
      run s (events (renderF o nt parent grand prev idx f st).1) = some s ∧
      (renderF o nt parent grand prev idx f st).2.fnIx = st.fnIx)

end Comrak

namespace Comrak
open Bytes

theorem closing_other (o : HtmlOpts) (cx : Ctx) (v : NodeValue) (cs : Forest)
    (h1 : isDef v = false) (h2 : isRow v = false) (h3 : isTable (some v) = false) :
    closing o cx v cs = opened o cx {} v := by
  cases v <;> simp_all [closing, isDef, isRow, isTable]

theorem restRows_allRows (f : Forest) (h : restRows f = true) : allRows f = true := by
  induction f using Forest.rec (motive_1 := fun _ => True) with
  | node => trivial
  | nil => rfl
  | cons t ts _ ih =>
    cases t with
    | node v sp cs =>
      simp only [restRows, Bool.and_eq_true] at h
      simp only [allRows, Bool.and_eq_true, Tree.value]
      refine ⟨?_, ih h.2⟩
      cases v <;> simp_all [isRow]

theorem rowsEff_restRows (v : NodeValue) (f : Forest) (h : restRows f = true) (hv : v = .tableRow false) :
    rowsEff (some v) f = [] := by
  induction f using Forest.rec (motive_1 := fun _ => True) generalizing v with
  | node => trivial
  | nil => rfl
  | cons t ts _ ih =>
    cases t with
    | node w sp cs =>
      simp only [restRows, Bool.and_eq_true] at h
      have hw : w = .tableRow false := by
        cases w <;> simp_all
        rename_i hd; cases hd <;> simp_all
      subst hw; subst hv
      simp [rowsEff, rowsEff.rowSectionNames', rowHeader, rowSectionNames, Tree.value, ih _ h.2 rfl]

theorem rowsOk_allRows (f : Forest) (h : rowsOk f = true) : allRows f = true := by
  cases f with
  | nil => simp [rowsOk] at h
  | cons t ts =>
    cases t with
    | node v sp cs =>
      simp only [rowsOk, Bool.and_eq_true] at h
      simp only [allRows, Bool.and_eq_true, Tree.value]
      refine ⟨?_, restRows_allRows _ h.2⟩
      cases v <;> simp_all [isRow]

/-- Under `rowsOk`, the rows leave `tbody` open exactly when the table has more than one row. -/
theorem rowsEff_rowsOk (f : Forest) (h : rowsOk f = true) :
    rowsEff none f = if f.length ≠ 1 then [S.t_tbody] else [] := by
  cases f with
  | nil => simp [rowsOk] at h
  | cons t ts =>
    cases t with
    | node v sp cs =>
      simp only [rowsOk, Bool.and_eq_true] at h
      have hv : v = .tableRow true := by
        cases v <;> simp_all
        rename_i hd; cases hd <;> simp_all
      subst hv
      cases ts with
      | nil => simp [rowsEff, rowsEff.rowSectionNames', rowHeader, Forest.length, Tree.value]
      | cons t2 ts2 =>
        cases t2 with
        | node w sp2 cs2 =>
          have h2 := h.2
          simp only [restRows, Bool.and_eq_true] at h2
          have hw : w = .tableRow false := by
            cases w <;> simp_all
            rename_i hd; cases hd <;> simp_all
          subst hw
          simp [rowsEff, rowsEff.rowSectionNames', rowHeader, rowSectionNames, Tree.value, Forest.length,
            rowsEff_restRows _ _ h2.2 rfl]

end Comrak

namespace Comrak
open Bytes

theorem renderT_node (o : HtmlOpts) (nt : NormTable) (cx : Ctx) (v : NodeValue) (sp : Sp) (cs : Forest) (st : St) :
    renderT o nt cx (.node v sp cs) st =
      ((enter o nt cx v sp cs st).1 ++
        (if htmlChildren v then renderF o nt (some v) cx.parent none 0 cs (enter o nt cx v sp cs st).2
         else ([], (enter o nt cx v sp cs st).2)).1 ++
        (exit o cx v cs (if htmlChildren v then renderF o nt (some v) cx.parent none 0 cs (enter o nt cx v sp cs st).2
         else ([], (enter o nt cx v sp cs st).2)).2).1,
       (exit o cx v cs (if htmlChildren v then renderF o nt (some v) cx.parent none 0 cs (enter o nt cx v sp cs st).2
         else ([], (enter o nt cx v sp cs st).2)).2).2) := by
  simp [renderT]

/-- Three-part composition on the tag stack. -/
theorem run3 {s s1 s2 s3 : List Bytes} {a b c : List Ev}
    (h1 : run s a = some s1) (h2 : run s1 b = some s2) (h3 : run s2 c = some s3) :
    run s (a ++ b ++ c) = some s3 := by
  rw [List.append_assoc, run_append_some _ h1, run_append_some _ h2, h3]

theorem htmlChildren_of (v : NodeValue) (h : htmlChildren v = false) :
    isDoc v = false ∧ isDef v = false ∧ isRow v = false ∧ isTable (some v) = false := by
  cases v <;> simp_all [htmlChildren, isDoc, isDef, isRow, isTable]

theorem node_step (o : HtmlOpts) (nt : NormTable) (cx : Ctx) (v : NodeValue) (sp : Sp) (cs : Forest)
    (ht : tableOk v cs = true)
    (hF : FGoal o nt (some v) cx.parent none 0 cs) : TGoal o nt cx (.node v sp cs) := by
  intro st s
  rw [renderT_node]
  have H1 := fun s => enter_opened o nt cx v sp cs st s
  have Hfn1 := enter_fnIx o nt cx v sp cs st
  have H3 := fun st' s => exit_closing o cx v cs st' s
  have Hfn3 := fun st' => exit_fnIx o cx v cs st'
  simp only [Tree.value, events_append]
  by_cases hc : htmlChildren v = true
  · -- children rendered in HTML mode
    simp only [hc, if_true]
    have HF := hF (enter o nt cx v sp cs st).2
    refine ⟨?_, ?_, ?_, ?_⟩
    · -- document
      intro hd
      have hv : v = .document := by cases v <;> simp_all [isDoc]
      subst hv
      have := (HF s).2.2.1 (by simp [isDoc])
      simpa [enter, exit, Tok.events] using this
    · -- footnote definition
      intro hd
      have hnd : (enter o nt cx v sp cs st).2.fnIx = st.fnIx + 1 := by simp [Hfn1, hd]
      have hpos : 0 < (enter o nt cx v sp cs st).2.fnIx := by omega
      have hcl : closing o cx v cs = [S.t_li] := by cases v <;> simp_all [closing, isDef]
      have hop : opened o cx st v = if st.fnIx = 0 then [S.t_li, S.t_ol, S.t_section] else [S.t_li] := by
        cases v <;> simp_all [opened, isDef]
      obtain ⟨G1, G2⟩ := (HF (opened o cx st v ++ s)).2.1 (by simp [hd]) hpos
      refine ⟨?_, by rw [Hfn3]; exact G2⟩
      refine run3 (H1 s) G1 ?_
      have := H3 (renderF o nt (some v) cx.parent none 0 cs (enter o nt cx v sp cs st).2).2
        ((if st.fnIx = 0 then [S.t_ol, S.t_section] else []) ++ s)
      rw [hcl] at this
      rw [hop]
      split <;> simp_all
    · -- table row
      intro hr
      obtain ⟨h, hv⟩ : ∃ h, v = .tableRow h := by cases v <;> simp_all [isRow]
      subst hv
      obtain ⟨G1, G2⟩ := (HF (opened o cx st (.tableRow h) ++ s)).2.2.2 (by simp [isTable]) (by simp [isDef]) (by simp [isDoc])
      have hfn : (enter o nt cx (.tableRow h) sp cs st).2.fnIx = st.fnIx := by simp [Hfn1, isDef]
      refine ⟨?_, by rw [Hfn3, G2, hfn]⟩
      refine run3 (H1 s) G1 ?_
      have := H3 (renderF o nt (some (.tableRow h)) cx.parent none 0 cs (enter o nt cx (.tableRow h) sp cs st).2).2
        (rowsEff.rowSectionNames' cx.prev (.tableRow h) ++ s)
      cases h <;> simpa [closing, opened, rowsEff.rowSectionNames', rowHeader, rowSectionNames] using this
    · -- everything else
      intro hd1 hd2 hd3
      have hfn : (enter o nt cx v sp cs st).2.fnIx = st.fnIx := by simp [Hfn1, hd2]
      by_cases htb : isTable (some v) = true
      · -- table: rows may leave `tbody` open, closed by the table
        have hrows : rowsOk cs = true := by cases v <;> simp_all [isTable, tableOk]
        obtain ⟨G1, G2⟩ := (HF (opened o cx st v ++ s)).1 htb (rowsOk_allRows _ hrows)
        refine ⟨?_, by rw [Hfn3, G2, hfn]⟩
        refine run3 (H1 s) G1 ?_
        have := H3 (renderF o nt (some v) cx.parent none 0 cs (enter o nt cx v sp cs st).2).2 s
        have hcl : closing o cx v cs = if cs.length ≠ 1 then [S.t_tbody, S.t_table] else [S.t_table] := by
          cases v <;> simp_all [closing, isTable]
        have hop : opened o cx st v = [S.t_table] := by cases v <;> simp_all [opened, isTable]
        rw [hcl] at this
        rw [hop, rowsEff_rowsOk _ hrows]
        split <;> simp_all
      · have htb' : isTable (some v) = false := by simpa using htb
        obtain ⟨G1, G2⟩ := (HF (opened o cx st v ++ s)).2.2.2 htb' (by simp [hd2]) (by simp [hd1])
        refine ⟨?_, by rw [Hfn3, G2, hfn]⟩
        refine run3 (H1 s) G1 ?_
        have := H3 (renderF o nt (some v) cx.parent none 0 cs (enter o nt cx v sp cs st).2).2 s
        rw [closing_other o cx v cs hd2 hd3 htb', ← opened_indep o cx st v hd2] at this
        exact this
  · -- children rendered in Plain mode (image): no tag events from them
    have hc' : htmlChildren v = false := by simpa using hc
    obtain ⟨hd1, hd2, hd3, htb⟩ := htmlChildren_of v hc'
    simp only [hc', Bool.false_eq_true, if_false]
    refine ⟨by simp [hd1], by simp [hd2], by simp [hd3], ?_⟩
    intro _ _ _
    have hfn : (enter o nt cx v sp cs st).2.fnIx = st.fnIx := by simp [Hfn1, hd2]
    refine ⟨?_, by rw [Hfn3, hfn]⟩
    have h2 : run (opened o cx st v ++ s) (events ([] : List Tok)) = some (opened o cx st v ++ s) := by simp
    refine run3 (H1 s) h2 ?_
    have := H3 (enter o nt cx v sp cs st).2 s
    rw [closing_other o cx v cs hd2 hd3 htb, ← opened_indep o cx st v hd2] at this
    exact this

end Comrak

namespace Comrak
open Bytes

theorem renderF_cons (o : HtmlOpts) (nt : NormTable) (parent grand prev : Option NodeValue) (idx : Nat)
    (t : Tree) (ts : Forest) (st : St) :
    renderF o nt parent grand prev idx (.cons t ts) st =
      ((renderT o nt { parent := parent, grand := grand, prev := prev, isLast := ts.isNil, index := idx } t st).1 ++
        (renderF o nt parent grand (some t.value) (idx + 1) ts
          (renderT o nt { parent := parent, grand := grand, prev := prev, isLast := ts.isNil, index := idx } t st).2).1,
       (renderF o nt parent grand (some t.value) (idx + 1) ts
          (renderT o nt { parent := parent, grand := grand, prev := prev, isLast := ts.isNil, index := idx } t st).2).2) := by
  simp [renderF]

theorem sec_of_pos (st : St) (h : 0 < st.fnIx) : sec st = [S.t_ol, S.t_section] := by
  unfold sec; split <;> simp_all <;> omega

theorem sec_congr (a b : St) (h : a.fnIx = b.fnIx) : sec a = sec b := by
  unfold sec; rw [h]

theorem forest_step (o : HtmlOpts) (nt : NormTable) (parent grand prev : Option NodeValue) (idx : Nat)
    (t : Tree) (ts : Forest)
    (hp : placeOk parent t.value = true)
    (hT : TGoal o nt { parent := parent, grand := grand, prev := prev, isLast := ts.isNil, index := idx } t)
    (hF : FGoal o nt parent grand (some t.value) (idx + 1) ts) :
    parent.isSome = true → FGoal o nt parent grand prev idx (.cons t ts) := by
  intro hsome st s
  rw [renderF_cons]
  simp only [events_append]
  have HT := hT st
  refine ⟨?_, ?_, ?_, ?_⟩
  · -- parent is a table, children are rows
    intro htb hall
    simp only [allRows, Bool.and_eq_true] at hall
    obtain ⟨T1, T2⟩ := (HT s).2.2.1 hall.1
    obtain ⟨G1, G2⟩ := (hF _ (rowsEff.rowSectionNames' prev t.value ++ s)).1 htb hall.2
    refine ⟨?_, by rw [G2, T2]⟩
    rw [run_append_some _ T1, G1]
    simp [rowsEff]
  · -- parent is a footnote definition, fnIx > 0
    intro hdef hpos
    have hnd : isDoc t.value = false := by
      cases hv : t.value <;> simp_all [isDoc, placeOk]
    have hnr : isRow t.value = false := by
      cases hv : t.value <;> simp_all [isRow, placeOk]
      cases parent with
      | none => simp_all
      | some p => cases p <;> simp_all [isTable, isDef]
    by_cases hd : isDef t.value = true
    · obtain ⟨T1, T2⟩ := (HT s).2.1 hd
      have hne : st.fnIx ≠ 0 := by omega
      simp only [hne, if_false, List.nil_append] at T1
      obtain ⟨G1, G2⟩ := (hF _ s).2.1 hdef T2
      exact ⟨by rw [run_append_some _ T1, G1], G2⟩
    · have hd' : isDef t.value = false := by simpa using hd
      obtain ⟨T1, T2⟩ := (HT s).2.2.2 hnd hd' hnr
      obtain ⟨G1, G2⟩ := (hF _ s).2.1 hdef (by rw [T2]; exact hpos)
      exact ⟨by rw [run_append_some _ T1, G1], G2⟩
  · -- parent is the document
    intro hdoc
    have hnd : isDoc t.value = false := by
      cases hv : t.value <;> simp_all [isDoc, placeOk]
    have hnr : isRow t.value = false := by
      cases hv : t.value <;> simp_all [isRow, placeOk]
      cases parent with
      | none => simp_all
      | some p => cases p <;> simp_all [isTable, isDoc]
    by_cases hd : isDef t.value = true
    · obtain ⟨T1, T2⟩ := (HT (sec st ++ s)).2.1 hd
      have G := (hF (renderT o nt { parent := parent, grand := grand, prev := prev, isLast := ts.isNil, index := idx } t st).2 s).2.2.1 hdoc
      rw [run_append_some _ T1]
      rw [sec_of_pos _ T2] at G
      have : (if st.fnIx = 0 then [S.t_ol, S.t_section] else []) ++ (sec st ++ s) = [S.t_ol, S.t_section] ++ s := by
        unfold sec; split <;> simp_all
      rw [this]; exact G
    · have hd' : isDef t.value = false := by simpa using hd
      obtain ⟨T1, T2⟩ := (HT (sec st ++ s)).2.2.2 hnd hd' hnr
      have G := (hF (renderT o nt { parent := parent, grand := grand, prev := prev, isLast := ts.isNil, index := idx } t st).2 s).2.2.1 hdoc
      rw [run_append_some _ T1]
      rw [sec_congr _ st T2] at G
      exact G
  · -- any other parent: children are neither documents, definitions nor rows
    intro htb hdef hdoc
    have hnd : isDoc t.value = false := by
      cases hv : t.value <;> simp_all [isDoc, placeOk]
    have hnr : isRow t.value = false := by
      cases hv : t.value <;> simp_all [isRow, placeOk]
    have hndef : isDef t.value = false := by
      cases hv : t.value <;> simp_all [isDef, placeOk]
      cases parent with
      | none => simp_all
      | some p => cases p <;> simp_all [isDocOrDef, isDoc, isDef]
    obtain ⟨T1, T2⟩ := (HT s).2.2.2 hnd hndef hnr
    obtain ⟨G1, G2⟩ := (hF _ s).2.2.2 htb hdef hdoc
    exact ⟨by rw [run_append_some _ T1, G1], by rw [G2, T2]⟩

theorem forest_nil (o : HtmlOpts) (nt : NormTable) (parent grand prev : Option NodeValue) (idx : Nat) :
    FGoal o nt parent grand prev idx .nil := by
  intro st s
  simp [renderF, rowsEff]

mutual
theorem renderT_goal (o : HtmlOpts) (nt : NormTable) :
    ∀ (t : Tree) (cx : Ctx), balShapeT cx.parent t = true → TGoal o nt cx t
  | .node v sp cs, cx, h => by
    simp only [balShapeT, Bool.and_eq_true] at h
    exact node_step o nt cx v sp cs h.1.2 (renderF_goal o nt cs (some v) cx.parent none 0 h.2 rfl)
theorem renderF_goal (o : HtmlOpts) (nt : NormTable) :
    ∀ (f : Forest) (parent grand prev : Option NodeValue) (idx : Nat),
      balShapeF parent f = true → parent.isSome = true → FGoal o nt parent grand prev idx f
  | .nil, parent, grand, prev, idx, _, _ => forest_nil o nt parent grand prev idx
  | .cons t ts, parent, grand, prev, idx, h, hs => by
    simp only [balShapeF, Bool.and_eq_true] at h
    have hp : placeOk parent t.value = true := by
      cases t with
      | node v sp cs => simp only [balShapeT, Bool.and_eq_true] at h; exact h.1.1.1
    exact forest_step o nt parent grand prev idx t ts hp
      (renderT_goal o nt t { parent := parent, grand := grand, prev := prev, isLast := ts.isNil, index := idx } h.1)
      (renderF_goal o nt ts parent grand (some t.value) (idx + 1) h.2 hs) hs
end

end Comrak
