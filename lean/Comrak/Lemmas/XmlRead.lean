/-
Reading the model's own output back: the tree builder run over the events of a rendering
returns the element tree of the AST (`xmlTree`).  Together with Lemmas/XmlLex.lean this gives
`readXml (renderXml o t) = some (xmlTree o t)` for every tree without children under literal
kinds.
-/
import Comrak.Lemmas.XmlLex
import Comrak.Lemmas.XmlNamesNe
namespace Comrak
open Bytes

/-! ### Per-kind facts about the attribute list -/

theorem attrPairs_append (a b : List XAttr) : attrPairs (a ++ b) = attrPairs a ++ attrPairs b := by
  induction a with
  | nil => rfl
  | cons x r ih =>
    cases x with
    | mk n v => cases v <;> simp [attrPairs, ih]

theorem isPreserve_cons (n v : Bytes) (r : List (Bytes × Bytes)) :
    isPreserve ((n, v) :: r) = ((n == XS.a_xml_space && v == XS.v_preserve) || isPreserve r) := by
  simp [isPreserve]

theorem isPreserve_append (a b : List (Bytes × Bytes)) : isPreserve (a ++ b) = (isPreserve a || isPreserve b) := by
  simp [isPreserve, List.any_append]

theorem isPreserve_align (a : Align) : isPreserve (attrPairs (alignXmlAttr a)) = false := by
  cases a <;> simp [alignXmlAttr, xAttr, attrPairs, isPreserve]

theorem isPreserve_sp (o : XmlOpts) (sp : Sp) : isPreserve (attrPairs (xmlSpAttr o sp)) = false := by
  unfold xmlSpAttr; split <;> simp [xAttr, attrPairs, isPreserve]

/-- The literal kinds, and only they, carry `xml:space="preserve"`. -/
theorem isPreserve_kind (cx : XCtx) (v : NodeValue) :
    isPreserve (attrPairs (xmlKindAttrs cx v)) = (xmlLiteral v).isSome := by
  cases v
  case tableCell =>
    simp only [xmlKindAttrs, xmlLiteral]
    split
    · exact isPreserve_align _
    · simp [attrPairs, isPreserve]
  case codeBlock f fc fl fo info lit =>
    simp only [xmlKindAttrs, xmlLiteral]
    by_cases h1 : info.isEmpty = true <;> by_cases h2 : (info == XS.v_math) = true <;>
      simp [h1, h2, xAttr, xAttrE, preserveAttr, attrPairs, isPreserve]
  case list l =>
    simp only [xmlKindAttrs, xmlLiteral]
    cases l.ty <;> cases l.isTaskList <;> simp [xAttr, attrPairs, isPreserve]
  case alert ty title ml fl fo =>
    simp only [xmlKindAttrs, xmlLiteral]
    cases title <;> cases ml <;> simp [xAttr, xAttrE, attrPairs, isPreserve]
  all_goals simp [xmlKindAttrs, xmlLiteral, xAttr, xAttrE, preserveAttr, attrPairs, isPreserve]

theorem isPreserve_attrs (o : XmlOpts) (cx : XCtx) (v : NodeValue) (sp : Sp) :
    isPreserve (attrPairs (xmlAttrs o cx v sp)) = (xmlLiteral v).isSome := by
  simp [xmlAttrs, attrPairs_append, isPreserve_append, isPreserve_sp, isPreserve_kind]

theorem attrsGood_align (as : List (Bytes × Bytes)) (a : Align) (h : (as.any fun p => p.1 == XS.a_align) = false) :
    attrsGood as (alignXmlAttr a) = true := by
  cases a <;> simp [alignXmlAttr, xAttr, attrsGood, valOk, h]

/-- Attribute lists of every kind are good after an optional sourcepos attribute. -/
theorem attrsGood_kind (cx : XCtx) (v : NodeValue) (as : List (Bytes × Bytes))
    (has : as = [] ∨ ∃ x, as = [(XS.a_sourcepos, x)]) :
    attrsGood as (xmlKindAttrs cx v) = true := by
  cases v
  case tableCell =>
    simp only [xmlKindAttrs]
    split
    · apply attrsGood_align
      rcases has with rfl | ⟨x, rfl⟩ <;> simp
    · simp [attrsGood]
  case codeBlock f fc fl fo info lit =>
    simp only [xmlKindAttrs]
    by_cases h1 : info.isEmpty = true <;> by_cases h2 : (info == XS.v_math) = true <;>
      rcases has with rfl | ⟨x, rfl⟩ <;>
      simp [h1, h2, xAttr, xAttrE, preserveAttr, attrsGood, valOk, XVal.payload]
  case list l =>
    simp only [xmlKindAttrs]
    cases l.ty <;> cases l.isTaskList <;> cases l.delim <;> rcases has with rfl | ⟨x, rfl⟩ <;>
      simp [xAttr, attrsGood, valOk, XVal.payload]
  case alert ty title ml fl fo =>
    simp only [xmlKindAttrs]
    cases title <;> cases ml <;> rcases has with rfl | ⟨x, rfl⟩ <;>
      simp [xAttr, xAttrE, attrsGood, valOk, XVal.payload]
  case math d disp lit =>
    simp only [xmlKindAttrs]
    cases disp <;> rcases has with rfl | ⟨x, rfl⟩ <;>
      simp [xAttr, preserveAttr, attrsGood, valOk, XVal.payload]
  all_goals
    rcases has with rfl | ⟨x, rfl⟩ <;>
      simp [xmlKindAttrs, xAttr, xAttrE, preserveAttr, attrsGood, valOk, XVal.payload]

theorem attrsGood_attrs (o : XmlOpts) (cx : XCtx) (v : NodeValue) (sp : Sp) :
    attrsGood [] (xmlAttrs o cx v sp) = true := by
  unfold xmlAttrs xmlSpAttr
  split
  · simp only [List.cons_append, List.nil_append, xAttr, attrsGood, valOk, XVal.payload]
    simp [attrsGood_kind cx v _ (Or.inr ⟨_, rfl⟩)]
  · simpa using attrsGood_kind cx v [] (Or.inl rfl)

/-- Every token of every tree is lexable. -/
theorem renderXmlToks_good (o : XmlOpts) (t : Tree) :
    (renderXmlToks o t).all tokGood = true :=
  renderXmlT_all o tokGood (fun _ => true)
    (by
      intro ind cx v sp l _
      simp [tokGood, XTok.attrs, XTok.name, xmlName_legal, attrsGood_attrs o cx v sp, attrsGood])
    t 0 {} (Tree.allV_true t)

/-! ### The builder -/

theorem xbuildLoop_cons (stack : List XFrame) (root : Option XTree) (e : XEv) (es : List XEv) :
    xbuildLoop stack root (e :: es) =
      match xbuildStep stack root e with
      | some p => xbuildLoop p.1 p.2 es
      | none => none := by
  cases stack <;> rfl

/-- Nothing pending at the top: no root yet, or an open element that does not preserve space. -/
def okTop (stack : List XFrame) (root : Option XTree) : Prop :=
  match stack with
  | [] => root = none
  | f :: _ => isPreserve f.attrs = false

/-- Builder state after a finished node has been handed over. -/
def pushNode (t : XTree) (stack : List XFrame) (root : Option XTree) : XBuild :=
  match stack with
  | [] => ([], some t)
  | f :: fs => ({ f with kids := t :: f.kids } :: fs, root)

theorem xaddNode_ok (t : XTree) (stack : List XFrame) (root : Option XTree) (h : okTop stack root) :
    xaddNode t stack root = some (pushNode t stack root) := by
  cases stack with
  | nil => simp only [okTop] at h; subst h; rfl
  | cons f fs => rfl

theorem xaddNode_cons (t : XTree) (f : XFrame) (fs : List XFrame) (root : Option XTree) :
    xaddNode t (f :: fs) root = some ({ f with kids := t :: f.kids } :: fs, root) := rfl

theorem allWs_append (a b : Bytes) : allWs (a ++ b) = (allWs a && allWs b) := by
  simp [allWs, List.all_append]

theorem allWs_indent (i : Nat) : allWs (indentBytes i) = true := by
  simp [allWs, indentBytes, xmlWs]

theorem allWs_nlB : allWs nlB = true := by decide

/-- White space between elements is dropped. -/
theorem build_ws (stack : List XFrame) (root : Option XTree) (w : Bytes) (rest : List XEv)
    (hw : allWs w = true) (hok : okTop stack root) :
    xbuildLoop stack root (wsEv w ++ rest) = xbuildLoop stack root rest := by
  unfold wsEv
  split
  · rfl
  · simp only [List.cons_append, List.nil_append, xbuildLoop_cons]
    cases stack with
    | nil => simp [xbuildStep, hw]
    | cons f fs =>
      simp only [okTop] at hok
      simp [xbuildStep, hw, hok]

theorem build_opn (stack : List XFrame) (root : Option XTree) (n : Bytes) (as : List (Bytes × Bytes))
    (rest : List XEv) (hok : okTop stack root) :
    xbuildLoop stack root (.opn n as :: rest) = xbuildLoop ({ name := n, attrs := as } :: stack) root rest := by
  rw [xbuildLoop_cons]
  cases stack with
  | nil => simp only [okTop] at hok; subst hok; rfl
  | cons f fs => rfl

/-! ### Forests as reversed child lists -/

/-- Pushes the trees of a forest onto a reversed child list. -/
def XForest.pushRev : XForest → List XTree → List XTree
  | .nil, l => l
  | .cons t ts, l => XForest.pushRev ts (t :: l)

def XForest.app : XForest → XForest → XForest
  | .nil, g => g
  | .cons t ts, g => .cons t (XForest.app ts g)

theorem XForest.app_nil : ∀ f : XForest, XForest.app f .nil = f
  | .nil => rfl
  | .cons t ts => by simp [XForest.app, XForest.app_nil ts]

theorem XForest.ofListRev_pushRev : ∀ (f : XForest) (l : List XTree) (acc : XForest),
    XForest.ofListRev (XForest.pushRev f l) acc = XForest.ofListRev l (XForest.app f acc)
  | .nil, l, acc => rfl
  | .cons t ts, l, acc => by
    simp only [XForest.pushRev, XForest.app]
    rw [XForest.ofListRev_pushRev ts (t :: l) acc]
    rfl

theorem XForest.ofListRev_pushRev_nil (f : XForest) : XForest.ofListRev (XForest.pushRev f []) .nil = f := by
  rw [XForest.ofListRev_pushRev]; simp [XForest.ofListRev, XForest.app_nil]

/-! ### Events of token lists -/

theorem toksEvs_cons (pre : Bytes) (t : XTok) (r : List XTok) :
    toksEvs pre (t :: r) = tokEvs pre t ++ toksEvs nlB r := rfl

theorem toksEvs_nl_append (a b : List XTok) : toksEvs nlB (a ++ b) = toksEvs nlB a ++ toksEvs nlB b := by
  induction a with
  | nil => rfl
  | cons t r ih => simp [toksEvs, ih]

theorem Forest.isNil_eq (cs : Forest) (h : cs.isNil = true) : cs = .nil := by
  cases cs <;> simp_all [Forest.isNil]

/-! ### The tree builder on a rendering -/

/-- Reading one subtree hands exactly `xmlTreeT` to the enclosing element (or makes it the root). -/
def RGoalT (o : XmlOpts) (ind : Nat) (cx : XCtx) (t : Tree) : Prop :=
  ∀ (pre : Bytes) (stack : List XFrame) (root : Option XTree) (rest : List XEv),
    allWs pre = true → okTop stack root →
    xbuildLoop stack root (toksEvs pre (renderXmlT o ind cx t) ++ rest) =
      xbuildLoop (pushNode (xmlTreeT o cx t) stack root).1 (pushNode (xmlTreeT o cx t) stack root).2 rest

def RGoalF (o : XmlOpts) (ind : Nat) (parent grand : Option NodeValue) (idx : Nat) (f : Forest) : Prop :=
  ∀ (fr : XFrame) (fs : List XFrame) (root : Option XTree) (rest : List XEv),
    isPreserve fr.attrs = false →
    xbuildLoop (fr :: fs) root (toksEvs nlB (renderXmlF o ind parent grand idx f) ++ rest) =
      xbuildLoop ({ fr with kids := XForest.pushRev (xmlTreeF o parent grand idx f) fr.kids } :: fs) root rest

theorem read_node (o : XmlOpts) (ind : Nat) (cx : XCtx) (v : NodeValue) (sp : Sp) (cs : Forest)
    (hl : ((xmlLiteral v).isNone || cs.isNil) = true)
    (hF : RGoalF o (ind + 2) (some v) cx.parent 0 cs) : RGoalT o ind cx (.node v sp cs) := by
  intro pre stack root rest hpre hok
  have hws : allWs (pre ++ indentBytes ind) = true := by simp [allWs_append, hpre, allWs_indent]
  have hws2 : allWs (nlB ++ indentBytes ind) = true := by simp [allWs_append, allWs_nlB, allWs_indent]
  have hpres := isPreserve_attrs o cx v sp
  cases hlit : xmlLiteral v with
  | some l =>
    -- literal element: no children
    have hnil : cs = .nil := by
      apply Forest.isNil_eq
      simpa [hlit] using hl
    subst hnil
    simp only [renderXmlT, hlit, Forest.isNil, if_true, toksEvs_cons, toksEvs, tokEvs, List.append_nil,
      List.append_assoc, xmlTreeT, xmlTreeF]
    rw [build_ws _ _ _ _ hws hok]
    simp only [List.cons_append, List.nil_append]
    rw [build_opn _ _ _ _ _ hok]
    rw [hlit] at hpres
    by_cases hle : l.isEmpty = true
    · simp only [wsEv, hle, if_true, List.nil_append, xbuildLoop_cons, xbuildStep]
      simp [xaddNode_ok _ _ _ hok, XForest.ofListRev]
    · have hl2 : l.isEmpty = false := by simpa using hle
      simp only [wsEv, hl2]
      simp only [Bool.false_eq_true, if_false, List.cons_append, List.nil_append]
      rw [xbuildLoop_cons]
      simp [xbuildStep, hpres, xaddNode_cons, xaddNode_ok _ _ _ hok, XForest.ofListRev, xbuildLoop_cons]
  | none =>
    rw [hlit] at hpres
    by_cases hnil : cs.isNil = true
    · have hcs := Forest.isNil_eq cs hnil
      subst hcs
      simp only [renderXmlT, hlit, Forest.isNil, if_true, toksEvs_cons, toksEvs, tokEvs, List.append_nil,
        List.append_assoc, xmlTreeT, xmlTreeF]
      rw [build_ws _ _ _ _ hws hok]
      simp only [List.cons_append, List.nil_append, xbuildLoop_cons, xbuildStep]
      simp [xaddNode_ok _ _ _ hok]
    · have hnil2 : cs.isNil = false := by simpa using hnil
      simp only [renderXmlT, hlit, hnil2, Bool.false_eq_true, if_false, toksEvs_cons, tokEvs, toksEvs_nl_append, toksEvs,
        List.append_nil, List.append_assoc, xmlTreeT]
      rw [build_ws _ _ _ _ hws hok]
      simp only [List.cons_append, List.nil_append]
      rw [build_opn _ _ _ _ _ hok]
      rw [hF _ _ _ _ (by simpa using hpres)]
      rw [build_ws _ _ _ _ hws2 (by simpa [okTop] using hpres)]
      simp only [List.cons_append, List.nil_append, xbuildLoop_cons, xbuildStep]
      simp [xaddNode_ok _ _ _ hok, XForest.ofListRev_pushRev_nil]

theorem read_forest_cons (o : XmlOpts) (ind : Nat) (parent grand : Option NodeValue) (idx : Nat) (t : Tree) (ts : Forest)
    (hT : RGoalT o ind { parent := parent, grand := grand, index := idx } t)
    (hF : RGoalF o ind parent grand (idx + 1) ts) : RGoalF o ind parent grand idx (.cons t ts) := by
  intro fr fs root rest hfr
  simp only [renderXmlF, toksEvs_nl_append, List.append_assoc, xmlTreeF, XForest.pushRev]
  rw [hT nlB (fr :: fs) root _ allWs_nlB (by simpa [okTop] using hfr)]
  simp only [pushNode]
  exact hF _ _ _ _ hfr

mutual
theorem readT (o : XmlOpts) : ∀ (t : Tree) (ind : Nat) (cx : XCtx), litLeafT t = true → RGoalT o ind cx t
  | .node v sp cs, ind, cx, h => by
    simp only [litLeafT, Bool.and_eq_true] at h
    exact read_node o ind cx v sp cs h.1 (readF o cs (ind + 2) (some v) cx.parent 0 h.2)
theorem readF (o : XmlOpts) : ∀ (f : Forest) (ind : Nat) (parent grand : Option NodeValue) (idx : Nat),
    litLeafF f = true → RGoalF o ind parent grand idx f
  | .nil, _, _, _, _, _ => by
    intro fr fs root rest _
    simp [renderXmlF, toksEvs, xmlTreeF, XForest.pushRev]
  | .cons t ts, ind, parent, grand, idx, h => by
    simp only [litLeafF, Bool.and_eq_true] at h
    exact read_forest_cons o ind parent grand idx t ts (readT o t ind _ h.1) (readF o ts ind parent grand (idx + 1) h.2)
end

theorem renderXmlT_ne (o : XmlOpts) (ind : Nat) (cx : XCtx) (t : Tree) : renderXmlT o ind cx t ≠ [] := by
  cases t with
  | node v sp cs =>
    simp only [renderXmlT]
    split
    · simp
    · split <;> simp

/-- **Reading back.** -/
theorem readXml_renderXml (o : XmlOpts) (t : Tree) (hl : litLeafT t = true) :
    readXml (renderXml o t) = some (xmlTree o t) := by
  unfold readXml renderXml spellXml
  rw [if_pos (isPrefixB_self_append _ _), List.drop_left,
    lexXml_spell _ (renderXmlToks_good o t) (renderXmlT_ne o 0 {} t)]
  simp only [renderXmlToks]
  rw [readT o t 0 {} hl [] [] none _ rfl rfl]
  simp [pushNode, xbuildLoop_cons, xbuildStep, allWs_nlB, xbuildLoop, xmlTree]

end Comrak
