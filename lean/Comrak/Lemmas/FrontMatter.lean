/-
Helper lemmas about `splitOffFrontMatter` (Comrak/FrontMatter.lean).
-/
import Comrak.FrontMatter
namespace Comrak.FrontMatter
open Comrak Bytes


theorem take_len_add (X B : Bytes) (k : Nat) : (X ++ B).take (X.length + k) = X ++ B.take k := by
  induction X with
  | nil => simp
  | cons a X ih => simp [Nat.succ_add, ih]

theorem drop_len_add (X B : Bytes) (k : Nat) : (X ++ B).drop (X.length + k) = B.drop k := by
  induction X with
  | nil => simp
  | cons a X ih => simp [Nat.succ_add, ih]

theorem drop_len (X B : Bytes) : (X ++ B).drop X.length = B := by
  simpa using drop_len_add X B 0

theorem isPrefixB_false_of_ne (p : Bytes) (a b : UInt8) (s : Bytes) (h : a ≠ b) :
    isPrefixB (a :: p) (b :: s) = false := by
  simp [isPrefixB, h]

theorem eolLen_some (t : Bytes) (e : Nat) (h : eolLen t = some e) :
    ∃ eb, IsEol eb ∧ eb.length = e ∧ t = eb ++ t.drop e := by
  unfold eolLen at h
  split at h
  · rename_i h1
    obtain ⟨r, hr⟩ := (isPrefixB_iff _ _).mp h1
    injection h with h; subst h
    exact ⟨[0x0A], Or.inl rfl, rfl, by subst hr; rfl⟩
  · split at h
    · rename_i h1
      obtain ⟨r, hr⟩ := (isPrefixB_iff _ _).mp h1
      injection h with h; subst h
      exact ⟨[0x0D, 0x0A], Or.inr rfl, rfl, by subst hr; rfl⟩
    · exact absurd h (by simp)

theorem eolLen_of_eol (eb t : Bytes) (h : IsEol eb) : eolLen (eb ++ t) = some eb.length := by
  rcases h with rfl | rfl <;> simp [eolLen, isPrefixB]

theorem eolLen_none (t : Bytes) (h : eolLen t = none) (eb r : Bytes) (he : IsEol eb) : t ≠ eb ++ r := by
  intro e
  rw [e, eolLen_of_eol eb r he] at h
  exact absurd h (by simp)

theorem findSub_some (pat x : Bytes) (n : Nat) (h : findSub pat x = some n) :
    ∃ A B, x = A ++ pat ++ B ∧ A.length = n := by
  induction x generalizing n with
  | nil =>
    simp only [findSub] at h
    split at h
    · rename_i hp
      obtain ⟨r, hr⟩ := (isPrefixB_iff _ _).mp hp
      injection h with h; subst h
      exact ⟨[], r, by simpa using hr, rfl⟩
    · exact absurd h (by simp)
  | cons b r ih =>
    simp only [findSub] at h
    split at h
    · rename_i hp
      obtain ⟨t, ht⟩ := (isPrefixB_iff _ _).mp hp
      injection h with h; subst h
      exact ⟨[], t, by simpa using ht, rfl⟩
    · cases hf : findSub pat r with
      | none => simp [hf] at h
      | some m =>
        simp only [hf, Option.map_some, Option.some.injEq] at h
        obtain ⟨A, B, hx, hl⟩ := ih m hf
        exact ⟨b :: A, B, by simp [hx], by simp [hl, h]⟩

/-- A pattern containing a byte that the text lacks is not found. -/
theorem findSub_none_of_not_mem (pat x : Bytes) (c : UInt8) (hc : c ∈ pat) (hx : c ∉ x) :
    findSub pat x = none := by
  cases h : findSub pat x with
  | none => rfl
  | some n =>
    obtain ⟨A, B, hx', _⟩ := findSub_some pat x n h
    exact absurd (by rw [hx']; simp [hc]) hx

theorem findClose_some (d body : Bytes) (n : Nat) (h : findClose d body = some n) :
    ∃ A B, body = A ++ 0x0A :: d ++ B ∧ A.length = n := by
  unfold findClose at h
  split at h
  · rename_i m hm
    injection h with h; subst h
    obtain ⟨A, B, hx, hl⟩ := findSub_some _ _ _ hm
    exact ⟨A, [0x0D, 0x0A] ++ B, by simp [hx], hl⟩
  · split at h
    · rename_i m hm
      injection h with h; subst h
      obtain ⟨A, B, hx, hl⟩ := findSub_some _ _ _ hm
      exact ⟨A, [0x0A] ++ B, by simp [hx], hl⟩
    · obtain ⟨A, B, hx, hl⟩ := findSub_some _ _ _ h
      exact ⟨A, B, by simp [hx], hl⟩

/-- If `d` is a prefix of `P ++ c :: Q` and does not contain `c`, it is a prefix of `P`. -/
theorem isPrefixB_of_append_stop (d P Q : Bytes) (c : UInt8) (hc : c ∉ d)
    (h : isPrefixB d (P ++ c :: Q) = true) : isPrefixB d P = true := by
  induction d generalizing P with
  | nil => simp [isPrefixB]
  | cons a d ih =>
    cases P with
    | nil =>
      simp only [List.nil_append, isPrefixB, Bool.and_eq_true, beq_iff_eq] at h
      exact absurd (by simp [h.1]) hc
    | cons b P =>
      simp only [List.cons_append, isPrefixB, Bool.and_eq_true, beq_iff_eq] at h ⊢
      exact ⟨h.1, ih P (fun m => hc (by simp [m])) h.2⟩

theorem isPrefixB_of_isPrefixB_append (d suf x : Bytes) (h : isPrefixB (d ++ suf) x = true) :
    isPrefixB d x = true := by
  obtain ⟨t, ht⟩ := (isPrefixB_iff _ _).mp h
  exact (isPrefixB_iff _ _).mpr ⟨suf ++ t, by simp [ht]⟩

/-- The search for `\n` + delimiter + `suf` runs over a body none of whose lines starts with the
    delimiter, up to a following stop byte that the delimiter does not contain. -/
theorem findSub_skip_body (d suf body Q : Bytes) (stop : UInt8) (bol : Bool)
    (hne : d ≠ []) (hstop : stop ∉ d) (hbody : noLineStartsWith d bol body = true) :
    findSub (0x0A :: d ++ suf) (body ++ stop :: Q)
      = (findSub (0x0A :: d ++ suf) (stop :: Q)).map (· + body.length) := by
  generalize hF : findSub (0x0A :: d ++ suf) (stop :: Q) = F
  induction body generalizing bol with
  | nil => cases F <;> simpa using hF
  | cons c r ih =>
    simp only [noLineStartsWith, Bool.and_eq_true] at hbody
    have hrec := ih (c == 0x0A) hbody.2
    have hnp : isPrefixB (0x0A :: d ++ suf) (c :: r ++ stop :: Q) = false := by
      by_cases hc : c = 0x0A
      · subst hc
        apply Bool.eq_false_iff.mpr
        intro hp
        simp only [List.cons_append, isPrefixB, beq_self_eq_true, Bool.true_and] at hp
        have hp' := isPrefixB_of_isPrefixB_append d suf _ hp
        have hp'' := isPrefixB_of_append_stop d r Q stop hstop hp'
        cases r with
        | nil =>
          cases d with
          | nil => exact hne rfl
          | cons a d => simp [isPrefixB] at hp''
        | cons c' r' =>
          have := hbody.2
          simp only [noLineStartsWith, beq_self_eq_true, Bool.true_and, Bool.and_eq_true,
            Bool.not_eq_true'] at this
          rw [this.1] at hp''
          exact absurd hp'' (by simp)
      · exact isPrefixB_false_of_ne _ _ _ _ (fun e => hc e.symm)
    have e1 : findSub (0x0A :: d ++ suf) (c :: r ++ stop :: Q)
        = (findSub (0x0A :: d ++ suf) (r ++ stop :: Q)).map (· + 1) := by
      simp only [List.cons_append] at hnp ⊢
      simp only [findSub, hnp, Bool.false_eq_true, if_false]
    rw [e1, hrec]
    cases F <;> simp [Nat.add_assoc]

theorem findSub_self (pat R : Bytes) : findSub pat (pat ++ R) = some 0 := by
  cases h : pat ++ R with
  | nil => simp [findSub, ← h, isPrefixB_self_append]
  | cons b r => simp [findSub, ← h, isPrefixB_self_append]


theorem isEol_eol (crlf : Bool) : IsEol (eol crlf) := by
  cases crlf <;> simp [eol, IsEol]

theorem isPrefixB_snoc_self (x : Bytes) (c : UInt8) (t : Bytes) : isPrefixB (x ++ c :: t) x = false := by
  induction x with
  | nil => simp [isPrefixB]
  | cons a x ih => simp [isPrefixB, ih]

theorem findSub_cons_ne (pat Y : Bytes) (a b : UInt8) (h : a ≠ b) :
    findSub (a :: pat) (b :: Y) = (findSub (a :: pat) Y).map (· + 1) := by
  rw [findSub]
  simp [isPrefixB, h]

/-- Where the closing delimiter is found (text after the opening line), delimiter followed by a line end. -/
theorem findClose_complete (d body rest : Bytes) (crlf : Bool)
    (hne : d ≠ []) (hlf : (0x0A : UInt8) ∉ d) (hcr : (0x0D : UInt8) ∉ d)
    (hbody : noLineStartsWith d true body = true)
    (hu : crlf = false → (0x0D : UInt8) ∉ body ∧ (0x0D : UInt8) ∉ rest) :
    findClose d (body ++ eol crlf ++ d ++ eol crlf ++ rest) = some (body ++ eol crlf).length.pred := by
  cases crlf with
  | false =>
    obtain ⟨hb, hr⟩ := hu rfl
    have h1 : findSub (0x0A :: d ++ [0x0D, 0x0A]) (body ++ eol false ++ d ++ eol false ++ rest) = none := by
      apply findSub_none_of_not_mem _ _ 0x0D (by simp)
      simp [eol, hb, hr, hcr]
    have h2 : findSub (0x0A :: d ++ [0x0A]) (body ++ eol false ++ d ++ eol false ++ rest) = some body.length := by
      have e : body ++ eol false ++ d ++ eol false ++ rest = body ++ 0x0A :: (d ++ [0x0A] ++ rest) := by simp [eol]
      rw [e, findSub_skip_body d [0x0A] body _ 0x0A true hne hlf hbody]
      have : (0x0A : UInt8) :: (d ++ [0x0A] ++ rest) = (0x0A :: d ++ [0x0A]) ++ rest := by simp
      rw [this, findSub_self]; simp
    unfold findClose
    rw [h1]; dsimp only; rw [h2]; simp [eol]
  | true =>
    have h1 : findSub (0x0A :: d ++ [0x0D, 0x0A]) (body ++ eol true ++ d ++ eol true ++ rest) = some (body.length + 1) := by
      have e : body ++ eol true ++ d ++ eol true ++ rest = body ++ 0x0D :: (0x0A :: (d ++ [0x0D, 0x0A] ++ rest)) := by simp [eol]
      rw [e, findSub_skip_body d [0x0D, 0x0A] body _ 0x0D true hne hcr hbody]
      have : (0x0A : UInt8) :: (d ++ [0x0D, 0x0A] ++ rest) = (0x0A :: d ++ [0x0D, 0x0A]) ++ rest := by simp
      have e2 : (0x0A :: d ++ [0x0D, 0x0A] : Bytes) = 0x0A :: (d ++ [0x0D, 0x0A]) := by simp
      rw [e2, findSub_cons_ne _ _ 0x0A 0x0D (by decide), ← e2, this, findSub_self]; simp [Nat.add_comm]
    unfold findClose
    rw [h1]; simp [eol]


/-- Forward direction of `split_cases`, closing delimiter followed by a line end. -/
theorem split_of_parts (s0 d eb A e2b rest : Bytes) (hE : IsEol eb) (hE2 : IsEol e2b)
    (hs : stripBom s0 = d ++ eb ++ A ++ 0x0A :: d ++ e2b ++ rest)
    (hf : findClose d (A ++ 0x0A :: d ++ e2b ++ rest) = some A.length) :
    splitOffFrontMatter s0 d
      = some (d ++ eb ++ A ++ 0x0A :: d ++ e2b ++ rest.take ((eolLen rest).getD 0),
              rest.drop ((eolLen rest).getD 0)) := by
  unfold splitOffFrontMatter
  simp only [hs]
  have hpre : isPrefixB d (d ++ eb ++ A ++ 0x0A :: d ++ e2b ++ rest) = true := by
    have := isPrefixB_self_append d (eb ++ A ++ 0x0A :: d ++ e2b ++ rest); simpa using this
  have hd0 : (d ++ eb ++ A ++ 0x0A :: d ++ e2b ++ rest).drop d.length
      = eb ++ (A ++ 0x0A :: d ++ e2b ++ rest) := by
    have : d ++ eb ++ A ++ 0x0A :: d ++ e2b ++ rest = d ++ (eb ++ (A ++ 0x0A :: d ++ e2b ++ rest)) := by simp
    rw [this, drop_len]
  have hd1 : (d ++ eb ++ A ++ 0x0A :: d ++ e2b ++ rest).drop (d.length + eb.length)
      = A ++ 0x0A :: d ++ e2b ++ rest := by
    have : d ++ eb ++ A ++ 0x0A :: d ++ e2b ++ rest = (d ++ eb) ++ (A ++ 0x0A :: d ++ e2b ++ rest) := by simp
    rw [this, ← List.length_append, drop_len]
  have hX : d.length + eb.length + (A.length + 1 + d.length) = (d ++ eb ++ A ++ 0x0A :: d).length := by
    simp only [List.length_append, List.length_cons]; omega
  have hs2 : d ++ eb ++ A ++ 0x0A :: d ++ e2b ++ rest = (d ++ eb ++ A ++ 0x0A :: d) ++ (e2b ++ rest) := by simp
  have hlen : (d ++ eb ++ A ++ 0x0A :: d).length ≠ ((d ++ eb ++ A ++ 0x0A :: d) ++ (e2b ++ rest)).length := by
    have : e2b.length ≥ 1 := by rcases hE2 with rfl | rfl <;> simp
    simp only [List.length_append] at this ⊢; omega
  rw [hpre]; simp only [if_true]
  rw [hd0, eolLen_of_eol eb _ hE]; dsimp only
  rw [hd1, hf]; dsimp only
  rw [hX, hs2]
  simp only [hlen, if_false]
  rw [drop_len, eolLen_of_eol e2b _ hE2]; dsimp only
  have hd3 : ((d ++ eb ++ A ++ 0x0A :: d) ++ (e2b ++ rest)).drop ((d ++ eb ++ A ++ 0x0A :: d).length + e2b.length) = rest := by
    rw [drop_len_add, drop_len]
  rw [hd3]
  have ht : ((d ++ eb ++ A ++ 0x0A :: d) ++ (e2b ++ rest)).take
      ((d ++ eb ++ A ++ 0x0A :: d).length + e2b.length + (eolLen rest).getD 0)
      = d ++ eb ++ A ++ 0x0A :: d ++ e2b ++ rest.take ((eolLen rest).getD 0) := by
    rw [Nat.add_assoc, take_len_add, take_len_add]; simp
  have hdr : ((d ++ eb ++ A ++ 0x0A :: d) ++ (e2b ++ rest)).drop
      ((d ++ eb ++ A ++ 0x0A :: d).length + e2b.length + (eolLen rest).getD 0)
      = rest.drop ((eolLen rest).getD 0) := by
    rw [Nat.add_assoc, drop_len_add, drop_len_add]
  rw [ht, hdr]


theorem findSub_longer (d t : Bytes) (c : UInt8) (hlf : (0x0A : UInt8) ∉ d) :
    findSub (0x0A :: d ++ c :: t) (0x0A :: d) = none := by
  have e : (0x0A :: d ++ c :: t : Bytes) = 0x0A :: (d ++ c :: t) := by simp
  rw [e, findSub]
  have h1 : isPrefixB (0x0A :: (d ++ c :: t)) (0x0A :: d) = false := by
    simp [isPrefixB, isPrefixB_snoc_self]
  simp only [h1, Bool.false_eq_true, if_false]
  rw [findSub_none_of_not_mem _ d 0x0A (by simp) hlf]; rfl

/-- Closing delimiter at the very end of the input. -/
theorem findClose_complete_eof (d body : Bytes) (crlf : Bool)
    (hne : d ≠ []) (hlf : (0x0A : UInt8) ∉ d) (hcr : (0x0D : UInt8) ∉ d)
    (hbody : noLineStartsWith d true body = true) :
    findClose d (body ++ eol crlf ++ d) = some (body ++ eol crlf).length.pred := by
  have hself : findSub (0x0A :: d) (0x0A :: d) = some 0 := by
    have := findSub_self (0x0A :: d) []; simpa using this
  cases crlf with
  | false =>
    have e : body ++ eol false ++ d = body ++ 0x0A :: d := by simp [eol]
    have h1 : findSub (0x0A :: d ++ [0x0D, 0x0A]) (body ++ eol false ++ d) = none := by
      rw [e, findSub_skip_body d [0x0D, 0x0A] body _ 0x0A true hne hlf hbody, findSub_longer d _ _ hlf]; rfl
    have h2 : findSub (0x0A :: d ++ [0x0A]) (body ++ eol false ++ d) = none := by
      rw [e, findSub_skip_body d [0x0A] body _ 0x0A true hne hlf hbody, findSub_longer d _ _ hlf]; rfl
    have h3 : findSub (0x0A :: d) (body ++ eol false ++ d) = some body.length := by
      have := findSub_skip_body d [] body d 0x0A true hne hlf hbody
      simp only [List.append_nil] at this
      rw [e, this, hself]; simp
    unfold findClose
    rw [h1]; dsimp only; rw [h2]; dsimp only; rw [h3]; simp [eol]
  | true =>
    have e : body ++ eol true ++ d = body ++ 0x0D :: (0x0A :: d) := by simp [eol]
    have hcons : ∀ suf : Bytes, findSub (0x0A :: d ++ suf) (0x0D :: (0x0A :: d))
        = (findSub (0x0A :: d ++ suf) (0x0A :: d)).map (· + 1) := by
      intro suf
      have e2 : (0x0A :: d ++ suf : Bytes) = 0x0A :: (d ++ suf) := by simp
      rw [e2, findSub_cons_ne _ _ 0x0A 0x0D (by decide)]
    have h1 : findSub (0x0A :: d ++ [0x0D, 0x0A]) (body ++ eol true ++ d) = none := by
      rw [e, findSub_skip_body d [0x0D, 0x0A] body _ 0x0D true hne hcr hbody, hcons, findSub_longer d _ _ hlf]; rfl
    have h2 : findSub (0x0A :: d ++ [0x0A]) (body ++ eol true ++ d) = none := by
      rw [e, findSub_skip_body d [0x0A] body _ 0x0D true hne hcr hbody, hcons, findSub_longer d _ _ hlf]; rfl
    have h3 : findSub (0x0A :: d) (body ++ eol true ++ d) = some (body.length + 1) := by
      have := findSub_skip_body d [] body (0x0A :: d) 0x0D true hne hcr hbody
      have hc := hcons []
      simp only [List.append_nil] at this hc
      rw [e, this, hc, hself]; simp [Nat.add_comm]
    unfold findClose
    rw [h1]; dsimp only; rw [h2]; dsimp only; rw [h3]; simp [eol]

theorem split_of_parts_eof (s0 d eb A : Bytes) (hE : IsEol eb)
    (hs : stripBom s0 = d ++ eb ++ A ++ 0x0A :: d)
    (hf : findClose d (A ++ 0x0A :: d) = some A.length) :
    splitOffFrontMatter s0 d = some (stripBom s0, []) := by
  unfold splitOffFrontMatter
  simp only [hs]
  have hpre : isPrefixB d (d ++ eb ++ A ++ 0x0A :: d) = true := by
    have := isPrefixB_self_append d (eb ++ A ++ 0x0A :: d); simpa using this
  have hd0 : (d ++ eb ++ A ++ 0x0A :: d).drop d.length = eb ++ (A ++ 0x0A :: d) := by
    have : d ++ eb ++ A ++ 0x0A :: d = d ++ (eb ++ (A ++ 0x0A :: d)) := by simp
    rw [this, drop_len]
  have hd1 : (d ++ eb ++ A ++ 0x0A :: d).drop (d.length + eb.length) = A ++ 0x0A :: d := by
    have : d ++ eb ++ A ++ 0x0A :: d = (d ++ eb) ++ (A ++ 0x0A :: d) := by simp
    rw [this, ← List.length_append, drop_len]
  have hX : d.length + eb.length + (A.length + 1 + d.length) = (d ++ eb ++ A ++ 0x0A :: d).length := by
    simp only [List.length_append, List.length_cons]; omega
  rw [hpre]; simp only [if_true]
  rw [hd0, eolLen_of_eol eb _ hE]; dsimp only
  rw [hd1, hf]; dsimp only
  rw [hX]; simp


end Comrak.FrontMatter
